package main

import (
	"fmt"
	"go/ast"
	"go/constant"
	"go/token"
	"go/types"
	"regexp"
	"sort"
	"strings"

	"golang.org/x/tools/go/packages"
	"golang.org/x/tools/go/ssa"
)

func init() {
	register(
		&Rule{ID: "R11.1", Props: []string{"C11"}, Floor: 40, Title: "REST handlers answer exactly once on every path and perform no cluster operation after an error response; parse helpers return the zero value iff they answered with an error", Run: r111},
		&Rule{ID: "R11.2", Props: []string{"C11"}, Floor: 4, Title: "the request object handed to the cluster is exactly what option parsing produced (no later overwrite), for the CID and the path form", Run: r112},
		&Rule{ID: "R11.3", Props: []string{"C11"}, Floor: 4, Title: "the server's handler chain passes through basic auth before CORS and the router, for both listeners; nothing else serves the router", Run: r113},
		&Rule{ID: "R11.4", Props: []string{"C11"}, Floor: 4, Title: "the basic-auth gate serves only with credentials that match a configured pair and stops after a 401", Run: r114},
		&Rule{ID: "R11.5", Props: []string{"C11"}, Floor: 30, Title: "every client-library request matches exactly the server route of the same name (first match in registration order), with query keys the handler reads", Run: r115},
		&Rule{ID: "R11.6", Props: []string{"C11"}, Floor: 10, Title: "routes registered under GET reach no mutating RPC", Run: r116},
	)
}

func r111(c *Ctx, r *R) {
	h := newHTTPAnalysis(c, "api/rest")
	if h == nil {
		r.Und("pkg", token.NoPos, "api/rest missing")
		return
	}
	for _, fn := range handlerFuncs(h, "rest.API") {
		sig := fn.Type().(*types.Signature)
		label := "rest." + fn.Name()
		if fn.Name() == "sendResponse" {
			// the primitive itself: one head on every path
			ex, viol, _, _ := h.analyse(fn, h.decls[fn].Body, nil, false)
			ok := len(viol) == 0
			for _, s := range statesOf(ex) {
				if hR(s) != 1 {
					ok = false
				}
			}
			r.Check(ok, label+":one-head", h.decls[fn].Pos(), "sendResponse writes exactly one response head on every path", "sendResponse does not write exactly one response head on every path: "+describeHTTP(ex))
			continue
		}
		if sig.Results().Len() == 0 {
			checkHTTPFunc(r, h, fn, label, true)
			continue
		}
		// parse-or-respond helper
		sum := h.summarise(fn)
		for _, v := range h.viol[fn] {
			r.Bad(label+":"+v.kind, v.pos, "%s: %s", fn.Name(), v.msg)
		}
		ok := true
		for _, s := range statesOf(sum) {
			zero := s&hZ != 0
			if zero && !(hR(s) == 1 && s&hE != 0) {
				ok = false
			}
			if !zero && hR(s) != 0 {
				ok = false
			}
		}
		if ok {
			r.OK(label+":contract", h.decls[fn].Pos(), "%s returns the zero value exactly when it has sent an error response", fn.Name())
		} else {
			r.Bad(label+":contract", h.decls[fn].Pos(), "%s breaks its contract (zero result <=> error response sent): it can answer with an error and still return a usable object, so the caller performs the operation and writes a second document; exit states: %s", fn.Name(), describeHTTP(sum))
		}
	}
	// the add helper (shared with the proxy)
	ha := newHTTPAnalysis(c, "adder/adderutils")
	if ha != nil {
		for fn := range ha.decls {
			if fn.Name() != "AddMultipartHTTPHandler" {
				continue
			}
			ex, viol, _, _ := ha.analyse(fn, ha.decls[fn].Body, nil, false)
			ok := len(viol) == 0
			for _, s := range statesOf(ex) {
				if hR(s) != 1 {
					ok = false
				}
			}
			r.Check(ok, "adderutils.AddMultipartHTTPHandler:one-head", ha.decls[fn].Pos(), "the add helper writes exactly one response head on every path", "AddMultipartHTTPHandler does not write exactly one response head on every path: "+describeHTTP(ex))
		}
	}
}

func r112(c *Ctx, r *R) {
	f := c.fn(r, "api/rest", "API.parseCidOrError")
	if f != nil {
		for _, lf := range returnLeaves(f, 0) {
			if isNilConst(lf.Val) {
				continue
			}
			call, _ := originCall(lf.Val)
			if call == nil || !nameMatches(callName(call.Common()), "/api.PinWithOpts") {
				r.Bad("cid:built-by", lf.Pos, "the returned pin is not PinWithOpts(cid, parsed options)")
				continue
			}
			// options value: what FromQuery(r.URL.Query()) filled, here or
			// in a shared parse helper, and not written afterwards
			optsOK := optsFromQuery(call.Common().Args[1], call, 0)
			r.Check(optsOK, "cid:options-from-query", call.Pos(), "the pin's options are what FromQuery(r.URL.Query()) produced", "the pin's options do not come from FromQuery(r.URL.Query())")
			cd, _ := originCall(call.Common().Args[0])
			r.Check(cd != nil && nameMatches(callName(cd.Common()), "go-cid.Decode"), "cid:decoded", call.Pos(), "the pin's CID is the decoded path variable", "the pin's CID is not the decoded path variable")
			// no store into the pin after construction
			var stores []string
			instrs(f, func(i ssa.Instruction) {
				st, ok := i.(*ssa.Store)
				if !ok {
					return
				}
				fa, ok := st.Addr.(*ssa.FieldAddr)
				if !ok {
					return
				}
				if rootOfFieldAddr(fa) == ssa.Value(call) {
					stores = append(stores, fieldOfAddr(fa).Name())
				}
			})
			r.Check(len(stores) == 0, "cid:no-overwrite", call.Pos(), "nothing is overwritten on the parsed pin", fmt.Sprintf("the REST layer overwrites %v on the pin after parsing the request: the option the client sent (e.g. mode=direct) is discarded", stores))
		}
	}
	g := c.fn(r, "api/rest", "API.parsePinPathOrError")
	if g != nil {
		for _, lf := range returnLeaves(g, 0) {
			if isNilConst(lf.Val) {
				continue
			}
			al, ok := lf.Val.(*ssa.Alloc)
			if !ok {
				r.Bad("path:built-by", lf.Pos, "the returned PinPath is not a fresh object")
				continue
			}
			// what the REST layer writes on the object: the path, and the
			// options either filled in place by FromQuery or stored whole
			// from a value FromQuery filled
			var extra []string
			fq := false
			var fqAt ssa.Instruction
			instrs(g, func(i ssa.Instruction) {
				switch x := i.(type) {
				case *ssa.Store:
					fa, ok := x.Addr.(*ssa.FieldAddr)
					if !ok || rootOfFieldAddr(fa) != ssa.Value(al) {
						return
					}
					name := fieldOfAddr(fa).Name()
					switch {
					case fa.X == ssa.Value(al) && name == "Path":
					case fa.X == ssa.Value(al) && name == "PinOptions" && optsFromQuery(x.Val, x, 0):
						fq = true
					default:
						extra = append(extra, name)
					}
				case ssa.CallInstruction:
					if nameMatches(callName(x.Common()), "api.PinOptions).FromQuery") {
						if fa, ok := x.Common().Args[0].(*ssa.FieldAddr); ok && fa.X == ssa.Value(al) && fromURLQuery(x) {
							fq = true
							fqAt = x
						}
					}
				}
			})
			_ = fqAt
			r.Check(fq, "path:options-from-query", al.Pos(), "the PinPath's options are filled by FromQuery", "the PinPath's options are not filled by FromQuery on the returned object")
			r.Check(len(extra) == 0, "path:no-overwrite", al.Pos(), "only the path itself is set by the REST layer", fmt.Sprintf("the REST layer writes %v on the PinPath besides the parsed options", extra))
		}
	}
}

func rootOfFieldAddr(fa *ssa.FieldAddr) ssa.Value {
	root := fa.X
	for {
		if in, ok := root.(*ssa.FieldAddr); ok {
			root = in.X
			continue
		}
		return root
	}
}

// fromURLQuery: the FromQuery call parses r.URL.Query().
func fromURLQuery(fq ssa.CallInstruction) bool {
	a := fq.Common().Args
	if len(a) < 2 {
		return false
	}
	q, _ := originCall(a[1])
	return q != nil && nameMatches(callName(q.Common()), "(*net/url.URL).Query")
}

// optsFromQuery: v (used at instruction `use`) is a PinOptions value that
// FromQuery(r.URL.Query()) filled and nothing wrote afterwards: a load of a
// local on which FromQuery was called, or the result of a parse helper all
// of whose value-carrying returns are such loads (returns whose trailing
// bool is false, or whose error is non-nil, carry no value).
func optsFromQuery(v ssa.Value, use ssa.Instruction, depth int) bool {
	v = stripLocal(v)
	if u, ok := v.(*ssa.UnOp); ok && u.Op == token.MUL {
		al, ok := u.X.(*ssa.Alloc)
		if !ok || al.Referrers() == nil {
			return false
		}
		var fq ssa.CallInstruction
		for _, ref := range *al.Referrers() {
			if ci, ok := ref.(ssa.CallInstruction); ok && nameMatches(callName(ci.Common()), "api.PinOptions).FromQuery") && ci.Common().Args[0] == ssa.Value(al) && fromURLQuery(ci) {
				fq = ci
			}
		}
		if fq == nil || !dominatesInstr(fq, u) {
			return false
		}
		// nothing writes the local after it was parsed
		for _, ref := range *al.Referrers() {
			switch x := ref.(type) {
			case *ssa.Store:
				if x.Addr == ssa.Value(al) && !dominatesInstr(x, fq) {
					return false
				}
			case *ssa.FieldAddr:
				if x.Referrers() != nil {
					for _, r2 := range *x.Referrers() {
						if _, isLoad := r2.(*ssa.UnOp); !isLoad {
							return false // a field is written or escapes
						}
					}
				}
			}
		}
		return true
	}
	call, idx := originCallLocal(v)
	if call == nil || depth > 2 {
		return false
	}
	h := call.Common().StaticCallee()
	if h == nil || !isRepoFn(h) || len(h.Blocks) == 0 {
		return false
	}
	n := 0
	for _, b := range h.Blocks {
		ret, ok := b.Instrs[len(b.Instrs)-1].(*ssa.Return)
		if !ok || idx >= len(ret.Results) || b == h.Recover {
			continue
		}
		last := retResult(ret, len(ret.Results)-1)
		if len(ret.Results) > 1 {
			if k, isK := constOf(last); isK && k != nil && k.Kind() == constant.Bool && !constant.BoolVal(k) {
				continue // "no value"
			}
			if types.Identical(last.Type(), types.Universe.Lookup("error").Type()) && !isNilConst(last) {
				continue
			}
		}
		for _, leaf := range phiLeaves(retResult(ret, idx)) {
			n++
			if !optsFromQuery(leaf, ret, depth+1) {
				return false
			}
		}
	}
	return n > 0
}

func r113(c *Ctx, r *R) {
	f := c.fn(r, "api/rest", "NewAPIWithHost")
	if f == nil {
		return
	}
	var srvHandler ssa.Value
	var srvAlloc ssa.Value
	instrs(f, func(i ssa.Instruction) {
		st, ok := i.(*ssa.Store)
		if !ok {
			return
		}
		fa, ok := st.Addr.(*ssa.FieldAddr)
		if !ok || fieldOfAddr(fa).Name() != "Handler" {
			return
		}
		if strings.HasSuffix(fa.X.Type().String(), "net/http.Server") {
			srvHandler = st.Val
			srvAlloc = fa.X
		}
	})
	if srvHandler == nil {
		r.Und("server-handler", f.Pos(), "http.Server.Handler assignment not found")
		return
	}
	// unwrap
	var auth *ssa.Call
	okChain := true
	var why string
	seen := map[ssa.Value]bool{}
	var unwrap func(v ssa.Value)
	unwrap = func(v ssa.Value) {
		if seen[v] {
			return
		}
		seen[v] = true
		switch x := v.(type) {
		case *ssa.Phi:
			for _, e := range x.Edges {
				unwrap(e)
			}
		case *ssa.MakeInterface:
			unwrap(x.X)
		case *ssa.ChangeInterface:
			unwrap(x.X)
		case *ssa.Call:
			cn := callName(x.Common())
			switch {
			case nameMatches(cn, "gorilla/handlers.LoggingHandler", "gorilla/handlers.CombinedLoggingHandler"):
				unwrap(x.Common().Args[1])
			case nameMatches(cn, "api/rest.basicAuthHandler"):
				if auth != nil && auth != x {
					okChain, why = false, "several basicAuthHandler calls"
				}
				auth = x
			default:
				okChain, why = false, "handler chain contains "+cn+" outside basic auth"
			}
		case *ssa.Alloc:
			// &ochttp.Handler{Handler: inner, ...}
			found := false
			if x.Referrers() != nil {
				for _, ref := range *x.Referrers() {
					if fa, ok := ref.(*ssa.FieldAddr); ok && fieldOfAddr(fa).Name() == "Handler" && fa.Referrers() != nil {
						for _, r2 := range *fa.Referrers() {
							if st, ok := r2.(*ssa.Store); ok {
								found = true
								unwrap(st.Val)
							}
						}
					}
				}
			}
			if !found {
				okChain, why = false, "wrapper object without inner handler"
			}
		default:
			okChain, why = false, fmt.Sprintf("unexpected handler value %s", v)
		}
	}
	unwrap(srvHandler)
	if auth == nil {
		okChain = false
		if why == "" {
			why = "basicAuthHandler is not part of the chain"
		}
	}
	r.Check(okChain, "chain:auth-outermost", srvHandler.Pos(), "every request passes basicAuthHandler (inside logging/tracing only)", "the server's handler does not pass through basicAuthHandler before reaching CORS/router: "+why)
	if auth != nil {
		a := auth.Common().Args
		cred, _ := fieldLoad(a[0])
		r.Check(cred != nil && cred.Name() == "BasicAuthCredentials", "chain:credentials", auth.Pos(), "the gate is built from the configured credentials", "basicAuthHandler is not given config.BasicAuthCredentials")
		inner, _ := originCall(a[1])
		okInner := false
		if inner != nil && nameMatches(callName(inner.Common()), "rs/cors.Cors).Handler") {
			if strings.HasSuffix(inner.Common().Args[1].Type().String(), "gorilla/mux.Router") || strings.Contains(inner.Common().Args[1].String(), "Router") {
				okInner = true
			}
			if mi, ok := inner.Common().Args[1].(*ssa.MakeInterface); ok && strings.HasSuffix(mi.X.Type().String(), "gorilla/mux.Router") {
				okInner = true
			}
		}
		r.Check(okInner, "chain:cors-inside-auth", auth.Pos(), "CORS and the router sit inside the auth gate", "what basicAuthHandler wraps is not cors(router)")
	}
	// the server used by both listeners is this one
	stored := false
	instrs(f, func(i ssa.Instruction) {
		if st, ok := i.(*ssa.Store); ok {
			if fa, ok := st.Addr.(*ssa.FieldAddr); ok && fieldOfAddr(fa).Name() == "server" && st.Val == srvAlloc {
				stored = true
			}
		}
	})
	r.Check(stored, "server:stored", f.Pos(), "the API keeps the server built with that handler", "api.server is not the server whose handler was built here")
	sp := c.P.SSAPkg("api/rest")
	nServe := 0
	okServe := true
	c.P.RepoFuncs(func(g *ssa.Function) {
		root := g
		for root.Parent() != nil {
			root = root.Parent()
		}
		if root.Pkg != sp {
			return
		}
		for _, ci := range callsIn(g) {
			cn := callName(ci.Common())
			switch {
			case nameMatches(cn, "(*net/http.Server).Serve", "(*net/http.Server).ServeTLS"):
				nServe++
				if fl, _ := fieldLoad(ci.Common().Args[0]); fl == nil || fl.Name() != "server" {
					okServe = false
				}
			case nameMatches(cn, "net/http.Serve", "net/http.ListenAndServe", "net/http.ListenAndServeTLS", "net/http.ServeTLS", "(*net/http.Server).ListenAndServe", "(*net/http.Server).ListenAndServeTLS"):
				okServe = false
			}
		}
	})
	r.Check(nServe >= 2 && okServe, "listeners:same-server", f.Pos(), fmt.Sprintf("%d listeners are served, all by api.server", nServe), "a listener is served by something other than api.server (the auth gate would be bypassed)")
}

func r114(c *Ctx, r *R) {
	f := c.fn(r, "api/rest", "basicAuthHandler")
	if f == nil {
		return
	}
	// unwrapped h only when credentials == nil
	for _, lf := range returnLeaves(f, 0) {
		if paramIndex(f, lf.Val) == 1 {
			ok := lf.GuardedBy(func(g Guard) bool {
				return gNil(g, false, func(v ssa.Value) bool { return paramIndex(f, v) == 0 })
			})
			r.Check(ok, "gate:bypass-only-unconfigured", lf.Pos, "the handler is returned unwrapped only when no credentials are configured", "basicAuthHandler returns the unprotected handler although credentials are configured")
		}
	}
	if len(f.AnonFuncs) != 1 {
		r.Und("gate:closure", f.Pos(), "basicAuthHandler does not build a single closure")
		return
	}
	g := f.AnonFuncs[0]
	var serve ssa.CallInstruction
	for _, ci := range callsIn(g) {
		if ci.Common().IsInvoke() && ci.Common().Method.Name() == "ServeHTTP" {
			serve = ci
		}
	}
	if serve == nil {
		r.Bad("gate:serve", g.Pos(), "the auth closure never serves the wrapped handler")
		return
	}
	var ba *ssa.Call
	for _, ci := range findCalls(g, false, "(*net/http.Request).BasicAuth") {
		ba, _ = ci.(*ssa.Call)
	}
	if ba == nil {
		r.Bad("gate:basicauth", g.Pos(), "the auth closure does not read the request's credentials")
		return
	}
	okHdr := guardedBy(serve.Block(), func(gd Guard) bool {
		ex, ok := gd.Cond.(*ssa.Extract)
		return ok && ex.Tuple == ssa.Value(ba) && ex.Index == 2 && gd.Branch
	})
	// authorized flag
	var authPhi ssa.Value
	okAuth := guardedBy(serve.Block(), func(gd Guard) bool {
		if !gd.Branch {
			return false
		}
		if _, ok := gd.Cond.(*ssa.Phi); ok {
			authPhi = gd.Cond
			return true
		}
		return false
	})
	hdrOnEveryTrue := true // every `true` of the flag is set under BasicAuth's ok
	if authPhi != nil {
		// every `true` flowing into the flag is set under u == username && p == password
		okSet := true
		nTrue := 0
		seen := map[ssa.Value]bool{}
		var walk func(v ssa.Value, from *ssa.BasicBlock)
		walk = func(v ssa.Value, from *ssa.BasicBlock) {
			switch x := v.(type) {
			case *ssa.Phi:
				if seen[x] {
					return
				}
				seen[x] = true
				for i, e := range x.Edges {
					walk(e, x.Block().Preds[i])
				}
			case *ssa.Const:
				if x.Value != nil && constant.BoolVal(x.Value) {
					nTrue++
					userOK, passOK := false, false
					for _, gd := range guardsOf(from) {
						b, ok := gd.Cond.(*ssa.BinOp)
						if !ok || b.Op != token.EQL || !gd.Branch {
							continue
						}
						for _, pr := range [][2]ssa.Value{{b.X, b.Y}, {b.Y, b.X}} {
							ex, ok := pr[1].(*ssa.Extract)
							if !ok || ex.Tuple != ssa.Value(ba) {
								continue
							}
							rk, ok := pr[0].(*ssa.Extract)
							if !ok {
								continue
							}
							if _, isNext := rk.Tuple.(*ssa.Next); !isNext {
								continue
							}
							if ex.Index == 0 && rk.Index == 1 {
								userOK = true
							}
							if ex.Index == 1 && rk.Index == 2 {
								passOK = true
							}
						}
					}
					if !userOK || !passOK {
						okSet = false
					}
					hdr := false
					for _, gd := range guardsOf(from) {
						if ex, ok := gd.Cond.(*ssa.Extract); ok && ex.Tuple == ssa.Value(ba) && ex.Index == 2 && gd.Branch {
							hdr = true
						}
					}
					if !hdr {
						hdrOnEveryTrue = false
					}
				}
			default:
				okSet = false
			}
		}
		walk(authPhi, nil)
		if nTrue == 0 {
			hdrOnEveryTrue = false
		}
		// credentials present: tested right above the handler, or implied
		// by the flag (it only becomes true where BasicAuth reported ok)
		okHdr = okHdr || hdrOnEveryTrue
		r.Check(okSet && nTrue >= 1, "gate:authorized-means-match", authPhi.Pos(), "authorized becomes true only for a configured user with its own password", "the authorized flag can be set without both user and password matching a configured pair")
	}
	r.Check(okHdr && okAuth, "gate:serve-guarded", serve.Pos(), "the wrapped handler runs only with a parsed Authorization header and the authorized flag set", fmt.Sprintf("h.ServeHTTP is reachable without (credentials present: %v, authorized: %v)", okHdr, okAuth))
	// typestate of the closure: nothing after a 401
	h := newHTTPAnalysis(c, "api/rest")
	var lit *ast.FuncLit
	fd, _ := c.decl(r, "api/rest", "basicAuthHandler")
	if fd != nil {
		ast.Inspect(fd.Body, func(n ast.Node) bool {
			if fl, ok := n.(*ast.FuncLit); ok && lit == nil {
				lit = fl
			}
			return true
		})
	}
	if lit != nil {
		ex, viol, _, _ := h.analyse(nil, lit.Body, nil, false)
		for _, v := range viol {
			r.Bad("gate:"+v.kind, v.pos, "auth closure: %s (a refused request is still served)", v.msg)
		}
		if len(viol) == 0 {
			r.OK("gate:stops-after-401", lit.Pos(), "nothing is served after a 401 (%s)", describeHTTP(ex))
		}
	}
}

// restRoute is one entry of the server's route table.
type restRoute struct {
	name, method, pattern string
	handler               *types.Func
	pos                   token.Pos
	re                    *regexp.Regexp
}

func (c *Ctx) restRoutes(r *R) ([]restRoute, *packages.Package) {
	fd, pkg := c.decl(r, "api/rest", "API.routes")
	if fd == nil {
		return nil, nil
	}
	var out []restRoute
	// the table, however its rows are written (positional or keyed): the
	// string fields are name, method and pattern in declaration order, the
	// function-typed field is the handler
	var rets []*ast.ReturnStmt
	ast.Inspect(fd.Body, func(n ast.Node) bool {
		if rs, ok := n.(*ast.ReturnStmt); ok {
			rets = append(rets, rs)
		}
		return true
	})
	if len(rets) == 1 && len(rets[0].Results) == 1 {
		if rows, st := astTable(pkg, rets[0].Results[0], 0); len(rows) > 0 && st != nil {
			var strs []string
			hf := ""
			for i := 0; i < st.NumFields(); i++ {
				switch u := st.Field(i).Type().Underlying().(type) {
				case *types.Basic:
					if u.Kind() == types.String {
						strs = append(strs, st.Field(i).Name())
					}
				case *types.Signature:
					hf = st.Field(i).Name()
				}
			}
			if len(strs) == 3 && hf != "" {
				for _, row := range rows {
					if row[strs[0]] == nil || row[strs[1]] == nil || row[strs[2]] == nil || row[hf] == nil {
						continue
					}
					name, ok1 := constStr(pkg, row[strs[0]])
					meth, ok2 := constStr(pkg, row[strs[1]])
					pat, ok3 := constStr(pkg, row[strs[2]])
					if !ok1 || !ok2 || !ok3 {
						continue
					}
					var fn *types.Func
					if se, ok := ast.Unparen(row[hf]).(*ast.SelectorExpr); ok {
						fn, _ = pkg.TypesInfo.Uses[se.Sel].(*types.Func)
					}
					out = append(out, restRoute{name: name, method: meth, pattern: pat, handler: fn, pos: row[strs[0]].Pos(), re: muxPatternRegexp(pat)})
				}
				return out, pkg
			}
		}
	}
	ast.Inspect(fd.Body, func(n ast.Node) bool {
		cl, ok := n.(*ast.CompositeLit)
		if !ok || len(cl.Elts) != 4 {
			return true
		}
		name, ok1 := constStr(pkg, cl.Elts[0])
		meth, ok2 := constStr(pkg, cl.Elts[1])
		pat, ok3 := constStr(pkg, cl.Elts[2])
		if !ok1 || !ok2 || !ok3 {
			return true
		}
		var fn *types.Func
		if se, ok := cl.Elts[3].(*ast.SelectorExpr); ok {
			fn, _ = pkg.TypesInfo.Uses[se.Sel].(*types.Func)
		}
		out = append(out, restRoute{name: name, method: meth, pattern: pat, handler: fn, pos: cl.Pos(), re: muxPatternRegexp(pat)})
		return false
	})
	return out, pkg
}

var muxVar = regexp.MustCompile(`\{[a-zA-Z0-9_]+(?::((?:[^{}]|\{[^{}]*\})*))?\}`)

// muxPatternRegexp translates a gorilla/mux path template (StrictSlash).
func muxPatternRegexp(p string) *regexp.Regexp {
	var sb strings.Builder
	sb.WriteString("^")
	last := 0
	for _, m := range muxVar.FindAllStringSubmatchIndex(p, -1) {
		sb.WriteString(regexp.QuoteMeta(p[last:m[0]]))
		if m[2] >= 0 {
			sb.WriteString("(?:" + p[m[2]:m[3]] + ")")
		} else {
			sb.WriteString("[^/]+")
		}
		last = m[1]
	}
	sb.WriteString(regexp.QuoteMeta(p[last:]))
	sb.WriteString("/?$")
	re, err := regexp.Compile(sb.String())
	if err != nil {
		return nil
	}
	return re
}

var clientRouteAlias = map[string]string{"PeerRm": "PeerRemove", "GetConnectGraph": "ConnectionGraph", "AddMultiFile": "Add"}

func r115(c *Ctx, r *R) {
	routes, spkg := c.restRoutes(r)
	if len(routes) == 0 {
		r.Und("routes", token.NoPos, "server route table not recognised")
		return
	}
	_ = spkg
	uniq := map[string]bool{}
	for _, rt := range routes {
		k := rt.method + " " + rt.pattern
		if uniq[k] {
			r.Bad("route-dup:"+k, rt.pos, "route %s is registered twice: the second is unreachable", k)
		}
		uniq[k] = true
		if rt.re == nil {
			r.Und("route-pattern:"+rt.name, rt.pos, "pattern %s not understood", rt.pattern)
		}
		if rt.handler == nil {
			r.Und("route-handler:"+rt.name, rt.pos, "handler of %s is not a method value", rt.name)
		}
	}
	cpkg := c.P.Pkg("api/rest/client")
	if cpkg == nil {
		r.Und("client", token.NoPos, "client package missing")
		return
	}
	used := map[string]bool{}
	for _, file := range cpkg.Syntax {
		for _, d := range file.Decls {
			fd, ok := d.(*ast.FuncDecl)
			if !ok || fd.Body == nil || fd.Recv == nil || recvTypeName(fd.Recv.List[0].Type) != "defaultClient" {
				continue
			}
			ast.Inspect(fd.Body, func(n ast.Node) bool {
				call, ok := n.(*ast.CallExpr)
				if !ok {
					return true
				}
				fn := funcFullName(cpkg, call)
				if !strings.HasSuffix(fn, "client.defaultClient).do") && !strings.HasSuffix(fn, "client.defaultClient).doStream") {
					return true
				}
				verb, okV := constStr(cpkg, call.Args[1])
				tmpl, qkeys, qdyn, okP := clientPath(cpkg, call.Args[2])
				key := "client:" + fd.Name.Name
				if !okV || !okP {
					r.Und(key, call.Pos(), "%s: request verb/path is not a constant or a Sprintf of a constant format", fd.Name.Name)
					return true
				}
				var hit *restRoute
				for i := range routes {
					if routes[i].method == verb && routes[i].re != nil && routes[i].re.MatchString(tmpl) {
						hit = &routes[i]
						break
					}
				}
				wantName := fd.Name.Name
				if a, ok := clientRouteAlias[wantName]; ok {
					wantName = a
				}
				if hit == nil {
					r.Bad(key, call.Pos(), "client.%s sends %s %s, which matches no server route", fd.Name.Name, verb, tmpl)
					return true
				}
				used[hit.name] = true
				if hit.name != wantName {
					r.Bad(key, call.Pos(), "client.%s sends %s %s, which the server routes to %q (first match in registration order), not to %q", fd.Name.Name, verb, tmpl, hit.name, wantName)
					return true
				}
				r.OK(key, call.Pos(), "client.%s: %s %s -> route %s", fd.Name.Name, verb, tmpl, hit.name)
				// query keys
				hf := c.P.SSA.FuncValue(hit.handler)
				if hf == nil {
					return true
				}
				reads, callsFromQuery, callsAddParams := handlerQueryReads(c, hf)
				for _, k := range qkeys {
					r.Check(reads[k], key+":query:"+k, call.Pos(), "the handler reads query key "+k, fmt.Sprintf("client.%s sends query key %q but handler %s never reads it", fd.Name.Name, k, hit.handler.Name()))
				}
				// body types: what the handler sends is what the client
				// decodes into (JSON hides a mismatch until a field is
				// silently dropped or a decode fails)
				if strings.HasSuffix(fn, ").do") && len(call.Args) >= 6 {
					if ct := cpkg.TypesInfo.TypeOf(call.Args[5]); ct != nil {
						if pt, ok := ct.(*types.Pointer); ok {
							want := pt.Elem()
							var sent []types.Type
							withAnon(hf, func(g *ssa.Function) {
								for _, sc := range findCalls(g, false, "rest.API).sendResponse") {
									a := callArgs(sc.Common())
									if mi, ok := a[3].(*ssa.MakeInterface); ok {
										sent = append(sent, mi.X.Type())
									}
								}
							})
							if len(sent) > 0 {
								match := true
								var names []string
								for _, st := range sent {
									names = append(names, types.TypeString(st, shortQual))
									if !sameJSONShape(st, want) {
										match = false // every answer of the handler, not just one branch
									}
								}
								r.Check(match, key+":body", call.Pos(), "the client decodes the response into the type the handler sends ("+types.TypeString(want, shortQual)+")", fmt.Sprintf("client.%s decodes the response into %s, handler %s sends %v", fd.Name.Name, types.TypeString(want, shortQual), hit.handler.Name(), names))
							}
						}
					}
				}
				switch qdyn {
				case "ToQuery":
					r.Check(callsFromQuery, key+":query:options", call.Pos(), "pin options written by ToQuery are parsed by FromQuery", "the client sends pin options (ToQuery) to a handler that does not parse them with FromQuery")
				case "ToQueryString":
					r.Check(callsAddParams, key+":query:addparams", call.Pos(), "add parameters written by ToQueryString are parsed by AddParamsFromQuery", "the client sends add parameters to a handler that does not parse them with AddParamsFromQuery")
				}
				return true
			})
		}
	}
	for _, rt := range routes {
		if !used[rt.name] {
			r.OK("route-unused:"+rt.name, rt.pos, "route %s has no client-library caller (not required)", rt.name)
		}
	}
}

// clientPath turns the path argument of c.do into a sample path and the
// query keys it carries.
func clientPath(pkg *packages.Package, e ast.Expr) (path string, keys []string, dyn string, ok bool) {
	e = ast.Unparen(e)
	// a local that holds the path: its single definition
	if id, isID := e.(*ast.Ident); isID {
		if _, isConst := constStr(pkg, e); !isConst {
			if def := singleDefinition(pkg, id); def != nil {
				return clientPath(pkg, def)
			}
		}
	}
	format := ""
	var args []ast.Expr
	switch x := e.(type) {
	case *ast.CallExpr:
		if funcFullName(pkg, x) != "fmt.Sprintf" || len(x.Args) == 0 {
			return "", nil, "", false
		}
		f, okf := constStr(pkg, x.Args[0])
		if !okf {
			return "", nil, "", false
		}
		format, args = f, x.Args[1:]
	case *ast.BinaryExpr:
		if x.Op != token.ADD {
			return "", nil, "", false
		}
		l, okl := constStr(pkg, x.X)
		if !okl {
			return "", nil, "", false
		}
		format, args = l+"%s", []ast.Expr{x.Y}
	default:
		s, oks := constStr(pkg, e)
		if !oks {
			return "", nil, "", false
		}
		format = s
	}
	pathPart, query := format, ""
	if i := strings.Index(format, "?"); i >= 0 {
		pathPart, query = format[:i], format[i+1:]
	}
	// substitute verbs in the path
	var sb strings.Builder
	argi := 0
	for i := 0; i < len(pathPart); i++ {
		if pathPart[i] == '%' && i+1 < len(pathPart) {
			i++
			if i > 1 && pathPart[i-2] != '/' {
				sb.WriteString("/ipfs/QmSample/sub/dir") // path-valued argument ("/pins%s")
			} else {
				sb.WriteString("QmSample")
			}
			argi++
			continue
		}
		sb.WriteByte(pathPart[i])
	}
	for _, kv := range strings.Split(query, "&") {
		if kv == "" {
			continue
		}
		if kv == "%s" {
			// whole query produced by a call
			if argi < len(args) {
				dyn = queryProducer(pkg, args[argi])
			}
			argi++
			continue
		}
		k := kv
		if i := strings.Index(kv, "="); i >= 0 {
			k = kv[:i]
		}
		keys = append(keys, k)
		if strings.Contains(kv, "%") {
			argi++
		}
	}
	return sb.String(), keys, dyn, true
}

// queryProducer names the function that produced a query-string variable.
func queryProducer(pkg *packages.Package, e ast.Expr) string {
	id, ok := ast.Unparen(e).(*ast.Ident)
	if !ok {
		return ""
	}
	obj := pkg.TypesInfo.ObjectOf(id)
	res := ""
	for _, f := range pkg.Syntax {
		ast.Inspect(f, func(n ast.Node) bool {
			as, ok := n.(*ast.AssignStmt)
			if !ok || len(as.Rhs) != 1 {
				return true
			}
			for _, l := range as.Lhs {
				if lid, ok := l.(*ast.Ident); ok && pkg.TypesInfo.ObjectOf(lid) == obj {
					if call, ok := as.Rhs[0].(*ast.CallExpr); ok {
						fn := funcFullName(pkg, call)
						switch {
						case strings.HasSuffix(fn, "api.PinOptions).ToQuery"):
							res = "ToQuery"
						case strings.HasSuffix(fn, "api.AddParams).ToQueryString"):
							res = "ToQueryString"
						}
					}
				}
			}
			return true
		})
	}
	return res
}

// handlerQueryReads collects the constant keys a handler (and the
// same-package functions it calls) reads from the query.
func handlerQueryReads(c *Ctx, f *ssa.Function) (reads map[string]bool, fromQuery, addParams bool) {
	reads = map[string]bool{}
	seen := map[*ssa.Function]bool{}
	var walk func(g *ssa.Function, d int)
	walk = func(g *ssa.Function, d int) {
		if seen[g] || d > 4 {
			return
		}
		seen[g] = true
		withAnon(g, func(a *ssa.Function) {
			for _, ci := range callsIn(a) {
				cn := callName(ci.Common())
				switch {
				case nameMatches(cn, "(net/url.Values).Get"):
					if k, ok := constString(ci.Common().Args[1]); ok {
						reads[k] = true
					}
				case nameMatches(cn, "api.PinOptions).FromQuery"):
					fromQuery = true
				case nameMatches(cn, "/api.AddParamsFromQuery"):
					addParams = true
				}
				if l := ci.Common().StaticCallee(); l != nil && l.Pkg == g.Pkg && l.Blocks != nil {
					walk(l, d+1)
				}
			}
			// map index on the query: q["key"]
			instrs(a, func(i ssa.Instruction) {
				if l, ok := i.(*ssa.Lookup); ok {
					if k, ok := constString(l.Index); ok && strings.HasSuffix(l.X.Type().String(), "net/url.Values") {
						reads[k] = true
					}
				}
			})
		})
	}
	walk(f, 0)
	return
}

func r116(c *Ctx, r *R) {
	routes, _ := c.restRoutes(r)
	n := 0
	for _, rt := range routes {
		if rt.handler == nil {
			continue
		}
		f := c.P.SSA.FuncValue(rt.handler)
		if f == nil {
			continue
		}
		ts := c.rpcTargetsFrom(f)
		mut := mutatingOf(ts)
		if rt.method == "GET" || rt.method == "HEAD" || rt.method == "OPTIONS" {
			n++
			r.Check(len(mut) == 0, "safe-verb:"+rt.name, rt.pos, fmt.Sprintf("%s %s reaches only read-only endpoints %v", rt.method, rt.pattern, keysOf(ts)), fmt.Sprintf("%s %s reaches mutating endpoints %v", rt.method, rt.pattern, mut))
		} else {
			// the route does what its name says
			want := map[string][]string{
				"Pin": {"Cluster.Pin"}, "Unpin": {"Cluster.Unpin"}, "PinPath": {"Cluster.PinPath"}, "UnpinPath": {"Cluster.UnpinPath"},
				"PeerAdd": {"Cluster.PeerAdd"}, "PeerRemove": {"Cluster.PeerRemove"}, "Add": {"(adder)"},
				"Recover": {"Cluster.Recover", "Cluster.RecoverLocal"}, "RecoverAll": {"Cluster.RecoverAll", "Cluster.RecoverAllLocal"},
				"RepoGC": {"Cluster.RepoGC", "Cluster.RepoGCLocal"},
			}[rt.name]
			if want == nil {
				r.Bad("route-op:"+rt.name, rt.pos, "mutating route %s %s is not in the reviewed table", rt.method, rt.pattern)
				continue
			}
			wantSet := map[string]bool{}
			for _, w := range want {
				wantSet[w] = true
			}
			ok := len(mut) > 0
			for _, m := range mut {
				if !wantSet[m] {
					ok = false
				}
			}
			for _, w := range want {
				if !ts[w] {
					ok = false
				}
			}
			r.Check(ok, "route-op:"+rt.name, rt.pos, fmt.Sprintf("%s %s performs exactly %v", rt.method, rt.pattern, mut), fmt.Sprintf("%s %s (%s) performs %v, expected exactly %v", rt.method, rt.pattern, rt.name, mut, want))
		}
	}
	if n == 0 {
		r.Und("routes", token.NoPos, "no GET routes found")
	}
	sort.Strings(nil)
}

// sameJSONShape: identical up to pointer indirections at any level
// ([]*T and []T, *T and T encode and decode alike in JSON).
func sameJSONShape(a, b types.Type) bool {
	for {
		if p, ok := a.(*types.Pointer); ok {
			a = p.Elem()
			continue
		}
		break
	}
	for {
		if p, ok := b.(*types.Pointer); ok {
			b = p.Elem()
			continue
		}
		break
	}
	switch x := a.(type) {
	case *types.Slice:
		y, ok := b.(*types.Slice)
		return ok && sameJSONShape(x.Elem(), y.Elem())
	case *types.Array:
		y, ok := b.(*types.Array)
		return ok && x.Len() == y.Len() && sameJSONShape(x.Elem(), y.Elem())
	case *types.Map:
		y, ok := b.(*types.Map)
		return ok && sameJSONShape(x.Key(), y.Key()) && sameJSONShape(x.Elem(), y.Elem())
	}
	return types.Identical(a, b)
}

// singleDefinition: the expression a local variable is defined with, when it
// is assigned exactly once (`x := expr` / `var x = expr`).
func singleDefinition(pkg *packages.Package, id *ast.Ident) ast.Expr {
	obj := pkg.TypesInfo.ObjectOf(id)
	if obj == nil {
		return nil
	}
	var def ast.Expr
	n := 0
	for _, f := range pkg.Syntax {
		if f.Pos() > obj.Pos() || obj.Pos() > f.End() {
			continue
		}
		ast.Inspect(f, func(nd ast.Node) bool {
			switch y := nd.(type) {
			case *ast.AssignStmt:
				if len(y.Lhs) == len(y.Rhs) {
					for i, l := range y.Lhs {
						if lid, ok := l.(*ast.Ident); ok && pkg.TypesInfo.ObjectOf(lid) == obj {
							def = y.Rhs[i]
							n++
						}
					}
				} else {
					for _, l := range y.Lhs {
						if lid, ok := l.(*ast.Ident); ok && pkg.TypesInfo.ObjectOf(lid) == obj {
							n += 2
						}
					}
				}
			case *ast.ValueSpec:
				for i, nid := range y.Names {
					if pkg.TypesInfo.ObjectOf(nid) == obj {
						if i < len(y.Values) {
							def = y.Values[i]
							n++
						}
					}
				}
			case *ast.UnaryExpr:
				if y.Op == token.AND {
					if lid, ok := ast.Unparen(y.X).(*ast.Ident); ok && pkg.TypesInfo.ObjectOf(lid) == obj {
						n += 2 // address taken: may be written elsewhere
					}
				}
			}
			return true
		})
	}
	if n == 1 {
		return def
	}
	return nil
}
