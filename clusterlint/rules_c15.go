package main

import (
	"fmt"
	"go/ast"
	"go/constant"
	"go/token"
	"go/types"
	"reflect"
	"sort"
	"strings"

	"golang.org/x/tools/go/packages"
	"golang.org/x/tools/go/ssa"
)

func init() {
	register(
		&Rule{ID: "R15.1", Props: []string{"C15", "C11", "C04"}, Floor: 100, Title: "every field of every component's JSON configuration struct is both saved (to-JSON side) and loaded (from-JSON side)", Run: r151},
		&Rule{ID: "R15.2", Props: []string{"C15"}, Floor: 28, Title: "every loader (LoadJSON, ApplyEnvVars) returns through Validate on every success path", Run: r152},
		&Rule{ID: "R15.3", Props: []string{"C15"}, Floor: 10, Title: "the configuration manager's section dispatcher covers every section type", Run: r153},
		&Rule{ID: "R15.4", Props: []string{"C15"}, Floor: 18, Title: "JSON fields derived from secrets are tagged hidden; every ToDisplayJSON goes through DisplayJSON; the manager's display form uses only ToDisplayJSON", Run: r154},
		&Rule{ID: "R15.5", Props: []string{"C15"}, Floor: 2, Title: "DisplayJSON replaces exactly the fields tagged hidden with a constant placeholder", Run: r155},
	)
}

type compCfg struct {
	pkg  *packages.Package
	rel  string
	name string // type name
	t    *types.Named
}

// componentConfigs discovers the implementations of config.ComponentConfig.
func (c *Ctx) componentConfigs(r *R) []compCfg {
	cp := c.P.Pkg("config")
	if cp == nil {
		r.Und("config-pkg", token.NoPos, "config package missing")
		return nil
	}
	obj := cp.Types.Scope().Lookup("ComponentConfig")
	if obj == nil {
		r.Und("ComponentConfig", token.NoPos, "ComponentConfig interface missing")
		return nil
	}
	iface := obj.Type().Underlying().(*types.Interface)
	var out []compCfg
	for _, pkg := range c.P.Repo {
		if strings.HasPrefix(pkg.PkgPath, ModPath+"/test") {
			continue
		}
		for _, n := range pkg.Types.Scope().Names() {
			tn, ok := pkg.Types.Scope().Lookup(n).(*types.TypeName)
			if !ok {
				continue
			}
			nt, ok := tn.Type().(*types.Named)
			if !ok {
				continue
			}
			if _, isS := nt.Underlying().(*types.Struct); !isS {
				continue
			}
			if types.Implements(types.NewPointer(nt), iface) {
				rel := strings.TrimPrefix(strings.TrimPrefix(pkg.PkgPath, ModPath), "/")
				out = append(out, compCfg{pkg, rel, n, nt})
			}
		}
	}
	sort.Slice(out, func(i, j int) bool { return out[i].rel+out[i].name < out[j].rel+out[j].name })
	return out
}

// jsonStructOf finds the struct type that LoadJSON unmarshals into.
func jsonStructOf(c *Ctx, cc compCfg) *types.Named {
	fd, pkg := c.P.FuncDecl(cc.rel, cc.name+".LoadJSON")
	if fd == nil {
		return nil
	}
	var res *types.Named
	ast.Inspect(fd.Body, func(n ast.Node) bool {
		call, ok := n.(*ast.CallExpr)
		if !ok || funcFullName(pkg, call) != "encoding/json.Unmarshal" || len(call.Args) != 2 {
			return true
		}
		t := pkg.TypesInfo.TypeOf(call.Args[1])
		if p, ok := t.(*types.Pointer); ok {
			t = p.Elem()
		}
		if nt, ok := t.(*types.Named); ok {
			if _, isS := nt.Underlying().(*types.Struct); isS {
				res = nt
			}
		}
		return true
	})
	return res
}

// mentions collects every struct field selected or keyed in the given
// functions.
func mentions(pkg *packages.Package, fds []*ast.FuncDecl) map[*types.Var]bool {
	out := map[*types.Var]bool{}
	for _, fd := range fds {
		rd, wr := fieldsUsed(pkg, fd)
		for v := range rd {
			out[v] = true
		}
		for v := range wr {
			out[v] = true
		}
	}
	return out
}

var c15Legacy = map[string]string{
	// cluster: identity moved to identity.json; kept in the struct only to
	// detect and migrate old files
	"configJSON.ID":         "legacy identity field, migrated to identity.json",
	"configJSON.PrivateKey": "legacy identity field, migrated to identity.json",
}

func r151(c *Ctx, r *R) {
	ccs := c.componentConfigs(r)
	if len(ccs) < 14 {
		r.Und("components", token.NoPos, "found %d ComponentConfig implementations (expected >= 14)", len(ccs))
	}
	for _, cc := range ccs {
		J := jsonStructOf(c, cc)
		label := cc.rel + "." + cc.name
		if cc.rel == "" {
			label = cc.name
		}
		if J == nil {
			r.Und("json-struct:"+label, cc.t.Obj().Pos(), "%s.LoadJSON does not json.Unmarshal into a named struct: JSON form not recognised", label)
			continue
		}
		saveRoot, _ := c.P.FuncDecl(cc.rel, cc.name+".ToJSON")
		loadRoot, _ := c.P.FuncDecl(cc.rel, cc.name+".LoadJSON")
		if saveRoot == nil || loadRoot == nil {
			r.Und("funcs:"+label, cc.t.Obj().Pos(), "ToJSON/LoadJSON not found for %s", label)
			continue
		}
		save := mentions(cc.pkg, funcsCalledFrom(c.P, cc.pkg, saveRoot))
		load := mentions(cc.pkg, funcsCalledFrom(c.P, cc.pkg, loadRoot))
		var walk func(st *types.Named, prefix string, depth int)
		walk = func(st *types.Named, prefix string, depth int) {
			s := st.Underlying().(*types.Struct)
			for i := 0; i < s.NumFields(); i++ {
				f := s.Field(i)
				tag := reflect.StructTag(s.Tag(i)).Get("json")
				if tag == "-" || !f.Exported() {
					continue
				}
				fq := prefix + "." + f.Name()
				key := cc.pkg.PkgPath[len(ModPath):] + "." + fq
				key = strings.TrimPrefix(key, "/")
				if why, ok := c15Legacy[fq]; ok && cc.rel == "" {
					r.OK(key, f.Pos(), "exempt: %s", why)
					continue
				}
				switch {
				case !save[f]:
					r.Bad(key, f.Pos(), "setting %s (json %q) is never written by %s.ToJSON: it is lost on save", fq, tag, label)
				case !load[f]:
					r.Bad(key, f.Pos(), "setting %s (json %q) is written by ToJSON but never read by %s.LoadJSON: a saved value silently reverts to the default on load", fq, tag, label)
				default:
					r.OK(key, f.Pos(), "saved and loaded")
				}
				// nested JSON struct of the same package
				ft := f.Type()
				if p, ok := ft.(*types.Pointer); ok {
					ft = p.Elem()
				}
				if nt, ok := ft.(*types.Named); ok && depth < 2 && nt.Obj().Pkg() == cc.pkg.Types {
					if _, isS := nt.Underlying().(*types.Struct); isS {
						walk(nt, fq, depth+1)
					}
				}
			}
		}
		walk(J, J.Obj().Name(), 0)
	}
}

func r152(c *Ctx, r *R) {
	ccs := c.componentConfigs(r)
	memo := map[*ssa.Function]int{} // 1 computing, 2 yes, 3 no
	why := map[*ssa.Function]string{}
	var V func(f *ssa.Function) bool
	V = func(f *ssa.Function) bool {
		switch memo[f] {
		case 1, 3:
			return false
		case 2:
			return true
		}
		memo[f] = 1
		ok := true
		idx := f.Signature.Results().Len() - 1
		if idx < 0 {
			memo[f] = 3
			return false
		}
		leaves := returnLeaves(f, idx)
		if len(leaves) == 0 {
			ok = false
		}
		for _, lf := range leaves {
			v := lf.Val
			if isNilConst(v) {
				ok = false
				why[f] = fmt.Sprintf("%s returns nil at %s without validating", f.Name(), "")
				continue
			}
			call, _ := originCall(v)
			if call == nil {
				ok = false
				why[f] = f.Name() + " returns an error value of unknown origin"
				continue
			}
			cn := callName(call.Common())
			if strings.HasSuffix(cn, ").Validate") {
				// Validate of the receiver
				continue
			}
			if nameMatches(cn, "errors.New", "fmt.Errorf", "github.com/pkg/errors.New", "github.com/pkg/errors.Errorf", "github.com/pkg/errors.Wrap") {
				continue
			}
			if cal := call.Common().StaticCallee(); cal != nil && isRepoFn(cal) && cal.Blocks != nil && V(cal) {
				continue
			}
			// error of another call: fine only on its failure branch
			if lf.GuardedBy(func(g Guard) bool {
				return gNil(g, true, func(x ssa.Value) bool { cc, _ := originCall(x); return cc == call })
			}) {
				continue
			}
			ok = false
			why[f] = fmt.Sprintf("%s returns the result of %s also when it is nil, without Validate", f.Name(), shortName(call))
		}
		if ok {
			memo[f] = 2
		} else {
			memo[f] = 3
		}
		return ok
	}
	for _, cc := range ccs {
		for _, m := range []string{"LoadJSON", "ApplyEnvVars"} {
			f := c.P.Func(cc.rel, cc.name+"."+m)
			label := cc.rel + "." + cc.name + "." + m
			if f == nil || f.Blocks == nil {
				r.Und("loader:"+label, cc.t.Obj().Pos(), "%s not found", label)
				continue
			}
			if V(f) {
				r.OK("loader:"+label, f.Pos(), "every success path returns Validate()'s verdict")
			} else {
				r.Bad("loader:"+label, f.Pos(), "%s can succeed without validating the configuration: %s (a value that Validate rejects is accepted at load time and crashes or misbehaves later)", label, why[f])
			}
		}
	}
	// the manager validates after loading all sections
	if f := c.fn(r, "config", "Manager.LoadJSON"); f != nil {
		r.Check(V(f) || returnsCall(f, ").Validate"), "manager:LoadJSON", f.Pos(), "Manager.LoadJSON ends with Validate", "Manager.LoadJSON no longer validates the loaded configuration")
	}
}

func returnsCall(f *ssa.Function, pat string) bool {
	idx := f.Signature.Results().Len() - 1
	for _, lf := range returnLeaves(f, idx) {
		if call, _ := originCall(lf.Val); call != nil && nameMatches(callName(call.Common()), pat) {
			return true
		}
	}
	return false
}

func r153(c *Ctx, r *R) {
	fd, pkg := c.decl(r, "config", "jsonConfig.getSection")
	st := c.namedType(r, "config", "SectionType")
	if fd == nil || st == nil {
		return
	}
	covered := map[string]bool{}
	ast.Inspect(fd.Body, func(n ast.Node) bool {
		cc, ok := n.(*ast.CaseClause)
		if !ok {
			return true
		}
		for _, e := range cc.List {
			nm := constName(pkg, e)
			// the arm returns the address of the field with the same role
			okRet := false
			for _, s := range cc.Body {
				if ret, ok := s.(*ast.ReturnStmt); ok && len(ret.Results) == 1 {
					if u, ok := ret.Results[0].(*ast.UnaryExpr); ok && u.Op == token.AND {
						if se, ok := u.X.(*ast.SelectorExpr); ok && se.Sel.Name == nm {
							okRet = true
						}
					}
				}
			}
			covered[nm] = okRet
		}
		return true
	})
	for _, k := range declaredConsts(st) {
		if k.Name() == "Cluster" || k.Name() == "endTypes" {
			continue
		}
		got, has := covered[k.Name()]
		r.Check(has && got, "section:"+k.Name(), k.Pos(), "section "+k.Name()+" is dispatched to its own JSON field", "section type "+k.Name()+" has no arm in getSection returning its own field: the manager dereferences nil (crash) or loads the wrong section")
	}
}

func r154(c *Ctx, r *R) {
	ccs := c.componentConfigs(r)
	for _, cc := range ccs {
		label := cc.rel + "." + cc.name
		f := c.P.Func(cc.rel, cc.name+".ToDisplayJSON")
		if f == nil || f.Blocks == nil {
			r.Und("display:"+label, cc.t.Obj().Pos(), "ToDisplayJSON not found")
			continue
		}
		ok := true
		n := 0
		for _, lf := range returnLeaves(f, 0) {
			n++
			if isNilConst(lf.Val) {
				continue // error path
			}
			call, _ := originCall(lf.Val)
			if call == nil || !nameMatches(callName(call.Common()), "/config.DisplayJSON") {
				ok = false
			}
		}
		r.Check(ok && n > 0, "display:"+label, f.Pos(), "ToDisplayJSON returns config.DisplayJSON(...)", label+".ToDisplayJSON does not go through config.DisplayJSON: hidden fields (secrets) are shown")
		// secrets -> hidden tags
		J := jsonStructOf(c, cc)
		saveRoot, _ := c.P.FuncDecl(cc.rel, cc.name+".ToJSON")
		if J == nil || saveRoot == nil {
			continue
		}
		secret := func(v *types.Var) bool {
			ts := v.Type().String()
			return strings.Contains(ts, "crypto.PrivKey") || strings.Contains(ts, "pnet.PSK") || v.Name() == "Secret" || v.Name() == "BasicAuthCredentials" || v.Name() == "PrivateKey"
		}
		cfgStruct := structOf(cc.t)
		isCfgField := func(v *types.Var) bool {
			for i := 0; i < cfgStruct.NumFields(); i++ {
				if cfgStruct.Field(i) == v {
					return true
				}
			}
			return false
		}
		js := J.Underlying().(*types.Struct)
		tagOf := map[*types.Var]string{}
		for i := 0; i < js.NumFields(); i++ {
			tagOf[js.Field(i)] = js.Tag(i)
		}
		// local variables tainted by a secret config field
		tainted := map[types.Object]bool{}
		mentionsSecret := func(e ast.Expr) bool {
			found := false
			ast.Inspect(e, func(n ast.Node) bool {
				switch x := n.(type) {
				case *ast.SelectorExpr:
					if sel := cc.pkg.TypesInfo.Selections[x]; sel != nil && sel.Kind() == types.FieldVal {
						if v, ok := sel.Obj().(*types.Var); ok && isCfgField(v) && secret(v) {
							found = true
						}
					}
				case *ast.Ident:
					if tainted[cc.pkg.TypesInfo.ObjectOf(x)] {
						found = true
					}
				}
				return true
			})
			return found
		}
		for _, fd := range funcsCalledFrom(c.P, cc.pkg, saveRoot) {
			for pass := 0; pass < 2; pass++ {
				ast.Inspect(fd.Body, func(n ast.Node) bool {
					switch x := n.(type) {
					case *ast.AssignStmt:
						for i, l := range x.Lhs {
							var rhs ast.Expr
							if len(x.Rhs) == len(x.Lhs) {
								rhs = x.Rhs[i]
							} else if len(x.Rhs) == 1 {
								rhs = x.Rhs[0]
							}
							if rhs == nil || !mentionsSecret(rhs) {
								continue
							}
							switch lv := l.(type) {
							case *ast.Ident:
								tainted[cc.pkg.TypesInfo.ObjectOf(lv)] = true
							case *ast.SelectorExpr:
								if sel := cc.pkg.TypesInfo.Selections[lv]; sel != nil {
									if v, ok := sel.Obj().(*types.Var); ok {
										if tg, isJ := tagOf[v]; isJ && pass == 1 {
											hid := reflect.StructTag(tg).Get("hidden") == "true"
											r.Check(hid, "hidden:"+label+"."+v.Name(), v.Pos(), "JSON field "+v.Name()+" carries a secret and is tagged hidden", "JSON field "+v.Name()+" of "+label+" is filled from a secret and is not tagged hidden:\"true\": the display form of the configuration leaks it")
										}
									}
								}
							}
						}
					case *ast.KeyValueExpr:
						if pass == 1 && mentionsSecret(x.Value) {
							if id, ok := x.Key.(*ast.Ident); ok {
								if v, ok := cc.pkg.TypesInfo.Uses[id].(*types.Var); ok {
									if tg, isJ := tagOf[v]; isJ {
										hid := reflect.StructTag(tg).Get("hidden") == "true"
										r.Check(hid, "hidden:"+label+"."+v.Name(), v.Pos(), "JSON field "+v.Name()+" carries a secret and is tagged hidden", "JSON field "+v.Name()+" of "+label+" is filled from a secret and is not tagged hidden:\"true\": the display form of the configuration leaks it")
									}
								}
							}
						}
					}
					return true
				})
			}
		}
	}
	// manager
	if m := c.fn(r, "config", "Manager.ToDisplayJSON"); m != nil {
		bad := false
		nDisp := 0
		withAnon(m, func(g *ssa.Function) {
			for _, ci := range callsIn(g) {
				cn := callName(ci.Common())
				if nameMatches(cn, "config.ComponentConfig).ToJSON") {
					bad = true
				}
				if nameMatches(cn, "config.ComponentConfig).ToDisplayJSON") {
					nDisp++
				}
			}
		})
		r.Check(!bad && nDisp >= 2, "manager:display", m.Pos(), "the manager's display form asks every section for its display form", "Manager.ToDisplayJSON uses a section's ToJSON (full form, with secrets)")
	}
}

func r155(c *Ctx, r *R) {
	fd, pkg := c.decl(r, "config", "DisplayJSON")
	if fd == nil {
		return
	}
	// in DisplayJSON or a function it calls: a store into the Type of a
	// reflect.StructField, of reflect.TypeOf(hiddenField{}), on the edge
	// where Tag.Get("hidden") == "true"
	_ = pkg
	okReplace := false
	if df := c.fn(r, "config", "DisplayJSON"); df != nil {
		isHidden := func(g Guard) bool {
			x, k, tme, ok := eqConst(g.Cond)
			if !ok || k.Kind() != constant.String || constant.StringVal(k) != "true" || tme != g.Branch {
				return false
			}
			call, _ := originCall(x)
			if call == nil || !nameMatches(callName(call.Common()), "(reflect.StructTag).Get") {
				return false
			}
			args := callArgs(call.Common())
			key, _ := constString(args[len(args)-1])
			return key == "hidden"
		}
		for g := range ssaClosure(df) {
			instrs(g, func(i ssa.Instruction) {
				st, ok := i.(*ssa.Store)
				if !ok {
					return
				}
				fa, ok := st.Addr.(*ssa.FieldAddr)
				if !ok || fieldOfAddr(fa) == nil || fieldOfAddr(fa).Name() != "Type" || !strings.HasSuffix(fieldOfAddr(fa).Pkg().Path(), "reflect") {
					return
				}
				call, _ := originCall(st.Val)
				if call == nil || !nameMatches(callName(call.Common()), "=reflect.TypeOf") {
					return
				}
				if !strings.HasSuffix(strip(call.Common().Args[0]).Type().String(), "config.hiddenField") {
					return
				}
				if guardedBy(st.Block(), isHidden) {
					okReplace = true
				}
			})
		}
	}
	r.Check(okReplace, "displayjson:replaces-hidden", fd.Pos(), "fields tagged hidden:\"true\" get the placeholder type", "DisplayJSON no longer replaces the type of fields tagged hidden:\"true\"")
	// placeholder marshals to a constant
	m := c.fn(r, "config", "hiddenField.MarshalJSON")
	if m != nil {
		okConst := true
		instrs(m, func(i ssa.Instruction) {
			for _, op := range i.Operands(nil) {
				if op != nil && *op != nil {
					if p, ok := (*op).(*ssa.Parameter); ok && p == m.Params[0] {
						okConst = false
					}
				}
			}
		})
		r.Check(okConst, "displayjson:placeholder-constant", m.Pos(), "the placeholder's JSON does not depend on the hidden value", "hiddenField.MarshalJSON uses its receiver")
	}
}

func init() {
	register(&Rule{ID: "R15.6", Props: []string{"C15"}, Floor: 2, Title: "pointer-typed settings (zero is a legitimate value) are assigned directly into the configuration under a nil test, not only through a zero-skipping merge", Run: r156})
}

func r156(c *Ctx, r *R) {
	for _, cc := range c.componentConfigs(r) {
		J := jsonStructOf(c, cc)
		if J == nil {
			continue
		}
		var ptrFields []*types.Var
		var walk func(st *types.Named, d int)
		walk = func(st *types.Named, d int) {
			s, ok := st.Underlying().(*types.Struct)
			if !ok {
				return
			}
			for i := 0; i < s.NumFields(); i++ {
				f := s.Field(i)
				if p, ok := f.Type().(*types.Pointer); ok {
					if strings.HasSuffix(p.Elem().String(), "json.RawMessage") {
						continue
					}
					if _, isStruct := p.Elem().Underlying().(*types.Struct); !isStruct {
						ptrFields = append(ptrFields, f)
						continue
					}
				}
				ft := f.Type()
				if p, ok := ft.(*types.Pointer); ok {
					ft = p.Elem()
				}
				if nt, ok := ft.(*types.Named); ok && d < 2 && nt.Obj().Pkg() == cc.pkg.Types {
					walk(nt, d+1)
				}
			}
		}
		walk(J, 0)
		if len(ptrFields) == 0 {
			continue
		}
		load := c.P.Func(cc.rel, cc.name+".LoadJSON")
		if load == nil {
			continue
		}
		// functions on the load side: LoadJSON and same-package static callees
		seen := map[*ssa.Function]bool{}
		var fs []*ssa.Function
		var collect func(f *ssa.Function, d int)
		collect = func(f *ssa.Function, d int) {
			if seen[f] || d > 4 || f.Blocks == nil {
				return
			}
			seen[f] = true
			fs = append(fs, f)
			for _, ci := range callsIn(f) {
				if cal := ci.Common().StaticCallee(); cal != nil && cal.Pkg == f.Pkg {
					collect(cal, d+1)
				}
			}
		}
		collect(load, 0)
		for _, pf := range ptrFields {
			direct := false
			for _, f := range fs {
				instrs(f, func(i ssa.Instruction) {
					st, ok := i.(*ssa.Store)
					if !ok {
						return
					}
					// value = *(load of &x.P)
					u, ok := st.Val.(*ssa.UnOp)
					if !ok || u.Op != token.MUL {
						return
					}
					src := u.X
					fromP := false
					for _, l := range phiLeaves(src) {
						if fl, _ := fieldLoad(l); fl == pf {
							fromP = true
						}
					}
					if fl, _ := fieldLoad(src); fl == pf {
						fromP = true
					}
					if !fromP {
						return
					}
					// destination rooted at the *Config receiver/parameter
					root := st.Addr
					for {
						if fa, ok := root.(*ssa.FieldAddr); ok {
							root = fa.X
							continue
						}
						break
					}
					if p, ok := root.(*ssa.Parameter); ok && ownerOf(p.Type()) == cc.t {
						direct = true
					}
				})
			}
			key := cc.rel + "." + pf.Name()
			r.Check(direct, "pointer-setting:"+key, pf.Pos(), "the explicit value of "+pf.Name()+" is assigned directly into the configuration",
				"pointer-typed setting "+key+" reaches the configuration only through a merge that skips zero values: an explicit 0 (a legitimate value, which is why the field is a pointer) is silently replaced by the default")
		}
	}
}
