package main

import (
	"go/constant"
	"go/token"
	"go/types"

	"golang.org/x/tools/go/ssa"
)

// ssaEval interprets a function concretely over constants: the environment
// binds some values (parameters, results of particular calls) to constants;
// branch conditions and arithmetic over bound values and literals are
// evaluated, control flow is followed, and the constant returned in result
// slot 0 is the answer. Anything it cannot evaluate (memory, calls, unbound
// values) makes it give up. Used to evaluate table-like functions (switch or
// if chains, small loops) independently of how they are written.
func ssaEval(f *ssa.Function, bind func(v ssa.Value) (constant.Value, bool)) (res ssa.Value, val constant.Value, ok bool) {
	return ssaEvalDepth(f, bind, 0)
}

// ssaEvalVisit, when set, is told every block the interpreter enters.
var ssaEvalVisit func(f *ssa.Function, b *ssa.BasicBlock, eval func(ssa.Value) (constant.Value, bool))

func ssaEvalDepth(f *ssa.Function, bind func(v ssa.Value) (constant.Value, bool), depth int) (res ssa.Value, val constant.Value, ok bool) {
	if len(f.Blocks) == 0 || depth > 4 {
		return nil, nil, false
	}
	var prev *ssa.BasicBlock
	cur := f.Blocks[0]
	memo := map[ssa.Value]constant.Value{}
	var eval func(v ssa.Value) (constant.Value, bool)
	eval = func(v ssa.Value) (constant.Value, bool) {
		if k, ok := v.(*ssa.Const); ok {
			if k.Value == nil {
				return nil, false
			}
			return k.Value, true
		}
		if c, ok := bind(v); ok {
			return c, true
		}
		if ssaEvalHook != nil {
			if c, ok := ssaEvalHook(v, eval); ok {
				return c, true
			}
		}
		if c, ok := memo[v]; ok {
			return c, true
		}
		switch x := v.(type) {
		case *ssa.Call:
			// a helper of the repository called with evaluable arguments
			// (a table split over several functions): evaluate it too
			callee := x.Common().StaticCallee()
			if callee == nil || callee.Blocks == nil || x.Common().IsInvoke() || callee.Signature.Results().Len() != 1 {
				return nil, false
			}
			if callee.Pkg == nil || !isRepoPath(callee.Pkg.Pkg.Path()) {
				return nil, false
			}
			vals := map[int]constant.Value{}
			for i, a := range x.Common().Args {
				if c, ok := eval(a); ok {
					vals[i] = c
				}
			}
			inner := bindParams(callee, vals)
			_, c, ok := ssaEvalDepth(callee, func(v ssa.Value) (constant.Value, bool) {
				if c, ok := inner(v); ok {
					return c, true
				}
				return bind(v)
			}, depth+1)
			if ok {
				memo[v] = c
			}
			return c, ok
		case *ssa.Lookup:
			// a lookup table: a package-level map filled with constant
			// entries when the package is initialised
			if x.CommaOk {
				return nil, false
			}
			if c, ok := globalMapLookup(x, eval); ok {
				return c, true
			}
			return nil, false
		case *ssa.Extract:
			if lk, ok := x.Tuple.(*ssa.Lookup); ok && lk.CommaOk {
				c, found, known := globalMapLookupOK(lk, eval)
				if !known {
					return nil, false
				}
				if x.Index == 1 {
					return constant.MakeBool(found), true
				}
				if found {
					return c, true
				}
				// zero value of the element type
				if z := zeroConst(lk.Type().(*types.Tuple).At(0).Type()); z != nil {
					return z, true
				}
				return nil, false
			}
		case *ssa.ChangeType:
			return eval(x.X)
		case *ssa.Convert:
			return eval(x.X)
		case *ssa.UnOp:
			if x.Op == token.NOT {
				if c, ok := eval(x.X); ok && c.Kind() == constant.Bool {
					return constant.MakeBool(!constant.BoolVal(c)), true
				}
			}
			if x.Op == token.SUB {
				if c, ok := eval(x.X); ok {
					return constant.UnaryOp(token.SUB, c, 0), true
				}
			}
		case *ssa.BinOp:
			a, oka := eval(x.X)
			b, okb := eval(x.Y)
			if !oka || !okb {
				return nil, false
			}
			switch x.Op {
			case token.EQL, token.NEQ, token.LSS, token.LEQ, token.GTR, token.GEQ:
				if a.Kind() != b.Kind() && !(a.Kind() == constant.Int && b.Kind() == constant.Int) {
					return nil, false
				}
				return constant.MakeBool(constant.Compare(a, x.Op, b)), true
			case token.SHL, token.SHR:
				s, ok := constant.Uint64Val(b)
				if !ok || s > 63 {
					return nil, false
				}
				return constant.Shift(a, x.Op, uint(s)), true
			case token.ADD, token.SUB, token.MUL, token.AND, token.OR, token.XOR:
				return constant.BinaryOp(a, x.Op, b), true
			}
		}
		return nil, false
	}
	for steps := 0; steps < 2000; steps++ {
		// phis first, all evaluated against the predecessor, in parallel
		newVals := map[ssa.Value]constant.Value{}
		for _, in := range cur.Instrs {
			phi, ok := in.(*ssa.Phi)
			if !ok {
				break
			}
			if prev == nil {
				return nil, nil, false
			}
			for i, p := range cur.Preds {
				if p == prev {
					if c, ok := eval(phi.Edges[i]); ok {
						newVals[phi] = c
					} else {
						delete(memo, phi)
						newVals[phi] = nil
					}
				}
			}
		}
		for k, v := range newVals {
			if v == nil {
				delete(memo, k)
			} else {
				memo[k] = v
			}
		}
		// non-phi values of a block revisited in a loop must be recomputed
		for _, in := range cur.Instrs {
			if v, ok := in.(ssa.Value); ok {
				if _, isPhi := in.(*ssa.Phi); !isPhi {
					delete(memo, v)
				}
			}
		}
		if ssaEvalVisit != nil {
			ssaEvalVisit(f, cur, eval)
		}
		last := cur.Instrs[len(cur.Instrs)-1]
		switch x := last.(type) {
		case *ssa.Return:
			if len(x.Results) == 0 {
				return nil, nil, false
			}
			r := retResult(x, 0)
			c, ok := eval(r)
			if !ok {
				return r, nil, false
			}
			return r, c, true
		case *ssa.Jump:
			prev, cur = cur, cur.Succs[0]
		case *ssa.If:
			c, ok := eval(x.Cond)
			if !ok || c.Kind() != constant.Bool {
				return nil, nil, false
			}
			if constant.BoolVal(c) {
				prev, cur = cur, cur.Succs[0]
			} else {
				prev, cur = cur, cur.Succs[1]
			}
		default:
			return nil, nil, false
		}
	}
	return nil, nil, false
}

// bindParams binds the i-th parameter values.
func bindParams(f *ssa.Function, vals map[int]constant.Value) func(ssa.Value) (constant.Value, bool) {
	return func(v ssa.Value) (constant.Value, bool) {
		if p, ok := v.(*ssa.Parameter); ok {
			for i, q := range f.Params {
				if q == p {
					c, ok := vals[i]
					return c, ok
				}
			}
		}
		return nil, false
	}
}

// globalMapEntries: the constant entries stored at package initialisation
// into the map held by package-level variable g (nil, false if the map is
// built any other way or modified elsewhere).
func globalMapEntries(g *ssa.Global) (map[string]constant.Value, bool) {
	pkg := g.Pkg
	if pkg == nil {
		return nil, false
	}
	init := pkg.Func("init")
	if init == nil {
		return nil, false
	}
	var mk *ssa.MakeMap
	for _, b := range init.Blocks {
		for _, in := range b.Instrs {
			if st, ok := in.(*ssa.Store); ok && st.Addr == ssa.Value(g) {
				m, ok := st.Val.(*ssa.MakeMap)
				if !ok || mk != nil {
					return nil, false
				}
				mk = m
			}
		}
	}
	if mk == nil {
		return nil, false
	}
	out := map[string]constant.Value{}
	for _, ref := range *mk.Referrers() {
		switch x := ref.(type) {
		case *ssa.MapUpdate:
			k, okk := x.Key.(*ssa.Const)
			v, okv := x.Value.(*ssa.Const)
			if !okk || !okv || k.Value == nil || v.Value == nil {
				return nil, false
			}
			out[k.Value.ExactString()] = v.Value
		case *ssa.Store, *ssa.DebugRef:
		default:
			return nil, false
		}
	}
	// written anywhere else in the package?
	for _, mem := range pkg.Members {
		f, ok := mem.(*ssa.Function)
		if !ok || f == init {
			continue
		}
		bad := false
		var visit func(fn *ssa.Function)
		visit = func(fn *ssa.Function) {
			for _, b := range fn.Blocks {
				for _, in := range b.Instrs {
					if st, ok := in.(*ssa.Store); ok && st.Addr == ssa.Value(g) {
						bad = true
					}
					if mu, ok := in.(*ssa.MapUpdate); ok {
						if u, ok := mu.Map.(*ssa.UnOp); ok && u.X == ssa.Value(g) {
							bad = true
						}
					}
				}
			}
			for _, a := range fn.AnonFuncs {
				visit(a)
			}
		}
		visit(f)
		if bad {
			return nil, false
		}
	}
	return out, true
}

func globalMapOf(lk *ssa.Lookup) *ssa.Global {
	u, ok := lk.X.(*ssa.UnOp)
	if !ok || u.Op != token.MUL {
		return nil
	}
	g, _ := u.X.(*ssa.Global)
	return g
}

func globalMapLookup(lk *ssa.Lookup, eval func(ssa.Value) (constant.Value, bool)) (constant.Value, bool) {
	c, found, known := globalMapLookupOK(lk, eval)
	if !known {
		return nil, false
	}
	if found {
		return c, true
	}
	if z := zeroConst(lk.Type()); z != nil {
		return z, true
	}
	return nil, false
}

func globalMapLookupOK(lk *ssa.Lookup, eval func(ssa.Value) (constant.Value, bool)) (val constant.Value, found, known bool) {
	g := globalMapOf(lk)
	if g == nil {
		return nil, false, false
	}
	entries, ok := globalMapEntries(g)
	if !ok {
		return nil, false, false
	}
	k, ok := eval(lk.Index)
	if !ok {
		return nil, false, false
	}
	v, has := entries[k.ExactString()]
	return v, has, true
}

func zeroConst(t types.Type) constant.Value {
	b, ok := t.Underlying().(*types.Basic)
	if !ok {
		return nil
	}
	switch {
	case b.Info()&types.IsInteger != 0:
		return constant.MakeInt64(0)
	case b.Info()&types.IsString != 0:
		return constant.MakeString("")
	case b.Info()&types.IsBoolean != 0:
		return constant.MakeBool(false)
	}
	return nil
}

// ssaEvalHook, when set, lets a rule give meaning to memory reads during an
// evaluation (a small concrete model of the data the function reads): it
// sees every value before the built-in cases and may use eval on operands.
var ssaEvalHook func(v ssa.Value, eval func(ssa.Value) (constant.Value, bool)) (constant.Value, bool)
