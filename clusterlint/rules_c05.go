package main

import (
	"fmt"
	"go/constant"
	"go/token"
	"go/types"

	"golang.org/x/tools/go/ssa"
)

func init() {
	register(
		&Rule{ID: "R05.1", Props: []string{"C05"}, Floor: 2, Title: "every pin operation queued by the tracker carries the pin it was given or the pin recorded in the shared state, never a default pin rebuilt from the CID", Run: r051},
		&Rule{ID: "R05.2", Props: []string{"C05", "C06"}, Floor: 4, Title: "enqueue: a full queue marks the operation failed, cancels it and returns an error; pins go to the pin queue and unpins to the unpin queue", Run: r052},
		&Rule{ID: "R05.3", Props: []string{"C05"}, Floor: 6, Title: "worker phase discipline: in-progress before the IPFS call, error+cancel on failure, done+cancel then clean on success, nothing for cancelled operations", Run: r053},
		&Rule{ID: "R05.4", Props: []string{"C05"}, Floor: 4, Title: "Track: meta pins are ignored, remote pins are unpinned (never queued for pinning), everything else is queued as a pin with the given pin object", Run: r054},
		&Rule{ID: "R05.5", Props: []string{"C05", "C06"}, Floor: 3, Title: "TrackNewOperation dedupes only unfinished operations of the same type and cancels the operation it replaces, under the tracker lock", Run: r055},
		&Rule{ID: "R05.6", Props: []string{"C05"}, Floor: 2, Title: "the IPFS pin/unpin requests run under the operation's own context, so cancelling the operation stops the request", Run: r056},
	)
}

func (c *Ctx) constIn(rel, name string) constant.Value { return c.constNamed(rel, name) }

func isConst(v ssa.Value, k constant.Value) bool {
	kv, ok := constOf(v)
	return ok && kv != nil && k != nil && constant.Compare(kv, token.EQL, k)
}

func r051(c *Ctx, r *R) {
	opPin := c.constIn("pintracker/optracker", "OperationPin")
	enq := c.fn(r, "pintracker/stateless", "Tracker.enqueue")
	if enq == nil || opPin == nil {
		return
	}
	sites, _ := c.callSitesOf(enq)
	for _, s := range sites {
		a := callArgs(s.Common())
		if len(a) != 3 {
			continue
		}
		if !isConst(a[2], opPin) {
			if _, isK := constOf(a[2]); !isK {
				r.Und("enqueue:"+s.Parent().Name(), s.Pos(), "operation type is not a constant")
			}
			continue // unpin: the CID is all that is needed
		}
		key := "enqueue-pin:" + s.Parent().Name()
		for _, l := range phiLeaves(a[1]) {
			l = strip(l)
			if p, ok := l.(*ssa.Parameter); ok && p.Type().String() == "*"+ModPath+"/api.Pin" {
				r.OK(key, s.Pos(), "queued pin is the pin object the caller was given")
				continue
			}
			if call, idx := originCall(l); call != nil {
				cn := callName(call.Common())
				if idx == 0 && nameMatches(cn, "/state.ReadOnly).Get", "/state.State).Get", "dsstate.State).Get") {
					r.OK(key, s.Pos(), "queued pin is read from the shared state")
					continue
				}
				if nameMatches(cn, "/api.PinCid", "/api.PinWithOpts") {
					r.Bad(key, s.Pos(), "%s queues a pin operation with a default pin built by %s: recursive mode, no origins, no update source, whatever the shared pinset records", s.Parent().Name(), cn)
					continue
				}
				r.Bad(key, s.Pos(), "%s queues a pin built by %s, not the recorded pin", s.Parent().Name(), cn)
				continue
			}
			r.Bad(key, s.Pos(), "%s queues a pin of unknown origin (%s)", s.Parent().Name(), l)
		}
	}
}

func r052(c *Ctx, r *R) {
	f := c.fn(r, "pintracker/stateless", "Tracker.enqueue")
	if f == nil {
		return
	}
	opPin := c.constIn("pintracker/optracker", "OperationPin")
	opUnpin := c.constIn("pintracker/optracker", "OperationUnpin")
	tno := findCalls(f, false, "optracker.OperationTracker).TrackNewOperation")
	if len(tno) != 1 {
		r.Und("TrackNewOperation", f.Pos(), "%d TrackNewOperation calls in enqueue", len(tno))
		return
	}
	opv := tno[0].(ssa.Value)
	// TrackNewOperation receives enqueue's own pin and type
	ta := callArgs(tno[0].Common())
	r.Check(paramIndex(f, ta[1]) == 2 && paramIndex(f, ta[2]) == 3, "track-args", tno[0].Pos(), "the operation is created for the given pin and type", "the tracked operation is not created from enqueue's pin/type arguments")
	// must-pass-through: no exit of enqueue before the request is on
	// record in the operation tracker (as queued, failed or deduplicated):
	// a request refused without a record is invisible to Status and to
	// RecoverAll, and the consensus callers only log the error
	for _, b := range f.Blocks {
		if b == f.Recover || len(b.Instrs) == 0 {
			continue
		}
		if ret, ok := b.Instrs[len(b.Instrs)-1].(*ssa.Return); ok {
			tb := tno[0].Block()
			r.Check(tb == b || tb.Dominates(b), "recorded-before-return", ret.Pos(), "the exit is reached only after TrackNewOperation recorded the request", "enqueue can return without having recorded the request in the operation tracker: the refused operation leaves no queued/error entry, so Status reports the old state and RecoverAll never retries it")
		}
	}
	var sel *ssa.Select
	instrs(f, func(i ssa.Instruction) {
		if s, ok := i.(*ssa.Select); ok {
			sel = s
		}
	})
	if sel == nil || sel.Blocking || len(sel.States) != 1 || sel.States[0].Dir != types.SendOnly {
		r.Bad("select", f.Pos(), "enqueue no longer uses a non-blocking send (a blocking send stalls consensus; no send drops the operation)")
		return
	}
	r.Check(strip(sel.States[0].Send) == opv, "sends-op", sel.Pos(), "the tracked operation is what is sent to the worker", "the value sent to the worker is not the tracked operation")
	// channel choice
	for _, lf := range valueLeavesDeep(sel.States[0].Chan, sel.Block()) {
		l := lf.Val
		fld, _ := fieldLoad(l)
		if fld == nil {
			if isNilConst(l) {
				continue // `var ch chan` zero value: unknown op types block... reported below
			}
			r.Und("channel", sel.Pos(), "queue channel of unknown origin")
			continue
		}
		var want constant.Value
		switch fld.Name() {
		case "pinCh":
			want = opPin
		case "unpinCh":
			want = opUnpin
		default:
			r.Bad("channel:"+fld.Name(), sel.Pos(), "operation is sent to unexpected channel %s", fld.Name())
			continue
		}
		// the channel reaches the send only on paths where the type is
		// the matching one (guards of the value's own path, phi edges
		// included)
		ok := lf.GuardedBy(func(g Guard) bool {
			return gEq(g, want, true, func(x ssa.Value) bool { return paramIndex(f, x) == 3 })
		})
		r.Check(ok, "channel:"+fld.Name(), l.Pos(), fld.Name()+" is chosen for its operation type", fld.Name()+" is chosen for the wrong operation type: pins and unpins would be executed by the wrong worker")
	}
	// the default arm
	var idxIf *ssa.If
	for _, b := range f.Blocks {
		if iff, ok := b.Instrs[len(b.Instrs)-1].(*ssa.If); ok {
			if x, _, _, ok := eqConst(iff.Cond); ok && selectIndexOf(x) == sel {
				idxIf = iff
			}
		}
	}
	if idxIf == nil {
		r.Und("select-index", sel.Pos(), "select index test not found")
		return
	}
	_, _, tme, _ := eqConst(idxIf.Cond)
	fullSucc := idxIf.Block().Succs[1]
	sentSucc := idxIf.Block().Succs[0]
	if !tme {
		fullSucc, sentSucc = sentSucc, fullSucc
	}
	hasCall := func(from *ssa.BasicBlock, pat string) bool {
		found := false
		seen := map[*ssa.BasicBlock]bool{}
		var walk func(b *ssa.BasicBlock)
		walk = func(b *ssa.BasicBlock) {
			if seen[b] {
				return
			}
			seen[b] = true
			for _, i := range b.Instrs {
				if ci, ok := i.(ssa.CallInstruction); ok && nameMatches(callName(ci.Common()), pat) && len(ci.Common().Args) > 0 && strip(ci.Common().Args[0]) == opv {
					found = true
				}
			}
			for _, s := range b.Succs {
				walk(s)
			}
		}
		walk(from)
		return found
	}
	r.Check(hasCall(fullSucc, "optracker.Operation).SetError") && hasCall(fullSucc, "optracker.Operation).Cancel"), "full-queue:marks-error", idxIf.Pos(),
		"a full queue sets the operation's error and cancels it", "on a full queue the operation is not marked failed/cancelled: it stays 'queued' forever and blocks later operations on the CID")
	nilOnFull := false
	for _, ret := range returnsFrom(fullSucc) {
		if isNilConst(retResult(ret, 0)) {
			nilOnFull = true
		}
	}
	r.Check(!nilOnFull, "full-queue:returns-error", idxIf.Pos(), "a full queue is reported as an error", "a full queue returns nil: the instruction is dropped silently")
	sentErr := false
	for _, ret := range returnsFrom(sentSucc) {
		if !isNilConst(retResult(ret, 0)) {
			sentErr = true
		}
	}
	r.Check(!sentErr, "sent:returns-nil", idxIf.Pos(), "a queued operation returns nil", "a successfully queued operation returns an error")
}

func r053(c *Ctx, r *R) {
	// The worker's per-operation logic lives in opWorker, possibly with a
	// piece of it in a helper (applyPinF on the pinned tree). It is found
	// by what it does - it calls the pin function it was given on the
	// operation it received - not by the helper's name.
	w := c.fn(r, "pintracker/stateless", "Tracker.opWorker")
	if w == nil {
		return
	}
	isPinF := func(g *ssa.Function, v ssa.Value) bool {
		// a function-typed parameter of the worker (directly, or the
		// helper parameter that stands for it)
		if _, ok := v.Type().Underlying().(*types.Signature); !ok {
			return false
		}
		return paramIndex(w, v) >= 0 || paramIndex(g, v) >= 0
	}
	var f *ssa.Function
	var pinCall *ssa.Call
	for _, dc := range findCallsDeepAny(w, func(g *ssa.Function, ci ssa.CallInstruction) bool {
		cl, ok := ci.(*ssa.Call)
		return ok && !cl.Common().IsInvoke() && cl.Common().StaticCallee() == nil && isPinF(g, cl.Common().Value)
	}) {
		pinCall, _ = dc.Inner.(*ssa.Call)
		f = dc.Inner.Parent()
	}
	if pinCall == nil || f == nil {
		r.Und("pinF-call", w.Pos(), "the worker's call of the pin function it was given was not found")
		return
	}
	helper := f != w
	phIn := c.constIn("pintracker/optracker", "PhaseInProgress")
	phDone := c.constIn("pintracker/optracker", "PhaseDone")
	theOp := strip(pinCall.Common().Args[0])
	onOp := func(ci ssa.CallInstruction) bool {
		return len(ci.Common().Args) > 0 && strip(ci.Common().Args[0]) == theOp
	}
	var inProg, done ssa.CallInstruction
	for _, ci := range findCalls(f, false, "optracker.Operation).SetPhase") {
		if !onOp(ci) {
			continue
		}
		if isConst(ci.Common().Args[1], phIn) {
			inProg = ci
		}
		if isConst(ci.Common().Args[1], phDone) {
			done = ci
		}
	}
	r.Check(inProg != nil && dominatesInstr(inProg, pinCall), "in-progress-before-call", pinCall.Pos(), "SetPhase(InProgress) dominates the IPFS call", "the operation is not marked in-progress before the IPFS call")
	errNonNil := func(b *ssa.BasicBlock, want bool) bool {
		return guardedBy(b, func(g Guard) bool {
			return gNil(g, want, func(v ssa.Value) bool { cl, _ := originCall(v); return cl == pinCall })
		})
	}
	notCancelled := func(b *ssa.BasicBlock) bool {
		return guardedBy(b, func(g Guard) bool { return gCall(g, false, "optracker.Operation).Cancelled") })
	}
	// entry: cancelled operations are skipped before anything
	if inProg != nil {
		r.Check(notCancelled(inProg.Block()), "skip-cancelled", inProg.Pos(), "cancelled operations are skipped before any phase change", "a cancelled operation is still executed")
	}
	se := findCalls(f, false, "optracker.Operation).SetError")
	if len(se) != 1 || !onOp(se[0]) {
		r.Bad("set-error", f.Pos(), "the worker has %d SetError calls on the operation (expected 1): a failed IPFS call would not be recorded", len(se))
	} else {
		okArg := false
		if cl, _ := originCall(se[0].Common().Args[1]); cl == pinCall {
			okArg = true
		}
		for _, l := range phiLeaves(se[0].Common().Args[1]) {
			if cl, _ := originCall(l); cl == pinCall {
				okArg = true
			}
		}
		r.Check(okArg && errNonNil(se[0].Block(), true) && notCancelled(se[0].Block()), "error-recorded", se[0].Pos(),
			"a failing, non-cancelled IPFS call records its error on the operation", "SetError is not called with the IPFS call's error on the failing, non-cancelled path")
		// followed by Cancel
		okCancel := false
		for _, ci := range findCalls(f, false, "optracker.Operation).Cancel") {
			if onOp(ci) && ci.Block() == se[0].Block() && dominatesInstr(se[0], ci) {
				okCancel = true
			}
		}
		r.Check(okCancel, "error-then-cancel", se[0].Pos(), "the failed operation is cancelled after recording the error", "the failed operation is not cancelled after SetError")
	}
	// a failed call leaves its error on the operation unless the operation
	// was cancelled meanwhile: every way out of the per-operation logic
	// passes the success edge of the call, the edge "the operation is
	// cancelled", or the SetError call - no other test (the error's text, a
	// context error) may skip the record
	if helper && len(se) == 1 {
		hasSetErr := func(b *ssa.BasicBlock) bool { return b == se[0].Block() }
		legit := func(g Guard) bool {
			if gNil(g, false, func(v ssa.Value) bool { cl, _ := originCall(v); return cl == pinCall }) {
				return true
			}
			return gCall(g, true, "optracker.Operation).Cancelled")
		}
		okAll := true
		for _, ret := range returnsOf(f) {
			if ret.Block() == se[0].Block() {
				continue
			}
			if !mustPassX(ret.Block(), legit, hasSetErr) {
				okAll = false
			}
		}
		r.Check(okAll, "error-always-recorded", se[0].Pos(), "the only ways around SetError are a successful call and a cancelled operation", "the worker can finish a failed, non-cancelled operation without recording the error (a test other than op.Cancelled() skips SetError): the operation stays 'pinning'/'unpinning' for ever, is never retried and its failure is never reported")
	}
	if done == nil {
		r.Bad("done", f.Pos(), "the worker never sets PhaseDone")
	} else {
		r.Check(errNonNil(done.Block(), false), "done-on-success", done.Pos(), "PhaseDone is set only when the IPFS call succeeded", "PhaseDone is set on a path where the IPFS call may have failed")
	}
	// the operation is cleaned from the table exactly when it completed
	cl := findCalls(w, false, "optracker.OperationTracker).Clean")
	if len(cl) != 1 {
		r.Bad("worker-clean", w.Pos(), "opWorker has %d Clean calls (expected 1): finished operations would stay in the table", len(cl))
		return
	}
	if helper {
		// the helper's answer tells the worker whether to clean: one of the
		// two values is returned only after PhaseDone (whichever the helper
		// uses for "completed"), and the worker cleans exactly on it
		okRet := true
		var cleanAns *bool
		for _, lf := range returnLeaves(f, 0) {
			k, isK := constOf(lf.Val)
			if !isK || k == nil {
				okRet = false
				continue
			}
			if done != nil && done.Block().Dominates(lf.Block) {
				v := constant.BoolVal(k)
				if cleanAns != nil && *cleanAns != v {
					okRet = false
				}
				cleanAns = &v
			}
		}
		nClean := 0
		for _, lf := range returnLeaves(f, 0) {
			if k, isK := constOf(lf.Val); isK && k != nil && cleanAns != nil && constant.BoolVal(k) == *cleanAns {
				nClean++
				if !done.Block().Dominates(lf.Block) {
					okRet = false
				}
			}
		}
		r.Check(okRet && cleanAns != nil && nClean == 1, "clean-only-when-done", f.Pos(), "the helper tells the worker to clean the operation only after PhaseDone", "the helper can tell the worker to clean an operation that did not complete (its error status would vanish)")
		hname := f.Name()
		ok := cleanAns != nil && guardedBy(cl[0].Block(), func(g Guard) bool {
			call, _ := originCallLocal(g.Cond)
			return call != nil && g.Branch == *cleanAns && call.Common().StaticCallee() == f
		})
		r.Check(ok, "worker-clean", cl[0].Pos(), "the worker cleans an operation exactly when "+hname+" reports completion", "opWorker cleans operations that "+hname+" asked to keep (failed/cancelled): error statuses are lost")
	} else {
		ok := done != nil && (done.Block() == cl[0].Block() && dominatesInstr(done, cl[0]) || done.Block().Dominates(cl[0].Block()) && done.Block() != cl[0].Block())
		r.Check(ok, "clean-only-when-done", cl[0].Pos(), "the operation is cleaned only after PhaseDone", "the worker can clean an operation that did not complete (its error status would vanish)")
		r.Check(ok && errNonNil(cl[0].Block(), false), "worker-clean", cl[0].Pos(), "the worker cleans an operation exactly when the IPFS call succeeded", "opWorker cleans operations whose IPFS call failed or was cancelled: error statuses are lost")
	}
}

func r054(c *Ctx, r *R) {
	f := c.fn(r, "pintracker/stateless", "Tracker.Track")
	if f == nil {
		return
	}
	meta := c.constIn("api", "MetaType")
	opPin := c.constIn("pintracker/optracker", "OperationPin")
	opRemote := c.constIn("pintracker/optracker", "OperationRemote")
	pinParam := 2
	notMeta := func(b *ssa.BasicBlock) bool {
		return guardedBy(b, func(g Guard) bool {
			return gEq(g, meta, false, func(x ssa.Value) bool {
				fld, base := fieldLoad(x)
				return fld != nil && fld.Name() == "Type" && paramIndex(f, base) == pinParam
			})
		})
	}
	remote := func(b *ssa.BasicBlock, want bool) bool {
		return guardedBy(b, func(g Guard) bool { return gCall(g, want, "api.Pin).IsRemotePin") })
	}
	n := 0
	for _, ci := range findInner(f, "stateless.Tracker).enqueue", "stateless.Tracker).unpin", "stateless.Tracker).pin", "optracker.OperationTracker).TrackNewOperation") {
		n++
		r.Check(notMeta(ci.Block()), "meta-ignored:"+shortName(ci), ci.Pos(), "not reached for meta pins", "meta pins reach "+shortName(ci)+": they must never be pinned on IPFS")
	}
	if n == 0 {
		r.Und("calls", f.Pos(), "Track makes no tracker calls")
	}
	enq := findInner(f, "stateless.Tracker).enqueue")
	if len(enq) != 1 {
		r.Bad("enqueue", f.Pos(), "Track has %d enqueue calls (expected 1)", len(enq))
	} else {
		a := callArgs(enq[0].Common())
		r.Check(remote(enq[0].Block(), false) && isConst(a[2], opPin) && paramIndex(f, a[1]) == pinParam, "local-pin-queued", enq[0].Pos(),
			"pins allocated here are queued as pin operations with the given pin object", "Track does not queue the given pin as a pin operation on the non-remote path")
	}
	un := findInner(f, "stateless.Tracker).unpin")
	if len(un) != 1 {
		r.Bad("remote-unpin", f.Pos(), "Track has %d unpin calls (expected 1): a pin that moved to other peers stays pinned here", len(un))
	} else {
		r.Check(remote(un[0].Block(), true), "remote-unpin", un[0].Pos(), "pins allocated elsewhere are unpinned locally", "the local unpin is not restricted to remote pins")
		for _, ci := range findInner(f, "optracker.OperationTracker).TrackNewOperation") {
			a := callArgs(ci.Common())
			r.Check(isConst(a[2], opRemote) && remote(ci.Block(), true), "remote-op-type", ci.Pos(), "the remote branch tracks an OperationRemote", "the remote branch tracks an operation of another type (its status would not be 'remote')")
		}
	}
}

func shortName(ci ssa.CallInstruction) string {
	n := callName(ci.Common())
	for i := len(n) - 1; i >= 0; i-- {
		if n[i] == '.' || n[i] == ')' {
			return n[i+1:]
		}
	}
	return n
}

func r055(c *Ctx, r *R) {
	f := c.fn(r, "pintracker/optracker", "OperationTracker.TrackNewOperation")
	if f == nil {
		return
	}
	phErr := c.constIn("pintracker/optracker", "PhaseError")
	phDone := c.constIn("pintracker/optracker", "PhaseDone")
	var upd *ssa.MapUpdate
	instrs(f, func(i ssa.Instruction) {
		if m, ok := i.(*ssa.MapUpdate); ok {
			if fld, _ := fieldLoad(m.Map); fld != nil && fld.Name() == "operations" {
				upd = m
			}
		}
	})
	if upd == nil {
		r.Bad("map-store", f.Pos(), "TrackNewOperation does not store the new operation")
		return
	}
	// nil return only under same type && phase not in {Error, Done}
	for _, lf := range returnLeaves(f, 0) {
		if !isNilConst(lf.Val) {
			continue
		}
		gs := lf.Guards()
		// each requirement is met by a guard directly or by the answer of a
		// boolean helper that implies it (`if opt.ongoing(c, typ) { return nil }`)
		phaseNot := func(k constant.Value) func(g Guard) bool {
			return func(g Guard) bool {
				b, ok := g.Cond.(*ssa.BinOp)
				if !ok || (b.Op != token.EQL && b.Op != token.NEQ) {
					return false
				}
				cx, _ := originCall(b.X)
				eq := (b.Op == token.EQL) == g.Branch
				return cx != nil && nameMatches(callName(cx.Common()), "optracker.Operation).Phase") && !eq && isConst(b.Y, k)
			}
		}
		any := func(pred func(g Guard) bool) bool {
			for _, g := range gs {
				if establishes(g, pred) {
					return true
				}
			}
			return false
		}
		found := any(func(g Guard) bool { l, idx := mapLookupOf(g.Cond); return l != nil && idx == 1 && g.Branch })
		sameType := any(func(g Guard) bool {
			b, ok := g.Cond.(*ssa.BinOp)
			if !ok || (b.Op != token.EQL && b.Op != token.NEQ) {
				return false
			}
			cx, _ := originCall(b.X)
			eq := (b.Op == token.EQL) == g.Branch
			return cx != nil && nameMatches(callName(cx.Common()), "optracker.Operation).Type") && paramIndex(f, b.Y) == 3 && eq
		})
		notErr, notDone := any(phaseNot(phErr)), any(phaseNot(phDone))
		// the operation that is kept must keep running: no Cancel on a
		// path to this return
		cancelled := false
		for _, dc := range findCallsDeep(f, "optracker.Operation).Cancel") {
			ci := dc.Outer
			if !(ci.Block() == lf.Block || blockReaches(ci.Block(), lf.Block)) {
				continue
			}
			if dc.Outer != dc.Inner {
				// inside a helper whose answer decides this return: only
				// the helper's returns with that answer count
				var ans *bool
				for _, g := range gs {
					if hc, _ := originCallLocal(g.Cond); hc != nil && ssa.Instruction(hc) == ssa.Instruction(dc.Outer.(*ssa.Call)) {
						b := g.Branch
						ans = &b
					}
				}
				if h := dc.Outer.Common().StaticCallee(); ans != nil && h != nil && dc.Inner.Parent() == h {
					hit := false
					for _, hl := range returnLeaves(h, 0) {
						k, isK := constOf(hl.Val)
						if isK && k != nil && constant.BoolVal(k) != *ans {
							continue
						}
						if dc.Inner.Block() == hl.Block || blockReaches(dc.Inner.Block(), hl.Block) {
							hit = true
						}
					}
					if !hit {
						continue
					}
				}
			}
			cancelled = true
		}
		r.Check(!cancelled, "dedupe-keeps-running", lf.Pos, "the ongoing operation that is kept is not cancelled", "TrackNewOperation cancels the ongoing operation and then keeps it (returns nil): its IPFS request is aborted, nothing replaces it and the item never reaches its target state")
		r.Check(found && sameType && notErr && notDone, "dedupe-condition", lf.Pos, "nil (already ongoing) only for an existing operation of the same type that is neither failed nor done",
			fmt.Sprintf("TrackNewOperation refuses a new operation without requiring same type (%v), phase != error (%v), phase != done (%v): a retry after failure or an opposite instruction would be dropped", sameType, notErr, notDone))
	}
	// replaced operation is cancelled: every path to the store saw the
	// table without an entry for the CID or called Cancel - here or in a
	// boolean helper whose answer decides the path
	notFound := func(g Guard) bool {
		l, idx := mapLookupOf(g.Cond)
		return l != nil && idx == 1 && !g.Branch
	}
	hasCancel := func(b *ssa.BasicBlock) bool {
		for _, in := range b.Instrs {
			if ci, ok := in.(ssa.CallInstruction); ok && nameMatches(callName(ci.Common()), "optracker.Operation).Cancel") {
				return true
			}
		}
		return false
	}
	nCancel := len(findCallsDeep(f, "optracker.Operation).Cancel"))
	absentOrCancelled := func(g Guard) bool { return establishesX(g, notFound, hasCancel) }
	sameBlock := false
	for _, in := range upd.Block().Instrs {
		if in == ssa.Instruction(upd) {
			break
		}
		if ci, ok := in.(ssa.CallInstruction); ok && nameMatches(callName(ci.Common()), "optracker.Operation).Cancel") {
			sameBlock = true
		}
	}
	if nCancel == 0 {
		r.Bad("cancel-replaced", f.Pos(), "an existing operation is replaced without being cancelled (its IPFS request keeps running)")
	} else {
		r.Check(sameBlock || mustPassX(upd.Block(), absentOrCancelled, hasCancel), "cancel-replaced", upd.Pos(), "an existing operation is cancelled before it is replaced", "an existing operation can be replaced without being cancelled (its IPFS request keeps running and may complete after the new one)")
	}
	r.Check(lockHeldAt(upd, "mu"), "under-lock", upd.Pos(), "lookup, cancel and store happen under the tracker mutex", "the operation table is updated without the tracker mutex")
}

func r056(c *Ctx, r *R) {
	for _, n := range []string{"pin", "unpin"} {
		f := c.fn(r, "pintracker/stateless", "Tracker."+n)
		if f == nil {
			continue
		}
		wantM := map[string]string{"pin": "Pin", "unpin": "Unpin"}[n]
		// the connector call: a gorpc call site of the function, or of a
		// wrapper shared by pin and unpin that is told the method name
		frame, opIdx := f, 1 // the function whose frame holds the call, and which of its parameters is the operation
		var site *RPCSite
		for _, s := range c.RPC {
			if s.Fn == f {
				site = s
			}
		}
		okTarget := site != nil && site.Resolved && len(site.Targets) == 1 && site.Targets[0].Svc == "IPFSConnector" && site.Targets[0].Method == wantM
		if site == nil {
			for _, u := range c.rpcUsesIn(f) {
				if u.Wrapper == nil || u.Svc != "IPFSConnector" {
					continue
				}
				for _, s := range c.RPC {
					if s.Fn == u.Wrapper {
						site = s
					}
				}
				frame, opIdx = u.Wrapper, -1
				for i, arg := range u.Call.Common().Args {
					if paramIndex(f, arg) == 1 {
						opIdx = i
					}
				}
				okTarget = u.Method == wantM
			}
		}
		if site == nil {
			r.Bad(n+":rpc", f.Pos(), "Tracker.%s makes no IPFSConnector call", n)
			continue
		}
		isOp := func(v ssa.Value) bool { return opIdx >= 0 && paramIndexLocal(frame, v) == opIdx }
		a := callArgs(site.Call.Common())
		fromOp := func(v ssa.Value) bool {
			for d := 0; d < 4 && v != nil; d++ {
				call, _ := originCallLocal(v)
				if call == nil {
					return false
				}
				cn := callName(call.Common())
				if nameMatches(cn, "optracker.Operation).Context") {
					return isOp(call.Common().Args[0])
				}
				// context wrappers keep cancellation: StartSpan(ctx,…), WithTimeout(ctx,…), NewContext(ctx,…)
				if len(call.Common().Args) == 0 {
					return false
				}
				v = call.Common().Args[0]
			}
			return false
		}
		r.Check(okTarget, n+":target", site.Call.Pos(),
			"Tracker."+n+" calls IPFSConnector."+wantM, "Tracker."+n+" calls a different connector method")
		r.Check(fromOp(a[0]), n+":op-context", site.Call.Pos(), "the request's context derives from op.Context()", "the IPFS request does not run under the operation's context: cancelling the operation (untrack, replace) no longer stops it and a late completion overrides the newer instruction")
		// the pin sent is the operation's pin
		pc, _ := originCallLocal(a[4])
		r.Check(pc != nil && nameMatches(callName(pc.Common()), "optracker.Operation).Pin") && isOp(pc.Common().Args[0]), n+":op-pin", site.Call.Pos(),
			"the request carries op.Pin()", "the request does not carry the operation's pin")
	}
}
