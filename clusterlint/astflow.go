package main

import (
	"go/ast"
	"go/token"
	"go/types"
	"math/bits"

	"golang.org/x/tools/go/cfg"
	"golang.org/x/tools/go/packages"
)

// Typestate over the syntactic control-flow graph (go/cfg) of one function
// body (P5). The abstract state is a small integer < 64; the analysis is a
// forward may-analysis: each block carries the set of states that can reach
// it. Branch conditions, switch cases and select arms can refine states.

type StateSet = uint64

// Flow describes one typestate problem.
type Flow struct {
	Pkg  *packages.Package
	Body *ast.BlockStmt
	Init StateSet
	// Node is the transfer function of an ordinary node (statement or
	// expression evaluated in a block, conditions included). It returns
	// the set of successor states. nil = identity.
	Node func(n ast.Node, s int) StateSet
	// Cond refines a state along the true/false edge of a condition.
	Cond func(cond ast.Expr, branch bool, s int) StateSet
	// Case refines along `tag == caseExpr` (branch true) or its negation.
	Case func(tag, caseExpr ast.Expr, branch bool, s int) StateSet
	// Arm is applied when a select arm is entered (comm == nil: default).
	Arm func(sel *ast.SelectStmt, cc *ast.CommClause, s int) StateSet
	// SelectHead is applied once when control reaches a select statement,
	// before any arm is chosen.
	SelectHead func(sel *ast.SelectStmt, s int) StateSet

	g        *cfg.CFG
	in       []StateSet
	commOf   map[ast.Node]*ast.SelectStmt // comm statement -> its select
	firstCom map[*ast.SelectStmt]ast.Node
	swOf     map[*ast.CaseClause]*ast.SwitchStmt
	selOf    map[*ast.CommClause]*ast.SelectStmt
	selNoCom map[*ast.SelectStmt]bool
}

func one(s int) StateSet { return 1 << uint(s) }

func statesOf(ss StateSet) []int {
	var out []int
	for ss != 0 {
		i := bits.TrailingZeros64(ss)
		out = append(out, i)
		ss &^= 1 << uint(i)
	}
	return out
}

func noReturnCall(pkg *packages.Package) func(*ast.CallExpr) bool {
	return func(call *ast.CallExpr) bool {
		switch f := ast.Unparen(call.Fun).(type) {
		case *ast.Ident:
			if f.Name == "panic" {
				if _, ok := pkg.TypesInfo.Uses[f].(*types.Builtin); ok {
					return false
				}
			}
		case *ast.SelectorExpr:
			if fn, ok := pkg.TypesInfo.Uses[f.Sel].(*types.Func); ok && fn.Pkg() != nil {
				full := fn.Pkg().Path() + "." + fn.Name()
				switch full {
				case "os.Exit", "log.Fatal", "log.Fatalf", "log.Fatalln", "runtime.Goexit":
					return false
				}
			}
		}
		return true
	}
}

// Run computes the fixpoint.
func (fl *Flow) Run() {
	fl.g = cfg.New(fl.Body, noReturnCall(fl.Pkg))
	fl.in = make([]StateSet, len(fl.g.Blocks))
	fl.commOf = map[ast.Node]*ast.SelectStmt{}
	fl.firstCom = map[*ast.SelectStmt]ast.Node{}
	fl.swOf = map[*ast.CaseClause]*ast.SwitchStmt{}
	fl.selOf = map[*ast.CommClause]*ast.SelectStmt{}
	fl.selNoCom = map[*ast.SelectStmt]bool{}
	ast.Inspect(fl.Body, func(n ast.Node) bool {
		switch x := n.(type) {
		case *ast.FuncLit:
			return false
		case *ast.SelectStmt:
			for _, c := range x.Body.List {
				cc := c.(*ast.CommClause)
				fl.selOf[cc] = x
				if cc.Comm != nil {
					fl.commOf[cc.Comm] = x
					if fl.firstCom[x] == nil {
						fl.firstCom[x] = cc.Comm
					}
				}
			}
			if fl.firstCom[x] == nil {
				fl.selNoCom[x] = true
			}
		case *ast.SwitchStmt:
			for _, c := range x.Body.List {
				fl.swOf[c.(*ast.CaseClause)] = x
			}
		}
		return true
	})
	if len(fl.g.Blocks) == 0 {
		return
	}
	fl.in[0] = fl.Init
	work := []int{0}
	inWork := map[int]bool{0: true}
	for len(work) > 0 {
		bi := work[0]
		work = work[1:]
		inWork[bi] = false
		b := fl.g.Blocks[bi]
		outs := fl.blockOut(b, fl.in[bi], nil)
		for si, succ := range b.Succs {
			ns := outs[si]
			idx := int(succ.Index)
			if ns|fl.in[idx] != fl.in[idx] {
				fl.in[idx] |= ns
				if !inWork[idx] {
					inWork[idx] = true
					work = append(work, idx)
				}
			}
		}
	}
}

func (fl *Flow) apply(f func(int) StateSet, ss StateSet) StateSet {
	var out StateSet
	for _, s := range statesOf(ss) {
		out |= f(s)
	}
	return out
}

// blockOut pushes the in-set through the block's nodes and returns one set
// per successor. visit (optional) sees the state set before every node.
func (fl *Flow) blockOut(b *cfg.Block, in StateSet, visit func(n ast.Node, before StateSet)) []StateSet {
	cur := in
	// entering a select arm
	if b.Kind == cfg.KindSelectCaseBody {
		if cc, ok := b.Stmt.(*ast.CommClause); ok && fl.Arm != nil {
			sel := fl.selOf[cc]
			cur = fl.apply(func(s int) StateSet { return fl.Arm(sel, cc, s) }, cur)
		}
	}
	nodes := b.Nodes
	var cond ast.Expr
	if len(b.Succs) == 2 && len(nodes) > 0 {
		if e, ok := nodes[len(nodes)-1].(ast.Expr); ok {
			cond = e
		}
	}
	for _, n := range nodes {
		if sel, isComm := fl.commOf[n]; isComm {
			if fl.firstCom[sel] == n {
				if visit != nil {
					visit(sel, cur)
				}
				if fl.SelectHead != nil {
					cur = fl.apply(func(s int) StateSet { return fl.SelectHead(sel, s) }, cur)
				}
			}
			continue // the comm itself takes effect when its arm is entered
		}
		if visit != nil {
			visit(n, cur)
		}
		if fl.Node != nil {
			cur = fl.apply(func(s int) StateSet { return fl.Node(n, s) }, cur)
		}
	}
	outs := make([]StateSet, len(b.Succs))
	for i := range outs {
		outs[i] = cur
	}
	if len(b.Succs) == 2 {
		s0 := b.Succs[0]
		switch {
		case s0.Kind == cfg.KindSwitchCaseBody && cond != nil:
			if cc, ok := s0.Stmt.(*ast.CaseClause); ok && fl.Case != nil {
				if sw := fl.swOf[cc]; sw != nil {
					// the case expression belongs to cc only if listed there
					listed := false
					for _, e := range cc.List {
						if e == cond {
							listed = true
						}
					}
					if listed {
						tag := sw.Tag
						outs[0] = fl.apply(func(s int) StateSet { return fl.Case(tag, cond, true, s) }, cur)
						outs[1] = fl.apply(func(s int) StateSet { return fl.Case(tag, cond, false, s) }, cur)
					}
				}
			}
		case s0.Kind == cfg.KindSelectCaseBody:
			// arm dispatch, no condition
		case cond != nil && fl.Cond != nil:
			outs[0] = fl.apply(func(s int) StateSet { return fl.condDeep(cond, true, s) }, cur)
			outs[1] = fl.apply(func(s int) StateSet { return fl.condDeep(cond, false, s) }, cur)
		}
	}
	return outs
}

// Visit replays the fixpoint: visit sees every node of every live block
// with the set of states that may hold just before it; exit sees the
// states at every function exit (return statements and falling off the end).
func (fl *Flow) Visit(visit func(n ast.Node, before StateSet), exit func(pos token.Pos, ss StateSet, ret *ast.ReturnStmt)) {
	for _, b := range fl.g.Blocks {
		if !b.Live || fl.in[b.Index] == 0 {
			continue
		}
		var last ast.Node
		var lastSet StateSet
		outs := fl.blockOut(b, fl.in[b.Index], func(n ast.Node, before StateSet) {
			if visit != nil {
				visit(n, before)
			}
			last, lastSet = n, before
		})
		if exit == nil {
			continue
		}
		if len(b.Succs) == 0 {
			if ret, ok := last.(*ast.ReturnStmt); ok {
				// states before the return statement, pushed through it
				ss := lastSet
				if fl.Node != nil {
					ss = fl.apply(func(s int) StateSet { return fl.Node(ret, s) }, lastSet)
				}
				exit(ret.Pos(), ss, ret)
			} else {
				// fell off the end (or a no-return call)
				cur := fl.in[b.Index]
				for _, n := range b.Nodes {
					if _, isComm := fl.commOf[n]; isComm {
						continue
					}
					if fl.Node != nil {
						cur = fl.apply(func(s int) StateSet { return fl.Node(n, s) }, cur)
					}
				}
				if es, ok := last.(*ast.ExprStmt); ok {
					if call, ok := es.X.(*ast.CallExpr); ok && !noReturnCall(fl.Pkg)(call) {
						continue
					}
				}
				exit(fl.Body.Rbrace, cur, nil)
			}
		}
		_ = outs
	}
}

// callsInNode lists the call expressions evaluated by a node, inner first,
// not descending into function literals.
func callsInNode(n ast.Node) []*ast.CallExpr {
	var out []*ast.CallExpr
	var walk func(n ast.Node)
	walk = func(n ast.Node) {
		ast.Inspect(n, func(x ast.Node) bool {
			switch y := x.(type) {
			case *ast.FuncLit:
				return false
			case *ast.CallExpr:
				for _, a := range y.Args {
					walk(a)
				}
				walk(y.Fun)
				out = append(out, y)
				return false
			}
			return true
		})
	}
	// Compound statements appear in the CFG only through their parts, but
	// be defensive: never descend into nested blocks.
	switch s := n.(type) {
	case *ast.BlockStmt, *ast.IfStmt, *ast.ForStmt, *ast.RangeStmt, *ast.SwitchStmt, *ast.SelectStmt, *ast.TypeSwitchStmt:
		_ = s
		return nil
	case *ast.DeferStmt:
		return nil // runs at exit
	case *ast.GoStmt:
		for _, a := range s.Call.Args {
			walk(a)
		}
		return out
	}
	walk(n)
	return out
}

// funcName names the callee of a syntactic call: "pkgpath.F",
// "(pkgpath.T).M" or "" (through types.Info).
func funcFullName(pkg *packages.Package, call *ast.CallExpr) string {
	if fn := calleeObj(pkg, call); fn != nil {
		return fn.FullName()
	}
	// conversion or builtin or func value
	switch f := ast.Unparen(call.Fun).(type) {
	case *ast.Ident:
		if _, ok := pkg.TypesInfo.Uses[f].(*types.Builtin); ok {
			return "builtin." + f.Name
		}
	}
	return ""
}

// condDeep refines a state by a branch condition, decomposing !, && and ||
// (go/cfg keeps a short-circuit condition as one node): the client's Cond
// callback only ever sees the atomic tests.
func (fl *Flow) condDeep(cond ast.Expr, branch bool, s int) StateSet {
	cond = ast.Unparen(cond)
	switch x := cond.(type) {
	case *ast.UnaryExpr:
		if x.Op == token.NOT {
			return fl.condDeep(x.X, !branch, s)
		}
	case *ast.BinaryExpr:
		then := func(ss StateSet, e ast.Expr, br bool) StateSet {
			var out StateSet
			for _, st := range statesOf(ss) {
				out |= fl.condDeep(e, br, st)
			}
			return out
		}
		switch x.Op {
		case token.LOR:
			if !branch { // both false
				return then(fl.condDeep(x.X, false, s), x.Y, false)
			}
			return fl.condDeep(x.X, true, s) | then(fl.condDeep(x.X, false, s), x.Y, true)
		case token.LAND:
			if branch { // both true
				return then(fl.condDeep(x.X, true, s), x.Y, true)
			}
			return fl.condDeep(x.X, false, s) | then(fl.condDeep(x.X, true, s), x.Y, false)
		}
	}
	return fl.Cond(cond, branch, s)
}
