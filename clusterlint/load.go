package main

import (
	"fmt"
	"go/ast"
	"go/token"
	"go/types"
	"os"
	"sort"
	"strings"
	"time"

	"golang.org/x/tools/go/callgraph"
	"golang.org/x/tools/go/callgraph/cha"
	"golang.org/x/tools/go/callgraph/vta"
	"golang.org/x/tools/go/packages"
	"golang.org/x/tools/go/ssa"
	"golang.org/x/tools/go/ssa/ssautil"
)

// ModPath is the module path of the repository under analysis.
const ModPath = "github.com/ipfs/ipfs-cluster"

// Program is everything the rules look at: the type-checked syntax of all
// packages, the SSA form of the whole program and the VTA call graph.
type Program struct {
	Fset       *token.FileSet
	All        map[string]*packages.Package // every package, by path
	Repo       []*packages.Package          // packages of the repository, sorted by path
	SSA        *ssa.Program
	CG         *callgraph.Graph
	DepErrs    []string // type errors outside the repository (tolerated, recorded)
	Timings    map[string]float64
	NumFuncs   int // repository functions with SSA bodies
	WithCG     bool
	Renames    []Rename // unexported identifiers spelled back to their reference names (see rename.go)
	RenameNote string
}

// brokenf reports a failure of the machinery itself (not a violation).
func brokenf(format string, args ...interface{}) {
	fmt.Printf("BROKEN: "+format+"\n", args...)
	os.Exit(2)
}

func isRepoPath(p string) bool {
	return p == ModPath || strings.HasPrefix(p, ModPath+"/") || p == controlsPath
}

// Load type-checks ./... in dir and builds SSA for the whole program.
// ssautil.AllPackages is deliberately not used: it silently skips every
// package that is transitively ill-typed, which here is exactly the root
// package, api/rest, cmdutils and the daemons (they import quic-go, whose
// qtls package has a deliberate type error on this toolchain).
func Load(dir string, withTests bool, withCG bool) *Program {
	p := &Program{All: map[string]*packages.Package{}, Timings: map[string]float64{}, WithCG: withCG}
	t0 := time.Now()
	env := append(os.Environ(), "GOFLAGS=-mod=mod", "GOPROXY=off", "GOSUMDB=off", "GOTOOLCHAIN=local", "GOWORK=off")
	cfg := &packages.Config{
		Fset:  token.NewFileSet(),
		Mode:  packages.LoadAllSyntax | packages.NeedModule,
		Dir:   dir,
		Env:   env,
		Tests: withTests,
	}
	initial, err := packages.Load(cfg, "./...")
	if err != nil {
		brokenf("packages.Load: %v", err)
	}
	if len(initial) == 0 {
		brokenf("no packages loaded from %s", dir)
	}
	// rename normalisation (rename.go): when unexported identifiers were
	// renamed with respect to the reference table, analyse the
	// alpha-equivalent program that spells them the old way
	if os.Getenv("CLUSTERLINT_NO_RENAME") == "" {
		var repoPkgs []*packages.Package
		packages.Visit(initial, nil, func(pkg *packages.Package) {
			if isRepoPath(pkg.PkgPath) && pkg.PkgPath != controlsPath && !strings.HasSuffix(pkg.ID, ".test") && len(pkg.Errors) == 0 {
				repoPkgs = append(repoPkgs, pkg)
			}
		})
		if rs := detectRenames(repoPkgs); len(rs) > 0 {
			pos := renamePositions(cfg.Fset, repoPkgs, rs)
			cfg2 := &packages.Config{Fset: token.NewFileSet(), Mode: cfg.Mode, Dir: dir, Env: env, Tests: withTests, ParseFile: renamingParser(pos)}
			initial2, err2 := packages.Load(cfg2, "./...")
			bad := ""
			if err2 != nil {
				bad = err2.Error()
			} else {
				packages.Visit(initial2, nil, func(pkg *packages.Package) {
					if isRepoPath(pkg.PkgPath) && !strings.HasSuffix(pkg.ID, ".test") && len(pkg.Errors) > 0 && bad == "" {
						bad = pkg.PkgPath + ": " + pkg.Errors[0].Msg
					}
				})
			}
			if bad == "" {
				initial, cfg = initial2, cfg2
				p.Renames = rs
			} else {
				p.RenameNote = fmt.Sprintf("%d renamed identifiers detected but the normalised program does not type-check (%s): analysed as written", len(rs), bad)
			}
		}
	}
	p.Fset = cfg.Fset
	p.Timings["load_s"] = time.Since(t0).Seconds()

	var order []*packages.Package // dependency order (post-order)
	packages.Visit(initial, nil, func(pkg *packages.Package) {
		order = append(order, pkg)
		if _, dup := p.All[pkg.ID]; !dup {
			p.All[pkg.ID] = pkg
		}
	})
	repoErr := 0
	for _, pkg := range order {
		inRepo := isRepoPath(pkg.PkgPath) && !strings.HasSuffix(pkg.ID, ".test")
		for _, e := range pkg.Errors {
			if inRepo {
				repoErr++
				fmt.Printf("BROKEN: type/load error in repository package %s: %s\n", pkg.PkgPath, e)
			} else {
				p.DepErrs = append(p.DepErrs, fmt.Sprintf("%s: %s", pkg.PkgPath, e.Msg))
			}
		}
		if inRepo && (!withTests || !strings.Contains(pkg.ID, "[")) && !strings.HasSuffix(pkg.PkgPath, "_test") {
			if len(pkg.GoFiles) == 0 {
				continue // test-only directory (pintracker)
			}
			if pkg.Types == nil || pkg.TypesInfo == nil || len(pkg.Syntax) == 0 {
				brokenf("repository package %s has no syntax/types", pkg.PkgPath)
			}
			p.Repo = append(p.Repo, pkg)
		}
	}
	if repoErr > 0 {
		os.Exit(2)
	}
	sort.Slice(p.Repo, func(i, j int) bool { return p.Repo[i].ID < p.Repo[j].ID })
	if len(p.Repo) < 39 {
		brokenf("only %d repository packages loaded (expected >= 39)", len(p.Repo))
	}

	// SSA
	t1 := time.Now()
	func() {
		defer func() {
			if r := recover(); r != nil {
				brokenf("SSA construction panicked: %v", r)
			}
		}()
		prog := ssa.NewProgram(cfg.Fset, ssa.InstantiateGenerics)
		created := map[*types.Package]bool{}
		for _, pkg := range order {
			if pkg.Types == nil || created[pkg.Types] {
				continue
			}
			// With Tests:true the same path appears as several variants;
			// each variant has its own *types.Package.
			created[pkg.Types] = true
			if len(pkg.Errors) == 0 && pkg.TypesInfo != nil && len(pkg.Syntax) > 0 {
				prog.CreatePackage(pkg.Types, pkg.Syntax, pkg.TypesInfo, true)
			} else {
				prog.CreatePackage(pkg.Types, nil, nil, true)
			}
		}
		prog.Build()
		p.SSA = prog
	}()
	for _, pkg := range p.Repo {
		if p.SSA.Package(pkg.Types) == nil {
			brokenf("no SSA package for %s", pkg.PkgPath)
		}
	}
	p.RepoFuncs(func(f *ssa.Function) { p.NumFuncs++ })
	if p.NumFuncs < 1000 {
		brokenf("only %d repository functions have SSA bodies", p.NumFuncs)
	}
	p.Timings["ssa_s"] = time.Since(t1).Seconds()

	if withCG {
		t2 := time.Now()
		func() {
			defer func() {
				if r := recover(); r != nil {
					brokenf("call graph construction panicked: %v", r)
				}
			}()
			all := ssautil.AllFunctions(p.SSA)
			// AllFunctions skips methods of unexported types that nothing
			// references; every repository function must be a node
			p.RepoFuncs(func(f *ssa.Function) { all[f] = true })
			p.CG = vta.CallGraph(all, cha.CallGraph(p.SSA))
		}()
		p.Timings["vta_s"] = time.Since(t2).Seconds()
		buildParamAlias(p)
	}
	return p
}

// paramAlias maps the parameters of single-caller helpers to the arguments
// of their only call site. An unexported function or method that is called
// from exactly one place (one static call site, no other edge in the call
// graph: not used as a value, not reached dynamically) is an extracted piece
// of its caller: inside it, a parameter *is* the caller's argument. strip()
// follows these aliases, so that guards, provenance and field/const tests
// written against the caller's values keep working when a few lines are
// moved into such a helper (or were written that way in the first place).
var paramAlias = map[*ssa.Parameter]ssa.Value{}

// singleCallSite: helper -> its only call site.
var singleCallSite = map[*ssa.Function]ssa.CallInstruction{}

func buildParamAlias(p *Program) {
	paramAlias = map[*ssa.Parameter]ssa.Value{}
	singleCallSite = map[*ssa.Function]ssa.CallInstruction{}
	derivedMemo = map[derivedKey][]Guard{}
	if p.CG == nil {
		return
	}
	p.RepoFuncs(func(g *ssa.Function) {
		if g.Parent() != nil || g.Object() == nil || g.Object().Exported() || g.Synthetic != "" {
			return
		}
		if g.Pkg == nil || strings.HasPrefix(g.Pkg.Pkg.Path(), ModPath+"/test") {
			return
		}
		n := p.CG.Nodes[g]
		if n == nil {
			return
		}
		// promoted-method wrappers of embedding types that nothing calls
		// are not callers (BatchingState embeds *State: every method of
		// State has such a wrapper)
		var in []*callgraph.Edge
		for _, e := range n.In {
			if e.Caller != nil && e.Caller.Func != nil && e.Caller.Func.Synthetic != "" && len(e.Caller.In) == 0 {
				continue
			}
			in = append(in, e)
		}
		if len(in) != 1 {
			return
		}
		e := in[0]
		if e.Site == nil || e.Site.Common().StaticCallee() != g || e.Caller.Func == g {
			return
		}
		if _, isGo := e.Site.(*ssa.Go); isGo {
			return // runs concurrently with the caller: not "a piece of it"
		}
		if _, isDefer := e.Site.(*ssa.Defer); isDefer {
			return
		}
		args := e.Site.Common().Args
		if len(args) != len(g.Params) {
			return
		}
		singleCallSite[g] = e.Site
		for i, prm := range g.Params {
			paramAlias[prm] = args[i]
		}
	})
}

// Pkg returns the repository package with the given path relative to the
// module ("" is the root package), or nil.
func (p *Program) Pkg(rel string) *packages.Package {
	path := ModPath
	if rel != "" {
		path = ModPath + "/" + rel
	}
	for _, pkg := range p.Repo {
		if pkg.PkgPath == path && pkg.ID == path {
			return pkg
		}
	}
	for _, pkg := range p.Repo {
		if pkg.PkgPath == path {
			return pkg
		}
	}
	return nil
}

// SSAPkg returns the SSA package for a repository-relative path.
func (p *Program) SSAPkg(rel string) *ssa.Package {
	pkg := p.Pkg(rel)
	if pkg == nil {
		return nil
	}
	return p.SSA.Package(pkg.Types)
}

// Func finds a function or method by package (relative path) and name.
// name is "F" for a function, "T.M" for a method on T or *T.
func (p *Program) Func(rel, name string) *ssa.Function {
	sp := p.SSAPkg(rel)
	if sp == nil {
		return nil
	}
	if i := strings.Index(name, "."); i >= 0 {
		tn, mn := name[:i], name[i+1:]
		t := sp.Type(tn)
		if t == nil {
			return nil
		}
		named := t.Type()
		for _, typ := range []types.Type{types.NewPointer(named), named} {
			sel := p.SSA.MethodSets.MethodSet(typ).Lookup(sp.Pkg, mn)
			if sel != nil {
				if f := p.SSA.MethodValue(sel); f != nil && f.Synthetic == "" {
					return f
				}
			}
		}
		// unexported or wrapper: look it up again accepting synthetic
		for _, typ := range []types.Type{types.NewPointer(named), named} {
			sel := p.SSA.MethodSets.MethodSet(typ).Lookup(sp.Pkg, mn)
			if sel != nil {
				if f := p.SSA.MethodValue(sel); f != nil {
					return f
				}
			}
		}
		return nil
	}
	return sp.Func(name)
}

// FuncDecl finds the syntax of a function or method ("F" or "T.M").
func (p *Program) FuncDecl(rel, name string) (*ast.FuncDecl, *packages.Package) {
	pkg := p.Pkg(rel)
	if pkg == nil {
		return nil, nil
	}
	tn, mn := "", name
	if i := strings.Index(name, "."); i >= 0 {
		tn, mn = name[:i], name[i+1:]
	}
	for _, f := range pkg.Syntax {
		for _, d := range f.Decls {
			fd, ok := d.(*ast.FuncDecl)
			if !ok || fd.Name.Name != mn {
				continue
			}
			if tn == "" && fd.Recv == nil {
				return fd, pkg
			}
			if tn != "" && fd.Recv != nil && len(fd.Recv.List) == 1 && recvTypeName(fd.Recv.List[0].Type) == tn {
				return fd, pkg
			}
		}
	}
	return nil, pkg
}

func recvTypeName(e ast.Expr) string {
	for {
		switch x := e.(type) {
		case *ast.StarExpr:
			e = x.X
		case *ast.ParenExpr:
			e = x.X
		case *ast.IndexExpr:
			e = x.X
		case *ast.Ident:
			return x.Name
		default:
			return ""
		}
	}
}

// Pos renders a position relative to the repository root.
func (p *Program) Pos(pos token.Pos) string {
	if !pos.IsValid() {
		return "-"
	}
	ps := p.Fset.Position(pos)
	f := ps.Filename
	if i := strings.Index(f, "/pkg/mod/"); i >= 0 {
		f = "(dep)" + f[i+len("/pkg/mod/"):]
	} else if repoRoot != "" && strings.HasPrefix(f, repoRoot+"/") {
		f = f[len(repoRoot)+1:]
	}
	return fmt.Sprintf("%s:%d", f, ps.Line)
}

var repoRoot string

// RepoFuncs calls fn for every function (incl. methods and closures) with a
// body that is declared in a repository package.
func (p *Program) RepoFuncs(fn func(f *ssa.Function)) {
	var visit func(f *ssa.Function)
	visit = func(f *ssa.Function) {
		if f.Blocks == nil {
			return
		}
		fn(f)
		for _, a := range f.AnonFuncs {
			visit(a)
		}
	}
	for _, pkg := range p.Repo {
		sp := p.SSA.Package(pkg.Types)
		var names []string
		for n := range sp.Members {
			names = append(names, n)
		}
		sort.Strings(names)
		for _, n := range names {
			switch m := sp.Members[n].(type) {
			case *ssa.Function:
				if m.Synthetic == "" || m.Name() == "init" {
					visit(m)
				}
			case *ssa.Type:
				named, ok := m.Type().(*types.Named)
				if !ok {
					continue
				}
				for i := 0; i < named.NumMethods(); i++ {
					if f := p.SSA.FuncValue(named.Method(i)); f != nil {
						visit(f)
					}
				}
			}
		}
	}
}
