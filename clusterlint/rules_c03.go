package main

import (
	"fmt"
	"go/constant"
	"go/token"
	"go/types"
	"sort"
	"strings"

	"golang.org/x/tools/go/ssa"
)

func init() {
	register(
		&Rule{ID: "R03.1", Props: []string{"C03", "C04"}, Floor: 3, Title: "allocate(): every metric entering the current/candidate/priority sets passed the exclusion-list test; current holders are recognised first, then priority peers", Run: r031},
		&Rule{ID: "R03.2", Props: []string{"C03"}, Floor: 5, Title: "candidate provenance: the three sets are filled only from the monitor's latest valid metrics and handed to obtainAllocations/the allocator in the right slots; the result is built from them only", Run: r032},
		&Rule{ID: "R03.3", Props: []string{"C03", "C04"}, Floor: 2, Title: "replication factors are validated (setupPin) before every allocation", Run: r033},
		&Rule{ID: "R03.4", Props: []string{"C03"}, Floor: 2, Title: "replication factor -1 yields an empty, non-nil allocation list without consulting monitor or allocator; 0/0 is refused", Run: r034},
		&Rule{ID: "R03.5", Props: []string{"C03"}, Floor: 6, Title: "allocator siblings: priority peers first, one sort direction per allocator (opposite between the two), sorter skips discarded and non-numeric metrics and orders by the flag", Run: r035},
	)
}

func derivesFromCall(v ssa.Value, depth int, pats ...string) bool {
	if depth < 0 || v == nil {
		return false
	}
	if call, _ := originCall(v); call != nil {
		if nameMatches(callName(call.Common()), pats...) {
			return true
		}
	}
	switch x := v.(type) {
	case *ssa.UnOp:
		return derivesFromCall(x.X, depth-1, pats...)
	case *ssa.IndexAddr:
		return derivesFromCall(x.X, depth-1, pats...)
	case *ssa.Index:
		return derivesFromCall(x.X, depth-1, pats...)
	case *ssa.Extract:
		return derivesFromCall(x.Tuple, depth-1, pats...)
	case *ssa.Next:
		return derivesFromCall(x.Iter, depth-1, pats...)
	case *ssa.Range:
		return derivesFromCall(x.X, depth-1, pats...)
	case *ssa.Slice:
		return derivesFromCall(x.X, depth-1, pats...)
	case *ssa.FieldAddr:
		return derivesFromCall(x.X, depth-1, pats...)
	case *ssa.Field:
		return derivesFromCall(x.X, depth-1, pats...)
	case *ssa.ChangeType:
		return derivesFromCall(x.X, depth-1, pats...)
	case *ssa.Phi:
		for _, e := range x.Edges {
			if derivesFromCall(e, depth-1, pats...) {
				return true
			}
		}
	}
	return false
}

func r031(c *Ctx, r *R) {
	f := c.fn(r, "", "Cluster.allocate")
	if f == nil {
		return
	}
	const pBlack, pPrio = 6, 7
	oa := findCalls(f, false, ModPath+".Cluster).obtainAllocations")
	if len(oa) != 1 {
		r.Und("obtainAllocations", f.Pos(), "%d obtainAllocations calls", len(oa))
		return
	}
	oargs := callArgs(oa[0].Common())
	slot := map[ssa.Value]string{}
	if len(oargs) == 7 {
		slot[oargs[4]] = "current"
		slot[oargs[5]] = "candidates"
		slot[oargs[6]] = "priority"
	}
	containsOn := func(g Guard, want bool, sel func(ssa.Value) bool) bool {
		call, _ := originCall(g.Cond)
		if call == nil || g.Branch != want || !nameMatches(callName(call.Common()), ModPath+".containsPeer") {
			return false
		}
		return sel(call.Common().Args[0])
	}
	isBlack := func(v ssa.Value) bool { return paramIndex(f, v) == pBlack }
	isPrio := func(v ssa.Value) bool { return paramIndex(f, v) == pPrio }
	isCurrent := func(v ssa.Value) bool { // currentPin.Allocations (phi with nil)
		for _, l := range phiLeaves(strip(v)) {
			if fl, _ := fieldLoad(l); fl != nil && fl.Name() == "Allocations" {
				return true
			}
		}
		return false
	}
	// a set may also travel as a field of a small struct filled by a helper
	// (`split := splitMetrics(...); obtainAllocations(..., split.current,
	// ...)`): then the set is that field, wherever it is written
	slotFld := map[*types.Var]string{}
	for v, name := range slot {
		if fl, _ := fieldLoad(v); fl != nil {
			slotFld[fl] = name
		}
	}
	n := 0
	instrsDeep(f, func(i ssa.Instruction) {
		mu, ok := i.(*ssa.MapUpdate)
		if !ok {
			return
		}
		s := slot[mu.Map]
		if s == "" {
			if fl, _ := fieldLoad(mu.Map); fl != nil {
				s = slotFld[fl]
			}
		}
		if s == "" {
			return
		}
		n++
		b := mu.Block()
		notBlack := guardedBy(b, func(g Guard) bool { return containsOn(g, false, isBlack) })
		r.Check(notBlack, "excluded-first:"+s, mu.Pos(), "metrics enter the "+s+" set only after the exclusion-list test failed", "a metric can enter the "+s+" set without (or before) the exclusion-list test: an excluded (failed/removed) peer can be allocated")
		switch s {
		case "current":
			r.Check(guardedBy(b, func(g Guard) bool { return containsOn(g, true, isCurrent) }), "class:current", mu.Pos(), "current set = peers in the pin's current allocations", "the current set is not filled under containsPeer(currentAllocs, peer)")
		case "priority":
			r.Check(guardedBy(b, func(g Guard) bool { return containsOn(g, true, isPrio) }) && guardedBy(b, func(g Guard) bool { return containsOn(g, false, isCurrent) }), "class:priority", mu.Pos(),
				"priority set = user-requested peers that are not current holders", "the priority set is not filled under containsPeer(prioritylist) && !containsPeer(currentAllocs)")
		case "candidates":
			r.Check(guardedBy(b, func(g Guard) bool { return containsOn(g, false, isPrio) }) && guardedBy(b, func(g Guard) bool { return containsOn(g, false, isCurrent) }), "class:candidates", mu.Pos(),
				"candidate set = everyone else", "the candidate set also receives current holders or priority peers (a peer could be listed twice)")
		}
		// key is the metric's own peer, value the metric
		kf, kb := fieldLoad(mu.Key)
		r.Check(kf != nil && kf.Name() == "Peer" && strip(kb) == strip(mu.Value), "keyed-by-peer:"+s, mu.Pos(), "entries are keyed by the metric's own peer", "a metric is stored under a key other than its own peer")
	})
	if n < 3 {
		r.Bad("sets", f.Pos(), "only %d of the three metric sets are filled in allocate()", n)
	}
}

func r032(c *Ctx, r *R) {
	f := c.fn(r, "", "Cluster.allocate")
	if f == nil {
		return
	}
	n := 0
	instrsDeep(f, func(i ssa.Instruction) {
		mu, ok := i.(*ssa.MapUpdate)
		if !ok {
			return
		}
		// a metric set: a map made here, or kept in a field of a small
		// struct that carries the sets out of a helper
		if _, isMM := mu.Map.(*ssa.MakeMap); !isMM {
			fl, _ := fieldLoad(mu.Map)
			if fl == nil || !strings.HasSuffix(mu.Map.Type().String(), "api.Metric") {
				return
			}
		}
		n++
		r.Check(derivesFromCall(mu.Value, 8, ModPath+".PeerMonitor).LatestMetrics"), fmt.Sprintf("from-monitor#%d", n), mu.Pos(),
			"the stored metric is an element of monitor.LatestMetrics()", "a metric set is filled from something other than the monitor's latest valid metrics (e.g. the consensus peerset): peers without a valid unexpired metric become allocatable")
	})
	if n == 0 {
		r.Und("sets", f.Pos(), "no metric set is filled in allocate()")
	}
	// allocate's result: obtainAllocations' result or the current allocations
	okRes := true
	for _, lf := range returnLeaves(f, 0) {
		v := lf.Val
		if isNilConst(v) {
			continue
		}
		if call, idx := originCall(v); call != nil && idx == 0 && nameMatches(callName(call.Common()), ModPath+".Cluster).obtainAllocations") {
			continue
		}
		if fl, _ := fieldLoad(v); fl != nil && fl.Name() == "Allocations" {
			continue
		}
		if _, ok := v.(*ssa.MakeSlice); ok {
			continue
		}
		if sl, ok := v.(*ssa.Slice); ok {
			if _, ok := sl.X.(*ssa.Alloc); ok {
				continue // []peer.ID{} literal
			}
		}
		okRes = false
		r.Bad("allocate:result", lf.Pos, "allocate returns %s, which is neither obtainAllocations' result nor the current allocations nor an empty list", v)
	}
	if okRes {
		r.OK("allocate:result", f.Pos(), "allocate returns obtainAllocations' result, the current allocations or an empty list")
	}
	// obtainAllocations hands its three sets to the allocator in order
	g := c.fn(r, "", "Cluster.obtainAllocations")
	if g == nil {
		return
	}
	al := findCalls(g, false, ModPath+".PinAllocator).Allocate")
	if len(al) != 1 {
		r.Bad("allocator-call", g.Pos(), "obtainAllocations has %d allocator calls", len(al))
		return
	}
	a := callArgs(al[0].Common())
	okSlots := len(a) == 5 && paramIndex(g, a[2]) == 5 && paramIndex(g, a[3]) == 6 && paramIndex(g, a[4]) == 7
	r.Check(okSlots, "allocator-slots", al[0].Pos(), "the allocator receives (current, candidates, priority) in that order", "the allocator receives the metric sets in the wrong slots (priority and candidates swapped?)")
	// result built from validAllocations (keys of current) and the allocator's list
	okBuild := true
	for _, lf := range returnLeaves(g, 0) {
		v := lf.Val
		if isNilConst(v) {
			continue
		}
		if !resultFromAllowed(g, v, al[0].(ssa.Value), 8) {
			okBuild = false
			r.Bad("obtain:result", lf.Pos, "obtainAllocations returns a list not built from the valid current holders and the allocator's answer: %s", v)
		}
	}
	if okBuild {
		r.OK("obtain:result", g.Pos(), "the result is built only from the keys of the valid current set and the allocator's answer")
	}
	// not-enough-candidates is an error
	okErr := false
	for _, ret := range returnsOf(g) {
		if len(ret.Results) == 2 && isNilConst(retResult(ret, 0)) && !isNilConst(retResult(ret, 1)) {
			if call, _ := originCall(retResult(ret, 1)); call != nil && nameMatches(callName(call.Common()), ModPath+".allocationError") {
				okErr = true
			}
		}
	}
	r.Check(okErr, "obtain:not-enough-is-error", g.Pos(), "too few healthy candidates is reported as an error with no allocation", "obtainAllocations no longer fails when there are fewer candidates than needed")
}

// resultFromAllowed: v derives only from appends/slices over (a) a slice
// filled with range keys of parameter 5 (current valid metrics) and (b) the
// allocator call's result.
var rfaSeen = map[ssa.Value]bool{}

func resultFromAllowed(f *ssa.Function, v ssa.Value, alloc ssa.Value, depth int) bool {
	if depth < 0 {
		return false
	}
	if _, isPhi := v.(*ssa.Phi); isPhi {
		if rfaSeen[v] {
			return true // coinductive: a loop-carried slice is fine if all its other inputs are
		}
		rfaSeen[v] = true
		defer delete(rfaSeen, v)
	}
	switch x := v.(type) {
	case *ssa.Slice:
		return resultFromAllowed(f, x.X, alloc, depth-1)
	case *ssa.Phi:
		for _, e := range x.Edges {
			if e == ssa.Value(x) {
				continue
			}
			if !resultFromAllowed(f, e, alloc, depth-1) {
				return false
			}
		}
		return true
	case *ssa.MakeSlice:
		return true
	case *ssa.Extract:
		return x.Tuple == alloc && x.Index == 0
	case *ssa.Call:
		// a helper that appends the keys of a metrics map to a list:
		// allowed when the list is and the map is the valid current set
		if h := x.Common().StaticCallee(); h != nil && h.Blocks != nil && callName(x.Common()) != "builtin.append" {
			if sp, mp, ok := keysAppender(h); ok && sp < len(x.Common().Args) && mp < len(x.Common().Args) {
				return resultFromAllowed(f, x.Common().Args[sp], alloc, depth-1) && paramIndex(f, x.Common().Args[mp]) == 5
			}
			return false
		}
		if callName(x.Common()) == "builtin.append" {
			a := x.Common().Args
			if !resultFromAllowed(f, a[0], alloc, depth-1) {
				return false
			}
			if len(a) > 1 {
				// appended slice: either the allocator's (sub)slice or a
				// one-element slice holding a range key of param 5
				if resultFromAllowed(f, a[1], alloc, depth-1) {
					return true
				}
				for _, el := range variadicElems(a[1]) {
					if !keyOfParam(f, el, 5, 6) {
						return false
					}
				}
				return len(variadicElems(a[1])) > 0
			}
			return true
		}
	}
	return false
}

// keyOfParam: v is the key produced by ranging over map parameter idx.
func keyOfParam(f *ssa.Function, v ssa.Value, idx int, depth int) bool {
	if depth < 0 {
		return false
	}
	switch x := v.(type) {
	case *ssa.Extract:
		if nx, ok := x.Tuple.(*ssa.Next); ok && x.Index == 1 {
			if rg, ok := nx.Iter.(*ssa.Range); ok {
				return paramIndex(f, rg.X) == idx
			}
		}
	case *ssa.ChangeType:
		return keyOfParam(f, x.X, idx, depth-1)
	}
	return false
}

func r033(c *Ctx, r *R) {
	al := c.fn(r, "", "Cluster.allocate")
	if al == nil {
		return
	}
	sites, esc := c.callSitesOf(al)
	if esc {
		r.Und("allocate:escapes", al.Pos(), "allocate is used as a value: its callers cannot be enumerated")
	}
	for _, s := range sites {
		ok := guardedBy(s.Block(), func(g Guard) bool { return gCallErrNil(g, ModPath+".Cluster).setupPin") })
		r.Check(ok, "validated-before-allocate:"+s.Parent().Name(), s.Pos(), "allocate() is reached only after setupPin validated the replication factors",
			s.Parent().Name()+" allocates without setupPin having succeeded: invalid factor pairs (min > max, 0, < -1) reach the arithmetic")
		// the factors passed are the validated pin's
		a := callArgs(s.Common())
		fmin, _ := fieldLoad(a[3])
		fmax, _ := fieldLoad(a[4])
		r.Check(fmin != nil && fmin.Name() == "ReplicationFactorMin" && fmax != nil && fmax.Name() == "ReplicationFactorMax", "factors-passed:"+s.Parent().Name(), s.Pos(),
			"min and max are passed in their slots", "replication factors are passed in the wrong slots")
	}
	// isReplicationFactorValid: shape of the validity predicate
	v := c.fn(r, "", "isReplicationFactorValid")
	if v != nil {
		// the predicate is evaluated on the SSA over a grid of factor
		// pairs and compared with what the property says is valid: both -1
		// (everywhere), or 1 <= min <= max. 0 means "unset" and must have
		// been replaced by a default before; below -1 is meaningless.
		// (Evaluation, not shape: if-chains, a switch or merged conditions
		// are all the same function.)
		bad := ""
		n := 0
		for mn := int64(-3); mn <= 4; mn++ {
			for mx := int64(-3); mx <= 4; mx++ {
				res, _, _ := ssaEval(v, bindParams(v, map[int]constant.Value{0: constant.MakeInt64(mn), 1: constant.MakeInt64(mx)}))
				if res == nil {
					bad += fmt.Sprintf(" (%d,%d): not evaluable", mn, mx)
					continue
				}
				n++
				accepted := isNilConst(res)
				want := (mn == -1 && mx == -1) || (mn >= 1 && mx >= mn)
				if accepted != want {
					bad += fmt.Sprintf(" (%d,%d): accepted=%v, should be %v;", mn, mx, accepted, want)
				}
			}
		}
		r.Check(bad == "" && n == 64, "validity:nil-after-all-tests", v.Pos(), fmt.Sprintf("isReplicationFactorValid accepts exactly the valid pairs on all %d grid points in [-3,4]x[-3,4]", n), "isReplicationFactorValid accepts an invalid pair or refuses a valid one:"+bad)
		r.Check(bad == "" && n == 64, "validity:clauses", v.Pos(), "no clause of the validity predicate is missing (grid evaluation)", "isReplicationFactorValid lost or gained a clause:"+bad)
	}
}

func r034(c *Ctx, r *R) {
	f := c.fn(r, "", "Cluster.allocate")
	if f == nil {
		return
	}
	found := false
	for _, ret := range returnsOf(f) {
		if len(ret.Results) != 2 || !isNilConst(retResult(ret, 1)) {
			continue
		}
		gs := guardsOf(ret.Block())
		minNeg, maxNeg := false, false
		for _, g := range gs {
			b, ok := g.Cond.(*ssa.BinOp)
			if !ok || !g.Branch || b.Op != token.LSS {
				continue
			}
			if k, ok := constInt(b.Y); !ok || k != 0 {
				continue
			}
			switch paramIndex(f, b.X) {
			case 4:
				minNeg = true
			case 5:
				maxNeg = true
			}
		}
		if !minNeg || !maxNeg {
			continue
		}
		found = true
		v := retResult(ret, 0)
		r.Check(!isNilConst(v), "everywhere:empty-non-nil", ret.Pos(), "factor -1 returns an empty (non-nil) list", "factor -1 returns nil: the caller substitutes the current allocations instead of 'everywhere'")
		// no monitor/allocator call dominates this return
		bad := false
		for _, ci := range findCalls(f, false, ModPath+".PeerMonitor).LatestMetrics", ModPath+".Cluster).obtainAllocations") {
			if ci.Block().Dominates(ret.Block()) {
				bad = true
			}
		}
		r.Check(!bad, "everywhere:no-allocation", ret.Pos(), "no metrics are consulted for 'everywhere'", "the 'everywhere' answer is computed after consulting metrics")
	}
	if !found {
		r.Bad("everywhere", f.Pos(), "allocate() has no early return for rplMin < 0 && rplMax < 0")
	}
	// 0/0 refused
	ok := false
	for _, ret := range returnsOf(f) {
		if len(ret.Results) == 2 && !isNilConst(retResult(ret, 1)) {
			for _, g := range guardsOf(ret.Block()) {
				if x, k, tme, isEq := eqConst(g.Cond); isEq && tme == g.Branch && constant.Sign(k) == 0 {
					if b, isB := x.(*ssa.BinOp); isB && b.Op == token.ADD {
						ok = true
					}
				}
			}
		}
	}
	r.Check(ok, "zero-factors-refused", f.Pos(), "replication factors 0/0 are refused", "allocate() no longer refuses unset (0/0) replication factors")
	// preset allocations (the adder fills them with the block
	// destinations) are dropped when the effective factor is -1: the
	// everywhere test guarding `pin.Allocations = nil` is evaluated after
	// the configured defaults replaced unset (0) factors, i.e. no store
	// to a replication factor field is reachable from the test.
	srf := c.fn(r, "", "Cluster.setupReplicationFactor")
	if srf == nil {
		return
	}
	var clears []*ssa.Store
	var factorStores []*ssa.Store
	instrs(srf, func(i ssa.Instruction) {
		st, ok := i.(*ssa.Store)
		if !ok {
			return
		}
		fa, ok := st.Addr.(*ssa.FieldAddr)
		if !ok {
			return
		}
		switch fieldOfAddr(fa).Name() {
		case "Allocations":
			if isNilConst(st.Val) {
				clears = append(clears, st)
			}
		case "ReplicationFactorMin", "ReplicationFactorMax":
			factorStores = append(factorStores, st)
		}
	})
	if len(clears) == 0 {
		r.Bad("everywhere:preset-cleared", srf.Pos(), "setupReplicationFactor no longer clears preset allocations for pin-everywhere pins: a pin with factor -1 is stored with a non-empty allocation list")
		return
	}
	for _, cl := range clears {
		var test *ssa.Call
		for _, g := range guardsOf(cl.Block()) {
			if gCall(g, true, "api.Pin).IsPinEverywhere", "api.PinOptions).IsPinEverywhere") {
				test, _ = originCall(g.Cond)
			}
		}
		if test == nil {
			r.Bad("everywhere:preset-cleared", cl.Pos(), "the clearing of preset allocations is not guarded by the pin's IsPinEverywhere()")
			continue
		}
		late := ""
		for _, fs := range factorStores {
			after := false
			if fs.Block() == test.Block() {
				after = dominatesInstr(test, fs)
			} else {
				after = blockReaches(test.Block(), fs.Block())
			}
			if after {
				late = c.P.Pos(fs.Pos())
			}
		}
		r.Check(late == "", "everywhere:preset-cleared", cl.Pos(), "preset allocations are cleared under IsPinEverywhere(), evaluated on the factors after defaults", "the everywhere test is evaluated before the default replication factor is applied (store at "+late+"): with a configured default of -1 and unset factors in the request, the preset allocations are kept and the pin is stored with factor -1 and a non-empty allocation list")
	}
}

func r035(c *Ctx, r *R) {
	// implementations of PinAllocator
	ipkg := c.P.Pkg("")
	if ipkg == nil {
		return
	}
	obj := ipkg.Types.Scope().Lookup("PinAllocator")
	if obj == nil {
		r.Und("PinAllocator", token.NoPos, "PinAllocator interface not found")
		return
	}
	iface, _ := obj.Type().Underlying().(*types.Interface)
	type impl struct {
		name string
		fn   *ssa.Function
	}
	var impls []impl
	for _, pkg := range c.P.Repo {
		if pkg.PkgPath == ModPath+"/test" {
			continue
		}
		for _, n := range pkg.Types.Scope().Names() {
			tn, ok := pkg.Types.Scope().Lookup(n).(*types.TypeName)
			if !ok {
				continue
			}
			if _, isI := tn.Type().Underlying().(*types.Interface); isI {
				continue
			}
			for _, t := range []types.Type{tn.Type(), types.NewPointer(tn.Type())} {
				if types.Implements(t, iface) {
					sel := c.P.SSA.MethodSets.MethodSet(t).Lookup(pkg.Types, "Allocate")
					if sel != nil {
						if fn := c.P.SSA.MethodValue(sel); fn != nil {
							for fn.Synthetic != "" && len(fn.Blocks) > 0 { // wrapper -> underlying
								var inner *ssa.Function
								for _, ci := range callsIn(fn) {
									if sc := ci.Common().StaticCallee(); sc != nil && sc.Name() == "Allocate" {
										inner = sc
									}
								}
								if inner == nil {
									break
								}
								fn = inner
							}
							impls = append(impls, impl{pkg.PkgPath + "." + n, fn})
						}
					}
					break
				}
			}
		}
	}
	sort.Slice(impls, func(i, j int) bool { return impls[i].name < impls[j].name })
	if len(impls) < 2 {
		r.Und("impls", token.NoPos, "found %d PinAllocator implementations (expected the two shipped strategies)", len(impls))
	}
	dirs := map[string]bool{}
	for _, im := range impls {
		f := im.fn
		short := im.name[len(ModPath)+1:]
		okShape := false
		// the values returned: as written (an accumulator filled by a loop
		// is one value), and otherwise each alternative
		var cands []ssa.Value
		for _, ret := range returnsOf(f) {
			if len(ret.Results) > 0 {
				raw := retResult(ret, 0)
				if _, _, ok := sortSegments(raw, map[*ssa.Parameter]ssa.Value{}, 0); ok {
					cands = append(cands, raw)
					continue
				}
			}
			for _, lf := range returnLeaves(f, 0) {
				if lf.Ret == ret {
					cands = append(cands, lf.Val)
				}
			}
		}
		for _, cv := range cands {
			// the result as a sequence of sorted segments, wherever the
			// concatenation is written (here or in a shared helper)
			segs, pos, ok := sortSegments(cv, map[*ssa.Parameter]ssa.Value{}, 0)
			if !ok || len(segs) != 2 {
				continue
			}
			first, last := segs[0], segs[1]
			okShape = true
			np := len(f.Params)
			prioFirst := paramIndex(f, first.set) == np-1 && paramIndex(f, last.set) == np-2
			r.Check(prioFirst, "priority-first:"+short, pos, "user-requested peers are listed before the other candidates", short+" does not put the priority peers first (candidates before priority, or a set used twice)")
			k1, ok1 := constOf(first.rev)
			k2, ok2 := constOf(last.rev)
			same := ok1 && ok2 && (k1 != nil && constant.BoolVal(k1)) == (k2 != nil && constant.BoolVal(k2))
			r.Check(same, "one-direction:"+short, pos, "both sorts use the same direction", short+" sorts priority peers and candidates in different directions")
			if same {
				dirs[short] = k1 != nil && constant.BoolVal(k1)
			}
		}
		if !okShape {
			r.Und("shape:"+short, f.Pos(), "%s.Allocate is not a concatenation of two SortNumeric results: shape not recognised", short)
		}
	}
	if len(dirs) == 2 {
		var vals []bool
		for _, v := range dirs {
			vals = append(vals, v)
		}
		r.Check(vals[0] != vals[1], "opposite-directions", token.NoPos, "the two strategies sort in opposite directions", "both shipped strategies sort in the same direction")
	}
	asc, okA := dirs["allocator/ascendalloc.AscendAllocator"]
	if okA {
		r.Check(!asc, "ascend-is-ascending", token.NoPos, "ascendalloc sorts smallest first", "ascendalloc sorts largest first")
	}
	// SortNumeric skips discarded / non-numeric
	sn := c.fn(r, "allocator/util", "SortNumeric")
	if sn != nil {
		n := 0
		for _, ci := range callsIn(sn) {
			if callName(ci.Common()) != "builtin.append" {
				continue
			}
			n++
			notDisc := guardedByDeep(ci.Block(), func(g Guard) bool { return gCall(g, false, "api.Metric).Discard") })
			parsed := guardedByDeep(ci.Block(), func(g Guard) bool { return gCallErrNil(g, "strconv.ParseUint") })
			r.Check(notDisc && parsed, "sorter:skips-bad-metrics", ci.Pos(), "only non-discarded metrics with a numeric value are ranked", fmt.Sprintf("SortNumeric ranks metrics that are discarded (%v) or non-numeric (%v)", !notDisc, !parsed))
		}
		if n == 0 {
			r.Und("sorter:append", sn.Pos(), "SortNumeric shape not recognised")
		}
	}
	// Less honours the flag
	ls := c.fn(r, "allocator/util", "metricSorter.Less")
	if ls != nil {
		// evaluated on a two-element model (peers[k] = k, value of peer 0 is
		// 1, of peer 1 is 2): Less(i, j) must be value(i) < value(j), and
		// value(i) > value(j) when the reverse flag is set - however the
		// function is written (two comparisons, swapped indices, a helper)
		okLess, why := true, ""
		for _, sc := range []struct {
			i, j    int64
			reverse bool
			want    bool
		}{{0, 1, false, true}, {1, 0, false, false}, {0, 1, true, false}, {1, 0, true, true}} {
			ssaEvalHook = func(v ssa.Value, eval func(ssa.Value) (constant.Value, bool)) (constant.Value, bool) {
				switch x := v.(type) {
				case *ssa.UnOp:
					if x.Op != token.MUL {
						return nil, false
					}
					// s.peers[k] -> k
					if ia, ok := x.X.(*ssa.IndexAddr); ok {
						if fl, _ := fieldLoad(ia.X); fl != nil {
							if _, isSlice := fl.Type().Underlying().(*types.Slice); isSlice {
								return eval(ia.Index)
							}
						}
					}
					// s.reverse
					if fl, _ := fieldLoad(x); fl != nil {
						if bt, ok := fl.Type().Underlying().(*types.Basic); ok && bt.Kind() == types.Bool {
							return constant.MakeBool(sc.reverse), true
						}
					}
				case *ssa.Field:
					if fl, _ := fieldLoad(x); fl != nil {
						if bt, ok := fl.Type().Underlying().(*types.Basic); ok && bt.Kind() == types.Bool {
							return constant.MakeBool(sc.reverse), true
						}
					}
				case *ssa.Lookup:
					// s.values[k] -> k+1
					if fl, _ := fieldLoad(x.X); fl != nil {
						if _, isMap := fl.Type().Underlying().(*types.Map); isMap && !x.CommaOk {
							if k, ok := eval(x.Index); ok {
								return constant.BinaryOp(k, token.ADD, constant.MakeInt64(1)), true
							}
						}
					}
				}
				return nil, false
			}
			_, got, ok := ssaEval(ls, bindParams(ls, map[int]constant.Value{1: constant.MakeInt64(sc.i), 2: constant.MakeInt64(sc.j)}))
			ssaEvalHook = nil
			if !ok || got.Kind() != constant.Bool || constant.BoolVal(got) != sc.want {
				okLess = false
				why += fmt.Sprintf(" Less(%d,%d) reverse=%v: want %v (evaluated: %v);", sc.i, sc.j, sc.reverse, sc.want, ok)
			}
		}
		r.Check(okLess, "sorter:less", ls.Pos(), "Less is value(i) < value(j), reversed by the flag (evaluated on a two-element model)", "metricSorter.Less does not order by value and the reverse flag:"+why)
	}
}

// keysAppender recognises a helper whose result is one of its slice
// parameters extended (by append) with the keys of one of its map
// parameters, and nothing else.
func keysAppender(h *ssa.Function) (sliceParam, mapParam int, ok bool) {
	sliceParam, mapParam = -1, -1
	if h.Signature.Results().Len() != 1 {
		return -1, -1, false
	}
	seen := map[ssa.Value]bool{}
	var built func(v ssa.Value, depth int) bool
	built = func(v ssa.Value, depth int) bool {
		if depth > 10 {
			return false
		}
		if k := paramIndexLocal(h, v); k >= 0 {
			if _, isSlice := h.Params[k].Type().Underlying().(*types.Slice); isSlice {
				if sliceParam >= 0 && sliceParam != k {
					return false
				}
				sliceParam = k
				return true
			}
			return false
		}
		switch x := v.(type) {
		case *ssa.Phi:
			if seen[x] {
				return true
			}
			seen[x] = true
			for _, e := range x.Edges {
				if !built(e, depth+1) {
					return false
				}
			}
			return true
		case *ssa.Call:
			if callName(x.Common()) != "builtin.append" {
				return false
			}
			a := x.Common().Args
			if !built(a[0], depth+1) {
				return false
			}
			els := variadicElems(a[1])
			if len(els) == 0 {
				return false
			}
			for _, el := range els {
				okKey := false
				for k, prm := range h.Params {
					if _, isMap := prm.Type().Underlying().(*types.Map); isMap && keyOfParamLocal(h, el, k) {
						if mapParam >= 0 && mapParam != k {
							return false
						}
						mapParam = k
						okKey = true
					}
				}
				if !okKey {
					return false
				}
			}
			return true
		}
		return false
	}
	for _, lf := range returnLeaves(h, 0) {
		if !built(lf.Val, 0) {
			return -1, -1, false
		}
	}
	return sliceParam, mapParam, sliceParam >= 0 && mapParam >= 0
}

func keyOfParamLocal(h *ssa.Function, v ssa.Value, idx int) bool {
	for d := 0; d < 4; d++ {
		switch x := v.(type) {
		case *ssa.Extract:
			if nx, ok := x.Tuple.(*ssa.Next); ok && x.Index == 1 {
				if rg, ok := nx.Iter.(*ssa.Range); ok {
					return paramIndexLocal(h, rg.X) == idx
				}
			}
			return false
		case *ssa.ChangeType:
			v = x.X
		default:
			return false
		}
	}
	return false
}

// sortSeg is one SortNumeric(set, rev) piece of an allocation order, with
// set and rev expressed in the terms of the function the walk started from.
type sortSeg struct{ set, rev ssa.Value }

// sortSegments reads v as a concatenation of SortNumeric results: appends
// are flattened and repository helpers are entered with their parameters
// bound to the arguments of the call.
func sortSegments(v ssa.Value, env map[*ssa.Parameter]ssa.Value, depth int) ([]sortSeg, token.Pos, bool) {
	if depth > 4 {
		return nil, token.NoPos, false
	}
	resolve := func(x ssa.Value) ssa.Value {
		for n := 0; n < 8; n++ {
			x = stripLocal(x)
			p, ok := x.(*ssa.Parameter)
			if !ok {
				return x
			}
			b, ok := env[p]
			if !ok {
				return x
			}
			x = b
		}
		return x
	}
	v = resolve(v)
	// an accumulator filled by a loop over a literal list of sets:
	// `for _, set := range []M{priority, candidates} { acc = append(acc,
	// SortNumeric(set, rev)...) }` is the concatenation row by row
	if phi, isPhi := v.(*ssa.Phi); isPhi && len(phi.Edges) == 2 {
		for i, e := range phi.Edges {
			app, _ := originCallLocal(e)
			if app == nil || callName(app.Common()) != "builtin.append" || len(app.Common().Args) != 2 || stripLocal(app.Common().Args[0]) != ssa.Value(phi) {
				continue
			}
			// the other edge starts empty
			init, _ := originCallLocal(phi.Edges[1-i])
			emptyInit := false
			if mk, isMk := stripLocal(phi.Edges[1-i]).(*ssa.MakeSlice); isMk {
				if k, isK := constInt(mk.Len); isK && k == 0 {
					emptyInit = true
				}
			}
			if k, isK := phi.Edges[1-i].(*ssa.Const); isK && k.IsNil() {
				emptyInit = true
			}
			_ = init
			sn, _ := originCallLocal(app.Common().Args[1])
			if !emptyInit || sn == nil || !nameMatches(callName(sn.Common()), "allocator/util.SortNumeric") {
				continue
			}
			u, isU := stripLocal(sn.Common().Args[0]).(*ssa.UnOp)
			if !isU || u.Op != token.MUL {
				continue
			}
			ia, isIA := u.X.(*ssa.IndexAddr)
			if !isIA {
				continue
			}
			rows, hdr, ok := rangeOverLiteral(ia, app.Block())
			if !ok || hdr != phi.Block() {
				continue
			}
			var segs []sortSeg
			for _, row := range rows {
				segs = append(segs, sortSeg{resolve(row), resolve(sn.Common().Args[1])})
			}
			return segs, app.Pos(), true
		}
		return nil, token.NoPos, false
	}
	call, _ := originCallLocal(v)
	if call == nil {
		return nil, token.NoPos, false
	}
	cc := call.Common()
	switch {
	case callName(cc) == "builtin.append" && len(cc.Args) == 2:
		a, _, ok1 := sortSegments(cc.Args[0], env, depth+1)
		b, _, ok2 := sortSegments(cc.Args[1], env, depth+1)
		if !ok1 || !ok2 {
			return nil, token.NoPos, false
		}
		return append(a, b...), call.Pos(), true
	case nameMatches(callName(cc), "allocator/util.SortNumeric") && len(cc.Args) == 2:
		return []sortSeg{{resolve(cc.Args[0]), resolve(cc.Args[1])}}, call.Pos(), true
	}
	g := cc.StaticCallee()
	if g == nil || !isRepoFn(g) || len(g.Blocks) == 0 || len(g.Params) != len(cc.Args) {
		return nil, token.NoPos, false
	}
	env2 := map[*ssa.Parameter]ssa.Value{}
	for k, x := range env {
		env2[k] = x
	}
	for i, p := range g.Params {
		env2[p] = resolve(cc.Args[i])
	}
	leaves := returnLeaves(g, 0)
	if len(leaves) != 1 {
		return nil, token.NoPos, false
	}
	segs, _, ok := sortSegments(leaves[0].Val, env2, depth+1)
	return segs, call.Pos(), ok
}
