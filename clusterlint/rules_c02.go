package main

import (
	"fmt"
	"go/ast"
	"go/constant"
	"go/token"
	"go/types"
	"golang.org/x/tools/go/packages"

	"golang.org/x/tools/go/ssa"
)

func init() {
	register(
		&Rule{ID: "R02.1", Props: []string{"C02"}, Floor: 8, Title: "crdt LogPin/LogUnpin return nil only after enqueueing the operation or as the result of the direct state call; a full queue returns an error and touches nothing", Run: r021},
		&Rule{ID: "R02.2", Props: []string{"C02"}, Floor: 2, Title: "one batch worker goroutine and one receiver on the batch queue (FIFO order per CID)", Run: r022},
		&Rule{ID: "R02.3", Props: []string{"C02"}, Floor: 2, Title: "the batch worker applies Add for queued pins and Rm for queued unpins, on the queued item", Run: r023},
		&Rule{ID: "R02.4", Props: []string{"C02"}, Floor: 4, Title: "the CRDT Put/Delete hooks hand every change to PinTracker.Track/Untrack and are installed on the datastore", Run: r024},
		&Rule{ID: "R02.5", Props: []string{"C02"}, Floor: 1, Title: "batching timer typestate: whenever the batch holds uncommitted operations the age timer is armed", Run: r025},
		&Rule{ID: "R02.6", Props: []string{"C02"}, Floor: 2, Title: "dsstate Add/Rm write unconditionally: nil is returned only as the result of the datastore write (batched writes are not filtered through the committed view)", Run: r026},
	)
}

// selectOf: v is `extract sel #0` (the chosen index) of a Select.
func selectIndexOf(v ssa.Value) *ssa.Select {
	if e, ok := v.(*ssa.Extract); ok && e.Index == 0 {
		if s, ok := e.Tuple.(*ssa.Select); ok {
			return s
		}
	}
	return nil
}

// structLitFields: v is a struct value built in place (Alloc + field
// stores, then loaded); returns field name -> stored value.
func structLitFields(v ssa.Value) map[string]ssa.Value {
	out := map[string]ssa.Value{}
	u, ok := v.(*ssa.UnOp)
	if !ok || u.Op != token.MUL {
		return out
	}
	al, ok := u.X.(*ssa.Alloc)
	if !ok || al.Referrers() == nil {
		return out
	}
	for _, ref := range *al.Referrers() {
		fa, ok := ref.(*ssa.FieldAddr)
		if !ok || fa.Referrers() == nil {
			continue
		}
		for _, r2 := range *fa.Referrers() {
			if st, ok := r2.(*ssa.Store); ok && st.Addr == fa {
				if f := fieldOfAddr(fa); f != nil {
					out[f.Name()] = st.Val
				}
			}
		}
	}
	return out
}

func r021(c *Ctx, r *R) {
	for _, m := range []struct {
		name, stateM string
		isPin        bool
	}{{"LogPin", ").Add", true}, {"LogUnpin", ").Rm", false}} {
		f := c.fn(r, "consensus/crdt", "Consensus."+m.name)
		if f == nil {
			continue
		}
		batching := func(b *ssa.BasicBlock, want bool) bool {
			return guardedBy(b, func(g Guard) bool { return gCall(g, want, "crdt.Config).batchingEnabled") })
		}
		sawEnq, sawDirect, sawFull := false, false, false
		for _, lf := range returnLeaves(f, 0) {
			switch {
			case isNilConst(lf.Val):
				// must be the send arm of a non-blocking select on batchItemCh
				ok := false
				for _, g := range lf.Guards() {
					if g.Derived {
						continue // a select inside a helper: summarised below
					}
					x, k, tme, isEq := eqConst(g.Cond)
					if !isEq || tme != g.Branch {
						continue
					}
					sel := selectIndexOf(x)
					if sel == nil {
						continue
					}
					idx, _ := constant.Int64Val(k)
					if idx < 0 || int(idx) >= len(sel.States) {
						continue
					}
					st := sel.States[idx]
					fld, _ := fieldLoad(st.Chan)
					if st.Dir != types.SendOnly || fld == nil || fld.Name() != "batchItemCh" {
						continue
					}
					fields := structLitFields(st.Send)
					kp, isK := constOf(fields["isPin"])
					isPinOK := isK && ((kp != nil && constant.BoolVal(kp)) == m.isPin)
					if !m.isPin && fields["isPin"] == nil {
						isPinOK = true // zero value
					}
					pinOK := fields["pin"] != nil && paramIndex(f, fields["pin"]) == 2
					if isPinOK && pinOK {
						ok = true
					} else {
						r.Bad(m.name+":queued-item", sel.Pos(), "%s queues an item with isPin/pin different from the request (isPin ok=%v, pin ok=%v)", m.name, isPinOK, pinOK)
					}
				}
				// ... or the true answer of a helper that does exactly that
				// (`if !css.enqueue(ctx, isPin, pin) { return error }`)
				if !ok {
					for _, g := range lf.Guards() {
						hc, _ := originCallLocal(g.Cond)
						if hc == nil || !g.Branch {
							continue
						}
						h := hc.Common().StaticCallee()
						sum := enqueueHelper(h)
						if sum == nil {
							continue
						}
						args := hc.Common().Args
						pinOK := sum.pinParam >= 0 && sum.pinParam < len(args) && paramIndex(f, args[sum.pinParam]) == 2
						isPinOK := false
						if sum.isPinParam >= 0 && sum.isPinParam < len(args) {
							if kp, isK := constOf(args[sum.isPinParam]); isK && kp != nil && constant.BoolVal(kp) == m.isPin {
								isPinOK = true
							}
						} else if sum.isPinConst != nil && *sum.isPinConst == m.isPin {
							isPinOK = true
						}
						if pinOK && isPinOK {
							ok = true
						} else {
							r.Bad(m.name+":queued-item", hc.Pos(), "%s queues (through %s) an item with isPin/pin different from the request (isPin ok=%v, pin ok=%v)", m.name, h.Name(), isPinOK, pinOK)
						}
					}
				}
				okB := batching(lf.Block, true)
				sawEnq = sawEnq || (ok && okB)
				r.Check(ok && okB, m.name+":nil-after-enqueue", lf.Pos, "nil is returned on the arm that sent the operation to the batch queue", m.name+" returns nil without having queued the operation (or outside the batching branch)")
			default:
				call, _ := originCall(lf.Val)
				if call == nil {
					r.Bad(m.name+":returns-unknown", lf.Pos, "%s returns %s", m.name, lf.Val)
					continue
				}
				cn := callName(call.Common())
				switch {
				case nameMatches(cn, "/state.WriteOnly"+m.stateM, "/state.State"+m.stateM, "dsstate.State"+m.stateM):
					a := callArgs(call.Common())
					argOK := false
					if m.isPin {
						argOK = paramIndex(f, a[1]) == 2
					} else {
						fld, base := fieldLoad(a[1])
						argOK = fld != nil && fld.Name() == "Cid" && paramIndex(f, base) == 2
					}
					sawDirect = true
					r.Check(argOK && batching(lf.Block, false), m.name+":direct-write", call.Pos(), "without batching the result is the state write's result for the requested pin", m.name+"'s direct state write is not for the requested pin or happens while batching is enabled")
				case nameMatches(cn, "fmt.Errorf", "errors.New"):
					// error for the full queue: must be the non-send arm
					sawFull = true
					r.OK(m.name+":full-queue-error", call.Pos(), "the full-queue arm returns an error")
				default:
					r.Bad(m.name+":returns-other:"+cn, lf.Pos, "%s returns the result of %s", m.name, cn)
				}
			}
		}
		if !sawEnq || !sawDirect || !sawFull {
			r.Bad(m.name+":shape", f.Pos(), "%s lost one of its three outcomes (enqueue=%v direct=%v full-queue error=%v)", m.name, sawEnq, sawDirect, sawFull)
		}
		// no state write while batching
		for _, ci := range findCalls(f, false, "/state.WriteOnly).Add", "/state.WriteOnly).Rm", "/state.State).Add", "/state.State).Rm", "dsstate.State).Add", "dsstate.State).Rm", "dsstate.BatchingState).") {
			r.Check(batching(ci.Block(), false), m.name+":no-write-when-batching", ci.Pos(), "state writes happen only when batching is disabled", m.name+" writes the state directly on a path where batching is enabled (bypasses the queue order)")
		}
	}
}

func r022(c *Ctx, r *R) {
	sp := c.P.SSAPkg("consensus/crdt")
	if sp == nil {
		r.Und("pkg", token.NoPos, "crdt package missing")
		return
	}
	worker := c.fn(r, "consensus/crdt", "Consensus.batchWorker")
	if worker == nil {
		return
	}
	var gos []*ssa.Go
	var recvs []ssa.Instruction
	c.P.RepoFuncs(func(f *ssa.Function) {
		if f.Pkg != sp && (f.Parent() == nil || f.Parent().Pkg != sp) {
			return
		}
		instrs(f, func(i ssa.Instruction) {
			switch x := i.(type) {
			case *ssa.Go:
				if x.Common().StaticCallee() == worker {
					gos = append(gos, x)
				}
			case *ssa.UnOp:
				if x.Op == token.ARROW {
					if fld, _ := fieldLoad(x.X); fld != nil && fld.Name() == "batchItemCh" {
						recvs = append(recvs, x)
					}
				}
			case *ssa.Select:
				for _, st := range x.States {
					if st.Dir == types.RecvOnly {
						if fld, _ := fieldLoad(st.Chan); fld != nil && fld.Name() == "batchItemCh" {
							recvs = append(recvs, x)
						}
					}
				}
			}
		})
	})
	if len(gos) == 1 {
		g := gos[0]
		inLoop := blockReaches(g.Block(), g.Block())
		r.Check(!inLoop, "single-worker", g.Pos(), "exactly one `go batchWorker()` site, not in a loop", "`go batchWorker()` is inside a loop: several consumers reorder operations on one CID")
	} else {
		r.Bad("single-worker", worker.Pos(), "%d `go batchWorker()` sites (expected exactly 1): with several consumers operations on one CID are reordered; with none batched operations are never applied", len(gos))
	}
	if len(recvs) == 1 && recvs[0].Parent() == worker {
		r.OK("single-receiver", recvs[0].Pos(), "the batch queue has exactly one receive site, in batchWorker")
	} else {
		r.Bad("single-receiver", worker.Pos(), "%d receive sites on batchItemCh (expected 1, in batchWorker)", len(recvs))
	}
}

func r023(c *Ctx, r *R) {
	f := c.fn(r, "consensus/crdt", "Consensus.batchWorker")
	if f == nil {
		return
	}
	fromQueue := func(v ssa.Value) bool { // v is (a field of) the item received from the select
		for d := 0; d < 6 && v != nil; d++ {
			switch x := v.(type) {
			case *ssa.Extract:
				_, ok := x.Tuple.(*ssa.Select)
				return ok
			case *ssa.Field:
				v = x.X
			case *ssa.UnOp:
				v = x.X
			case *ssa.FieldAddr:
				v = x.X
			case *ssa.Alloc:
				sts := storesTo(x)
				if len(sts) != 1 {
					return false
				}
				v = sts[0].Val
			default:
				return false
			}
		}
		return false
	}
	isPinGuard := func(b *ssa.BasicBlock, want bool) bool {
		return guardedBy(b, func(g Guard) bool {
			fld, base := fieldLoad(g.Cond)
			if fld == nil {
				if fv, ok := g.Cond.(*ssa.Field); ok {
					s := structOf(fv.X.Type())
					if s != nil && s.Field(fv.Field).Name() == "isPin" && fromQueue(fv.X) {
						return g.Branch == want
					}
				}
				return false
			}
			return fld.Name() == "isPin" && fromQueue(base) && g.Branch == want
		})
	}
	for _, m := range []struct {
		name, pat string
		want      bool
	}{{"Add", "dsstate.State).Add", true}, {"Rm", "dsstate.State).Rm", false}} {
		cs := findCalls(f, false, m.pat, "dsstate.BatchingState)."+m.name, "/state.WriteOnly)."+m.name, "/state.State)."+m.name, "/state.BatchingState)."+m.name)
		if len(cs) != 1 {
			r.Bad("worker:"+m.name, f.Pos(), "batchWorker has %d batchingState.%s calls (expected 1)", len(cs), m.name)
			continue
		}
		ci := cs[0]
		a := callArgs(ci.Common())
		arg := a[1]
		argOK := false
		if m.want {
			fld, base := fieldLoad(arg)
			if fld == nil {
				if fv, ok := arg.(*ssa.Field); ok {
					s := structOf(fv.X.Type())
					argOK = s != nil && s.Field(fv.Field).Name() == "pin" && fromQueue(fv.X)
				}
			} else {
				argOK = fld.Name() == "pin" && fromQueue(base)
			}
		} else {
			fld, base := fieldLoad(arg) // item.pin.Cid
			if fld != nil && fld.Name() == "Cid" {
				f2, b2 := fieldLoad(base)
				if f2 != nil {
					argOK = f2.Name() == "pin" && fromQueue(b2)
				} else if fv, ok := base.(*ssa.Field); ok {
					s := structOf(fv.X.Type())
					argOK = s != nil && s.Field(fv.Field).Name() == "pin" && fromQueue(fv.X)
				}
			}
		}
		recvOK := false
		if fld, _ := fieldOfAddrValue(ci.Common().Args[0]); fld != nil {
			_ = fld
		}
		if fl, _ := fieldLoad(recvOf(ci.Common())); fl != nil && fl.Name() == "batchingState" {
			recvOK = true
		}
		r.Check(argOK && recvOK && isPinGuard(ci.Block(), m.want), "worker:"+m.name, ci.Pos(),
			"batchingState."+m.name+" is applied to the queued item under isPin=="+fmt.Sprint(m.want),
			"batchWorker applies "+m.name+" to something other than the queued item, or under the wrong isPin branch (pins and unpins swapped)")
	}
}

func r024(c *Ctx, r *R) {
	s := c.fn(r, "consensus/crdt", "Consensus.setup")
	if s == nil {
		return
	}
	// hook closures stored into the options value given to crdt.New
	news := findCalls(s, false, "go-ds-crdt.New")
	if len(news) != 1 {
		r.Und("crdt.New", s.Pos(), "%d crdt.New calls in setup", len(news))
		return
	}
	optsArg := news[0].Common().Args[len(news[0].Common().Args)-1]
	hooks := map[string]*ssa.Function{}
	instrs(s, func(i ssa.Instruction) {
		st, ok := i.(*ssa.Store)
		if !ok {
			return
		}
		fld, base := fieldOfAddrValue(st.Addr)
		if fld == nil || (fld.Name() != "PutHook" && fld.Name() != "DeleteHook") {
			return
		}
		if strip(base) != strip(optsArg) {
			return
		}
		if g := fnOfValue(st.Val); g != nil {
			hooks[fld.Name()] = g
		}
	})
	for _, h := range []struct{ field, method string }{{"PutHook", "Track"}, {"DeleteHook", "Untrack"}} {
		g := hooks[h.field]
		if g == nil {
			r.Bad("hook:"+h.field, news[0].Pos(), "the options given to crdt.New have no %s closure: changes landing in the pinset never reach the tracker", h.field)
			continue
		}
		// the tracker call: a gorpc call site of the closure, or a call of
		// a wrapper that makes it with the method name it is given
		var site *rpcUse
		for _, u := range c.rpcUsesIn(g) {
			if u.Svc == "PinTracker" && u.Method == h.method {
				u := u
				site = &u
			}
		}
		if site == nil {
			r.Bad("hook:"+h.field+":rpc", g.Pos(), "%s does not call PinTracker.%s", h.field, h.method)
			continue
		}
		r.Check(site.Local, "hook:"+h.field+":local", site.Call.Pos(), h.field+" calls the local tracker", h.field+" does not call the local tracker")
		// every non-error path reaches the call: the only guards allowed
		// above the call are err == nil tests
		okPath := true
		for _, gd := range guardsOf(site.Call.Block()) {
			if gd.Derived {
				continue // what a successful decode implies is not a condition of the hook
			}
			if !gNil(gd, false, func(v ssa.Value) bool { return true }) {
				okPath = false
			}
		}
		r.Check(okPath, "hook:"+h.field+":unconditional", site.Call.Pos(), "the tracker call is skipped only on decode errors", h.field+" skips the tracker call under a condition other than a decode error")
		arg := site.Arg
		if arg == nil {
			r.Und("hook:"+h.field+":arg", site.Call.Pos(), "the argument of the tracker call could not be followed")
			continue
		}
		if h.field == "PutHook" {
			// pin.ProtoUnmarshal(v) on the same pin, v = hook parameter
			ok := false
			for _, ci := range findCalls(g, false, "api.Pin).ProtoUnmarshal") {
				if strip(ci.Common().Args[0]) == strip(arg) && paramIndex(g, ci.Common().Args[1]) == 1 {
					ok = true
				}
			}
			r.Check(ok, "hook:PutHook:arg", site.Call.Pos(), "Track receives the pin decoded from the hook's value", "Track does not receive the pin decoded from the hook's value")
		} else {
			ok := false
			if call, _ := originCall(arg); call != nil && nameMatches(callName(call.Common()), "api.PinCid") {
				if c2, _ := originCall(call.Common().Args[0]); c2 != nil && nameMatches(callName(c2.Common()), "go-cid.Cast") {
					if c3, _ := originCall(c2.Common().Args[0]); c3 != nil && nameMatches(callName(c3.Common()), "BinaryFromDsKey") && paramIndex(g, c3.Common().Args[0]) == 0 {
						ok = true
					}
				}
			}
			r.Check(ok, "hook:DeleteHook:arg", site.Call.Pos(), "Untrack receives the CID decoded from the hook's key", "Untrack does not receive the CID decoded from the hook's key")
		}
	}
}

func r025(c *Ctx, r *R) {
	fd, pkg := c.decl(r, "consensus/crdt", "Consensus.batchWorker")
	if fd == nil {
		return
	}
	// identify the timer variable and the size counter from the code:
	// timer = local assigned from time.NewTimer; size = the int variable
	// compared with 0 before Reset.
	var timerObj, sizeObj types.Object
	ast.Inspect(fd.Body, func(n ast.Node) bool {
		as, ok := n.(*ast.AssignStmt)
		if !ok || len(as.Lhs) != 1 || len(as.Rhs) != 1 {
			return true
		}
		if call, ok := as.Rhs[0].(*ast.CallExpr); ok && funcFullName(pkg, call) == "time.NewTimer" {
			if id, ok := as.Lhs[0].(*ast.Ident); ok {
				timerObj = pkg.TypesInfo.ObjectOf(id)
			}
		}
		return true
	})
	// the size counter: the local integer that the worker increments
	// (n++ / n += k) and also sets to the constant 0
	incd, zeroed := map[types.Object]bool{}, map[types.Object]bool{}
	ast.Inspect(fd.Body, func(n ast.Node) bool {
		switch x := n.(type) {
		case *ast.IncDecStmt:
			if id, ok := x.X.(*ast.Ident); ok && x.Tok == token.INC {
				incd[pkg.TypesInfo.ObjectOf(id)] = true
			}
		case *ast.AssignStmt:
			if len(x.Lhs) == 1 && len(x.Rhs) == 1 {
				if id, ok := x.Lhs[0].(*ast.Ident); ok {
					if x.Tok == token.ADD_ASSIGN {
						incd[pkg.TypesInfo.ObjectOf(id)] = true
					} else if v := constVal(pkg, x.Rhs[0]); v != nil && v.Kind() == constant.Int && constant.Sign(v) == 0 {
						zeroed[pkg.TypesInfo.ObjectOf(id)] = true
					}
				}
			}
		}
		return true
	})
	for o := range incd {
		if zeroed[o] && o != nil {
			if sizeObj != nil && sizeObj != o {
				r.Und("shape", fd.Pos(), "batchWorker: two candidate size counters (%s, %s)", sizeObj.Name(), o.Name())
				return
			}
			sizeObj = o
		}
	}
	if timerObj == nil || sizeObj == nil {
		r.Und("shape", fd.Pos(), "batchWorker: timer variable (time.NewTimer) or size counter (local that is incremented and zeroed) not recognised (timer=%v size=%v)", timerObj != nil, sizeObj != nil)
		return
	}
	isObj := func(e ast.Expr, o types.Object) bool {
		id, ok := ast.Unparen(e).(*ast.Ident)
		return ok && pkg.TypesInfo.ObjectOf(id) == o
	}
	isTimerSel := func(e ast.Expr, name string) bool { // timer.<name>
		se, ok := ast.Unparen(e).(*ast.SelectorExpr)
		return ok && se.Sel.Name == name && isObj(se.X, timerObj)
	}
	// state bits: 1 = size>0, 2 = pending (uncommitted writes), 4 = armed
	const (
		bSize, bPend, bArmed = 1, 2, 4
	)
	// calls on the batching state: X.batchingState.<method>(...)
	bsCall := func(call *ast.CallExpr) string {
		se, ok := ast.Unparen(call.Fun).(*ast.SelectorExpr)
		if !ok {
			return ""
		}
		rx, ok := ast.Unparen(se.X).(*ast.SelectorExpr)
		if !ok || rx.Sel.Name != "batchingState" {
			return ""
		}
		return se.Sel.Name
	}
	seen := map[string]int{}
	commitErr := map[types.Object]bool{} // error variables holding Commit's result
	fl := &Flow{Pkg: pkg, Body: fd.Body, Init: one(0)}
	fl.Node = func(n ast.Node, s int) StateSet {
		// assignments to the size counter
		switch x := n.(type) {
		case *ast.AssignStmt:
			if len(x.Lhs) == 1 && isObj(x.Lhs[0], sizeObj) && len(x.Rhs) == 1 {
				if v := constVal(pkg, x.Rhs[0]); v != nil && constant.Sign(v) == 0 {
					s &^= bSize
				} else {
					s |= bSize
				}
			}
			for i, rhs := range x.Rhs {
				if call, ok := rhs.(*ast.CallExpr); ok && bsCall(call) == "Commit" && i < len(x.Lhs) {
					seen["commit"]++
					if id, ok := x.Lhs[i].(*ast.Ident); ok {
						commitErr[pkg.TypesInfo.ObjectOf(id)] = true
					}
				}
			}
		case *ast.IncDecStmt:
			if isObj(x.X, sizeObj) && x.Tok == token.INC {
				s |= bSize
			}
		}
		for _, call := range callsInNode(n) {
			fn := funcFullName(pkg, call)
			switch {
			case fn == "(*time.Timer).Reset" && isTimerSel(call.Fun, "Reset"):
				s |= bArmed
				seen["reset"]++
			case fn == "(*time.Timer).Stop" && isTimerSel(call.Fun, "Stop"):
				s &^= bArmed
				seen["stop"]++
			case helperTimerEffect(pkg, call, func(e ast.Expr) bool { return isObj(e, timerObj) }) == "stop":
				// a helper of this package that stops (and drains) the
				// timer it is given
				s &^= bArmed
				seen["stop"]++
			case helperTimerEffect(pkg, call, func(e ast.Expr) bool { return isObj(e, timerObj) }) == "reset":
				s |= bArmed
				seen["reset"]++
			case bsCall(call) == "Add" || bsCall(call) == "Rm":
				s |= bPend
				seen["write"]++
			}
		}
		return one(s)
	}
	fl.Cond = func(cond ast.Expr, branch bool, s int) StateSet {
		cond = ast.Unparen(cond)
		if be, ok := cond.(*ast.BinaryExpr); ok {
			// size compared with a constant: the counter is never
			// negative, so n==0, n<1, n<=0 mean "empty" and n!=0, n>0,
			// n>=1 mean "non-empty" (either operand order)
			if zero, ok := sizeZeroTest(pkg, be, func(e ast.Expr) bool { return isObj(e, sizeObj) }); ok {
				if !branch {
					zero = !zero
				}
				if zero && s&bSize != 0 || !zero && s&bSize == 0 {
					return 0
				}
			}
			// err == nil / err != nil of Commit
			if id, ok := be.X.(*ast.Ident); ok && commitErr[pkg.TypesInfo.ObjectOf(id)] {
				if y, ok := be.Y.(*ast.Ident); ok && y.Name == "nil" && (be.Op == token.EQL || be.Op == token.NEQ) {
					success := (be.Op == token.EQL) == branch
					seen["commit-test"]++
					if success {
						s &^= bPend
					}
				}
			}
		}
		return one(s)
	}
	fl.Arm = func(sel *ast.SelectStmt, cc *ast.CommClause, s int) StateSet {
		if cc.Comm == nil {
			return one(s)
		}
		// receive from timer.C: the timer has fired
		var rx ast.Expr
		switch x := cc.Comm.(type) {
		case *ast.ExprStmt:
			rx = x.X
		case *ast.AssignStmt:
			if len(x.Rhs) == 1 {
				rx = x.Rhs[0]
			}
		}
		if u, ok := ast.Unparen(rx).(*ast.UnaryExpr); ok && u.Op == token.ARROW && isTimerSel(u.X, "C") {
			if s&bArmed == 0 {
				return 0 // an idle timer does not fire
			}
			s &^= bArmed
		}
		return one(s)
	}
	fl.Run()
	checked := 0
	fl.Visit(func(n ast.Node, before StateSet) {
		sel, ok := n.(*ast.SelectStmt)
		if !ok {
			return
		}
		// only the worker's main select (the one receiving from the timer)
		hasTimer := false
		for _, cl := range sel.Body.List {
			if es, ok := cl.(*ast.CommClause).Comm.(*ast.ExprStmt); ok {
				if u, ok := es.X.(*ast.UnaryExpr); ok && isTimerSel(u.X, "C") {
					hasTimer = true
				}
			}
		}
		if !hasTimer {
			return
		}
		checked++
		var bad []string
		for _, s := range statesOf(before) {
			if s&bPend != 0 && s&bArmed == 0 {
				bad = append(bad, fmt.Sprintf("{size>0:%v pending:true armed:false}", s&bSize != 0))
			}
		}
		if len(bad) > 0 {
			r.Bad("timer-armed-when-pending", sel.Pos(), "the worker can wait for the next event with uncommitted operations in the batch and the age timer idle %v: those operations are not committed by age (only a later size trigger, possibly never)", bad)
		} else {
			r.OK("timer-armed-when-pending", sel.Pos(), "in all %d abstract states reaching the worker's select, pending operations imply an armed timer", len(statesOf(before)))
		}
	}, nil)
	if checked == 0 {
		r.Und("select", fd.Pos(), "no select receiving from the batch timer found in batchWorker")
	}
	if seen["write"] < 2 || seen["commit"] < 2 || seen["commit-test"] < 2 || seen["reset"] < 1 || seen["stop"] < 1 {
		r.Und("events", fd.Pos(), "the typestate saw too few events to mean anything (%v): batchWorker's shape is no longer recognised", seen)
	}
}

func r026(c *Ctx, r *R) {
	for _, m := range []struct{ name, write string }{{"Add", "go-datastore.Write).Put"}, {"Rm", "go-datastore.Write).Delete"}} {
		f := c.fn(r, "state/dsstate", "State."+m.name)
		if f == nil {
			continue
		}
		ok := true
		n := 0
		for _, lf := range returnLeaves(f, 0) {
			n++
			call, _ := originCall(lf.Val)
			if call != nil && nameMatches(callName(call.Common()), m.write) {
				// written through dsWrite
				if fl, _ := fieldLoad(call.Common().Value); fl == nil || fl.Name() != "dsWrite" {
					ok = false
				}
				continue
			}
			if isNilConst(lf.Val) {
				// nil allowed only after the write succeeded or when the
				// write reported not-found (Rm is a no-op then)
				if lf.GuardedBy(func(g Guard) bool { return gCallErrNil(g, m.write) }) {
					continue
				}
				hasWriteBefore := false
				for _, ci := range findCalls(f, false, m.write) {
					if ci.Block().Dominates(lf.Block) {
						hasWriteBefore = true
					}
				}
				if hasWriteBefore {
					continue
				}
				ok = false
				continue
			}
			// other errors (serialisation) are fine
			if call != nil {
				continue
			}
		}
		r.Check(ok && n > 0, "dsstate."+m.name, f.Pos(), "State."+m.name+" returns nil only after the datastore write",
			"State."+m.name+" can return nil without writing (e.g. an existence test against the read side, which for a batching state is the committed view: a queued unpin of a not-yet-committed pin is dropped)")
	}
}

// sizeZeroTest recognises a comparison of a never-negative counter with a
// constant that is equivalent to "counter is zero" (true) or "counter is
// not zero" (false), in either operand order.
func sizeZeroTest(pkg *packages.Package, be *ast.BinaryExpr, isCounter func(ast.Expr) bool) (zero, ok bool) {
	x, y, op := ast.Unparen(be.X), ast.Unparen(be.Y), be.Op
	if !isCounter(x) {
		if !isCounter(y) {
			return false, false
		}
		x, y = y, x
		switch op { // flip
		case token.LSS:
			op = token.GTR
		case token.GTR:
			op = token.LSS
		case token.LEQ:
			op = token.GEQ
		case token.GEQ:
			op = token.LEQ
		}
	}
	v := constVal(pkg, y)
	if v == nil || v.Kind() != constant.Int {
		return false, false
	}
	k, exact := constant.Int64Val(v)
	if !exact {
		return false, false
	}
	switch {
	case op == token.EQL && k == 0, op == token.LSS && k == 1, op == token.LEQ && k == 0:
		return true, true
	case op == token.NEQ && k == 0, op == token.GTR && k == 0, op == token.GEQ && k == 1:
		return false, true
	}
	return false, false
}

// enqueueSummary describes a helper that hands one item to the batch queue
// without blocking and answers whether it did.
type enqueueSummary struct {
	pinParam, isPinParam int
	isPinConst           *bool
}

// enqueueHelper recognises such a helper: its bool result is true only on
// the send arm of a non-blocking select on batchItemCh and false otherwise,
// and the item sent is built from its parameters.
func enqueueHelper(h *ssa.Function) *enqueueSummary {
	if h == nil || h.Blocks == nil || h.Signature.Results().Len() != 1 || h.Signature.Results().At(0).Type().String() != "bool" {
		return nil
	}
	sum := &enqueueSummary{pinParam: -1, isPinParam: -1}
	sawTrue := false
	for _, lf := range returnLeaves(h, 0) {
		k, isK := constOf(lf.Val)
		if !isK || k == nil {
			return nil
		}
		sent := false
		for _, g := range lf.Guards() {
			x, kk, tme, isEq := eqConst(g.Cond)
			if !isEq || tme != g.Branch {
				continue
			}
			sel := selectIndexOf(x)
			if sel == nil || sel.Blocking {
				continue
			}
			idx, _ := constant.Int64Val(kk)
			if idx < 0 || int(idx) >= len(sel.States) {
				continue
			}
			st := sel.States[idx]
			fld, _ := fieldLoad(st.Chan)
			if st.Dir != types.SendOnly || fld == nil || fld.Name() != "batchItemCh" {
				continue
			}
			sent = true
			fields := structLitFields(st.Send)
			if fields["pin"] != nil {
				sum.pinParam = paramIndex(h, fields["pin"])
			}
			if fields["isPin"] != nil {
				if kp, isK := constOf(fields["isPin"]); isK && kp != nil {
					b := constant.BoolVal(kp)
					sum.isPinConst = &b
				} else {
					sum.isPinParam = paramIndex(h, fields["isPin"])
				}
			} else {
				b := false
				sum.isPinConst = &b
			}
		}
		if constant.BoolVal(k) {
			if !sent {
				return nil // true without having sent
			}
			sawTrue = true
		} else if sent {
			return nil // false although it sent
		}
	}
	if !sawTrue || sum.pinParam < 0 {
		return nil
	}
	return sum
}

// helperTimerEffect: call is a call of a function declared in this package
// that receives the timer as an argument and, in its own body, only stops it
// ("stop") or only re-arms it ("reset"); "" otherwise.
func helperTimerEffect(pkg *packages.Package, call *ast.CallExpr, isTimer func(ast.Expr) bool) string {
	var id *ast.Ident
	switch f := ast.Unparen(call.Fun).(type) {
	case *ast.Ident:
		id = f
	case *ast.SelectorExpr:
		id = f.Sel
	}
	if id == nil {
		return ""
	}
	fobj, ok := pkg.TypesInfo.Uses[id].(*types.Func)
	if !ok || fobj.Pkg() != pkg.Types {
		return ""
	}
	argIdx := -1
	for i, a := range call.Args {
		if isTimer(a) {
			argIdx = i
		}
	}
	if argIdx < 0 {
		return ""
	}
	for _, file := range pkg.Syntax {
		for _, d := range file.Decls {
			fd, ok := d.(*ast.FuncDecl)
			if !ok || fd.Body == nil || pkg.TypesInfo.Defs[fd.Name] != types.Object(fobj) {
				continue
			}
			// the parameter the timer is bound to
			var pobj types.Object
			n := 0
			for _, fl := range fd.Type.Params.List {
				for _, nm := range fl.Names {
					if n == argIdx {
						pobj = pkg.TypesInfo.Defs[nm]
					}
					n++
				}
			}
			if pobj == nil {
				return ""
			}
			stops, resets := 0, 0
			ast.Inspect(fd.Body, func(x ast.Node) bool {
				c2, ok := x.(*ast.CallExpr)
				if !ok {
					return true
				}
				se, ok := ast.Unparen(c2.Fun).(*ast.SelectorExpr)
				if !ok {
					return true
				}
				rid, ok := ast.Unparen(se.X).(*ast.Ident)
				if !ok || pkg.TypesInfo.ObjectOf(rid) != pobj {
					return true
				}
				switch funcFullName(pkg, c2) {
				case "(*time.Timer).Stop":
					stops++
				case "(*time.Timer).Reset":
					resets++
				}
				return true
			})
			switch {
			case stops > 0 && resets == 0:
				return "stop"
			case resets > 0 && stops == 0:
				return "reset"
			}
			return ""
		}
	}
	return ""
}
