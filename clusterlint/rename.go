package main

import (
	_ "embed"
	"encoding/json"
	"fmt"
	"go/ast"
	"go/parser"
	"go/token"
	"go/types"
	"os"
	"regexp"
	"sort"
	"strings"

	"golang.org/x/tools/go/packages"
)

// Rename normalisation.
//
// The rules anchor on identifiers of the repository (function, method,
// field, type and constant names). Exported names are API; unexported ones
// are free to be renamed by a clean-up, and a consistent renaming changes no
// behaviour (alpha-equivalence: nothing outside the package can name them,
// and none of the codecs in use encodes unexported fields). So that such a
// clean-up does not make every rule anchored on the old name undecided, the
// loader compares the unexported identifiers of each package with a
// reference table frozen from the reviewed tree (reference_idents.json,
// regenerated with -gen-reference whenever /repo legitimately changes). An
// identifier of the table that is gone, and whose description (receiver and
// parameter/result types of a function, struct and type of a field, shape
// of a type, type and value of a constant) matches exactly one identifier
// that is new, and vice versa, has been renamed. The source is then
// re-loaded with the renamed identifiers spelled the old way at every
// defining and using position (positions are unchanged), and all rules run
// on that alpha-equivalent program. Anything ambiguous is left alone: the
// anchor is then reported as not found, as before.

//go:embed reference_idents.json
var referenceJSON []byte

type refPkg struct {
	Types  map[string]string `json:"types"`  // name -> shape
	Funcs  map[string]string `json:"funcs"`  // "Recv.name" | "name" -> signature (types only)
	Fields map[string]string `json:"fields"` // "Type.field" -> field type
	Vars   map[string]string `json:"vars"`   // name -> "const T = v" | "var T"
}

type refTable struct {
	Packages map[string]*refPkg `json:"packages"`
}

func sigString(sig *types.Signature, q types.Qualifier) string {
	var sb strings.Builder
	tuple := func(t *types.Tuple) {
		sb.WriteString("(")
		for i := 0; i < t.Len(); i++ {
			if i > 0 {
				sb.WriteString(", ")
			}
			sb.WriteString(types.TypeString(t.At(i).Type(), q))
		}
		sb.WriteString(")")
	}
	tuple(sig.Params())
	if sig.Variadic() {
		sb.WriteString("...")
	}
	tuple(sig.Results())
	return sb.String()
}

type identEntry struct {
	kind string // types | funcs | fields | vars
	key  string
	desc string
	obj  types.Object
}

// identsOf lists the unexported identifiers of a package with their
// descriptions.
func identsOf(pkg *types.Package) []identEntry {
	q := types.RelativeTo(pkg)
	var out []identEntry
	recvName := func(t types.Type) string {
		if p, ok := t.(*types.Pointer); ok {
			t = p.Elem()
		}
		if n, ok := t.(*types.Named); ok {
			return n.Obj().Name()
		}
		return ""
	}
	scope := pkg.Scope()
	for _, name := range scope.Names() {
		obj := scope.Lookup(name)
		switch o := obj.(type) {
		case *types.TypeName:
			if o.IsAlias() {
				continue
			}
			named, ok := o.Type().(*types.Named)
			if !ok {
				continue
			}
			var mnames []string
			for i := 0; i < named.NumMethods(); i++ {
				m := named.Method(i)
				// exported methods by name, unexported ones by shape only
				// (they may be renamed together with the type)
				if m.Exported() {
					mnames = append(mnames, m.Name()+sigString(m.Type().(*types.Signature), q))
				} else {
					mnames = append(mnames, "_"+sigString(m.Type().(*types.Signature), q))
				}
				if !m.Exported() {
					out = append(out, identEntry{"funcs", name + "." + m.Name(), sigString(m.Type().(*types.Signature), q), m})
				}
			}
			sort.Strings(mnames)
			shape := ""
			if st, ok := named.Underlying().(*types.Struct); ok {
				var fs []string
				for i := 0; i < st.NumFields(); i++ {
					f := st.Field(i)
					fn := f.Name()
					if !f.Exported() {
						fn = "_"
					}
					fs = append(fs, fn+" "+types.TypeString(f.Type(), q))
					if !f.Exported() && !f.Embedded() {
						out = append(out, identEntry{"fields", name + "." + f.Name(), types.TypeString(f.Type(), q), f})
					}
				}
				shape = "struct{" + strings.Join(fs, "; ") + "}"
			} else {
				shape = types.TypeString(named.Underlying(), q)
				if it, ok := named.Underlying().(*types.Interface); ok {
					for i := 0; i < it.NumExplicitMethods(); i++ {
						m := it.ExplicitMethod(i)
						if !m.Exported() {
							out = append(out, identEntry{"funcs", name + "." + m.Name(), sigString(m.Type().(*types.Signature), q), m})
						}
					}
				}
			}
			if !o.Exported() {
				// the type's own name inside its shape (recursive types,
				// methods taking the type) must not keep a renamed type from
				// matching
				out = append(out, identEntry{"types", name, wordReplace(shape+" methods["+strings.Join(mnames, ",")+"]", name, "_Self_"), o})
			}
		case *types.Func:
			if !o.Exported() && name != "init" && name != "main" {
				out = append(out, identEntry{"funcs", name, sigString(o.Type().(*types.Signature), q), o})
			}
		case *types.Const:
			if !o.Exported() {
				out = append(out, identEntry{"vars", name, "const " + types.TypeString(o.Type(), q) + " = " + o.Val().ExactString(), o})
			}
		case *types.Var:
			if !o.Exported() {
				out = append(out, identEntry{"vars", name, "var " + types.TypeString(o.Type(), q), o})
			}
		}
	}
	_ = recvName
	return out
}

func (rp *refPkg) kind(k string) map[string]string {
	switch k {
	case "types":
		return rp.Types
	case "funcs":
		return rp.Funcs
	case "fields":
		return rp.Fields
	}
	return rp.Vars
}

// genReference writes the reference table of the loaded program.
func genReference(p *Program, path string) error {
	tbl := refTable{Packages: map[string]*refPkg{}}
	for _, pkg := range p.Repo {
		if pkg.PkgPath == controlsPath || strings.HasPrefix(pkg.PkgPath, ModPath+"/test") {
			continue
		}
		rp := &refPkg{Types: map[string]string{}, Funcs: map[string]string{}, Fields: map[string]string{}, Vars: map[string]string{}}
		for _, e := range identsOf(pkg.Types) {
			rp.kind(e.kind)[e.key] = e.desc
		}
		tbl.Packages[pkg.PkgPath] = rp
	}
	b, err := json.MarshalIndent(tbl, "", " ")
	if err != nil {
		return err
	}
	return os.WriteFile(path, append(b, '\n'), 0o644)
}

// Rename is one detected renaming.
type Rename struct {
	Pkg, Kind, Old, New string
	obj                 types.Object
}

func wordReplace(s, from, to string) string {
	return regexp.MustCompile(`\b`+regexp.QuoteMeta(from)+`\b`).ReplaceAllString(s, to)
}

// detectRenames compares the packages with the reference table.
func detectRenames(pkgs []*packages.Package) []Rename {
	var tbl refTable
	if len(referenceJSON) == 0 || json.Unmarshal(referenceJSON, &tbl) != nil {
		return nil
	}
	var out []Rename
	for _, pkg := range pkgs {
		rp := tbl.Packages[pkg.PkgPath]
		if rp == nil || pkg.Types == nil {
			continue
		}
		cur := identsOf(pkg.Types)
		// pair up gone and new identifiers of one kind whose (normalised)
		// key prefix and description agree, one to one
		match := func(kind string, norm func(string) string) []Rename {
			ref := rp.kind(kind)
			now := map[string]identEntry{}
			for _, e := range cur {
				if e.kind == kind {
					e.key, e.desc = norm(e.key), norm(e.desc)
					now[e.key] = e
				}
			}
			var gone, added []string
			for k := range ref {
				if _, ok := now[k]; !ok {
					gone = append(gone, k)
				}
			}
			for k := range now {
				if _, ok := ref[k]; !ok {
					added = append(added, k)
				}
			}
			sort.Strings(gone)
			sort.Strings(added)
			owner := func(k string) string {
				if i := strings.LastIndex(k, "."); i >= 0 {
					return k[:i]
				}
				return ""
			}
			cands := map[string][]string{}
			back := map[string][]string{}
			for _, g := range gone {
				for _, a := range added {
					if owner(g) == owner(a) && ref[g] == now[a].desc {
						cands[g] = append(cands[g], a)
						back[a] = append(back[a], g)
					}
				}
			}
			var rs []Rename
			base := func(k string) string { return k[strings.LastIndex(k, ".")+1:] }
			done := map[string]bool{}
			for _, g := range gone {
				if len(cands[g]) == 1 && len(back[cands[g][0]]) == 1 {
					a := cands[g][0]
					done[g] = true
					rs = append(rs, Rename{Pkg: pkg.PkgPath, Kind: kind, Old: base(g), New: now[a].obj.Name(), obj: now[a].obj})
				}
			}
			// several identifiers of one owner and one description renamed
			// together (pinCh, unpinCh -> pinQueue, unpinQueue): a group of
			// n gone and the same n new ones is paired by name similarity
			// when one pairing is strictly the most similar
			groups := map[string][]string{}
			for _, g := range gone {
				if !done[g] && len(cands[g]) > 1 {
					groups[owner(g)+"\x00"+ref[g]] = append(groups[owner(g)+"\x00"+ref[g]], g)
				}
			}
			var gkeys []string
			for k := range groups {
				gkeys = append(gkeys, k)
			}
			sort.Strings(gkeys)
			for _, gk := range gkeys {
				gs := groups[gk]
				as := cands[gs[0]]
				same := len(as) == len(gs) && len(gs) <= 4
				for _, g := range gs {
					if len(cands[g]) != len(as) {
						same = false
					}
					for i := range cands[g] {
						if same && cands[g][i] != as[i] {
							same = false
						}
					}
				}
				for _, a := range as {
					if len(back[a]) != len(gs) {
						same = false
					}
				}
				if !same {
					continue
				}
				best, second := -1.0, -1.0
				var bestPerm []int
				perm := make([]int, len(gs))
				used := make([]bool, len(gs))
				var rec func(i int, score float64)
				rec = func(i int, score float64) {
					if i == len(gs) {
						if score > best {
							second, best = best, score
							bestPerm = append([]int(nil), perm...)
						} else if score > second {
							second = score
						}
						return
					}
					for j := range as {
						if !used[j] {
							used[j] = true
							perm[i] = j
							rec(i+1, score+nameSimilarity(base(gs[i]), base(as[j])))
							used[j] = false
						}
					}
				}
				rec(0, 0)
				if bestPerm == nil || best-second < 1e-9 {
					continue
				}
				for i, g := range gs {
					a := as[bestPerm[i]]
					rs = append(rs, Rename{Pkg: pkg.PkgPath, Kind: kind, Old: base(g), New: now[a].obj.Name(), obj: now[a].obj})
				}
			}
			return rs
		}
		id := func(s string) string { return s }
		typeRen := match("types", func(s string) string { return s })
		// a renamed type shows in the keys and descriptions of its methods
		// and fields, and in signatures that mention it
		norm := id
		if len(typeRen) > 0 {
			norm = func(s string) string {
				for _, tr := range typeRen {
					s = wordReplace(s, tr.New, tr.Old)
				}
				return s
			}
		}
		out = append(out, typeRen...)
		for _, k := range []string{"funcs", "fields", "vars"} {
			out = append(out, match(k, norm)...)
		}
	}
	return out
}

// renamePositions: file -> byte offset -> old spelling, for every defining
// and using identifier of a renamed object.
func renamePositions(fset *token.FileSet, pkgs []*packages.Package, rs []Rename) map[string]map[int]string {
	byObj := map[types.Object]string{}
	for _, r := range rs {
		byObj[r.obj] = r.Old
	}
	origin := func(o types.Object) types.Object {
		switch x := o.(type) {
		case *types.Func:
			return x.Origin()
		case *types.Var:
			return x.Origin()
		}
		return o
	}
	out := map[string]map[int]string{}
	add := func(id *ast.Ident, o types.Object) {
		if o == nil {
			return
		}
		old, ok := byObj[origin(o)]
		if !ok {
			return
		}
		pos := fset.Position(id.Pos())
		if out[pos.Filename] == nil {
			out[pos.Filename] = map[int]string{}
		}
		out[pos.Filename][pos.Offset] = old
	}
	for _, pkg := range pkgs {
		if pkg.TypesInfo == nil {
			continue
		}
		for id, o := range pkg.TypesInfo.Defs {
			add(id, o)
		}
		for id, o := range pkg.TypesInfo.Uses {
			add(id, o)
		}
	}
	return out
}

// renamingParser parses a file and spells the listed identifiers the old way.
func renamingParser(pos map[string]map[int]string) func(*token.FileSet, string, []byte) (*ast.File, error) {
	return func(fset *token.FileSet, filename string, src []byte) (*ast.File, error) {
		f, err := parser.ParseFile(fset, filename, src, parser.AllErrors|parser.ParseComments)
		if f == nil {
			return f, err
		}
		if m := pos[filename]; m != nil {
			ast.Inspect(f, func(n ast.Node) bool {
				if id, ok := n.(*ast.Ident); ok {
					if old, ok := m[fset.Position(id.Pos()).Offset]; ok {
						id.Name = old
					}
				}
				return true
			})
		}
		return f, err
	}
}

func (r Rename) String() string {
	return fmt.Sprintf("%s %s: %s (was %s)", strings.TrimPrefix(strings.TrimPrefix(r.Pkg, ModPath), "/"), r.Kind, r.New, r.Old)
}

// nameSimilarity: length of the longest common substring of the two names
// (case-insensitive) over the length of the longer one.
func nameSimilarity(a, b string) float64 {
	a, b = strings.ToLower(a), strings.ToLower(b)
	if len(a) == 0 || len(b) == 0 {
		return 0
	}
	best := 0
	prev := make([]int, len(b)+1)
	for i := 1; i <= len(a); i++ {
		cur := make([]int, len(b)+1)
		for j := 1; j <= len(b); j++ {
			if a[i-1] == b[j-1] {
				cur[j] = prev[j-1] + 1
				if cur[j] > best {
					best = cur[j]
				}
			}
		}
		prev = cur
	}
	m := len(a)
	if len(b) > m {
		m = len(b)
	}
	return float64(best) / float64(m)
}
