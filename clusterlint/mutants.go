package main

// MutantReport summarises the sensitivity suite (thorough tier).
type MutantReport struct {
	Applied  int      `json:"applied"`
	Detected int      `json:"detected"`
	Misses   []string `json:"misses"`
	Stale    []string `json:"stale"`
	Details  []string `json:"details"`
}

func runMutants(root string) *MutantReport { return nil }
