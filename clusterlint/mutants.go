package main

import (
	"fmt"
	"io"
	"io/fs"
	"os"
	"os/exec"
	"path/filepath"
	"regexp"
	"sort"
	"strings"
	"sync"
)

// MutantReport summarises the sensitivity suite (thorough tier): every
// patch under /verif/mutants is applied to a scratch copy of the repository
// (outside /repo and /verif, removed at once), the analyser is run on it in
// a separate process, and the report must contain a violation. Misses are
// WARNINGs and never change the verdict on /repo.
type MutantReport struct {
	Applied  int      `json:"applied"`
	Detected int      `json:"detected"`
	Misses   []string `json:"misses"`
	Stale    []string `json:"stale"`
	Details  []string `json:"details"`
}

func copyTree(src, dst string) error {
	return filepath.WalkDir(src, func(path string, d fs.DirEntry, err error) error {
		if err != nil {
			return err
		}
		rel, _ := filepath.Rel(src, path)
		if d.IsDir() {
			if d.Name() == ".git" && path != src {
				return filepath.SkipDir
			}
			return os.MkdirAll(filepath.Join(dst, rel), 0o755)
		}
		if !d.Type().IsRegular() {
			return nil
		}
		in, err := os.Open(path)
		if err != nil {
			return err
		}
		defer in.Close()
		out, err := os.Create(filepath.Join(dst, rel))
		if err != nil {
			return err
		}
		defer out.Close()
		_, err = io.Copy(out, in)
		return err
	})
}

var violRe = regexp.MustCompile(`(?m)^(?:VIOLATED|UNDECIDED) (\S+)`)

func runMutants(root string, id string) *MutantReport {
	rep := &MutantReport{}
	patches, _ := filepath.Glob(filepath.Join(verifDir, "mutants", id+"-*.patch"))
	sort.Strings(patches)
	if len(patches) == 0 {
		return rep
	}
	exe, err := os.Executable()
	if err != nil {
		return rep
	}
	type res struct {
		name, detail string
		state        int // 0 detected, 1 missed, 2 stale
	}
	results := make([]res, len(patches))
	sem := make(chan struct{}, 5)
	var wg sync.WaitGroup
	for i, p := range patches {
		wg.Add(1)
		go func(i int, p string) {
			defer wg.Done()
			sem <- struct{}{}
			defer func() { <-sem }()
			name := strings.TrimSuffix(filepath.Base(p), ".patch")
			dir, err := os.MkdirTemp("", "clusterlint-mutant-")
			if err != nil {
				results[i] = res{name, "mktemp: " + err.Error(), 2}
				return
			}
			defer os.RemoveAll(dir)
			if err := copyTree(root, dir); err != nil {
				results[i] = res{name, "copy: " + err.Error(), 2}
				return
			}
			ap := exec.Command("patch", "-p1", "-s", "-i", p)
			ap.Dir = dir
			if out, err := ap.CombinedOutput(); err != nil {
				results[i] = res{name, "patch does not apply any more: " + strings.TrimSpace(string(out)), 2}
				return
			}
			cmd := exec.Command(exe, "-repo", dir, "-property", "all", "-no-evidence", "-no-cache", "-tier", "quick")
			cmd.Env = append(os.Environ(), "VERIF_DIR="+verifDir, "VERIF_TIER=quick")
			out, _ := cmd.CombinedOutput()
			if strings.Contains(string(out), "BROKEN:") {
				results[i] = res{name, "analysis broken on the mutant (does not type-check?)", 2}
				return
			}
			ms := violRe.FindAllStringSubmatch(string(out), -1)
			seen := map[string]bool{}
			var keys []string
			for _, m := range ms {
				if !seen[m[1]] {
					seen[m[1]] = true
					keys = append(keys, m[1])
				}
			}
			if len(keys) == 0 {
				results[i] = res{name, "NOT DETECTED", 1}
				return
			}
			if len(keys) > 4 {
				keys = append(keys[:4], fmt.Sprintf("(+%d more)", len(keys)-4))
			}
			results[i] = res{name, "detected by " + strings.Join(keys, ", "), 0}
		}(i, p)
	}
	wg.Wait()
	for _, r := range results {
		switch r.state {
		case 0:
			rep.Applied++
			rep.Detected++
		case 1:
			rep.Applied++
			rep.Misses = append(rep.Misses, r.name)
		case 2:
			rep.Stale = append(rep.Stale, r.name+": "+r.detail)
		}
		rep.Details = append(rep.Details, r.name+": "+r.detail)
	}
	return rep
}
