package main

import (
	"fmt"
	"go/ast"
	"go/constant"
	"go/token"
	"go/types"
	"sort"
	"strings"

	"golang.org/x/tools/go/ssa"
)

func init() {
	register(
		&Rule{ID: "R04.1", Props: []string{"C04"}, Floor: 10, Title: "every cluster-level entry point that can reach Consensus.LogPin/LogUnpin does so only behind the follower-mode guard (interprocedural, RPC stitched)", Run: r041},
		&Rule{ID: "R04.2", Props: []string{"C04", "C03"}, Floor: 14, Title: "PinOptions.Equals and Pin.Equals compare every field on both operands; map fields are compared in both directions", Run: r042},
		&Rule{ID: "R04.3", Props: []string{"C04"}, Floor: 6, Title: "pin(): LogPin only after setupPin succeeded; setupPin validates factors, expiry, type and mode", Run: r043},
		&Rule{ID: "R04.4", Props: []string{"C04"}, Floor: 4, Title: "Unpin dispatches exhaustively on the pin type; only data and meta pins are unpinned, after the pin was found", Run: r044},
		&Rule{ID: "R04.5", Props: []string{"C04"}, Floor: 3, Title: "PinUpdate never unpins and logs the stored source pin with only cid, update source, name and expiry replaced", Run: r045},
		&Rule{ID: "R04.6", Props: []string{"C04", "C03"}, Floor: 1, Title: "the same-options shortcut (keep existing allocations) requires an existing pin, equal options and an empty exclusion list", Run: r046},
	)
}

var c04Sinks = []string{ModPath + ".Consensus).LogPin", ModPath + ".Consensus).LogUnpin"}

type safeCtx struct {
	c       *Ctx
	reach   map[*ssa.Function]bool
	safe    map[*ssa.Function]int // 0 unknown, 1 computing, 2 safe, 3 unsafe
	witness map[*ssa.Function]string
}

func (s *safeCtx) reaches(f *ssa.Function) bool {
	if v, ok := s.reach[f]; ok {
		return v
	}
	s.reach[f] = false
	v := s.c.pathTo(f, sinkNamed(c04Sinks...), reachOpt{}) != nil
	s.reach[f] = v
	return v
}

// followerGuarded: the block is on the non-follower edge of a FollowerMode
// test whose follower edge returns a non-nil error.
func followerGuarded(b *ssa.BasicBlock) bool {
	for _, g := range guardsOf(b) {
		if !gField(g, "FollowerMode", false) {
			continue
		}
		// the other edge must only lead to error returns
		follower := g.If.Block().Succs[0]
		if u, ok := g.If.Cond.(*ssa.UnOp); ok && u.Op == token.NOT {
			follower = g.If.Block().Succs[1]
		}
		ok := true
		for _, ret := range returnsFrom(follower) {
			n := len(ret.Results)
			if n == 0 {
				continue // void functions (StateSync-like loops return)
			}
			last := retResult(ret, n-1)
			if types.Identical(last.Type(), types.Universe.Lookup("error").Type()) && isNilConst(last) {
				// reachable nil return from the follower edge: only
				// acceptable if that return is also reachable otherwise
				// (shared exit); require the follower successor itself to
				// end in a return
				if len(follower.Succs) != 0 {
					continue
				}
				ok = false
			}
		}
		if ok {
			return true
		}
	}
	return false
}

func (s *safeCtx) isSafe(f *ssa.Function) bool {
	switch s.safe[f] {
	case 1, 2:
		return true
	case 3:
		return false
	}
	s.safe[f] = 1
	ok := true
	bySite := map[ssa.CallInstruction][]*ssa.Function{}
	for _, e := range s.c.succs(f, reachOpt{}) {
		bySite[e.Site] = append(bySite[e.Site], e.Callee)
	}
	var sites []ssa.CallInstruction
	for site := range bySite {
		sites = append(sites, site)
	}
	sort.Slice(sites, func(i, j int) bool { return sites[i].Pos() < sites[j].Pos() })
	for _, site := range sites {
		isSink := nameMatches(callName(site.Common()), c04Sinks...)
		var bad []*ssa.Function
		for _, cal := range bySite[site] {
			if isSink || s.reaches(cal) || nameMatches(cal.String(), ").LogPin", ").LogUnpin") && isSink {
				bad = append(bad, cal)
			}
		}
		if !isSink && len(bad) == 0 {
			continue
		}
		if site.Parent() == f && followerGuarded(site.Block()) {
			continue
		}
		if isSink {
			ok = false
			s.witness[f] = fmt.Sprintf("%s calls %s at %s without a follower-mode guard", f, callName(site.Common()), s.c.P.Pos(site.Pos()))
			break
		}
		for _, cal := range bad {
			if !s.isSafe(cal) {
				ok = false
				s.witness[f] = fmt.Sprintf("%s -> %s", f, s.witness[cal])
				break
			}
		}
		if !ok {
			break
		}
	}
	if ok {
		s.safe[f] = 2
	} else {
		s.safe[f] = 3
	}
	return ok
}

func r041(c *Ctx, r *R) {
	sc := &safeCtx{c: c, reach: map[*ssa.Function]bool{}, safe: map[*ssa.Function]int{}, witness: map[*ssa.Function]string{}}
	var entries []*ssa.Function
	for _, tn := range []string{"Cluster", "ClusterRPCAPI"} {
		nt := c.namedType(r, "", tn)
		if nt == nil {
			return
		}
		ms := c.P.SSA.MethodSets.MethodSet(types.NewPointer(nt))
		for i := 0; i < ms.Len(); i++ {
			sel := ms.At(i)
			if tn == "Cluster" && !sel.Obj().Exported() {
				continue
			}
			if f := c.P.SSA.MethodValue(sel); f != nil && f.Blocks != nil && f.Synthetic == "" {
				entries = append(entries, f)
			}
		}
	}
	if len(entries) < 50 {
		r.Und("entries", token.NoPos, "only %d cluster-level entry points found", len(entries))
	}
	for _, e := range entries {
		if !sc.reaches(e) {
			continue
		}
		name := strings.TrimPrefix(e.String(), "(*"+ModPath+".")
		if sc.isSafe(e) {
			r.OK("entry:"+name, e.Pos(), "reaches the pinset write only behind the follower-mode guard")
		} else {
			r.Bad("entry:"+name, e.Pos(), "a write to the pinset is reachable in follower mode: %s", sc.witness[e])
		}
	}
}

func r042(c *Ctx, r *R) {
	check := func(tname string, except map[string]string) {
		fd, pkg := c.decl(r, "api", tname+".Equals")
		nt := c.namedType(r, "api", tname)
		if fd == nil || nt == nil {
			return
		}
		recv := pkg.TypesInfo.ObjectOf(fd.Recv.List[0].Names[0])
		arg := pkg.TypesInfo.ObjectOf(fd.Type.Params.List[0].Names[0])
		used := map[types.Object]map[*types.Var]bool{recv: {}, arg: {}}
		ranged := map[types.Object]map[*types.Var]bool{recv: {}, arg: {}}
		lens := map[types.Object]map[*types.Var]bool{recv: {}, arg: {}}
		baseOf := func(e ast.Expr) (types.Object, *types.Var) {
			se, ok := ast.Unparen(e).(*ast.SelectorExpr)
			if !ok {
				return nil, nil
			}
			sel := pkg.TypesInfo.Selections[se]
			if sel == nil || sel.Kind() != types.FieldVal {
				return nil, nil
			}
			x := ast.Unparen(se.X)
			// pin.PinOptions.X style: walk down
			for {
				if inner, ok := x.(*ast.SelectorExpr); ok {
					x = ast.Unparen(inner.X)
					continue
				}
				if u, ok := x.(*ast.UnaryExpr); ok {
					x = ast.Unparen(u.X)
					continue
				}
				if st, ok := x.(*ast.StarExpr); ok {
					x = ast.Unparen(st.X)
					continue
				}
				break
			}
			id, ok := x.(*ast.Ident)
			if !ok {
				return nil, nil
			}
			return pkg.TypesInfo.ObjectOf(id), sel.Obj().(*types.Var)
		}
		ast.Inspect(fd.Body, func(n ast.Node) bool {
			switch x := n.(type) {
			case *ast.SelectorExpr:
				if o, f := baseOf(x); o != nil && used[o] != nil {
					used[o][f] = true
				}
			case *ast.RangeStmt:
				if o, f := baseOf(x.X); o != nil && ranged[o] != nil {
					ranged[o][f] = true
				}
			case *ast.CallExpr:
				if id, ok := x.Fun.(*ast.Ident); ok && id.Name == "len" && len(x.Args) == 1 {
					if o, f := baseOf(x.Args[0]); o != nil && lens[o] != nil {
						lens[o][f] = true
					}
				}
			}
			return true
		})
		st := structOf(nt)
		for i := 0; i < st.NumFields(); i++ {
			f := st.Field(i)
			key := "api." + tname + ".Equals:" + f.Name()
			if why, ok := except[f.Name()]; ok {
				r.OK(key, f.Pos(), "field %s is deliberately not compared: %s", f.Name(), why)
				continue
			}
			if !used[recv][f] || !used[arg][f] {
				r.Bad(key, fd.Pos(), "%s.Equals does not compare field %s on both operands (receiver: %v, argument: %v): a change of it is not detected and the re-pin keeps the old value", tname, f.Name(), used[recv][f], used[arg][f])
				continue
			}
			if _, isMap := f.Type().Underlying().(*types.Map); isMap {
				sym := (ranged[recv][f] && ranged[arg][f]) || (lens[recv][f] && lens[arg][f])
				if !sym {
					r.Bad(key, fd.Pos(), "%s.Equals compares map field %s in one direction only (ranges over one operand, no length comparison): keys present only in the other operand are ignored, so removing a key compares equal", tname, f.Name())
					continue
				}
			}
			r.OK(key, fd.Pos(), "field %s is compared on both operands", f.Name())
		}
	}
	// membership flags are per element: in the nested "is every element of
	// a also in b" loops, the boolean tested after the inner loop must not
	// be carried over from the previous outer iteration (a flag declared
	// outside the outer loop stays true after the first match and accepts
	// every later element unseen)
	for _, tname := range []string{"PinOptions", "Pin"} {
		f := c.P.Func("api", tname+".Equals")
		if f == nil || f.Blocks == nil {
			continue
		}
		isHeader := map[*ssa.BasicBlock]bool{}
		for _, b := range f.Blocks {
			for _, p := range b.Preds {
				if b.Dominates(p) {
					isHeader[b] = true
				}
			}
		}
		nflags := 0
		for _, b := range f.Blocks {
			iff, ok := b.Instrs[len(b.Instrs)-1].(*ssa.If)
			if !ok {
				continue
			}
			cond := iff.Cond
			for {
				if u, ok := cond.(*ssa.UnOp); ok && u.Op == token.NOT {
					cond = u.X
					continue
				}
				break
			}
			flag, ok := cond.(*ssa.Phi)
			if !ok {
				continue
			}
			// innermost loop enclosing the test
			var L *ssa.BasicBlock
			for h := range isHeader {
				if h != b && h.Dominates(b) && inNaturalLoop(b, h) {
					if L == nil || L.Dominates(h) {
						L = h
					}
				}
			}
			if L == nil {
				continue
			}
			nflags++
			seen := map[*ssa.Phi]bool{}
			carried := false
			var walk func(p *ssa.Phi)
			walk = func(p *ssa.Phi) {
				if seen[p] {
					return
				}
				seen[p] = true
				if p.Block() == L {
					carried = true
				}
				for _, e := range p.Edges {
					if q, ok := e.(*ssa.Phi); ok {
						walk(q)
					}
				}
			}
			walk(flag)
			r.Check(!carried, fmt.Sprintf("api.%s.Equals:flag-per-element@%s", tname, flag.Comment), flag.Pos(), "the membership flag tested here is initialised inside the enclosing loop (one verdict per element)", fmt.Sprintf("the membership flag %q tested here is carried across iterations of the enclosing loop: after the first match every later element is accepted without being looked up, so a changed element compares equal", flag.Comment))
		}
		_ = nflags
	}
	check("PinOptions", map[string]string{"PinUpdate": "commented in the source as deliberately ignored: an update source does not change the stored options"})
	check("Pin", nil)
}

func r043(c *Ctx, r *R) {
	f := c.fn(r, "", "Cluster.pin")
	if f == nil {
		return
	}
	lp := findCalls(f, false, c04Sinks[0])
	if len(lp) == 0 {
		r.Und("pin:LogPin", f.Pos(), "pin() makes no LogPin call")
	}
	for i, ci := range lp {
		okSetup := guardedBy(ci.Block(), func(g Guard) bool { return gCallErrNil(g, ModPath+".Cluster).setupPin") })
		okGet := false
		for _, g := range findCalls(f, false, ModPath+".Cluster).PinGet") {
			if dominatesInstr(g, ci) {
				okGet = true
			}
		}
		r.Check(okSetup && okGet, fmt.Sprintf("pin:LogPin#%d", i+1), ci.Pos(), "LogPin is dominated by the state lookup and by setupPin succeeding", "pin() logs the pin without a successful setupPin (invalid factors/expiry/type would be stored)")
		// the pin given to setupPin is the one logged (or `existing`)
	}
	// allocation failure returns before LogPin: LogPin (non-meta) guarded by allocate err == nil on the allocating path
	// setupPin
	sp := c.fn(r, "", "Cluster.setupPin")
	if sp == nil {
		return
	}
	// the leaves of setupPin's result, looking through helpers that were
	// extracted from it (a single-caller helper is a piece of setupPin)
	spLeaves := returnLeavesDeep(sp, 0)
	for _, lf := range spLeaves {
		if isNilConst(lf.Val) {
			r.Check(lf.GuardedBy(func(g Guard) bool { return gCallErrNil(g, ModPath+".Cluster).setupReplicationFactor") }), "setupPin:nil-after-factors", lf.Pos,
				"setupPin returns nil only after the replication factors were validated", "setupPin can return nil without validating the replication factors")
		}
	}
	hasErrReturnUnder := func(pred func(g Guard) bool) bool {
		for _, lf := range spLeaves {
			if isNilConst(lf.Val) {
				continue
			}
			if call, _ := originCallLocal(lf.Val); call != nil && nameMatches(callName(call.Common()), "checkPinType", "setupReplicationFactor") {
				continue
			}
			if lf.ViaCall("checkPinType", "setupReplicationFactor") {
				continue
			}
			if lf.GuardedBy(pred) {
				return true
			}
		}
		return false
	}
	r.Check(hasErrReturnUnder(func(g Guard) bool { return gCall(g, true, "(time.Time).Before") }), "setupPin:expiry", sp.Pos(), "an expiry in the past is refused", "setupPin no longer refuses an expiry in the past")
	cmpFields := func(name string) func(g Guard) bool {
		return func(g Guard) bool {
			b, ok := g.Cond.(*ssa.BinOp)
			if !ok {
				return false
			}
			fx, _ := fieldLoad(b.X)
			fy, _ := fieldLoad(b.Y)
			_, yk := constOf(b.Y)
			return fx != nil && fx.Name() == name && (fy != nil && fy.Name() == name || yk)
		}
	}
	r.Check(hasErrReturnUnder(cmpFields("Type")), "setupPin:type-change", sp.Pos(), "re-pinning with a different pin type is refused", "setupPin no longer refuses a re-pin with a different pin type")
	r.Check(hasErrReturnUnder(cmpFields("Mode")), "setupPin:mode-downgrade", sp.Pos(), "re-pinning a recursive pin as direct is refused", "setupPin no longer refuses recursive -> direct")
	// setupReplicationFactor returns isReplicationFactorValid(...)
	if srf := c.fn(r, "", "Cluster.setupReplicationFactor"); srf != nil {
		ok := true
		n := 0
		for _, lf := range returnLeaves(srf, 0) {
			n++
			call, _ := originCall(lf.Val)
			if call == nil || !nameMatches(callName(call.Common()), ModPath+".isReplicationFactorValid") {
				ok = false
			}
		}
		r.Check(ok && n > 0, "setupReplicationFactor:validates", srf.Pos(), "the factors (after defaults) go through isReplicationFactorValid", "setupReplicationFactor no longer returns isReplicationFactorValid's verdict")
	}
	// checkPinType is the last word for existing pins
	okCPT := false
	for _, lf := range spLeaves {
		if call, _ := originCallLocal(lf.Val); call != nil && nameMatches(callName(call.Common()), ModPath+".checkPinType") {
			okCPT = true
		}
		if lf.ViaCall(ModPath + ".checkPinType") {
			okCPT = true
		}
	}
	r.Check(okCPT, "setupPin:checkPinType", sp.Pos(), "setupPin ends with the pin-type well-formedness check", "setupPin no longer returns checkPinType's verdict")
}

func r044(c *Ctx, r *R) {
	f := c.fn(r, "", "Cluster.Unpin")
	fd, pkg := c.decl(r, "", "Cluster.Unpin")
	if f == nil || fd == nil {
		return
	}
	data, meta := c.constIn("api", "DataType"), c.constIn("api", "MetaType")
	lu := findCalls(f, false, c04Sinks[1])
	isT := func(x ssa.Value) bool { fl, _ := fieldLoad(x); return fl != nil && fl.Name() == "Type" }
	for i, ci := range lu {
		// every path to the call established Type == data or Type == meta
		// (dominance, or a switch arm that falls out to a shared call)
		typeOK := mustPass(ci.Block(), func(g Guard) bool { return gEq(g, data, true, isT) || gEq(g, meta, true, isT) })
		found := mustPass(ci.Block(), func(g Guard) bool { return gCallErrNil(g, ModPath+".Cluster).PinGet") })
		r.Check(typeOK && found, fmt.Sprintf("Unpin:LogUnpin#%d", i+1), ci.Pos(), "LogUnpin only for data/meta pins that were found in the pinset", "Unpin logs an unpin for a pin type other than data/meta, or without the pin having been found")
		// what is unpinned is the pin that was looked up
		a := callArgs(ci.Common())
		pc, idx := originCall(a[1])
		r.Check(pc != nil && idx == 0 && nameMatches(callName(pc.Common()), ModPath+".Cluster).PinGet"), fmt.Sprintf("Unpin:arg#%d", i+1), ci.Pos(), "the stored pin is what is unpinned", "Unpin removes something other than the looked-up pin")
	}
	if len(lu) == 0 {
		r.Bad("Unpin:arms", f.Pos(), "Unpin has no LogUnpin call")
	}
	// data and meta pins can both be unpinned: a LogUnpin is reachable
	// without taking an edge that asserts another type
	for _, k := range []struct {
		name string
		v    constant.Value
	}{{"data", data}, {"meta", meta}} {
		reach := false
		for _, ci := range lu {
			if !mustPass(ci.Block(), func(g Guard) bool {
				// edges that exclude this type: Type == k is false, or
				// Type == other constant is true
				if gEq(g, k.v, false, isT) {
					return true
				}
				x, kk, tme, ok := eqConst(g.Cond)
				return ok && isT(x) && tme == g.Branch && !constant.Compare(kk, token.EQL, k.v)
			}) {
				reach = true
			}
		}
		r.Check(reach, "Unpin:can-unpin:"+k.name, f.Pos(), k.name+" pins reach LogUnpin", "Unpin has no path that logs the unpin of a "+k.name+" pin")
	}
	// exhaustive switch
	pt := c.namedType(r, "api", "PinType")
	if pt == nil {
		return
	}
	var sw *ast.SwitchStmt
	ast.Inspect(fd.Body, func(n ast.Node) bool {
		if s, ok := n.(*ast.SwitchStmt); ok && s.Tag != nil {
			if se, ok := s.Tag.(*ast.SelectorExpr); ok && se.Sel.Name == "Type" {
				sw = s
			}
		}
		return true
	})
	if sw == nil {
		r.Und("Unpin:switch", fd.Pos(), "switch over pin.Type not found")
		return
	}
	covered := map[string]bool{}
	defaultErr := false
	for _, cl := range sw.Body.List {
		cc := cl.(*ast.CaseClause)
		if cc.List == nil {
			for _, s := range cc.Body {
				if ret, ok := s.(*ast.ReturnStmt); ok && len(ret.Results) == 2 {
					if id, ok := ret.Results[1].(*ast.Ident); !ok || id.Name != "nil" {
						defaultErr = true
					}
				}
			}
			continue
		}
		for _, e := range cc.List {
			covered[constName(pkg, e)] = true
		}
	}
	for _, k := range declaredConsts(pt) {
		if k.Name() == "BadType" || k.Name() == "AllType" {
			continue
		}
		r.Check(covered[k.Name()] || defaultErr, "Unpin:case:"+k.Name(), sw.Pos(), "pin type "+k.Name()+" is handled", "pin type "+k.Name()+" has no arm in Unpin and the default does not refuse")
	}
	// unpinClusterDag precedes the meta LogUnpin and its failure aborts:
	// every path to a LogUnpin either established that the pin is not a
	// meta pin or passed the success edge of unpinClusterDag
	ucd := findCalls(f, false, ModPath+".Cluster).unpinClusterDag")
	if len(ucd) >= 1 {
		ok := true
		for _, ci := range lu {
			if !mustPass(ci.Block(), func(g Guard) bool {
				if gCallErrNil(g, ModPath+".Cluster).unpinClusterDag") || gEq(g, meta, false, isT) {
					return true
				}
				x, kk, tme, isEq := eqConst(g.Cond)
				return isEq && isT(x) && tme == g.Branch && !constant.Compare(kk, token.EQL, meta)
			}) {
				ok = false
			}
		}
		r.Check(ok, "Unpin:meta-dag-first", ucd[0].Pos(), "a meta pin is removed only after its cluster-DAG and shards were unpinned", "the meta entry is removed although unpinning its cluster-DAG/shards failed")
	} else {
		r.Bad("Unpin:meta-dag", f.Pos(), "Unpin does not remove the cluster-DAG and shard entries of sharded content")
	}
}

func r045(c *Ctx, r *R) {
	f := c.fn(r, "", "Cluster.PinUpdate")
	if f == nil {
		return
	}
	path := c.pathTo(f, sinkNamed(c04Sinks[1]), reachOpt{})
	r.Check(path == nil, "PinUpdate:no-unpin", f.Pos(), "PinUpdate cannot reach LogUnpin", "PinUpdate can remove a pin: "+strings.Join(path, " -> "))
	lp := findCalls(f, false, c04Sinks[0])
	if len(lp) != 1 {
		r.Bad("PinUpdate:LogPin", f.Pos(), "PinUpdate has %d LogPin calls", len(lp))
		return
	}
	a := callArgs(lp[0].Common())
	// the logged pin: PinGet(from)'s result, directly or handed back by a
	// helper that fetched (and vetted) it
	okSrc, nSrc := true, 0
	for _, lf := range valueLeavesDeep(a[1], lp[0].Block()) {
		if isNilConst(lf.Val) {
			continue
		}
		nSrc++
		src, idx := originCall(lf.Val)
		if src == nil || idx != 0 || !nameMatches(callName(src.Common()), ModPath+".Cluster).PinGet") || paramIndex(f, callArgs(src.Common())[1]) != 2 {
			okSrc = false
		}
	}
	if !okSrc || nSrc == 0 {
		r.Bad("PinUpdate:source", lp[0].Pos(), "the pin logged by PinUpdate is not the stored pin of `from` (allocations and options would not be copied)")
		return
	}
	r.OK("PinUpdate:source", lp[0].Pos(), "the logged pin is the stored source pin")
	r.Check(guardedBy(lp[0].Block(), func(g Guard) bool { return gCallErrNil(g, ModPath+".Cluster).PinGet") }), "PinUpdate:source-exists", lp[0].Pos(), "update of a CID that is not pinned is refused", "PinUpdate logs a pin although the source was not found")
	// fields overwritten on that object, here or in a helper it is handed to
	base := strip(a[1])
	var written []string
	instrsDeep(f, func(i ssa.Instruction) {
		st, ok := i.(*ssa.Store)
		if !ok {
			return
		}
		fa, ok := st.Addr.(*ssa.FieldAddr)
		if !ok {
			return
		}
		root := fa.X
		for {
			if inner, ok := root.(*ssa.FieldAddr); ok {
				root = inner.X
				continue
			}
			break
		}
		if strip(root) == base {
			written = append(written, fieldOfAddr(fa).Name())
			// the optional overrides replace the copied value only when
			// the request carries one
			switch fieldOfAddr(fa).Name() {
			case "Name":
				given := guardedBy(st.Block(), func(g Guard) bool {
					x, k, tme, isEq := eqConst(g.Cond)
					if !isEq || k.Kind() != constant.String || constant.StringVal(k) != "" || tme == g.Branch {
						return false
					}
					xf, _ := fieldLoad(x)
					return xf != nil && xf.Name() == "Name"
				})
				r.Check(given, "PinUpdate:name-only-when-given", st.Pos(), "the copied name is replaced only by a non-empty requested name", "PinUpdate overwrites the name copied from the source pin even when the request gives none: an update without a name stores the new pin unnamed (the source's options must be copied)")
			case "ExpireAt":
				given := guardedBy(st.Block(), func(g Guard) bool { return gCall(g, false, "(time.Time).IsZero") })
				r.Check(given, "PinUpdate:expiry-only-when-given", st.Pos(), "the copied expiry is replaced only by a requested one", "PinUpdate overwrites the expiry copied from the source pin even when the request gives none")
			}
		}
	})
	sort.Strings(written)
	allowed := map[string]bool{"Cid": true, "PinUpdate": true, "Name": true, "ExpireAt": true}
	okW := true
	has := map[string]bool{}
	for _, w := range written {
		has[w] = true
		if !allowed[w] {
			okW = false
		}
	}
	r.Check(okW && has["Cid"] && has["PinUpdate"], "PinUpdate:fields", lp[0].Pos(), fmt.Sprintf("only %v are replaced on the copied pin", written), fmt.Sprintf("PinUpdate overwrites %v on the copied pin (allowed: Cid, PinUpdate, Name, ExpireAt; Cid and PinUpdate required)", written))
}

func r046(c *Ctx, r *R) {
	f := c.fn(r, "", "Cluster.pin")
	if f == nil {
		return
	}
	var get *ssa.Call
	for _, ci := range findCalls(f, false, ModPath+".Cluster).PinGet") {
		get, _ = ci.(*ssa.Call)
	}
	if get == nil {
		r.Und("shortcut", f.Pos(), "PinGet not found in pin()")
		return
	}
	// wherever the pin that is logged can be the stored pin itself (the
	// "nothing changed, keep the allocations" shortcut), the path that
	// selected it established: the pin exists, the options are equal, the
	// exclusion list is empty. Decided on the value that reaches LogPin
	// (a phi in pin(), or the result of a helper that makes the choice).
	n := 0
	seenLeaf := map[string]bool{}
	for _, lp := range findCalls(f, false, c04Sinks[0]) {
		for _, lf := range valueLeavesDeep(callArgs(lp.Common())[1], lp.Block()) {
			pc, idx := originCall(lf.Val)
			if pc != get || idx != 0 {
				continue
			}
			key := fmt.Sprintf("%p/%p", lf.Block, lf.Into)
			if seenLeaf[key] {
				continue
			}
			seenLeaf[key] = true
			n++
			nonNil, eq, emptyBL := false, false, false
			for _, g := range lf.Guards() {
				if gNil(g, true, func(v ssa.Value) bool { cc, _ := originCall(v); return cc == get }) {
					nonNil = true
				}
				if gCall(g, true, "api.PinOptions).Equals") {
					eq = true
				}
				if x, k, tme, ok := eqConst(g.Cond); ok && tme == g.Branch {
					if call, _ := originCall(x); call != nil && callName(call.Common()) == "builtin.len" && paramIndex(f, call.Common().Args[0]) == 3 {
						if iv, _ := constInt(ssa.NewConst(k, types.Typ[types.Int])); iv == 0 {
							emptyBL = true
						}
					}
				}
			}
			r.Check(nonNil && eq && emptyBL, "shortcut:conditions", lf.Pos, "existing allocations are kept only when the pin exists, its options are equal and nothing is excluded",
				fmt.Sprintf("the same-options shortcut lacks a condition (existing != nil: %v, options equal: %v, empty exclusion list: %v)", nonNil, eq, emptyBL))
		}
	}
	if n == 0 {
		r.Und("shortcut", f.Pos(), "the `pin = existing` shortcut was not found in pin()")
	}
}

// inNaturalLoop: b belongs to the natural loop of header h, i.e. it reaches
// the source of one of h's back edges without passing through h.
func inNaturalLoop(b, h *ssa.BasicBlock) bool {
	for _, p := range h.Preds {
		if !h.Dominates(p) {
			continue
		}
		if b == h { // the header of a loop belongs to it
			return true
		}
		if p == b || blockReachesAvoiding(b, p, h) {
			return true
		}
	}
	return false
}
