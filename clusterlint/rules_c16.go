package main

import (
	"fmt"
	"go/constant"
	"go/token"
	"go/types"
	"strings"

	"golang.org/x/tools/go/ssa"
)

func init() {
	register(
		&Rule{ID: "R16.1", Props: []string{"C16"}, Floor: 3, Title: "Connector.Pin returns nil only after an is-pinned answer, as pin-update's result, or after the progress loop succeeded", Run: r161},
		&Rule{ID: "R16.2", Props: []string{"C16"}, Floor: 4, Title: "pinProgress returns nil only on EOF with a live context after checkResponse; the watchdog cancels the request when the progress counter stalls for PinTimeout", Run: r162},
		&Rule{ID: "R16.3", Props: []string{"C16"}, Floor: 3, Title: "pin/update is used only when the source is pinned recursively and always with unpin=false", Run: r163},
		&Rule{ID: "R16.4", Props: []string{"C16", "C05"}, Floor: 3, Title: "Connector.Unpin returns nil only when the request succeeded or IPFS said 'not pinned'; it refuses before any request when unpinning is disabled", Run: r164},
		&Rule{ID: "R16.5", Props: []string{"C16"}, Floor: 4, Title: "non-200 answers and transport failures always become errors; transport failures carry no body (daemon down vs not pinned)", Run: r165},
	)
}

const ipfshttp = "ipfsconn/ipfshttp"

func r161(c *Ctx, r *R) {
	f := c.fn(r, ipfshttp, "Connector.Pin")
	if f == nil {
		return
	}
	nNil := 0
	for _, lf := range returnLeaves(f, 0) {
		v := lf.Val
		if isNilConst(v) {
			nNil++
			already := lf.GuardedBy(func(g Guard) bool {
				call, _ := originCall(g.Cond)
				if call == nil || !g.Branch || !nameMatches(callName(call.Common()), "api.IPFSPinStatus).IsPinned") {
					return false
				}
				// IsPinned(pin.MaxDepth) on the status of PinLsCid(ctx, pin)
				fl, _ := fieldLoad(call.Common().Args[1])
				st, idx := originCall(call.Common().Args[0])
				return fl != nil && fl.Name() == "MaxDepth" && st != nil && idx == 0 && nameMatches(callName(st.Common()), "ipfshttp.Connector).PinLsCid") && paramIndex(f, callArgs(st.Common())[1]) == 2
			})
			progressed := lf.GuardedBy(func(g Guard) bool { return gCallErrNil(g, "ipfshttp.Connector).pinProgress") })
			switch {
			case already:
				okErr := lf.GuardedBy(func(g Guard) bool { return gCallErrNil(g, "ipfshttp.Connector).PinLsCid") })
				r.Check(okErr, "pin:nil:already-pinned", lf.Pos, "nil without a request only when pin/ls succeeded and reports the CID pinned at the requested depth", "the already-pinned shortcut is taken although pin/ls failed")
			case progressed:
				r.OK("pin:nil:progress-done", lf.Pos, "nil after the progress loop succeeded")
			default:
				r.Bad("pin:nil:other", lf.Pos, "Connector.Pin returns nil on a path that neither found the CID pinned nor completed the pin request")
			}
			continue
		}
		call, _ := originCall(v)
		if call == nil {
			r.Bad("pin:returns-unknown", lf.Pos, "Pin returns %s", v)
			continue
		}
		cn := callName(call.Common())
		switch {
		case nameMatches(cn, "ipfshttp.Connector).pinUpdate"), nameMatches(cn, "ipfshttp.Connector).PinLsCid"), nameMatches(cn, "ipfshttp.Connector).pinProgress"):
			r.OK("pin:returns:"+shortName(call), lf.Pos, "returns the result of %s", shortName(call))
		default:
			r.Bad("pin:returns:"+cn, lf.Pos, "Pin returns the result of %s", cn)
		}
	}
	if nNil < 2 {
		r.Bad("pin:shape", f.Pos(), "Pin lost the already-pinned shortcut or the success exit (%d nil returns)", nNil)
	}
	// IsPinned semantic table: recursive satisfies any depth, direct only depth 0
	ip := c.fn(r, "api", "IPFSPinStatus.IsPinned")
	if ip != nil {
		// evaluated on every declared status and a spread of depths,
		// however the function is written (switch, helper, table)
		rec, dir := c.constNamed("api", "IPFSPinStatusRecursive"), c.constNamed("api", "IPFSPinStatusDirect")
		okCases, why := rec != nil && dir != nil, ""
		if nt := c.namedType(r, "api", "IPFSPinStatus"); nt != nil && okCases {
			for _, k := range declaredConsts(nt) {
				for _, depth := range []int64{-1, 0, 1, 2, 50} {
					_, got, ok := ssaEval(ip, bindParams(ip, map[int]constant.Value{0: k.Val(), 1: constant.MakeInt64(depth)}))
					want := constant.Compare(k.Val(), token.EQL, rec)
					if depth == 0 {
						want = constant.Compare(k.Val(), token.EQL, dir)
					}
					if !ok || got.Kind() != constant.Bool || constant.BoolVal(got) != want {
						okCases = false
						why = fmt.Sprintf(" (%s at depth %d: want %v, evaluated: %v)", k.Name(), depth, want, ok)
					}
				}
			}
		}
		r.Check(okCases, "ispinned:cases", ip.Pos(), "IsPinned: depth 0 needs a direct pin, any other depth a recursive pin (evaluated for every status)", "IsPinned no longer requires a direct pin for depth 0 and a recursive pin otherwise"+why)
	}
}

func r162(c *Ctx, r *R) {
	f := c.fn(r, ipfshttp, "Connector.pinProgress")
	if f == nil {
		return
	}
	n := 0
	for _, lf := range returnLeavesDeep(f, 0) {
		if !isNilConst(lf.Val) {
			continue
		}
		n++
		eof := lf.GuardedBy(func(g Guard) bool {
			b, ok := g.Cond.(*ssa.BinOp)
			if !ok || (b.Op == token.EQL) != g.Branch {
				return false
			}
			return isGlobalLoad(b.Y, "EOF") || isGlobalLoad(b.X, "EOF")
		})
		live := lf.GuardedBy(func(g Guard) bool {
			x, _, tme, ok := eqConst(g.Cond)
			if !ok {
				return false
			}
			sel := selectIndexOf(x)
			if sel == nil || sel.Blocking {
				return false
			}
			// the arm NOT taken is the ctx.Done() receive
			return tme != g.Branch
		})
		checked := false
		for _, ci := range findCalls(f, false, "ipfshttp.checkResponse") {
			if guardedBy(lf.Block, func(g Guard) bool { return gCallErrNil(g, "ipfshttp.checkResponse") }) || ci.Block().Dominates(lf.Block) && lf.GuardedBy(func(g Guard) bool { return gCallErrNil(g, "ipfshttp.checkResponse") }) {
				checked = true
			}
		}
		r.Check(eof && live && checked, "progress:nil", lf.Pos, "nil only for a clean EOF, with the context still alive, after the response status was checked",
			fmt.Sprintf("pinProgress reports success without requiring EOF (%v), a live context (%v) and a checked response (%v): a cancelled (timed-out) or failed request is reported as pinned", eof, live, checked))
	}
	if n != 1 {
		r.Bad("progress:nil-count", f.Pos(), "pinProgress has %d nil returns (expected 1)", n)
	}
	// request path
	okPath := false
	for _, ci := range findCalls(f, false, "fmt.Sprintf") {
		if s, ok := constString(ci.Common().Args[0]); ok && strings.HasPrefix(s, "pin/add?arg=%s") && strings.Contains(s, "progress=true") {
			okPath = true
		}
	}
	r.Check(okPath, "progress:path", f.Pos(), "the request is pin/add with progress reporting", "pinProgress does not request pin/add?...&progress=true")
	// watchdog in Pin
	p := c.fn(r, ipfshttp, "Connector.Pin")
	if p == nil {
		return
	}
	// the function Pin starts with `go` (a closure or a method) that
	// runs a ticker
	var wd *ssa.Function
	instrs(p, func(i ssa.Instruction) {
		gi, ok := i.(*ssa.Go)
		if !ok {
			return
		}
		g := gi.Common().StaticCallee()
		if g == nil {
			g = fnOfValue(gi.Common().Value)
		}
		if g == nil || g.Blocks == nil {
			return
		}
		for _, ci := range callsIn(g) {
			if nameMatches(callName(ci.Common()), "time.NewTicker") {
				wd = g
			}
		}
	})
	if wd == nil {
		r.Bad("watchdog", p.Pos(), "Pin has no progress watchdog goroutine (a stalled pin never gives up)")
		return
	}
	// cancel guarded by time.Since(last) > PinTimeout
	okCancel := false
	for _, ci := range callsIn(wd) {
		if ci.Common().StaticCallee() != nil || ci.Common().IsInvoke() {
			continue
		}
		// dynamic call of a captured or received func: cancelRequest()
		if sig, ok := ci.Common().Value.Type().Underlying().(*types.Signature); !ok || sig.Params().Len() != 0 {
			continue
		}
		if guardedBy(ci.Block(), func(g Guard) bool {
			b, ok := g.Cond.(*ssa.BinOp)
			if !ok || !g.Branch || (b.Op != token.GTR && b.Op != token.GEQ) {
				return false
			}
			since, _ := originCall(b.X)
			fl, _ := fieldLoad(b.Y)
			return since != nil && nameMatches(callName(since.Common()), "time.Since") && fl != nil && fl.Name() == "PinTimeout"
		}) {
			okCancel = true
		}
	}
	r.Check(okCancel, "watchdog:cancels", wd.Pos(), "the request is cancelled when time.Since(lastProgress) > PinTimeout", "the watchdog never cancels a stalled pin request")
	// progress time refreshed only when the counter advanced
	loopNow := 0
	okNow := true
	for _, ci := range findCalls(wd, false, "time.Now") {
		if !blockReaches(ci.Block(), ci.Block()) {
			continue // initialisation
		}
		loopNow++
		adv := guardedBy(ci.Block(), func(g Guard) bool {
			b, ok := g.Cond.(*ssa.BinOp)
			if !ok {
				return false
			}
			gt := (b.Op == token.GTR && g.Branch) || (b.Op == token.LEQ && !g.Branch)
			if !gt {
				return false
			}
			_, isPhi := b.Y.(*ssa.Phi)
			_, isExt := b.X.(*ssa.Extract)
			return isPhi && isExt
		})
		if !adv {
			okNow = false
		}
	}
	r.Check(loopNow >= 1 && okNow, "watchdog:progress-means-advance", wd.Pos(), "the stall clock restarts only when the progress counter increases",
		"the stall clock restarts on every status message (or never): a daemon that keeps reporting the same progress never times out")
	// the ticker period is PinTimeout
	okT := false
	for _, ci := range findCalls(wd, false, "time.NewTicker") {
		if fl, _ := fieldLoad(ci.Common().Args[0]); fl != nil && fl.Name() == "PinTimeout" {
			okT = true
		}
	}
	r.Check(okT, "watchdog:period", wd.Pos(), "the watchdog wakes up every PinTimeout", "the watchdog does not tick on PinTimeout")
}

func r163(c *Ctx, r *R) {
	p := c.fn(r, ipfshttp, "Connector.Pin")
	u := c.fn(r, ipfshttp, "Connector.pinUpdate")
	if p == nil || u == nil {
		return
	}
	sites, _ := c.callSitesOf(u)
	if len(sites) != 1 || sites[0].Parent() != p {
		r.Bad("update:callers", u.Pos(), "pinUpdate has %d callers (expected only Connector.Pin)", len(sites))
	}
	for _, s := range sites {
		ok := guardedBy(s.Block(), func(g Guard) bool {
			call, _ := originCall(g.Cond)
			if call == nil || !g.Branch || !nameMatches(callName(call.Common()), "api.IPFSPinStatus).IsPinned") {
				return false
			}
			k, isK := constInt(call.Common().Args[1])
			st, idx := originCall(call.Common().Args[0])
			if !isK || k != -1 || st == nil || idx != 0 || !nameMatches(callName(st.Common()), "ipfshttp.Connector).PinLsCid") {
				return false
			}
			// status of the SOURCE: PinLsCid(ctx, PinWithOpts(pin.PinUpdate, …))
			src, _ := originCall(callArgs(st.Common())[1])
			if src == nil || !nameMatches(callName(src.Common()), "api.PinWithOpts", "api.PinCid") {
				return false
			}
			fl, _ := fieldLoad(src.Common().Args[0])
			return fl != nil && fl.Name() == "PinUpdate"
		})
		r.Check(ok, "update:only-when-source-recursive", s.Pos(), "pin/update is used only when the source is pinned recursively", "pin/update is attempted without the source being reported as recursively pinned")
		a := callArgs(s.Common())
		ff, _ := fieldLoad(a[1])
		ft, _ := fieldLoad(a[2])
		r.Check(ff != nil && ff.Name() == "PinUpdate" && ft != nil && ft.Name() == "Cid", "update:args", s.Pos(), "pin/update goes from the update source to the pin's CID", "pin/update arguments are not (pin.PinUpdate, pin.Cid)")
	}
	okPath := false
	und := true
	for _, ci := range findCalls(u, false, "fmt.Sprintf") {
		s, ok := constString(ci.Common().Args[0])
		if !ok {
			continue
		}
		und = false
		if strings.HasPrefix(s, "pin/update?") && strings.Contains(s, "unpin=false") && !strings.Contains(s, "unpin=true") {
			okPath = true
		}
	}
	if und {
		r.Und("update:path", u.Pos(), "pin/update request path is not a constant format")
	} else {
		r.Check(okPath, "update:unpin-false", u.Pos(), "the request carries unpin=false", "pin/update is requested without unpin=false: IPFS unpins the source")
	}
}

func r164(c *Ctx, r *R) {
	f := c.fn(r, ipfshttp, "Connector.Unpin")
	if f == nil {
		return
	}
	posts := findCalls(f, false, "ipfshttp.Connector).postCtx")
	if len(posts) != 1 {
		r.Bad("unpin:request", f.Pos(), "Unpin has %d requests", len(posts))
		return
	}
	post := posts[0]
	r.Check(guardedBy(post.Block(), func(g Guard) bool { return gField(g, "UnpinDisable", false) }), "unpin:disabled-first", post.Pos(), "no request is made when unpinning is disabled", "Unpin contacts the daemon although unpinning is disabled")
	okPath := false
	for _, ci := range findCalls(f, false, "fmt.Sprintf") {
		if s, ok := constString(ci.Common().Args[0]); ok && strings.HasPrefix(s, "pin/rm?arg=") {
			okPath = true
		}
	}
	r.Check(okPath, "unpin:path", f.Pos(), "the request is pin/rm", "Unpin does not request pin/rm")
	for _, lf := range returnLeaves(f, 0) {
		if !isNilConst(lf.Val) {
			continue
		}
		if lf.GuardedBy(func(g Guard) bool { return gCallErrNil(g, "ipfshttp.Connector).postCtx") }) {
			r.OK("unpin:nil:request-ok", lf.Pos, "nil when the request succeeded")
			continue
		}
		// tolerated error: every path to this nil either saw the request
		// succeed or established (a) that the error is an ipfsError (type
		// assertion ok) and (b) that its message equals one of the
		// not-pinned texts - directly or through a boolean helper whose
		// true answers establish it
		requestOK := func(g Guard) bool { return gCallErrNil(g, "ipfshttp.Connector).postCtx") }
		isAssert := func(g Guard) bool {
			ex, ok := g.Cond.(*ssa.Extract)
			if !ok || ex.Index != 1 || !g.Branch {
				return false
			}
			ta, ok := ex.Tuple.(*ssa.TypeAssert)
			return ok && strings.HasSuffix(ta.AssertedType.String(), "ipfshttp.ipfsError")
		}
		isMsgEq := func(g Guard) bool {
			b, ok := g.Cond.(*ssa.BinOp)
			if !ok || !(b.Op == token.EQL && g.Branch || b.Op == token.NEQ && !g.Branch) {
				return false
			}
			isMsg := func(v ssa.Value) bool {
				if fl, _ := fieldLoad(v); fl != nil && fl.Name() == "Message" {
					return true
				}
				if fv, ok := v.(*ssa.Field); ok {
					if st := structOf(fv.X.Type()); st != nil && st.Field(fv.Field).Name() == "Message" {
						return true
					}
				}
				return false
			}
			isNotPinnedText := func(v ssa.Value) bool {
				rhs, _ := originCall(v)
				if rhs == nil || !nameMatches(callName(rhs.Common()), ").Error") {
					return false
				}
				// <pkg>.ErrNotPinned.Error()
				recv := rhs.Common().Value
				if !rhs.Common().IsInvoke() && len(rhs.Common().Args) > 0 {
					recv = rhs.Common().Args[0]
				}
				if u, ok := recv.(*ssa.UnOp); ok {
					if gl, ok := u.X.(*ssa.Global); ok {
						return gl.Name() == "ErrNotPinned"
					}
				}
				return true
			}
			return isMsg(b.X) && isNotPinnedText(b.Y) || isMsg(b.Y) && isNotPinnedText(b.X)
		}
		blk := lf.Block
		edgeOK := func(pred func(Guard) bool) bool {
			if lf.Into != nil {
				if gs := lf.Guards(); len(gs) > 0 && (establishes(gs[0], pred) || requestOK(gs[0])) {
					return true
				}
			}
			return mustPass(blk, func(g Guard) bool { return requestOK(g) || establishes(g, pred) })
		}
		isIPFSErr := edgeOK(isAssert)
		msgEq := edgeOK(isMsgEq)
		r.Check(isIPFSErr && msgEq, "unpin:nil:not-pinned-only", lf.Pos, "a failed request is tolerated only for an IPFS 'not pinned' error",
			fmt.Sprintf("Unpin reports success for a failed request that is not an IPFS 'not pinned' answer (ipfsError asserted: %v, message compared on every path: %v): transport failures and timeouts count as unpinned", isIPFSErr, msgEq))
	}
}

func r165(c *Ctx, r *R) {
	cr := c.fn(r, ipfshttp, "checkResponse")
	if cr != nil {
		for _, ret := range returnsOf(cr) {
			if !isNilConst(retResult(ret, 1)) {
				continue
			}
			ok := guardedBy(ret.Block(), func(g Guard) bool {
				x, k, tme, isEq := eqConst(g.Cond)
				if !isEq || tme != g.Branch {
					return false
				}
				fl, _ := fieldLoad(x)
				iv, _ := constInt(ssa.NewConst(k, x.Type()))
				return fl != nil && fl.Name() == "StatusCode" && iv == 200
			})
			r.Check(ok, "checkResponse:ok-only-200", ret.Pos(), "no error only for status 200", "checkResponse accepts a non-200 answer")
		}
	}
	pc := c.fn(r, ipfshttp, "Connector.postCtx")
	if pc != nil {
		// every error value postCtx can return, also through a helper that
		// reads the response (with the guards of its own path)
		for _, lf := range returnLeavesDeep(pc, 1) {
			errV := lf.Val
			if isNilConst(errV) {
				has := func(pats ...string) bool {
					return lf.GuardedBy(func(g Guard) bool { return gCallErrNil(g, pats...) })
				}
				ok := has("ipfshttp.Connector).doPostCtx") && has("ipfshttp.checkResponse") && has("ioutil.ReadAll", "io.ReadAll")
				r.Check(ok, "postCtx:nil-error", lf.Pos, "no error only when the request, the status check and the body read all succeeded", "postCtx reports success although the request, the status check or the body read failed")
				continue
			}
			if call, idx := originCall(errV); call != nil && idx == 1 && nameMatches(callName(call.Common()), "ipfshttp.Connector).doPostCtx") && lf.Ret != nil {
				r.Check(isNilConst(retResult(lf.Ret, 0)), "postCtx:transport-no-body", lf.Pos, "a transport failure returns no body", "a transport failure returns a body: PinLsCid can no longer tell 'daemon down' from 'not pinned'")
			}
		}
	}
	ls := c.fn(r, ipfshttp, "Connector.PinLsCid")
	if ls != nil {
		// IPFSPinStatusUnpinned with nil error only when a body came back with the error
		unp := c.constNamed("api", "IPFSPinStatusUnpinned")
		for _, ret := range returnsOf(ls) {
			if !isConst(retResult(ret, 0), unp) || !isNilConst(retResult(ret, 1)) {
				continue
			}
			gs := guardsOf(ret.Block())
			hasErr := false
			for _, g := range gs {
				if gNil(g, true, func(v ssa.Value) bool {
					call, _ := originCall(v)
					return call != nil && nameMatches(callName(call.Common()), "ipfshttp.Connector).postCtx")
				}) {
					hasErr = true
				}
			}
			// and the transport-failure test (no body and an error) was
			// decided before, returning an error
			down := false
			for _, r2 := range returnsOf(ls) {
				if isNilConst(retResult(r2, 1)) || r2.Block() == ret.Block() {
					continue
				}
				for _, g := range guardsOf(r2.Block()) {
					nobody := gNil(g, false, func(v ssa.Value) bool {
						call, idx := originCall(v)
						return call != nil && idx == 0 && nameMatches(callName(call.Common()), "ipfshttp.Connector).postCtx")
					})
					if nobody && g.If.Block().Dominates(ret.Block()) {
						down = true
					}
				}
			}
			r.Check(hasErr && down, "pinlscid:unpinned", ret.Pos(), "'not pinned' is concluded only from an IPFS error answer, after transport failures were returned as errors", "PinLsCid concludes 'not pinned' from a transport failure (a pin would be re-requested or reported unpinned while the daemon is down)")
		}
	}
}

// dominatesOrPrecedes: a is an exit taken before b can be reached (a's
// deciding branch dominates b).
func dominatesOrPrecedes(a, b *ssa.BasicBlock) bool {
	for _, p := range a.Preds {
		if p.Dominates(b) {
			return true
		}
	}
	return false
}
