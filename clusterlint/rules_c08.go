package main

import (
	"fmt"
	"go/ast"
	"go/constant"
	"go/token"
	"go/types"
	"reflect"
	"sort"
	"strings"

	"golang.org/x/tools/go/packages"
	"golang.org/x/tools/go/ssa"
)

func init() {
	register(
		&Rule{ID: "R08.1", Props: []string{"C08", "C14", "C01", "C04"}, Floor: 18, Title: "wire-serialisability: no record type crossing a JSON/msgpack boundary holds a non-empty interface unless its holder has custom (un)marshalers for both codecs", Run: r081},
		&Rule{ID: "R08.2", Props: []string{"C08"}, Floor: 14, Title: "json and codec keys are unique per struct after embedding; fields compared by Equals are not excluded from a codec", Run: r082},
		&Rule{ID: "R08.3", Props: []string{"C08", "C01"}, Floor: 20, Title: "protobuf writer and reader of a pin touch the same message fields; every api.Pin field is restored (or documented lossy); optional messages are read through nil-safe getters", Run: r083},
		&Rule{ID: "R08.4", Props: []string{"C08", "C11"}, Floor: 20, Title: "query-string form: every key the writers set is read by the readers; the metadata prefix is added and removed with the same constant and TrimPrefix", Run: r084},
		&Rule{ID: "R08.5", Props: []string{"C08"}, Floor: 10, Title: "enum text forms are mutually inverse on the declared constants; status maps cover every constant", Run: r085},
		&Rule{ID: "R08.6", Props: []string{"C08", "C11"}, Floor: 12, Title: "decoder hygiene: decoders do not panic, use no unchecked type assertion and drop no callee error", Run: r086},
	)
}

// hasMethods reports whether T or *T has all the named methods.
func hasMethods(t types.Type, names ...string) bool {
	for _, tt := range []types.Type{t, types.NewPointer(t)} {
		ms := types.NewMethodSet(tt)
		ok := true
		for _, n := range names {
			found := false
			for i := 0; i < ms.Len(); i++ {
				if ms.At(i).Obj().Name() == n {
					found = true
				}
			}
			if !found {
				ok = false
			}
		}
		if ok {
			return true
		}
	}
	return false
}

func selfCoding(t types.Type) bool {
	if _, isI := t.Underlying().(*types.Interface); isI {
		return false // methods on the interface do not help decoding into a nil interface value
	}
	jsonOK := hasMethods(t, "MarshalJSON", "UnmarshalJSON") || hasMethods(t, "MarshalText", "UnmarshalText")
	binOK := hasMethods(t, "MarshalBinary", "UnmarshalBinary") || hasMethods(t, "CodecEncodeSelf", "CodecDecodeSelf") || hasMethods(t, "MarshalText", "UnmarshalText")
	return jsonOK && binOK
}

func r081(c *Ctx, r *R) {
	roots := map[string]types.Type{}
	addRoot := func(t types.Type, why string) {
		for {
			switch x := t.(type) {
			case *types.Pointer:
				t = x.Elem()
				continue
			case *types.Slice:
				t = x.Elem()
				continue
			case *types.Map:
				t = x.Elem()
				continue
			}
			break
		}
		if nt, ok := t.(*types.Named); ok {
			if _, isS := nt.Underlying().(*types.Struct); isS {
				roots[nt.String()] = nt
			}
		}
		_ = why
	}
	for _, fn := range c.rpcMethods() {
		sig := fn.Type().(*types.Signature)
		addRoot(sig.Params().At(1).Type(), "rpc arg")
		addRoot(sig.Params().At(2).Type(), "rpc reply")
	}
	for _, spec := range [][2]string{{"consensus/raft", "LogOp"}, {"state/dsstate", "serialEntry"}, {"api", "Metric"}, {"api", "Pin"}, {"api", "PinInfo"}, {"api", "GlobalPinInfo"}, {"api", "ID"}, {"api", "Alert"}, {"api", "AddedOutput"}, {"api", "GlobalRepoGC"}, {"api", "Error"}, {"api", "Version"}, {"api", "ConnectGraph"}, {"api", "PinPath"}, {"api", "AddParams"}} {
		if nt := c.namedType(nil, spec[0], spec[1]); nt != nil {
			addRoot(nt, "record")
		}
	}
	var names []string
	for n := range roots {
		names = append(names, n)
	}
	sort.Strings(names)
	seen := map[types.Type]bool{}
	reported := map[string]bool{}
	var walk func(t types.Type, path string, holder *types.Named, field *types.Var)
	walk = func(t types.Type, path string, holder *types.Named, field *types.Var) {
		switch x := t.(type) {
		case *types.Pointer:
			walk(x.Elem(), path, holder, field)
		case *types.Slice:
			walk(x.Elem(), path+"[]", holder, field)
		case *types.Array:
			walk(x.Elem(), path+"[]", holder, field)
		case *types.Map:
			walk(x.Key(), path+"{key}", holder, field)
			walk(x.Elem(), path+"{}", holder, field)
		case *types.Named:
			if seen[x] {
				return
			}
			if selfCoding(x) {
				return // encodes itself on both codecs
			}
			switch u := x.Underlying().(type) {
			case *types.Interface:
				if u.NumMethods() == 0 {
					return
				}
				key := "?"
				if holder != nil && field != nil {
					key = shortType(holder) + "." + field.Name()
				}
				if !reported[key] {
					reported[key] = true
					r.Bad(key, field.Pos(), "%s (reached as %s) has the non-empty interface type %s: encoding/json and the msgpack codec cannot decode into a nil interface value, so any record with this field set fails to decode on RPC, in the Raft log, over REST and in state export/import", key, path, x)
				}
				return
			case *types.Struct:
				seen[x] = true
				if !isRepoPath(pkgPathOf(x)) {
					// foreign struct without custom coders: its exported
					// fields are encoded reflectively
				}
				for i := 0; i < u.NumFields(); i++ {
					f := u.Field(i)
					if !f.Exported() && !f.Embedded() {
						continue
					}
					tag := reflect.StructTag(u.Tag(i))
					if tag.Get("json") == "-" && tag.Get("codec") == "-" {
						continue
					}
					walk(f.Type(), path+"."+f.Name(), x, f)
				}
			default:
				walk(x.Underlying(), path, holder, field)
			}
		case *types.Interface:
			if x.NumMethods() == 0 {
				return
			}
			key := "?"
			if holder != nil && field != nil {
				key = shortType(holder) + "." + field.Name()
			}
			if !reported[key] {
				reported[key] = true
				r.Bad(key, field.Pos(), "%s has a non-empty anonymous interface type", key)
			}
		case *types.Struct:
			for i := 0; i < x.NumFields(); i++ {
				if x.Field(i).Exported() {
					walk(x.Field(i).Type(), path+"."+x.Field(i).Name(), holder, x.Field(i))
				}
			}
		}
	}
	for _, n := range names {
		nt := roots[n].(*types.Named)
		before := len(reported)
		walk(nt, shortType(nt), nil, nil)
		if len(reported) == before {
			r.OK("root:"+shortType(nt), nt.Obj().Pos(), "no interface-typed field reachable from %s", shortType(nt))
		} else {
			r.OK("root-walked:"+shortType(nt), nt.Obj().Pos(), "walked %s (findings reported per field)", shortType(nt))
		}
	}
}

func pkgPathOf(nt *types.Named) string {
	if nt.Obj().Pkg() == nil {
		return ""
	}
	return nt.Obj().Pkg().Path()
}

func shortType(nt *types.Named) string {
	p := pkgPathOf(nt)
	if i := strings.LastIndex(p, "/"); i >= 0 {
		p = p[i+1:]
	}
	return p + "." + nt.Obj().Name()
}

func r082(c *Ctx, r *R) {
	var structs []*types.Named
	for _, rel := range []string{"api", "consensus/raft", "state/dsstate"} {
		pkg := c.P.Pkg(rel)
		if pkg == nil {
			continue
		}
		for _, n := range pkg.Types.Scope().Names() {
			tn, ok := pkg.Types.Scope().Lookup(n).(*types.TypeName)
			if !ok {
				continue
			}
			nt, ok := tn.Type().(*types.Named)
			if !ok {
				continue
			}
			st, ok := nt.Underlying().(*types.Struct)
			if !ok {
				continue
			}
			tagged := false
			for i := 0; i < st.NumFields(); i++ {
				if strings.Contains(st.Tag(i), "codec:") || strings.Contains(st.Tag(i), "json:") {
					tagged = true
				}
			}
			if tagged {
				structs = append(structs, nt)
			}
		}
	}
	type fk struct{ name, path string }
	var flatten func(st *types.Struct, codec, prefix string, out *[]fk)
	flatten = func(st *types.Struct, codec, prefix string, out *[]fk) {
		for i := 0; i < st.NumFields(); i++ {
			f := st.Field(i)
			tag := reflect.StructTag(st.Tag(i)).Get(codec)
			name := strings.Split(tag, ",")[0]
			if name == "-" {
				continue
			}
			if f.Embedded() && name == "" {
				ft := f.Type()
				if p, ok := ft.(*types.Pointer); ok {
					ft = p.Elem()
				}
				if es, ok := ft.Underlying().(*types.Struct); ok {
					flatten(es, codec, prefix+f.Name()+".", out)
					continue
				}
			}
			if !f.Exported() {
				continue
			}
			if name == "" {
				name = f.Name()
			}
			*out = append(*out, fk{name, prefix + f.Name()})
		}
	}
	for _, nt := range structs {
		st := nt.Underlying().(*types.Struct)
		for _, codec := range []string{"json", "codec"} {
			var fs []fk
			flatten(st, codec, "", &fs)
			byName := map[string][]string{}
			for _, f := range fs {
				byName[f.name] = append(byName[f.name], f.path)
			}
			okS := true
			for k, ps := range byName {
				if len(ps) > 1 {
					okS = false
					r.Bad("keys:"+shortType(nt)+":"+codec+":"+k, nt.Obj().Pos(), "%s: fields %v share the %s key %q (after flattening embedded structs): one of them is silently dropped on the wire", shortType(nt), ps, codec, k)
				}
			}
			if okS {
				r.OK("keys:"+shortType(nt)+":"+codec, nt.Obj().Pos(), "%d %s keys, all distinct", len(fs), codec)
			}
		}
	}
	// fields Equals compares must travel on both codecs
	for _, tn := range []string{"Pin", "PinOptions"} {
		nt := c.namedType(r, "api", tn)
		if nt == nil {
			continue
		}
		st := nt.Underlying().(*types.Struct)
		for i := 0; i < st.NumFields(); i++ {
			tag := reflect.StructTag(st.Tag(i))
			bad := strings.Split(tag.Get("json"), ",")[0] == "-" || strings.Split(tag.Get("codec"), ",")[0] == "-"
			r.Check(!bad, "travels:api."+tn+"."+st.Field(i).Name(), st.Field(i).Pos(), "field travels on both codecs", "api."+tn+"."+st.Field(i).Name()+" is excluded from a codec although pins are compared on it")
		}
	}
}

func r083(c *Ctx, r *R) {
	mfd, pkg := c.decl(r, "api", "Pin.ProtoMarshal")
	ufd, _ := c.decl(r, "api", "Pin.ProtoUnmarshal")
	if mfd == nil || ufd == nil {
		return
	}
	isPB := func(t types.Type) bool {
		if p, ok := t.(*types.Pointer); ok {
			t = p.Elem()
		}
		nt, ok := t.(*types.Named)
		return ok && strings.HasSuffix(pkgPathOf(nt), "/api/pb")
	}
	// writer: pb fields set
	wPB := map[string]token.Pos{}
	_, wr := fieldsUsedDeep(pkg, mfd)
	for v, pos := range wr {
		if v.Pkg() != nil && strings.HasSuffix(v.Pkg().Path(), "/api/pb") {
			wPB[v.Name()] = pos
		}
	}
	// reader: getters called
	rPB := map[string]token.Pos{}
	direct := false
	udecls := declClosure(pkg, ufd)
	mdecls := declClosure(pkg, mfd)
	inspectAll := func(ds []*ast.FuncDecl, f func(ast.Node) bool) {
		for _, d := range ds {
			ast.Inspect(d.Body, f)
		}
	}
	inspectAll(udecls, func(n ast.Node) bool {
		switch x := n.(type) {
		case *ast.CallExpr:
			if se, ok := x.Fun.(*ast.SelectorExpr); ok && strings.HasPrefix(se.Sel.Name, "Get") && isPB(pkg.TypesInfo.TypeOf(se.X)) {
				rPB[strings.TrimPrefix(se.Sel.Name, "Get")] = x.Pos()
			}
		case *ast.SelectorExpr:
			if sel := pkg.TypesInfo.Selections[x]; sel != nil && sel.Kind() == types.FieldVal && isPB(pkg.TypesInfo.TypeOf(x.X)) {
				direct = true
			}
		}
		return true
	})
	r.Check(!direct, "proto:getters-only", ufd.Pos(), "the decoder reads the message only through nil-safe getters", "ProtoUnmarshal selects a protobuf field directly: a pin stored without options (nil sub-message) makes the decoder panic")
	var all []string
	for k := range wPB {
		all = append(all, k)
	}
	for k := range rPB {
		if _, ok := wPB[k]; !ok {
			all = append(all, k)
		}
	}
	sort.Strings(all)
	for _, k := range all {
		_, w := wPB[k]
		_, rd := rPB[k]
		switch {
		case w && rd:
			r.OK("proto:field:"+k, wPB[k], "message field %s is written and read", k)
		case w:
			r.Bad("proto:field:"+k, wPB[k], "protobuf field %s is written by ProtoMarshal but never read by ProtoUnmarshal: the stored value is lost when the pin is read back", k)
		default:
			r.Bad("proto:field:"+k, rPB[k], "protobuf field %s is read by ProtoUnmarshal but never written by ProtoMarshal: it always decodes to the zero value", k)
		}
	}
	// api.Pin fields restored / serialised
	lossy := map[string]string{"UserAllocations": "transient: only used while allocating (documented)", "Mode": "derived from MaxDepth on decode (ToPinMode)"}
	_, uw := fieldsUsedDeep(pkg, ufd)
	mr, _ := fieldsUsedDeep(pkg, mfd)
	for _, tn := range []string{"Pin", "PinOptions"} {
		nt := c.namedType(r, "api", tn)
		if nt == nil {
			continue
		}
		st := nt.Underlying().(*types.Struct)
		for i := 0; i < st.NumFields(); i++ {
			f := st.Field(i)
			if f.Embedded() {
				continue
			}
			key := "api:" + tn + "." + f.Name()
			_, restored := uw[f]
			_, written := mr[f]
			if why, ok := lossy[f.Name()]; ok {
				if f.Name() == "Mode" {
					r.Check(restored, key, f.Pos(), "Mode is re-derived on decode", "Mode is neither stored nor re-derived from MaxDepth on decode")
				} else {
					r.OK(key, f.Pos(), "documented lossy: %s", why)
				}
				continue
			}
			r.Check(restored && written, key, f.Pos(), "field is serialised and restored", fmt.Sprintf("api.%s.%s is not both serialised (%v) and restored (%v) by the protobuf form: it is lost in the stored pinset", tn, f.Name(), written, restored))
		}
	}
	// pin type is stored as the bit index and restored by `1 << index`:
	// well-defined only if every storable type is a single bit
	pt := c.namedType(r, "api", "PinType")
	if pt != nil {
		shift := false
		inspectAll(udecls, func(n ast.Node) bool {
			if be, ok := n.(*ast.BinaryExpr); ok && be.Op == token.SHL {
				if v := constVal(pkg, be.X); v != nil && constant.Compare(v, token.EQL, constant.MakeInt64(1)) {
					shift = true
				}
			}
			return true
		})
		usesConv := false
		inspectAll(mdecls, func(n ast.Node) bool {
			if call, ok := n.(*ast.CallExpr); ok && funcFullName(pkg, call) == ModPath+"/api.convertPinType" {
				usesConv = true
			}
			return true
		})
		r.Check(shift && usesConv, "pintype:codec", ufd.Pos(), "pin types are stored as a bit index (convertPinType) and restored by 1<<index", "the pin type is no longer stored through convertPinType and restored by 1<<index")
		// the zero PinType (a Pin built without a type, a record decoded
		// from a message without one) must come out of the conversion: the
		// bit-position loop has nothing to find in it
		if cf0 := c.P.Func("api", "convertPinType"); cf0 != nil {
			_, _, ok0 := ssaEval(cf0, bindParams(cf0, map[int]constant.Value{0: constant.MakeInt64(0)}))
			r.Check(ok0, "pintype:zero-terminates", cf0.Pos(), "the conversion of the zero pin type terminates (evaluated)", "convertPinType does not terminate for the zero PinType (the evaluation ran out of steps): serialising a pin without a type hangs the caller - the state write, the Raft apply loop, a snapshot")
		}
		for _, k := range declaredConsts(pt) {
			if k.Name() == "AllType" {
				continue
			}
			kv, _ := constant.Int64Val(k.Val())
			cf := c.P.Func("api", "convertPinType")
			if cf == nil {
				r.Und("pintype:"+k.Name(), k.Pos(), "convertPinType not found")
				continue
			}
			_, iv, ok := ssaEval(cf, bindParams(cf, map[int]constant.Value{0: k.Val()}))
			if !ok {
				// fall back to the structural condition
				r.Check(kv > 0 && kv&(kv-1) == 0, "pintype:"+k.Name(), k.Pos(), k.Name()+" is a single bit", fmt.Sprintf("pin type %s = %d is not a single bit: its bit index does not restore it", k.Name(), kv))
				continue
			}
			idx, _ := constant.Int64Val(iv)
			r.Check(idx >= 0 && idx < 62 && int64(1)<<uint(idx) == kv, "pintype:"+k.Name(), k.Pos(), fmt.Sprintf("%s is stored as index %d and restored by 1<<%d", k.Name(), idx, idx), fmt.Sprintf("pin type %s = %d is stored as %d and restored as %d", k.Name(), kv, idx, int64(1)<<uint(idx&63)))
		}
	}
}

// evalSwitchVal is evalSwitch returning the constant value.
func evalSwitchVal(pkg *packages.Package, stmts []ast.Stmt, env map[types.Object]constant.Value) (constant.Value, bool) {
	for _, st := range stmts {
		switch s := st.(type) {
		case *ast.ReturnStmt:
			if len(s.Results) != 1 {
				return nil, false
			}
			v := constVal(pkg, s.Results[0])
			return v, v != nil
		case *ast.SwitchStmt:
			id, ok := s.Tag.(*ast.Ident)
			if !ok {
				return nil, false
			}
			v, bound := env[pkg.TypesInfo.ObjectOf(id)]
			if !bound {
				return nil, false
			}
			var def, hit *ast.CaseClause
			for _, cl := range s.Body.List {
				cc := cl.(*ast.CaseClause)
				if cc.List == nil {
					def = cc
					continue
				}
				for _, e := range cc.List {
					if k := constVal(pkg, e); k != nil && constant.Compare(k, token.EQL, v) {
						hit = cc
					}
				}
			}
			if hit == nil {
				hit = def
			}
			if hit == nil {
				continue
			}
			if res, ok := evalSwitchVal(pkg, hit.Body, env); ok {
				return res, true
			}
		case *ast.ExprStmt, *ast.AssignStmt, *ast.DeclStmt:
			continue
		default:
			return nil, false
		}
	}
	return nil, false
}

func r084(c *Ctx, r *R) {
	// the query keys a function (with the same-package functions it calls)
	// sets or gets: every string constant that can reach the key argument
	// of url.Values.Set/Add/Get/Has - directly, through a parse helper's
	// parameter, or through a table of names
	keysIn := func(rel, name string, meth string) (map[string]token.Pos, *ast.FuncDecl, *packages.Package) {
		fd, pkg := c.decl(r, rel, name)
		out := map[string]token.Pos{}
		if fd == nil {
			return out, nil, nil
		}
		root := c.fn(r, rel, name)
		if root == nil {
			return out, fd, pkg
		}
		meths := []string{"(net/url.Values).Set", "(net/url.Values).Add"}
		if meth == "Get" {
			meths = []string{"(net/url.Values).Get", "(net/url.Values).Has"}
		}
		within := ssaClosure(root)
		var fns []*ssa.Function
		for g := range within {
			fns = append(fns, g)
		}
		sort.Slice(fns, func(i, j int) bool { return fns[i].Pos() < fns[j].Pos() })
		for _, g := range fns {
			for _, ci := range callsIn(g) {
				if !nameMatches(callName(ci.Common()), meths...) {
					continue
				}
				args := callArgs(ci.Common())
				if len(args) < 1 {
					continue
				}
				// computed keys (the metadata prefix) are the business of
				// the metadata-prefix clause below
				ks, _ := constStringsReaching(args[0], within)
				for k, pos := range ks {
					if !pos.IsValid() {
						pos = ci.Pos()
					}
					if _, dup := out[k]; !dup {
						out[k] = pos
					}
				}
			}
		}
		return out, fd, pkg
	}
	check := func(label, wName, rName string) {
		w, _, _ := keysIn("api", wName, "Set")
		rd, _, _ := keysIn("api", rName, "Get")
		if rName == "AddParamsFromQuery" {
			// add parameters embed pin options
			po, _, _ := keysIn("api", "PinOptions.FromQuery", "Get")
			for k, v := range po {
				rd[k] = v
			}
		}
		if wName == "AddParams.ToQueryString" {
			po, _, _ := keysIn("api", "PinOptions.ToQuery", "Set")
			for k, v := range po {
				w[k] = v
			}
		}
		var ks []string
		for k := range w {
			ks = append(ks, k)
		}
		sort.Strings(ks)
		for _, k := range ks {
			_, ok := rd[k]
			r.Check(ok, label+":"+k, w[k], "query key "+k+" is written and read", "query key "+k+" is written by "+wName+" but never read by "+rName+": the option is silently dropped")
		}
	}
	check("pinoptions", "PinOptions.ToQuery", "PinOptions.FromQuery")
	check("addparams", "AddParams.ToQueryString", "AddParamsFromQuery")
	// every PinOptions field is produced by ToQuery
	tq, tpkg := c.decl(r, "api", "PinOptions.ToQuery")
	fq, _ := c.decl(r, "api", "PinOptions.FromQuery")
	nt := c.namedType(r, "api", "PinOptions")
	if tq != nil && fq != nil && nt != nil {
		rd, _ := fieldsUsed(tpkg, tq)
		_, wr := fieldsUsed(tpkg, fq)
		st := nt.Underlying().(*types.Struct)
		for i := 0; i < st.NumFields(); i++ {
			f := st.Field(i)
			_, a := rd[f]
			_, b := wr[f]
			r.Check(a && b, "pinoptions-field:"+f.Name(), f.Pos(), "option travels in the query form", fmt.Sprintf("PinOptions.%s is not both written by ToQuery (%v) and restored by FromQuery (%v)", f.Name(), a, b))
		}
		// metadata prefix agreement
		prefixObj := tpkg.Types.Scope().Lookup("pinOptionsMetaPrefix")
		usesPrefix := func(fd *ast.FuncDecl, fn string) (bool, token.Pos) {
			found, pos := false, token.NoPos
			ast.Inspect(fd.Body, func(n ast.Node) bool {
				call, ok := n.(*ast.CallExpr)
				if !ok || funcFullName(tpkg, call) != fn {
					return true
				}
				for _, a := range call.Args {
					if id, ok := a.(*ast.Ident); ok && tpkg.TypesInfo.ObjectOf(id) == prefixObj {
						found, pos = true, call.Pos()
					}
				}
				return true
			})
			return found, pos
		}
		// the writer builds the key from the constant (Sprintf, "+", ...)
		w1 := false
		ast.Inspect(tq.Body, func(n ast.Node) bool {
			if id, ok := n.(*ast.Ident); ok && prefixObj != nil && tpkg.TypesInfo.ObjectOf(id) == prefixObj {
				w1 = true
			}
			return true
		})
		h, _ := usesPrefix(fq, "strings.HasPrefix")
		t, _ := usesPrefix(fq, "strings.TrimPrefix")
		r.Check(prefixObj != nil && w1 && h && t, "metadata-prefix", fq.Pos(), "metadata keys are prefixed on write and recognised/stripped with HasPrefix/TrimPrefix of the same constant on read",
			fmt.Sprintf("metadata prefix handling differs between writer and reader (writer uses the constant: %v, reader HasPrefix: %v, reader TrimPrefix: %v): keys are mangled or dropped (TrimLeft/TrimRight strip a character set, not a prefix)", w1, h, t))
	}
}

func r085(c *Ctx, r *R) {
	inverse := func(tn, strM, fromF string, skip map[string]bool) {
		nt := c.namedType(r, "api", tn)
		sf := c.fn(r, "api", tn+"."+strM)
		ff := c.fn(r, "api", fromF)
		if nt == nil || sf == nil || ff == nil {
			return
		}
		for _, k := range declaredConsts(nt) {
			if skip[k.Name()] {
				continue
			}
			_, s, ok := ssaEval(sf, bindParams(sf, map[int]constant.Value{0: k.Val()}))
			if !ok || s.Kind() != constant.String {
				r.Und("enum:"+tn+":"+k.Name(), sf.Pos(), "%s.%s(%s) could not be evaluated", tn, strM, k.Name())
				continue
			}
			_, back, ok := ssaEval(ff, bindParams(ff, map[int]constant.Value{0: s}))
			r.Check(ok && constant.Compare(back, token.EQL, k.Val()), "enum:"+tn+":"+k.Name(), k.Pos(), fmt.Sprintf("%s <-> %s", k.Name(), s), fmt.Sprintf("%s is rendered as %s, which %s does not parse back to %s", k.Name(), s, fromF, k.Name()))
		}
	}
	inverse("PinType", "String", "PinTypeFromString", map[string]bool{"BadType": true})
	inverse("PinMode", "String", "PinModeFromString", nil)
	// IPFSPinStatus.ToTrackerStatus gives every IPFS pin status a tracker
	// status (evaluated, so a lookup table and a switch are the same thing):
	// an unlisted status would come out as 'undefined', which matches every
	// filter. IPFSPinStatusBug is mapped to undefined on purpose.
	ips := c.namedType(r, "api", "IPFSPinStatus")
	tts := c.P.Func("api", "IPFSPinStatus.ToTrackerStatus")
	if ips != nil && tts != nil {
		for _, k := range declaredConsts(ips) {
			_, v, ok := ssaEval(tts, bindParams(tts, map[int]constant.Value{0: k.Val()}))
			if !ok {
				r.Und("ipfs-status-map:"+k.Name(), k.Pos(), "IPFSPinStatus.ToTrackerStatus(%s) could not be evaluated", k.Name())
				continue
			}
			defined := constant.Sign(v) != 0 || k.Name() == "IPFSPinStatusBug"
			r.Check(defined, "ipfs-status-map:"+k.Name(), k.Pos(), k.Name()+" has a tracker status", k.Name()+" has no tracker status: it maps to 'undefined', which matches every filter")
		}
	}
}

func r086(c *Ctx, r *R) {
	decoders := [][2]string{
		{"api", "Pin.ProtoUnmarshal"}, {"api", "PinOptions.FromQuery"}, {"api", "AddParamsFromQuery"}, {"api", "parseBoolParam"}, {"api", "parseIntParam"},
		{"api", "TrackerStatus.UnmarshalJSON"}, {"api", "PinMode.UnmarshalJSON"}, {"api", "Multiaddr.UnmarshalJSON"}, {"api", "Multiaddr.UnmarshalBinary"},
		{"api", "PinTypeFromString"}, {"api", "PinModeFromString"}, {"api", "TrackerStatusFromString"}, {"api", "IPFSPinStatusFromString"},
		{"state/dsstate", "State.deserializePin"}, {"state/dsstate", "State.Unmarshal"}, {"cmdutils", "importState"},
	}
	fills := 0
	for _, d := range decoders {
		f := c.P.Func(d[0], d[1])
		key := d[0] + "." + d[1]
		if f == nil || f.Blocks == nil {
			r.Und("decoder:"+key, token.NoPos, "decoder %s not found", key)
			continue
		}
		var probs []string
		instrs(f, func(i ssa.Instruction) {
			switch x := i.(type) {
			case *ssa.Panic:
				probs = append(probs, "panics at "+c.P.Pos(x.Pos()))
			case *ssa.TypeAssert:
				if !x.CommaOk {
					probs = append(probs, "unchecked type assertion at "+c.P.Pos(x.Pos()))
				}
			case *ssa.Call:
				sig := x.Common().Signature()
				n := sig.Results().Len()
				if n == 0 || sig.Results().At(n-1).Type().String() != "error" {
					return
				}
				cn := callName(x.Common())
				if nameMatches(cn, "(*go.uber.org/zap.SugaredLogger)", "fmt.Fprint", "(*bytes.Buffer).Write", "(*strings.Builder).Write") {
					return
				}
				used := false
				if x.Referrers() != nil {
					for _, ref := range *x.Referrers() {
						if n == 1 {
							if _, isDbg := ref.(*ssa.DebugRef); !isDbg {
								used = true
							}
							continue
						}
						if ex, ok := ref.(*ssa.Extract); ok && ex.Index == n-1 && ex.Referrers() != nil {
							for _, r2 := range *ex.Referrers() {
								if _, isDbg := r2.(*ssa.DebugRef); !isDbg {
									used = true
								}
							}
						}
					}
				}
				allConst := len(x.Common().Args) > 0
				for _, a := range x.Common().Args {
					if _, isK := constOf(a); !isK {
						allConst = false
					}
				}
				if !used && !allConst {
					probs = append(probs, fmt.Sprintf("drops the error of %s at %s", shortName(x), c.P.Pos(x.Pos())))
				}
			}
		})
		for _, hole := range indexedFillHoles(c, f, false) {
			probs = append(probs, hole)
		}
		fills += countIndexedFills(f)
		if len(probs) == 0 {
			r.OK("decoder:"+key, f.Pos(), "no panic, no unchecked assertion, no dropped error, indexed fills complete")
		} else {
			r.Bad("decoder:"+key, f.Pos(), "decoder %s %s: malformed input is accepted or crashes instead of being refused", key, strings.Join(probs, "; "))
		}
	}
	// no floor on purpose: a decoder rewritten with append has no such fill
	// and cannot leave a hole
	r.OK("decoder:indexed-fills-seen", token.NoPos, "%d indexed fills of pre-sized slices examined", fills)
	// the same idiom anywhere else in the repository (records built from
	// what a daemon or a peer answered: IPFS identity, peer lists, ...)
	inDecoders := map[*ssa.Function]bool{}
	for _, d := range decoders {
		if f := c.P.Func(d[0], d[1]); f != nil {
			inDecoders[f] = true
		}
	}
	c.P.RepoFuncs(func(f *ssa.Function) {
		if inDecoders[f] || f.Blocks == nil || f.Pkg == nil || strings.HasPrefix(f.Pkg.Pkg.Path(), ModPath+"/test") {
			return
		}
		if countIndexedFills(f) == 0 {
			return
		}
		holes := indexedFillHoles(c, f, true)
		key := "fill:" + strings.TrimPrefix(f.Pkg.Pkg.Path(), ModPath) + "." + f.Name()
		if f.Parent() != nil {
			key += "$" + f.Parent().Name()
		}
		if len(holes) == 0 {
			r.OK(key, f.Pos(), "indexed fills complete")
		} else {
			r.Bad(key, f.Pos(), "%s %s", f.Name(), strings.Join(holes, "; "))
		}
	})
}

// indexedFillHoles: a slice sized beforehand (make with a length) and filled
// by index inside a loop must get its element on every path that continues
// the loop; a `continue` around the store leaves a zero element (a nil
// interface or pointer, an empty id) inside a value reported as good.
func indexedFillHoles(c *Ctx, f *ssa.Function, nilLikeOnly bool) []string {
	var probs []string
	instrs(f, func(i ssa.Instruction) {
		st, ok := i.(*ssa.Store)
		if !ok {
			return
		}
		ia, ok := st.Addr.(*ssa.IndexAddr)
		if !ok {
			return
		}
		if _, ok := ia.X.(*ssa.MakeSlice); !ok {
			return
		}
		if nilLikeOnly {
			// outside the decoders: only element types whose zero value
			// is a nil that crashes its users (pointer, interface, or a
			// struct wrapping one), and only when this is the slice's
			// single fill (a slice filled by an earlier loop and patched
			// conditionally later is a different idiom)
			if !nilLike(ia.X.Type().Underlying().(*types.Slice).Elem()) {
				return
			}
			others := 0
			for _, ref := range *ia.X.Referrers() {
				// handed to a callee (which may fill it)
				if ci, ok := ref.(ssa.CallInstruction); ok {
					if cn := callName(ci.Common()); cn != "builtin.len" && cn != "builtin.cap" {
						others++
					}
				}
				if ia2, ok := ref.(*ssa.IndexAddr); ok && ia2 != ia {
					for _, r2 := range *ia2.Referrers() {
						if s2, ok := r2.(*ssa.Store); ok && s2.Addr == ssa.Value(ia2) {
							others++
						}
					}
				}
			}
			if others > 0 {
				return
			}
		}
		B := st.Block()
		var H *ssa.BasicBlock
		for d := B.Idom(); d != nil; d = d.Idom() {
			if inNaturalLoop(B, d) {
				H = d
				break
			}
		}
		if H == nil {
			return // not in a loop
		}
		// the index must be the loop's own counter (a phi of the header):
		// fills at computed positions (compaction with a second counter)
		// are a different idiom
		isCounter := func(v ssa.Value) bool {
			if bo, ok := v.(*ssa.BinOp); ok { // range loops use counter+1
				v = bo.X
			}
			phi, ok := v.(*ssa.Phi)
			return ok && phi.Block() == H
		}
		if !isCounter(ia.Index) {
			return
		}
		// a cycle through the header that avoids the store
		avoidsStore := false
		for _, s0 := range H.Succs {
			if s0 != B && blockReachesAvoiding(s0, H, B) {
				avoidsStore = true
			}
		}
		if avoidsStore {
			probs = append(probs, fmt.Sprintf("can continue the loop without storing the element of the slice sized beforehand (store at %s): a zero element stays in the value", c.P.Pos(st.Pos())))
		}
	})
	return probs
}

func countIndexedFills(f *ssa.Function) int {
	n := 0
	instrs(f, func(i ssa.Instruction) {
		if st, ok := i.(*ssa.Store); ok {
			if ia, ok := st.Addr.(*ssa.IndexAddr); ok {
				if _, ok := ia.X.(*ssa.MakeSlice); ok {
					n++
				}
			}
		}
	})
	return n
}

// nilLike: the zero value of t is (or wraps) a nil pointer or interface.
func nilLike(t types.Type) bool {
	switch u := t.Underlying().(type) {
	case *types.Pointer, *types.Interface:
		return true
	case *types.Struct:
		for i := 0; i < u.NumFields(); i++ {
			if _, ok := u.Field(i).Type().Underlying().(*types.Interface); ok {
				return true
			}
		}
	}
	return false
}
