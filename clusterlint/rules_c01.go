package main

import (
	"fmt"
	"go/constant"
	"go/token"
	"go/types"
	"strings"

	"golang.org/x/tools/go/ssa"
)

func init() {
	register(
		&Rule{ID: "R01.1", Props: []string{"C01"}, Floor: 6, Title: "raft ApplyTo: each branch writes the state and notifies the tracker with the same pin value; a failed state call never returns nil", Run: r011},
		&Rule{ID: "R01.2", Props: []string{"C01", "C04", "C08", "C10"}, Floor: 2, Title: "raft ApplyTo: op.Cid is cleared before the tracker goroutines start (libp2p-raft decodes the next entry onto the same LogOp)", Run: r012},
		&Rule{ID: "R01.3", Props: []string{"C01"}, Floor: 7, Title: "wire enums tagged omitempty have no zero-valued constant (LogOp types, api.PinType)", Run: r013},
		&Rule{ID: "R01.4", Props: []string{"C01", "C17"}, Floor: 5, Title: "raft commit/AddPeer/RmPeer return nil only when committed or redirected; negative retry counts are rejected", Run: r014},
		&Rule{ID: "R01.5", Props: []string{"C01", "C14"}, Floor: 2, Title: "dsstate Unmarshal removes the namespace's keys before writing the snapshot's entries (restore replaces)", Run: r015},
		&Rule{ID: "R01.6", Props: []string{"C01"}, Floor: 4, Title: "raft shutdown takes the snapshot before stopping raft before closing the store; commits hold the shutdown lock", Run: r016},
	)
}

// precedes: a's block can reach b's block and not vice versa (or same block
// and a is earlier).
func precedes(a, b ssa.Instruction) bool {
	if a.Block() == b.Block() {
		return dominatesInstr(a, b)
	}
	return blockReaches(a.Block(), b.Block()) && !blockReaches(b.Block(), a.Block())
}

func blockReaches(from, to *ssa.BasicBlock) bool {
	seen := map[*ssa.BasicBlock]bool{}
	work := []*ssa.BasicBlock{from}
	for len(work) > 0 {
		b := work[len(work)-1]
		work = work[:len(work)-1]
		for _, s := range b.Succs {
			if s == to {
				return true
			}
			if !seen[s] {
				seen[s] = true
				work = append(work, s)
			}
		}
	}
	return false
}

// returnsFrom lists the Return instructions reachable from block b.
func returnsFrom(b *ssa.BasicBlock) []*ssa.Return {
	var out []*ssa.Return
	seen := map[*ssa.BasicBlock]bool{b: true}
	work := []*ssa.BasicBlock{b}
	for len(work) > 0 {
		cur := work[len(work)-1]
		work = work[:len(work)-1]
		if ret, ok := cur.Instrs[len(cur.Instrs)-1].(*ssa.Return); ok && cur != cur.Parent().Recover {
			out = append(out, ret)
		}
		for _, s := range cur.Succs {
			if !seen[s] {
				seen[s] = true
				work = append(work, s)
			}
		}
	}
	return out
}

// errEdge finds the If testing the error result of call and returns the
// successor taken when the error is non-nil.
func errEdge(f *ssa.Function, call ssa.Value) (errSucc, okSucc *ssa.BasicBlock) {
	for _, b := range f.Blocks {
		iff, ok := b.Instrs[len(b.Instrs)-1].(*ssa.If)
		if !ok {
			continue
		}
		x, tn, ok := nilCmp(iff.Cond)
		if !ok {
			continue
		}
		hit := false
		for _, l := range phiLeaves(x) {
			if c, _ := originCall(l); c != nil && ssa.Value(c) == call {
				hit = true
			}
		}
		if !hit {
			continue
		}
		if tn {
			return b.Succs[0], b.Succs[1]
		}
		return b.Succs[1], b.Succs[0]
	}
	return nil, nil
}

func rpcSiteOf(c *Ctx, ci ssa.CallInstruction) *RPCSite {
	for _, s := range c.RPC {
		if s.Call == ci {
			return s
		}
	}
	return nil
}

func r011(c *Ctx, r *R) {
	f := c.fn(r, "consensus/raft", "LogOp.ApplyTo")
	if f == nil {
		return
	}
	op := f.Params[0]
	isOpField := func(v ssa.Value, name string) bool {
		fld, base := fieldLoad(v)
		return fld != nil && fld.Name() == name && base == ssa.Value(op)
	}
	// the pin handed on may be op.Cid itself or a copy of *op.Cid
	var fromOpCid func(v ssa.Value, d int) bool
	fromOpCid = func(v ssa.Value, d int) bool {
		if d < 0 || v == nil {
			return false
		}
		if isOpField(v, "Cid") {
			return true
		}
		switch x := v.(type) {
		case *ssa.Alloc:
			sts := storesTo(x)
			if len(sts) == 0 {
				return false
			}
			for _, s := range sts {
				if !fromOpCid(s.Val, d-1) {
					return false
				}
			}
			return true
		case *ssa.UnOp:
			return fromOpCid(x.X, d-1)
		case *ssa.Phi:
			for _, e := range x.Edges {
				if !fromOpCid(e, d-1) {
					return false
				}
			}
			return len(x.Edges) > 0
		}
		return false
	}
	kPin, kUnpin := c.constNamed("consensus/raft", "LogOpPin"), c.constNamed("consensus/raft", "LogOpUnpin")
	if kPin == nil || kUnpin == nil {
		r.Und("consts", f.Pos(), "LogOpPin/LogOpUnpin not found")
		return
	}
	type branch struct {
		name, stateM, rpcM string
		k                  constant.Value
	}
	for _, br := range []branch{{"pin", ").Add", "Track", kPin}, {"unpin", ").Rm", "Untrack", kUnpin}} {
		underType := func(b *ssa.BasicBlock) bool {
			return guardedBy(b, func(g Guard) bool {
				return gEq(g, br.k, true, func(x ssa.Value) bool { return isOpField(x, "Type") })
			})
		}
		// state call
		var stCall *ssa.Call
		for _, ci := range findCalls(f, false, "/state.WriteOnly"+br.stateM, "/state.State"+br.stateM) {
			if cc, ok := ci.(*ssa.Call); ok && underType(cc.Block()) {
				stCall = cc
			}
		}
		if stCall == nil {
			r.Bad(br.name+":state-call", f.Pos(), "no state%s call on the branch op.Type == %s", br.stateM, br.name)
			continue
		}
		args := callArgs(stCall.Common())
		var pinVal ssa.Value
		if br.name == "pin" {
			pinVal = args[1]
			r.Check(fromOpCid(pinVal, 4), "pin:state-arg", stCall.Pos(), "state.Add receives the pin decoded into op.Cid (or a copy of it)", "state.Add does not receive the pin decoded into op.Cid")
		} else {
			fld, base := fieldLoad(args[1])
			ok := fld != nil && fld.Name() == "Cid" && fromOpCid(base, 4)
			if ok {
				pinVal = base
			}
			r.Check(ok, "unpin:state-arg", stCall.Pos(), "state.Rm receives op.Cid.Cid", "state.Rm does not receive the CID of op.Cid")
		}
		// tracker call
		var trk ssa.CallInstruction
		for _, s := range c.RPC {
			if s.Fn == f && s.Resolved && len(s.Targets) == 1 && s.Targets[0].Svc == "PinTracker" && s.Targets[0].Method == br.rpcM {
				trk = s.Call
				r.Check(s.Local, br.name+":tracker-local", s.Call.Pos(), "tracker is called locally", "tracker call is not addressed to the local peer")
			}
		}
		if trk == nil {
			r.Bad(br.name+":tracker-call", stCall.Pos(), "the %s branch does not hand the change to PinTracker.%s", br.name, br.rpcM)
			continue
		}
		targs := callArgs(trk.Common())
		same := pinVal != nil && len(targs) > 4 && strip(targs[4]) == pinVal
		r.Check(same, br.name+":tracker-arg", trk.Pos(), "PinTracker."+br.rpcM+" receives the very value that was stored",
			"PinTracker."+br.rpcM+" receives a different value than the one given to the state (type/mode/allocations may differ)")
		okGuard := underType(trk.Block()) && guardedBy(trk.Block(), func(g Guard) bool {
			return gNil(g, false, func(v ssa.Value) bool { cc, _ := originCall(v); return cc == stCall })
		})
		r.Check(okGuard, br.name+":tracker-after-success", trk.Pos(), "tracker is notified only after the state call succeeded", "tracker call is not dominated by the success of the state call")
		// failure never returns nil
		errSucc, _ := errEdge(f, stCall)
		if errSucc == nil {
			r.Bad(br.name+":error-tested", stCall.Pos(), "the error of the state call is not tested")
			continue
		}
		bad := false
		for _, ret := range returnsFrom(errSucc) {
			if len(ret.Results) == 2 && isNilConst(retResult(ret, 1)) {
				bad = true
			}
		}
		r.Check(!bad, br.name+":failure-returns-error", stCall.Pos(), "a failed state call makes ApplyTo return an error", "a failed state call can still make ApplyTo return a nil error (the entry counts as applied)")
	}
}

func r012(c *Ctx, r *R) {
	f := c.fn(r, "consensus/raft", "LogOp.ApplyTo")
	if f == nil {
		return
	}
	op := f.Params[0]
	var clear *ssa.Store
	instrs(f, func(i ssa.Instruction) {
		st, ok := i.(*ssa.Store)
		if !ok {
			return
		}
		fld, base := fieldOfAddrValue(st.Addr)
		if fld != nil && fld.Name() == "Cid" && base == ssa.Value(op) && isNilConst(st.Val) {
			clear = st
		}
	})
	n := 0
	for _, s := range c.RPC {
		if s.Fn != f || !strings.HasPrefix(s.Kind, "Go") {
			continue
		}
		n++
		key := "clear-before:" + s.Targets[0].Method
		if clear == nil {
			r.Bad(key, s.Call.Pos(), "op.Cid is never set to nil: the asynchronous tracker call races with the decode of the next log entry onto the same LogOp, and stale fields of this pin leak into the next one")
			continue
		}
		r.Check(dominatesInstr(clear, s.Call), key, s.Call.Pos(), "op.Cid = nil dominates the asynchronous tracker call", "op.Cid = nil does not dominate the asynchronous tracker call")
	}
	if n == 0 {
		r.Und("tracker-calls", f.Pos(), "no asynchronous tracker call found in ApplyTo")
	}
}

func r013(c *Ctx, r *R) {
	for _, n := range []string{"LogOpPin", "LogOpUnpin"} {
		v := c.constNamed("consensus/raft", n)
		if v == nil {
			r.Und("const:"+n, token.NoPos, "constant %s not found", n)
			continue
		}
		r.Check(constant.Sign(v) != 0, "nonzero:raft."+n, token.NoPos, n+" is non-zero", n+" is zero: the omitempty-tagged Type field is dropped on the wire and the reused LogOp keeps the previous entry's type")
	}
	// every constant compared with op.Type in ApplyTo is one of them / non-zero
	if f := c.fn(r, "consensus/raft", "LogOp.ApplyTo"); f != nil {
		for _, b := range f.Blocks {
			iff, ok := b.Instrs[len(b.Instrs)-1].(*ssa.If)
			if !ok {
				continue
			}
			x, k, _, ok := eqConst(iff.Cond)
			if !ok {
				continue
			}
			if fld, _ := fieldLoad(x); fld != nil && fld.Name() == "Type" {
				r.Check(constant.Sign(k) != 0, fmt.Sprintf("nonzero:case:%s", k), iff.Pos(), "case constant is non-zero", "ApplyTo dispatches on a zero-valued op type")
			}
		}
	}
	// the Type field must be omitempty for this to matter; if it is not,
	// zero would be safe, but then the rule is still sound (stricter on a
	// renumbering only).
	pt := c.namedType(r, "api", "PinType")
	if pt != nil {
		for _, k := range declaredConsts(pt) {
			r.Check(constant.Sign(k.Val()) != 0, "nonzero:api."+k.Name(), k.Pos(), k.Name()+" is non-zero", k.Name()+" is zero: Pin.Type is tagged omitempty, a zero type vanishes on the wire")
		}
	}
}

// checkRetryResult: the error result of f may only be (a) the error of
// redirectToLeader, (b) the error of a commit call, (c) the initial nil
// reaching the return without passing a commit call.
func checkRetryResult(c *Ctx, r *R, f *ssa.Function, name string, commitPats ...string) {
	idx := f.Signature.Results().Len() - 1
	// the commit call, in f or in a helper extracted from f
	var commit, outer *ssa.Call
	for _, dc := range findCallsDeep(f, commitPats...) {
		if cc, ok := dc.Inner.(*ssa.Call); ok {
			commit = cc
			outer, _ = dc.Outer.(*ssa.Call)
		}
	}
	if commit == nil || outer == nil {
		r.Bad(name+":commit-call", f.Pos(), "%s no longer calls %v", name, commitPats)
		return
	}
	isCommitErr := func(v ssa.Value) bool { cc, _ := originCallLocal(v); return cc == commit || cc == outer }
	for _, lf := range returnLeavesDeep(f, idx) {
		v := lf.Val
		if call, i := originCallLocal(v); call != nil {
			cn := callName(call.Common())
			switch {
			case nameMatches(cn, "raft.Consensus).redirectToLeader") && i == 1:
				r.OK(name+":returns-redirect-error", lf.Pos, "returns the redirect's error (nil = the leader accepted)")
			case call == commit || call == outer:
				r.OK(name+":returns-commit-error", lf.Pos, "returns the commit call's error")
			default:
				r.Bad(name+":returns-other:"+cn, lf.Pos, "%s returns the result of %s, not of the commit or the redirect", name, cn)
			}
			continue
		}
		if isNilConst(v) {
			switch {
			case len(lf.Via) == 0 && lf.Block != outer.Block() && !blockReaches(outer.Block(), lf.Block):
				// acceptable as the initial value: the block the nil comes
				// from is not reachable from the commit call
				r.OK(name+":initial-nil", lf.Pos, "nil reaches the return only without any commit attempt (zero iterations; excluded by Validate)")
			case lf.GuardedBy(func(g Guard) bool { return gNil(g, false, isCommitErr) }):
				r.OK(name+":nil-under-commit-ok", lf.Pos, "the literal nil is returned only where the commit call's error was tested to be nil")
			default:
				r.Bad(name+":nil-after-commit", lf.Pos, "%s can return nil on a path after a commit attempt without that attempt's error being the result: a failed commit is acknowledged", name)
			}
			continue
		}
		r.Bad(name+":returns-unknown", lf.Pos, "%s returns %s, which is neither the commit's nor the redirect's error", name, v)
	}
	// the commit happens under the shared shutdown lock (taken around the
	// call itself, or around the helper that makes it)
	held := lockHeldAt(commit, "shutdownLock") || lockHeldAt(outer, "shutdownLock")
	if h := commit.Common().StaticCallee(); !held && h != nil && h.Blocks != nil && higherOrderWrapper(commit, commitPats...) {
		// the helper that is handed the commit as a function value takes
		// the lock around its call of it
		n, all := 0, true
		instrs(h, func(i ssa.Instruction) {
			if cl, ok := i.(*ssa.Call); ok {
				if _, isP := cl.Common().Value.(*ssa.Parameter); isP && !cl.Common().IsInvoke() {
					n++
					if !lockHeldAt(cl, "shutdownLock") {
						all = false
					}
				}
			}
		})
		held = n > 0 && all
	}
	r.Check(held, name+":commit-under-shutdownLock", commit.Pos(), "commit is performed with shutdownLock read-held", "commit is not performed under shutdownLock: Shutdown can close raft in the middle of it")
}

// lockHeldAt: simple structural check that a Lock/RLock call on the named
// mutex field dominates the instruction and no Unlock/RUnlock on it lies
// between them on the dominator path (same-block or dominating order).
func lockHeldAt(at ssa.Instruction, mutexField string) bool {
	f := at.Parent()
	var locks, unlocks []ssa.Instruction
	instrs(f, func(i ssa.Instruction) {
		ci, ok := i.(*ssa.Call)
		if !ok {
			return
		}
		n := callName(ci.Common())
		if len(ci.Common().Args) == 0 {
			return
		}
		fld, _ := fieldOfAddrValue(ci.Common().Args[0])
		if fld == nil || fld.Name() != mutexField {
			return
		}
		switch {
		case strings.HasSuffix(n, ").Lock") || strings.HasSuffix(n, ").RLock"):
			locks = append(locks, i)
		case strings.HasSuffix(n, ").Unlock") || strings.HasSuffix(n, ").RUnlock"):
			unlocks = append(unlocks, i)
		}
	})
	for _, l := range locks {
		if !dominatesInstr(l, at) {
			continue
		}
		released := false
		for _, u := range unlocks {
			if dominatesInstr(l, u) && dominatesInstr(u, at) {
				released = true
			}
		}
		if !released {
			return true
		}
	}
	return false
}

func r014(c *Ctx, r *R) {
	if f := c.fn(r, "consensus/raft", "Consensus.commit"); f != nil {
		checkRetryResult(c, r, f, "commit", "go-libp2p-consensus.OpLogConsensus).CommitOp", ").CommitOp")
	}
	if f := c.fn(r, "consensus/raft", "Consensus.AddPeer"); f != nil {
		checkRetryResult(c, r, f, "AddPeer", "raft.raftWrapper).AddPeer")
	}
	if f := c.fn(r, "consensus/raft", "Consensus.RmPeer"); f != nil {
		checkRetryResult(c, r, f, "RmPeer", "raft.raftWrapper).RemovePeer")
	}
	// LogPin / LogUnpin return commit's error
	for _, n := range []string{"LogPin", "LogUnpin"} {
		f := c.fn(r, "consensus/raft", "Consensus."+n)
		if f == nil {
			continue
		}
		// (directly, or through a helper shared by the two that does)
		var returnsCommit func(g *ssa.Function, depth int) bool
		returnsCommit = func(g *ssa.Function, depth int) bool {
			if g == nil || len(g.Blocks) == 0 || depth > 2 {
				return false
			}
			n := 0
			for _, lf := range returnLeaves(g, g.Signature.Results().Len()-1) {
				n++
				call, _ := originCall(lf.Val)
				if call != nil && nameMatches(callName(call.Common()), "raft.Consensus).commit") {
					continue
				}
				if isNilConst(lf.Val) && lf.GuardedBy(func(gd Guard) bool { return gCallErrNil(gd, "raft.Consensus).commit") }) {
					continue
				}
				if call != nil {
					if h := call.Common().StaticCallee(); h != nil && h.Pkg == g.Pkg && h != g && returnsCommit(h, depth+1) {
						continue
					}
				}
				return false
			}
			return n > 0
		}
		ok := returnsCommit(f, 0)
		cnt := 1
		r.Check(ok && cnt > 0, n+":returns-commit", f.Pos(), n+" returns nil only when commit returned nil", n+" can return nil although commit failed")
		// the op carries the pin and the right type
		for _, ci := range findCalls(f, false, "raft.Consensus).op") {
			a := callArgs(ci.Common())
			want := c.constNamed("consensus/raft", map[string]string{"LogPin": "LogOpPin", "LogUnpin": "LogOpUnpin"}[n])
			k, isK := constOf(a[2])
			r.Check(isK && k != nil && want != nil && constant.Compare(k, token.EQL, want) && paramIndex(f, a[1]) == 2, n+":op", ci.Pos(),
				n+" builds the log entry from its pin argument with the matching type", n+" builds the log entry with the wrong type or pin")
		}
	}
	// redirectToLeader: (true, err) carries the RPC's error
	if f := c.fn(r, "consensus/raft", "Consensus.redirectToLeader"); f != nil {
		var rpcCall ssa.Value
		for _, s := range c.RPC {
			if s.Fn == f {
				if v, ok := s.Call.(ssa.Value); ok {
					rpcCall = v
				}
			}
		}
		if rpcCall == nil {
			r.Bad("redirect:rpc", f.Pos(), "redirectToLeader makes no RPC")
		} else {
			found, bad := false, false
			for _, ret := range returnsOf(f) {
				b := ret.Block()
				if len(ret.Results) != 2 {
					continue
				}
				k, isK := constOf(retResult(ret, 0))
				if !isK || k == nil || !constant.BoolVal(k) {
					continue
				}
				var out []RetLeaf
				expandLeaves(retResult(ret, 1), b, ret, map[ssa.Value]bool{}, &out)
				// 'redirected' comes with the RPC's own error, or with a
				// literal nil where that error was just tested to be nil
				for _, l := range out {
					switch {
					case l.Val == rpcCall:
						found = true
					case isNilConst(l.Val) && l.GuardedBy(func(g Guard) bool {
						return gNil(g, false, func(v ssa.Value) bool {
							for _, x := range phiLeaves(v) {
								if x == rpcCall {
									return true
								}
							}
							return v == rpcCall
						})
					}):
						found = true
					case isNilConst(l.Val) && l.Block != rpcCall.(ssa.Instruction).Block() && !blockReaches(rpcCall.(ssa.Instruction).Block(), l.Block):
						// the initial value: no redirect was attempted (zero
						// iterations; excluded by Validate)
					default:
						bad = true
					}
				}
			}
			r.Check(found && !bad, "redirect:returns-rpc-error", f.Pos(), "a redirected request returns the error of the RPC to the leader", "redirectToLeader reports 'redirected' without the RPC's error: a failed redirect is acknowledged as committed")
		}
	}
	// Validate rejects CommitRetries < 0
	if f := c.fn(r, "consensus/raft", "Config.Validate"); f != nil {
		ok := false
		for _, b := range f.Blocks {
			iff, isIf := b.Instrs[len(b.Instrs)-1].(*ssa.If)
			if !isIf {
				continue
			}
			bo, isB := iff.Cond.(*ssa.BinOp)
			if !isB {
				continue
			}
			fld, _ := fieldLoad(bo.X)
			k, isK := constInt(bo.Y)
			if fld == nil || fld.Name() != "CommitRetries" || !isK {
				continue
			}
			var errSucc *ssa.BasicBlock
			switch {
			case bo.Op == token.LSS && k == 0, bo.Op == token.LEQ && k == -1:
				errSucc = b.Succs[0]
			case bo.Op == token.GEQ && k == 0, bo.Op == token.GTR && k == -1:
				errSucc = b.Succs[1]
			}
			if errSucc == nil {
				continue
			}
			all := true
			for _, ret := range returnsFrom(errSucc) {
				if isNilConst(retResult(ret, 0)) {
					all = false
				}
			}
			if all {
				ok = true
			}
		}
		r.Check(ok, "validate:CommitRetries", f.Pos(), "Validate rejects negative commit_retries (the retry loops run at least once)", "Validate accepts negative commit_retries: the retry loops run zero times and report success without committing")
	}
}

func r015(c *Ctx, r *R) {
	f := c.fn(r, "state/dsstate", "State.Unmarshal")
	if f == nil {
		return
	}
	// the calls may live in f, in a closure of f, or in a single-caller
	// helper f hands a piece of the work to (a piece of f)
	collect := func(pat string) []deepCall {
		out := findCallsDeep(f, pat)
		seen := map[ssa.CallInstruction]bool{}
		for _, d := range out {
			seen[d.Inner] = true
		}
		for _, ci := range findCalls(f, true, pat) {
			if !seen[ci] {
				out = append(out, deepCall{Outer: ci, Inner: ci})
			}
		}
		return out
	}
	before := func(a, b deepCall) bool {
		if a.Inner.Parent() == b.Inner.Parent() {
			return precedes(a.Inner, b.Inner)
		}
		return a.Outer != b.Outer && a.Outer.Parent() == b.Outer.Parent() && precedes(a.Outer, b.Outer)
	}
	puts := collect("go-datastore.Write).Put")
	dels := collect("go-datastore.Write).Delete")
	if len(puts) == 0 {
		r.Und("put", f.Pos(), "Unmarshal writes nothing")
		return
	}
	for i, p := range puts {
		key := fmt.Sprintf("delete-before-put#%d", i+1)
		ok := false
		for _, d := range dels {
			if before(d, p) {
				ok = true
			}
		}
		r.Check(ok, key, p.Inner.Pos(), "entries are written only after the namespace's existing keys were deleted",
			"Unmarshal writes the snapshot's entries without deleting what the state holds: restoring onto a non-empty replica keeps pins the snapshot no longer contains")
	}
	// what is deleted is everything under the namespace: a Query on the
	// read side with the namespace prefix precedes the deletes
	okQ := false
	for _, q := range collect("go-datastore.Read).Query") {
		for _, d := range dels {
			if before(q, d) {
				okQ = true
			}
		}
	}
	r.Check(okQ, "delete-scope", f.Pos(), "the deleted keys come from a query over the state's namespace", "deletes are not driven by a query of the existing keys")
}

func r016(c *Ctx, r *R) {
	f := c.fn(r, "consensus/raft", "raftWrapper.Shutdown")
	if f != nil {
		one := func(pats ...string) ssa.CallInstruction {
			cs := findCalls(f, false, pats...)
			if len(cs) == 0 {
				return nil
			}
			return cs[0]
		}
		snap := one("raft.raftWrapper).snapshotOnShutdown")
		rs := one("hashicorp/raft.Raft).Shutdown")
		cl := one("raft-boltdb.BoltStore).Close")
		if (snap == nil || rs == nil || cl == nil) && r016Table(c, r, f) {
			// decided on the table of shutdown steps
		} else if snap == nil || rs == nil || cl == nil {
			r.Bad("shutdown:calls", f.Pos(), "raft shutdown no longer calls snapshotOnShutdown / raft.Shutdown / boltdb.Close (%v %v %v)", snap != nil, rs != nil, cl != nil)
		} else {
			r.Check(dominatesInstr(snap, rs), "shutdown:snapshot-before-raft", rs.Pos(), "the final snapshot is taken before raft is stopped", "raft is stopped before the final snapshot: the snapshot cannot be taken and recent entries are replayed from the log only")
			r.Check(dominatesInstr(rs, cl), "shutdown:raft-before-store", cl.Pos(), "raft is stopped before its store is closed", "the log store is closed while raft may still write to it")
			// unconditional
			r.Check(onEveryPath(rs) && onEveryPath(cl), "shutdown:unconditional", f.Pos(), "raft stop and store close happen on every path", "raft stop / store close are conditional")
		}
	}
	// Consensus.Shutdown holds shutdownLock exclusively around raft.Shutdown
	if g := c.fn(r, "consensus/raft", "Consensus.Shutdown"); g != nil {
		cs := findCalls(g, false, "raft.raftWrapper).Shutdown")
		if len(cs) == 0 {
			r.Bad("consensus-shutdown:raft", g.Pos(), "Consensus.Shutdown does not shut raft down")
		} else {
			r.Check(lockHeldAt(cs[0], "shutdownLock"), "consensus-shutdown:lock", cs[0].Pos(), "raft is shut down with shutdownLock held", "raft is shut down without shutdownLock: a commit may be in flight")
		}
	}
	_ = types.Typ
}

// r016Table decides the raft shutdown clauses when the three steps are kept
// as a table run by a loop (see stepTable): rows in the order snapshot, raft
// stop, store close, every row run on every path.
func r016Table(c *Ctx, r *R, f *ssa.Function) bool {
	pats := []string{"raft.raftWrapper).snapshotOnShutdown", "hashicorp/raft.Raft).Shutdown", "raft-boltdb.BoltStore).Close"}
	for _, tb := range stepTablesOf(f) {
		row := []int{-1, -1, -1}
		for k, fn := range tb.Fns {
			for i, p := range pats {
				if nameMatches(fn.String(), p) || len(findCalls(fn, false, p)) > 0 {
					if row[i] >= 0 {
						return false
					}
					row[i] = k
				}
			}
		}
		if row[0] < 0 || row[1] < 0 || row[2] < 0 {
			continue
		}
		r.Check(row[0] < row[1], "shutdown:snapshot-before-raft", tb.Call.Pos(), "the final snapshot is taken before raft is stopped (rows of the step table)", "raft is stopped before the final snapshot: the snapshot cannot be taken and recent entries are replayed from the log only")
		r.Check(row[1] < row[2], "shutdown:raft-before-store", tb.Call.Pos(), "raft is stopped before its store is closed (rows of the step table)", "the log store is closed while raft may still write to it")
		r.Check(tb.RunAll && len(guardsOf(tb.Header)) == 0, "shutdown:unconditional", f.Pos(), "every step of the table runs on every path", "raft stop / store close are conditional")
		return true
	}
	return false
}
