package main

import (
	"encoding/json"
	"fmt"
	"os"
	"path/filepath"
	"sort"
	"strconv"
	"strings"
)

// KnownFinding is an entry of /verif/known_findings.json. Only "open"
// entries match obligations; "fixed" entries are a record and match nothing.
type KnownFinding struct {
	Property string `json:"property"`
	Key      string `json:"key"`
	Status   string `json:"status"` // open | fixed
	Commit   string `json:"commit,omitempty"`
	What     string `json:"what"`
}

func loadKnown() []KnownFinding {
	b, err := os.ReadFile(filepath.Join(verifDir, "known_findings.json"))
	if err != nil {
		return nil
	}
	var kf []KnownFinding
	if err := json.Unmarshal(b, &kf); err != nil {
		brokenf("known_findings.json: %v", err)
	}
	return kf
}

func hasProp(ps []string, id string) bool {
	for _, p := range ps {
		if p == id {
			return true
		}
	}
	return false
}

// verdict prints the outcome for one property, writes its evidence file and
// reports whether an unlisted violation (or undecided obligation) exists.
func verdict(res *Result, kf []KnownFinding, id, tier string, dump, writeEv bool, wall float64) bool {
	info, ok := propInfo[id]
	if !ok {
		brokenf("unknown property %s", id)
	}
	var obs []Obligation
	var rules []map[string]interface{}
	for _, rr := range res.Rules {
		if !hasProp(rr.Props, id) {
			continue
		}
		obs = append(obs, rr.Obligations...)
		nd, nv, nu := 0, 0, 0
		for _, o := range rr.Obligations {
			switch o.Status {
			case Discharged:
				nd++
			case Violated:
				nv++
			default:
				nu++
			}
		}
		rules = append(rules, map[string]interface{}{"rule": rr.ID, "clause": rr.Title, "instances": rr.Instances,
			"floor": rr.Floor, "discharged": nd, "violated": nv, "undecided": nu})
	}
	if len(rules) == 0 {
		brokenf("no rule serves property %s", id)
	}
	openKF := map[string]KnownFinding{}
	for _, k := range kf {
		if k.Status == "open" && k.Property == id {
			openKF[k.Key] = k
		}
	}
	replayDir := filepath.Join(verifDir, "evidence", "replay")
	nViol, nKnown, nDis := 0, 0, 0
	keys := map[string]bool{}
	var samples []interface{}
	var violSamples []interface{}
	perRuleSample := map[string]int{}
	for _, o := range obs {
		keys[o.Key] = true
		if dump {
			fmt.Printf("  [%s] %s %s @%s: %s\n", o.Status, o.Rule, o.Key, o.Pos, o.Detail)
		}
		if o.Status == Discharged {
			nDis++
			if perRuleSample[o.Rule] < 2 {
				perRuleSample[o.Rule]++
				samples = append(samples, o)
			}
			continue
		}
		if k, known := openKF[o.Key]; known {
			nKnown++
			fmt.Printf("KNOWN-FINDING: property=%s %s [%s at %s]\n", id, k.What, o.Key, o.Pos)
			violSamples = append(violSamples, map[string]interface{}{"known_finding": true, "obligation": o})
			continue
		}
		nViol++
		path := filepath.Join(replayDir, fmt.Sprintf("%s-%d.json", id, nViol))
		if writeEv {
			os.MkdirAll(replayDir, 0o755)
			b, _ := json.MarshalIndent(map[string]interface{}{"property": id, "obligation": o, "repo": res.Repo, "digest": res.Digest}, "", " ")
			os.WriteFile(path, b, 0o644)
		}
		fmt.Printf("%s %s at %s: %s\n", strings.ToUpper(o.Status), o.Key, o.Pos, o.Detail)
		fmt.Printf("VIOLATION property=%s replay=%s\n", id, path)
		violSamples = append(violSamples, o)
	}
	if res.Mutants != nil {
		for _, m := range res.Mutants.Misses {
			if strings.HasPrefix(m, id+"-") || strings.Contains(m, "/"+id+"-") {
				fmt.Printf("WARNING: sensitivity mutant %s was not detected (does not affect the verdict on /repo)\n", m)
			}
		}
	}
	if len(res.Renames) > 0 {
		fmt.Printf("NOTE: %d unexported identifier(s) renamed with respect to the reference table were read under their reference names: %s\n", len(res.Renames), strings.Join(res.Renames, "; "))
	}
	cached := ""
	if res.FromCache {
		cached = " (obligations from the result cache: identical tree digest)"
	}
	fmt.Printf("%s %s: %d obligations over %d rules, %d discharged, %d known findings, %d violations; analysed %d packages, %d functions, %d RPC call sites%s\n",
		id, tier, len(obs), len(rules), nDis, nKnown, nViol, res.Packages, res.RepoFuncs, res.RPCSites, cached)

	if writeEv {
		seed, _ := strconv.Atoi(os.Getenv("VERIF_SEED"))
		cov := map[string]interface{}{
			"explanation": "Static analysis of /repo's current sources (type-checked syntax, SSA, VTA call graph; nothing is executed). " + info.Decides +
				" NOT decided by this check: " + info.NotDecided,
			"obligations":         len(obs),
			"discharged":          nDis,
			"evaluations":         len(obs),
			"distinct_nontrivial": len(keys),
			"rule": "one obligation per (rule, resolved construct) instance found in the current tree; distinct = distinct obligation keys; " +
				"every rule has an instance floor (count confirmed by hand on the pinned tree) and fails when it matches fewer",
			"rules":              rules,
			"samples":            append(violSamples, samples...),
			"checker_cmd":        fmt.Sprintf("./bin/clusterlint -property %s -tier %s", id, tier),
			"trusted_base":       trustedBase,
			"packages_analysed":  res.Packages,
			"functions_analysed": res.RepoFuncs,
			"callgraph":          map[string]int{"nodes": res.CGNodes, "edges": res.CGEdges},
			"rpc_call_sites":     res.RPCSites,
			"positive_controls":  res.Controls,
			"known_findings":     nKnown,
			"tree_digest":        res.Digest,
			"from_result_cache":  res.FromCache,
			"analysis_wall_s":    res.AnalysisS,
			"timings":            res.Timings,
		}
		if info.Exhaustive != "" {
			cov["exhaustive"] = true
			cov["exhaustive_over"] = info.Exhaustive
		}
		if res.Mutants != nil {
			cov["mutants_applied"] = res.Mutants.Applied
			cov["mutants_detected"] = res.Mutants.Detected
			cov["mutants_missed"] = res.Mutants.Misses
			cov["mutants_not_applicable"] = res.Mutants.Stale
		}
		if len(res.TestsNotes) > 0 {
			cov["tests_load_notes"] = res.TestsNotes
		}
		if len(res.Renames) > 0 {
			cov["renamed_identifiers_normalised"] = res.Renames
		}
		assume := []string{
			"go/types, go/ssa and the VTA call graph (golang.org/x/tools v0.29.0) represent the program faithfully; reflection is not followed except gorpc's string dispatch, which is stitched explicitly",
			"dependencies behave as read by hand: gorpc skips authorisation for local destinations, libp2p-raft decodes every log entry onto the same LogOp and restores snapshots through State.Unmarshal",
			fmt.Sprintf("%d type error(s) outside the repository are tolerated (quic-go's deliberate build failure on this toolchain): %s", len(res.DepErrors), strings.Join(res.DepErrors, "; ")),
			"guard tables, reference policy table and accepted idioms frozen in the checker are correct for the pinned commit (each entry carries its reason in the source)",
		}
		if len(res.Renames) > 0 {
			assume = append(assume, "unexported identifiers renamed with respect to the reference table were read under their reference names (alpha-equivalence: nothing observes unexported names at run time)")
		}
		ev := map[string]interface{}{
			"property_id": id,
			"tier":        tier,
			"seed":        seed,
			"level":       "other",
			"coverage":    cov,
			"assumptions": assume,
			"wall_s":      wall,
			"violations":  nViol,
		}
		os.MkdirAll(filepath.Join(verifDir, "evidence"), 0o755)
		b, _ := json.MarshalIndent(ev, "", " ")
		if err := os.WriteFile(filepath.Join(verifDir, "evidence", id+".json"), b, 0o644); err != nil {
			brokenf("writing evidence: %v", err)
		}
	}
	return nViol > 0
}

var trustedBase = []string{
	"Go type checker (go/types) and golang.org/x/tools v0.29.0: go/packages, go/ssa, callgraph/cha, callgraph/vta",
	"clusterlint's own primitives (dominance guards, return provenance, lockset, typestate, constant tables), exercised by positive controls on every run and by the mutant sensitivity suite",
	"hand-read facts about dependencies listed under assumptions",
}

func doReplay(path string, noCache bool) {
	b, err := os.ReadFile(path)
	if err != nil {
		brokenf("%v", err)
	}
	var rp struct {
		Property   string     `json:"property"`
		Obligation Obligation `json:"obligation"`
	}
	if err := json.Unmarshal(b, &rp); err != nil {
		brokenf("replay file: %v", err)
	}
	res := obtain(repoRoot, "quick", noCache)
	fmt.Printf("replaying %s (property %s) on the current tree\n", rp.Obligation.Key, rp.Property)
	base := rp.Obligation.Key
	if i := strings.Index(base, "#"); i >= 0 {
		base = base[:i]
	}
	found := false
	var same []Obligation
	for _, rr := range res.Rules {
		if rr.ID != rp.Obligation.Rule {
			continue
		}
		for _, o := range rr.Obligations {
			if o.Key == rp.Obligation.Key || strings.HasPrefix(o.Key, base) {
				same = append(same, o)
			}
		}
	}
	sort.Slice(same, func(i, j int) bool { return same[i].Key < same[j].Key })
	exit := 0
	for _, o := range same {
		found = true
		fmt.Printf("[%s] %s at %s\n    %s\n", o.Status, o.Key, o.Pos, o.Detail)
		if o.Status != Discharged {
			exit = 1
		}
	}
	if !found {
		fmt.Printf("the rule %s produced no obligation with this key on the current tree (was: [%s] %s)\n", rp.Obligation.Rule, rp.Obligation.Status, rp.Obligation.Detail)
	}
	os.Exit(exit)
}
