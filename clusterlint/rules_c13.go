package main

import (
	"fmt"
	"go/token"
	"sort"
	"strings"

	"golang.org/x/tools/go/ssa"
)

func init() {
	register(
		&Rule{ID: "R13.1", Props: []string{"C13", "C12"}, Floor: 4, Title: "the root is pinned (Finalize) only when every entry was added, the iterator did not fail and the context is alive; FromFiles is the only finaliser", Run: r131},
		&Rule{ID: "R13.2", Props: []string{"C13"}, Floor: 3, Title: "only the finalisers and the shard flush pin through the adder", Run: r132},
		&Rule{ID: "R13.3", Props: []string{"C13"}, Floor: 4, Title: "content is pinned where its blocks were sent: the pin's allocations are the block destinations", Run: r133},
		&Rule{ID: "R13.4", Props: []string{"C13"}, Floor: 6, Title: "sharded pins have the shape the pin validator requires; the shard's pin depth covers its (possibly indirect) DAG", Run: r134},
		&Rule{ID: "R13.5", Props: []string{"C13"}, Floor: 2, Title: "a block counts as delivered only if at least one destination took it without any error", Run: r135},
	)
}

func r131(c *Ctx, r *R) {
	f := c.fn(r, "adder", "Adder.FromFiles")
	if f == nil {
		return
	}
	fin := findCalls(f, false, "adder.ClusterDAGService).Finalize")
	if len(fin) != 1 {
		r.Bad("finalize:count", f.Pos(), "FromFiles has %d Finalize calls", len(fin))
		return
	}
	fb := fin[0].Block()
	// per-entry Add failure
	adds := findCalls(f, false, "adder.dagFormatter).Add")
	if len(adds) == 0 {
		r.Und("add-call", f.Pos(), "per-entry Add call not found")
	}
	for _, a := range adds {
		errSucc, _ := errEdge(f, a.(ssa.Value))
		ok := errSucc != nil && errSucc != fb && !blockReaches(errSucc, fb)
		r.Check(ok, "no-finalize-after-add-error", a.Pos(), "a failed entry ends the add without pinning the root", "after an entry failed to be added FromFiles can still reach Finalize: the root is pinned although content is missing")
	}
	okIt := guardedBy(fb, func(g Guard) bool {
		x, tn, ok := nilCmp(g.Cond)
		if !ok {
			return false
		}
		call, _ := originCall(x)
		// the iterator's Err, not the context's (FromFiles also tests
		// a.ctx.Err() on entry)
		return call != nil && call.Common().IsInvoke() && call.Common().Method.Name() == "Err" && !strings.Contains(call.Common().Value.Type().String(), "context.Context") && (tn != g.Branch)
	})
	r.Check(okIt, "no-finalize-after-iterator-error", fin[0].Pos(), "an iterator error ends the add without pinning", "Finalize is reached although the directory iterator reported an error (truncated input would be pinned as complete)")
	// formatter construction error
	okFmt := guardedBy(fb, func(g Guard) bool {
		return gNil(g, false, func(v ssa.Value) bool {
			call, _ := originCall(v)
			return call != nil && nameMatches(callName(call.Common()), "adder.newIpfsAdder", "adder.newCarAdder")
		})
	})
	r.Check(okFmt, "no-finalize-after-format-error", fin[0].Pos(), "a bad format ends the add without pinning", "Finalize is reached although the DAG formatter could not be built")
	// the root passed to Finalize is what the formatter returned
	root := callArgs(fin[0].Common())[1]
	okRoot := false
	for _, l := range phiLeaves(root) {
		if call, idx := originCall(l); call != nil && idx == 0 && nameMatches(callName(call.Common()), "adder.dagFormatter).Add") {
			okRoot = true
		}
	}
	r.Check(okRoot, "finalize-root", fin[0].Pos(), "the root that is pinned is the root the importer produced", "Finalize is not given the importer's root")
	// only caller
	n := 0
	c.P.RepoFuncs(func(g *ssa.Function) {
		if isTestSupportFn(g) {
			return
		}
		for _, ci := range findCalls(g, false, "adder.ClusterDAGService).Finalize") {
			n++
			r.Check(g == f, "finalize-callers:"+g.Name(), ci.Pos(), "Finalize is called by FromFiles only", g.String()+" calls Finalize outside FromFiles' success path")
		}
	})
}

func r132(c *Ctx, r *R) {
	p := c.fn(r, "adder", "Pin")
	if p == nil {
		return
	}
	allowed := map[string]bool{
		"(*" + ModPath + "/adder/single.DAGService).Finalize":   true,
		"(*" + ModPath + "/adder/sharding.DAGService).Finalize": true,
		"(*" + ModPath + "/adder/sharding.shard).Flush":         true,
	}
	sites, esc := c.callSitesOf(p)
	if esc {
		r.Und("adder.Pin:escapes", p.Pos(), "adder.Pin is used as a value")
	}
	// ... or in an unexported helper that only they call (a piece of the
	// finaliser extracted into its own function)
	var pieceOf func(g *ssa.Function, depth int) bool
	pieceOf = func(g *ssa.Function, depth int) bool {
		if allowed[g.String()] {
			return true
		}
		if depth > 3 || g.Object() == nil || g.Object().Exported() {
			return false
		}
		ss, e := c.callSitesOf(g)
		if e || len(ss) == 0 {
			return false
		}
		for _, s := range ss {
			if s.Parent() == g || !pieceOf(s.Parent(), depth+1) {
				return false
			}
		}
		return true
	}
	for _, s := range sites {
		n := s.Parent().String()
		r.Check(pieceOf(s.Parent(), 0), "pin-caller:"+n, s.Pos(), "pinning happens in a finaliser / shard flush", n+" pins through the adder outside the finalisers: content can be pinned before it is complete")
	}
	// nothing else in the adder packages calls Cluster.Pin directly
	for _, rs := range c.RPC {
		if !strings.Contains(rs.Fn.String(), "/adder") {
			continue
		}
		for _, t := range rs.Targets {
			if t.Svc == "Cluster" && (t.Method == "Pin" || t.Method == "PinPath") {
				r.Check(rs.Fn == p, "pin-rpc:"+rs.Fn.String(), rs.Call.Pos(), "Cluster.Pin is called through adder.Pin only", rs.Fn.String()+" calls Cluster."+t.Method+" directly")
			}
		}
	}
}

func storedFieldsOf(f *ssa.Function, base ssa.Value) map[string]ssa.Value {
	out := map[string]ssa.Value{}
	// an object built by a helper of the repository and handed back: the
	// fields the helper stored are the object's
	if call, ok := stripLocal(base).(*ssa.Call); ok {
		if h := call.Common().StaticCallee(); h != nil && h.Blocks != nil && h.Pkg != nil && h.Pkg == f.Pkg && h != f {
			rets := returnsOf(h)
			if len(rets) == 1 && len(rets[0].Results) == 1 {
				for k, v := range storedFieldsOf(h, retResult(rets[0], 0)) {
					out[k] = v
				}
			}
		}
	}
	instrs(f, func(i ssa.Instruction) {
		st, ok := i.(*ssa.Store)
		if !ok {
			return
		}
		fa, ok := st.Addr.(*ssa.FieldAddr)
		if !ok {
			return
		}
		root := fa.X
		for {
			if in, ok := root.(*ssa.FieldAddr); ok {
				root = in.X
				continue
			}
			break
		}
		if root == base {
			out[fieldOfAddr(fa).Name()] = st.Val
		}
	})
	return out
}

func r133(c *Ctx, r *R) {
	// single
	fin := c.fn(r, "adder/single", "DAGService.Finalize")
	add := c.fn(r, "adder/single", "DAGService.Add")
	if fin != nil && add != nil {
		for _, ci := range findCalls(fin, false, "adder.Pin") {
			pin := ci.Common().Args[2]
			st := storedFieldsOf(fin, pin)
			fl, _ := fieldLoad(st["Allocations"])
			r.Check(fl != nil && fl.Name() == "dests", "single:pin-allocations", ci.Pos(), "the root pin's allocations are the recorded block destinations", "the root is pinned with allocations other than the destinations its blocks were sent to")
			// ... on every path: the destinations may be left out only for a
			// negative factor (pin everywhere). A test like `min > 0` also
			// drops them for 0, which means "use the cluster default"
			okAlways := true
			instrs(fin, func(i ssa.Instruction) {
				st2, ok := i.(*ssa.Store)
				if !ok {
					return
				}
				fa, ok := st2.Addr.(*ssa.FieldAddr)
				if !ok || fieldOfAddr(fa).Name() != "Allocations" {
					return
				}
				for _, g := range guardsOf(st2.Block()) {
					if g.Derived {
						continue
					}
					x, op, k, isCmp := cmpIntConst(g.Cond)
					fx, _ := fieldLoad(x)
					nonNeg := false
					if isCmp && fx != nil && strings.HasPrefix(fx.Name(), "ReplicationFactor") {
						switch {
						case op == token.LSS && k == 0, op == token.LEQ && k == -1:
							nonNeg = !g.Branch
						case op == token.GEQ && k == 0, op == token.GTR && k == -1:
							nonNeg = g.Branch
						}
					}
					if !nonNeg {
						okAlways = false
					}
				}
			})
			r.Check(okAlways, "single:pin-allocations-always", ci.Pos(), "the destinations are attached unless the pin is for everyone (negative factor)", "single.Finalize attaches the block destinations only under a test that also excludes factor 0 (`use the cluster default`): such a pin is allocated afresh after its blocks were shipped and can land on peers that never received them")
			src, _ := originCall(pin)
			ok := src != nil && nameMatches(callName(src.Common()), "/api.PinWithOpts")
			if ok {
				o, _ := fieldLoad(src.Common().Args[1])
				ok = o != nil && o.Name() == "pinOpts" && paramIndex(fin, src.Common().Args[0]) == 2
			}
			r.Check(ok, "single:pin-options", ci.Pos(), "the root is pinned with the requested options", "the root pin is not PinWithOpts(root, requested options)")
		}
		// dests recorded from BlockAllocate and used for the block adder
		var alloc *ssa.Call
		for _, dc := range findCallsDeep(add, "adder.BlockAllocate") { // in Add or a helper extracted from it
			alloc, _ = dc.Inner.(*ssa.Call)
		}
		okRec, okBA := false, false
		if alloc != nil {
			instrsDeep(add, func(i ssa.Instruction) {
				if st, ok := i.(*ssa.Store); ok {
					if fl, _ := fieldOfAddrValue(st.Addr); fl != nil && fl.Name() == "dests" {
						if cc, idx := originCall(st.Val); cc == alloc && idx == 0 {
							okRec = true
						}
					}
				}
			})
			// the destinations handed to the block adder: BlockAllocate's
			// answer, or something else only in local mode (one call with
			// the value chosen beforehand, or one call per case)
			isLocal := func(g Guard) bool { return gField(g, "local", true) }
			nAlloc, nOther := 0, 0
			for _, dc := range findCallsDeep(add, "adder.NewBlockAdder") {
				ci := dc.Inner
				for _, lf := range valueLeaves(ci.Common().Args[1], ci.Block()) {
					if cc, idx := originCall(lf.Val); cc == alloc && idx == 0 {
						nAlloc++
					} else if !lf.GuardedBy(isLocal) && !guardedBy(ci.Block(), isLocal) {
						nOther++
					}
				}
			}
			okBA = nAlloc > 0 && nOther == 0
		}
		r.Check(okRec && okBA, "single:blocks-to-allocations", add.Pos(), "blocks are sent to BlockAllocate's answer, which is recorded for the pin", fmt.Sprintf("single.Add does not both record BlockAllocate's answer (%v) and send blocks there (%v)", okRec, okBA))
	}
	// shard
	fl := c.fn(r, "adder/sharding", "shard.Flush")
	ns := c.fn(r, "adder/sharding", "newShard")
	if fl != nil && ns != nil {
		for _, ci := range findCalls(fl, false, "adder.Pin") {
			st := storedFieldsOf(fl, ci.Common().Args[2])
			f2, _ := fieldLoad(st["Allocations"])
			r.Check(f2 != nil && f2.Name() == "allocations", "shard:pin-allocations", ci.Pos(), "the shard pin's allocations are the shard's block destinations", "the shard is pinned with allocations other than where its blocks were sent")
		}
		var alloc *ssa.Call
		for _, ci := range findCalls(ns, false, "adder.BlockAllocate") {
			alloc, _ = ci.(*ssa.Call)
		}
		okA, okB := false, false
		if alloc != nil {
			instrs(ns, func(i ssa.Instruction) {
				if st, ok := i.(*ssa.Store); ok {
					if f3, _ := fieldOfAddrValue(st.Addr); f3 != nil && f3.Name() == "allocations" {
						if cc, idx := originCall(st.Val); cc == alloc && idx == 0 {
							okA = true
						}
					}
				}
			})
			for _, ci := range findCalls(ns, false, "adder.NewBlockAdder") {
				if cc, idx := originCall(ci.Common().Args[1]); cc == alloc && idx == 0 {
					okB = true
				}
			}
		}
		r.Check(okA && okB, "shard:blocks-to-allocations", ns.Pos(), "a shard's blocks go to its allocation, which is recorded for the shard pin", "newShard does not both record the allocation and send the shard's blocks there")
	}
}

func r134(c *Ctx, r *R) {
	shardT, dagT, metaT := c.constNamed("api", "ShardType"), c.constNamed("api", "ClusterDAGType"), c.constNamed("api", "MetaType")
	fl := c.fn(r, "adder/sharding", "shard.Flush")
	if fl != nil {
		for _, ci := range findCalls(fl, false, "adder.Pin") {
			st := storedFieldsOf(fl, ci.Common().Args[2])
			okT := isConst(st["Type"], shardT)
			_, hasRef := st["Reference"]
			r.Check(okT && hasRef, "shard-pin:shape", ci.Pos(), "shard pins have the shard type and a reference", "the shard pin lacks the shard type or its reference")
		}
		// depth decision agrees with makeDAG: direct DAG = exactly one node
		var mk *ssa.Call
		for _, ci := range findCalls(fl, false, "sharding.makeDAG") {
			mk, _ = ci.(*ssa.Call)
		}
		var depthStores []*ssa.Store
		instrsDeep(fl, func(i ssa.Instruction) {
			if st, ok := i.(*ssa.Store); ok {
				if f, _ := fieldOfAddrValue(st.Addr); f != nil && f.Name() == "MaxDepth" {
					depthStores = append(depthStores, st)
				}
			}
		})
		has1, decided := false, false
		indirectTest := func(g Guard) bool {
			// len(nodes) > 1 with nodes = makeDAG's result
			b, isB := g.Cond.(*ssa.BinOp)
			if !isB {
				return false
			}
			lc, _ := originCall(b.X)
			if lc == nil || callName(lc.Common()) != "builtin.len" {
				return false
			}
			src, idx := originCall(lc.Common().Args[0])
			if src != mk || idx != 0 {
				return false
			}
			kk, isK := constInt(b.Y)
			if !isK {
				return false
			}
			return (b.Op == token.GTR && kk == 1 && g.Branch) || (b.Op == token.GEQ && kk == 2 && g.Branch) || (b.Op == token.LEQ && kk == 1 && !g.Branch)
		}
		for _, st := range depthStores {
			// the values that can be stored (through a phi or a helper that
			// computes the depth), each with the guards of its own path
			for _, lf := range valueLeavesDeep(st.Val, st.Block()) {
				k, ok := constInt(lf.Val)
				if !ok {
					continue
				}
				if k == 1 {
					for _, pc := range findCalls(fl, false, "adder.Pin") {
						var at ssa.Instruction = st
						if st.Parent() != fl {
							// stored in a helper that builds the pin: the
							// helper's call stands for it
							if site := singleCallSite[st.Parent()]; site != nil && site.Parent() == fl {
								at = site
							}
						}
						if at.Parent() == fl && dominatesInstr(at, pc) {
							has1 = true
						}
					}
				}
				if k >= 2 {
					ok2 := lf.GuardedBy(indirectTest) || guardedBy(st.Block(), indirectTest)
					decided = true
					if ok2 {
						r.OK("shard-pin:depth-covers-dag", st.Pos(), "depth 2 is chosen exactly when makeDAG produced an indirect DAG (more than one node)")
					} else {
						r.Bad("shard-pin:depth-covers-dag", st.Pos(), "Flush decides 'indirect shard DAG' by a test other than len(makeDAG nodes) > 1: makeDAG returns 1 + ceil(links/MaxLinks) nodes, so the test `len(nodes) > links+1` can never hold and shards with more than MaxLinks links are pinned with depth 1, which does not cover their blocks")
					}
				}
			}
		}
		if !decided {
			r.Bad("shard-pin:depth-covers-dag", fl.Pos(), "Flush never raises the pin depth for an indirect shard DAG")
		}
		r.Check(has1, "shard-pin:depth-default", fl.Pos(), "shards are pinned with depth 1 by default (root and links)", "the shard's default pin depth is not 1")
	}
	fin := c.fn(r, "adder/sharding", "DAGService.Finalize")
	if fin != nil {
		n := 0
		for _, dc := range findCallsDeep(fin, "adder.Pin") {
			// (in Finalize or in a helper extracted from it)
			ci := dc.Inner
			st := storedFieldsOf(ci.Parent(), ci.Common().Args[2])
			_, hasRef := st["Reference"]
			switch {
			case isConst(st["Type"], dagT):
				n++
				d, isK := constInt(st["MaxDepth"])
				rmin, ok1 := constInt(st["ReplicationFactorMin"])
				rmax, ok2 := constInt(st["ReplicationFactorMax"])
				r.Check(hasRef && isK && d == 0 && ok1 && ok2 && rmin == -1 && rmax == -1, "clusterdag-pin:shape", ci.Pos(), "the cluster-DAG is pinned directly, everywhere, referencing the root", "the cluster-DAG pin is not (direct, everywhere, with reference): the pin validator refuses it or the DAG is not kept by every peer")
			case isConst(st["Type"], metaT):
				n++
				_, hasAlloc := st["Allocations"]
				r.Check(hasRef && !hasAlloc, "meta-pin:shape", ci.Pos(), "the meta pin references the cluster-DAG and has no allocations", "the meta pin lacks its reference or carries allocations (the validator refuses it)")
			default:
				r.Bad("sharding-finalize:unknown-pin", ci.Pos(), "sharding Finalize pins something that is neither the cluster-DAG nor the meta pin")
			}
		}
		r.Check(n == 2, "sharding-finalize:pins", fin.Pos(), "Finalize pins the cluster-DAG and the meta entry", fmt.Sprintf("sharding Finalize creates %d of the 2 expected pins", n))
		// meta after clusterDAG succeeded
	}
	sort.Strings(nil)
}

func r135(c *Ctx, r *R) {
	f := c.fn(r, "adder", "BlockAdder.Add")
	if f == nil {
		return
	}
	for _, lf := range returnLeaves(f, 0) {
		if !isNilConst(lf.Val) {
			continue
		}
		notAllErr, someOK := false, false
		for _, g := range lf.Guards() {
			// len(successful) > 0 in any spelling
			if x, op, k, isCmp := cmpIntConst(g.Cond); isCmp {
				if lc, _ := originCall(x); lc != nil && callName(lc.Common()) == "builtin.len" {
					pos := op == token.NEQ && k == 0 || op == token.GTR && k == 0 || op == token.GEQ && k == 1
					neg := op == token.EQL && k == 0 || op == token.LEQ && k == 0 || op == token.LSS && k == 1
					if pos && g.Branch || neg && !g.Branch {
						someOK = true
					}
				}
			}
			b, ok := g.Cond.(*ssa.BinOp)
			if !ok || (b.Op != token.EQL && b.Op != token.NEQ) {
				continue
			}
			eq := (b.Op == token.EQL) == g.Branch
			lenOf := func(v ssa.Value) (ssa.Value, bool) {
				call, _ := originCall(v)
				if call != nil && callName(call.Common()) == "builtin.len" {
					return call.Common().Args[0], true
				}
				return nil, false
			}
			if a, ok := lenOf(b.Y); ok && !eq {
				if fl, _ := fieldLoad(a); fl != nil && fl.Name() == "dests" {
					notAllErr = true // numErrs != len(dests)
				}
			}
			if a, ok := lenOf(b.X); ok && !eq {
				if k, isK := constInt(b.Y); isK && k == 0 {
					_ = a
					someOK = true // len(successful) != 0
				}
			}
		}
		r.Check(notAllErr && someOK, "blockadder:success-rule", lf.Pos, "a block is reported delivered only when not every destination failed and at least one accepted it",
			fmt.Sprintf("BlockAdder.Add reports success without requiring (not all destinations errored: %v) and (some destination accepted: %v): a block rejected by every daemon counts as delivered and the root is pinned without it", notAllErr, someOK))
	}
	// RPC errors never count as success
	okRPC := false
	for _, ci := range callsIn(f) {
		if callName(ci.Common()) == "builtin.append" && guardedBy(ci.Block(), func(g Guard) bool { return gCall(g, false, "go-libp2p-gorpc.IsRPCError") }) {
			okRPC = true
		}
	}
	r.Check(okRPC, "blockadder:rpc-errors-excluded", f.Pos(), "destinations that failed at the RPC level are dropped from the successful set", "destinations with RPC errors are kept as successful destinations")
}

func init() {
	register(&Rule{ID: "R13.6", Props: []string{"C13"}, Floor: 3, Title: "every DAG node the importer creates, and every builder it configures, uses the requested CID builder (version/hash): siblings agree", Run: r136})
}

func r136(c *Ctx, r *R) {
	sp := c.P.SSAPkg("adder/ipfsadd")
	if sp == nil {
		r.Und("pkg", token.NoPos, "adder/ipfsadd missing")
		return
	}
	isBuilderField := func(v ssa.Value) bool {
		fl, _ := fieldLoad(v)
		return fl != nil && fl.Name() == "CidBuilder"
	}
	c.P.RepoFuncs(func(f *ssa.Function) {
		root := f
		for root.Parent() != nil {
			root = root.Parent()
		}
		if root.Pkg != sp {
			return
		}
		// (a) node constructors
		for _, ci := range findCalls(f, false, "go-merkledag.NodeWithData", "go-unixfs.EmptyDirNode", "go-unixfs.EmptyFileNode") {
			v, ok := ci.(ssa.Value)
			if !ok {
				continue
			}
			set := false
			for _, sc := range findCalls(f, false, "go-merkledag.ProtoNode).SetCidBuilder") {
				if strip(sc.Common().Args[0]) == v && isBuilderField(strip(sc.Common().Args[1])) {
					set = true
				}
			}
			r.Check(set, "node:"+f.Name()+":"+shortName(ci), ci.Pos(), "the new node gets the requested CID builder", f.Name()+" creates a DAG node ("+shortName(ci)+") without SetCidBuilder(adder.CidBuilder): with cid-version=1 or a non-default hash this node keeps CIDv0/sha2-256, so parents and the root differ from what the standard importer computes")
		}
		// (b) parameter structs with a CidBuilder field
		instrs(f, func(i ssa.Instruction) {
			al, ok := i.(*ssa.Alloc)
			if !ok {
				return
			}
			st := structOf(al.Type())
			if st == nil || fieldByName(al.Type(), "CidBuilder") == nil || al.Referrers() == nil {
				return
			}
			if strings.HasSuffix(al.Type().String(), "ipfsadd.Adder") {
				return
			}
			set := false
			for _, ref := range *al.Referrers() {
				if fa, ok := ref.(*ssa.FieldAddr); ok && fieldOfAddr(fa).Name() == "CidBuilder" && fa.Referrers() != nil {
					for _, r2 := range *fa.Referrers() {
						if s, ok := r2.(*ssa.Store); ok && isBuilderField(strip(s.Val)) {
							set = true
						}
					}
				}
			}
			r.Check(set, "params:"+f.Name()+":"+al.Type().String(), al.Pos(), "the builder parameters carry the requested CID builder", f.Name()+" builds "+al.Type().String()+" without CidBuilder: adder.CidBuilder")
		})
	})
}

func init() {
	register(&Rule{ID: "R13.7", Props: []string{"C13"}, Floor: 4, Title: "sharded ingest: a block is linked into the shard only if it fits under the limit, exactly the linked block is sent, and a full shard is flushed (never an empty one) before the block is retried", Run: r137})
}

func r137(c *Ctx, r *R) {
	f := c.fn(r, "adder/sharding", "DAGService.ingestBlock")
	if f == nil {
		return
	}
	fits := func(b *ssa.BasicBlock, want bool) bool {
		return guardedBy(b, func(g Guard) bool {
			bo, ok := g.Cond.(*ssa.BinOp)
			if !ok {
				return false
			}
			lim, _ := originCall(bo.Y)
			if lim == nil || !nameMatches(callName(lim.Common()), "sharding.shard).Limit") {
				return false
			}
			sum, ok := bo.X.(*ssa.BinOp)
			if !ok || sum.Op != token.ADD {
				return false
			}
			sz, _ := originCall(sum.X)
			if sz == nil || !nameMatches(callName(sz.Common()), "sharding.shard).Size") {
				return false
			}
			under := (bo.Op == token.LSS || bo.Op == token.LEQ) == g.Branch
			return under == want
		})
	}
	links := findCalls(f, false, "sharding.shard).AddLink")
	puts := findCalls(f, false, "adder.BlockAdder).Add")
	if len(links) != 1 || len(puts) != 1 {
		r.Bad("ingest:shape", f.Pos(), "ingestBlock has %d AddLink and %d block Add calls (expected 1 and 1)", len(links), len(puts))
		return
	}
	r.Check(fits(links[0].Block(), true), "ingest:link-only-if-fits", links[0].Pos(), "a block is linked only when shard size + block size stays under the limit", "AddLink is not guarded by the shard-size test: shards grow beyond their size limit")
	r.Check(dominatesInstr(links[0], puts[0]) && fits(puts[0].Block(), true), "ingest:put-what-was-linked", puts[0].Pos(), "the block is sent right after (and only when) it was linked", "a block can be sent without being linked into the shard (or linked without being sent): the shard's links no longer partition the delivered blocks")
	// same node: AddLink(ctx, n.Cid(), size) and Add(ctx, n)
	nodeOK := paramIndex(f, strip(callArgs(puts[0].Common())[1])) == 2
	if cidc, _ := originCall(callArgs(links[0].Common())[1]); cidc == nil || !cidc.Common().IsInvoke() || cidc.Common().Method.Name() != "Cid" || paramIndex(f, cidc.Common().Value) != 2 {
		nodeOK = false
	}
	r.Check(nodeOK, "ingest:same-block", links[0].Pos(), "the linked CID is the CID of the block that is sent", "the CID linked into the shard is not that of the block being sent")
	fl := findCalls(f, false, "sharding.DAGService).flushCurrentShard")
	if len(fl) != 1 {
		r.Bad("ingest:flush", f.Pos(), "ingestBlock has %d flush calls", len(fl))
		return
	}
	nonEmpty := guardedBy(fl[0].Block(), func(g Guard) bool {
		x, k, tme, ok := eqConst(g.Cond)
		if !ok {
			return false
		}
		sz, _ := originCall(x)
		iv, _ := constInt(ssa.NewConst(k, x.Type()))
		return sz != nil && nameMatches(callName(sz.Common()), "sharding.shard).Size") && iv == 0 && tme != g.Branch
	})
	r.Check(nonEmpty && fits(fl[0].Block(), false), "ingest:flush-only-full-nonempty", fl[0].Pos(), "a shard is flushed only when the block does not fit and the shard is not empty", "the current shard is flushed although the block fits or the shard is empty (empty shards would be pinned / infinite retry)")
	retry := findCalls(f, false, "sharding.DAGService).ingestBlock")
	okRetry := len(retry) == 1 && paramIndex(f, callArgs(retry[0].Common())[1]) == 2 && guardedBy(retry[0].Block(), func(g Guard) bool { return gCallErrNil(g, "sharding.DAGService).flushCurrentShard") })
	r.Check(okRetry, "ingest:retry-after-flush", f.Pos(), "after a successful flush the same block is ingested again", "the block that did not fit is not retried after the flush (it is dropped from the DAG)")
}
