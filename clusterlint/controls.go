package main

// runControls is filled in by controls_impl.go once fixtures exist.
var controlFuncs []func() string

func runControls() []string {
	var out []string
	for _, f := range controlFuncs {
		out = append(out, f())
	}
	return out
}
