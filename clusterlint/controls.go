package main

import (
	"fmt"
	"go/ast"
	"go/types"
	"os"
	"path/filepath"
	"strings"

	"golang.org/x/tools/go/callgraph/cha"
	"golang.org/x/tools/go/callgraph/vta"
	"golang.org/x/tools/go/packages"
	"golang.org/x/tools/go/ssa"
	"golang.org/x/tools/go/ssa/ssautil"
)

// Positive controls: every run first analyses a small fixture package that
// contains one deliberate violation per analysis primitive (and a correct
// sibling for each). A primitive that does not flag its control, or flags
// the correct sibling, makes the whole run BROKEN: "rule found nothing" must
// never be confused with "rule is blind".

const controlsPath = "controls"

func loadFixture(dir string) *Program {
	p := &Program{All: map[string]*packages.Package{}, Timings: map[string]float64{}, WithCG: true}
	env := append(os.Environ(), "GOFLAGS=-mod=mod", "GOPROXY=off", "GOSUMDB=off", "GOTOOLCHAIN=local", "GOWORK=off")
	cfg := &packages.Config{Mode: packages.LoadAllSyntax | packages.NeedModule, Dir: dir, Env: env}
	cfg.Fset = nil
	initial, err := packages.Load(cfg, ".")
	if err != nil || len(initial) != 1 || len(initial[0].Errors) > 0 {
		brokenf("positive controls: cannot load fixture %s: %v %v", dir, err, initial)
	}
	p.Fset = initial[0].Fset
	prog := ssa.NewProgram(p.Fset, ssa.InstantiateGenerics)
	packages.Visit(initial, nil, func(pkg *packages.Package) {
		p.All[pkg.ID] = pkg
		if pkg.Types != nil && len(pkg.Syntax) > 0 && pkg.TypesInfo != nil && len(pkg.Errors) == 0 {
			prog.CreatePackage(pkg.Types, pkg.Syntax, pkg.TypesInfo, true)
		} else if pkg.Types != nil {
			prog.CreatePackage(pkg.Types, nil, nil, true)
		}
	})
	prog.Build()
	p.SSA = prog
	p.Repo = initial
	p.CG = vta.CallGraph(ssautil.AllFunctions(prog), cha.CallGraph(prog))
	return p
}

func runControls() []string {
	dir := filepath.Join(verifDir, "clusterlint", "testdata", "controls")
	if _, err := os.Stat(dir); err != nil {
		brokenf("positive controls: fixture directory %s missing", dir)
	}
	savedRoot := repoRoot
	repoRoot = dir
	defer func() { repoRoot = savedRoot }()
	p := loadFixture(dir)
	c := newCtx(p)
	sp := p.SSA.Package(p.Repo[0].Types)
	fn := func(name string) *ssa.Function {
		if i := strings.Index(name, "."); i >= 0 {
			t := sp.Type(name[:i])
			sel := p.SSA.MethodSets.MethodSet(types.NewPointer(t.Type())).Lookup(sp.Pkg, name[i+1:])
			return p.SSA.MethodValue(sel)
		}
		return sp.Func(name)
	}
	var out []string
	expect := func(name string, got, want bool) {
		if got != want {
			brokenf("positive control %q failed (got %v, want %v): the analysis primitive is blind or over-eager; no verdict can be trusted", name, got, want)
		}
		out = append(out, fmt.Sprintf("%s: ok", name))
	}
	// --- lockset
	var funcs []*ssa.Function
	for _, m := range sp.Members {
		if f, ok := m.(*ssa.Function); ok && f.Blocks != nil {
			funcs = append(funcs, f)
			funcs = append(funcs, f.AnonFuncs...)
		}
		if t, ok := m.(*ssa.Type); ok {
			if nt, ok := t.Type().(*types.Named); ok {
				for i := 0; i < nt.NumMethods(); i++ {
					if f := p.SSA.FuncValue(nt.Method(i)); f != nil && f.Blocks != nil {
						funcs = append(funcs, f)
						funcs = append(funcs, f.AnonFuncs...)
					}
				}
			}
		}
	}
	w := &lockWorld{c: c, infos: map[*ssa.Function]*LockInfo{}, funcs: funcs}
	for _, f := range funcs {
		w.infos[f] = c.lockInfo(f, lockSet{})
	}
	unl, lck := false, true
	for _, a := range w.accesses(func(o *types.Named, f *types.Var) bool { return o.Obj().Name() == "Box" && f.Name() == "n" }) {
		held := false
		for id := range a.held {
			if lockName(id) == "mu" || lockName(id) == "rw" {
				held = true
			}
		}
		if a.fn.Name() == "Unlocked" && !held {
			unl = true
		}
		if a.fn.Name() == "Locked" && !held {
			lck = false
		}
	}
	expect("lockset flags an unguarded access", unl, true)
	expect("lockset accepts a guarded access", lck, true)
	// --- pairing
	leaks := func(f *ssa.Function) bool {
		own := c.lockInfo(f, lockSet{})
		for _, b := range f.Blocks {
			if _, ok := own.in[b]; !ok {
				continue
			}
			if _, isRet := b.Instrs[len(b.Instrs)-1].(*ssa.Return); isRet {
				for id := range own.transferBlock(b, nil) {
					if !own.deferred[id] {
						return true
					}
				}
			}
		}
		return false
	}
	expect("pairing flags a lock leaked on an early return", leaks(fn("Box.Leaks")), true)
	expect("pairing accepts defer-unlock", leaks(fn("Box.Locked")), false)
	// --- relock through a callee
	rwField := fieldByName(sp.Type("Box").Type(), "rw")
	rel := c.pathTo2(fn("Box.inner"), func(g *ssa.Function, site ssa.CallInstruction) bool {
		if site == nil {
			return false
		}
		k, id := lockOp(site.Common())
		return (k == "lock" || k == "rlock") && id == lockID(rwField)
	}, rwField)
	expect("re-acquisition through a callee is found", rel != nil, true)
	// --- self wait
	var body *ssa.Function
	for _, a := range fn("Box.Spawn").AnonFuncs {
		body = a
	}
	wgF := fieldByName(sp.Type("Box").Type(), "wg")
	isWait := func(g *ssa.Function, site ssa.CallInstruction) bool {
		return site != nil && callName(site.Common()) == "(*sync.WaitGroup).Wait" && wgFieldDeep(site.Common().Args[0]) == wgF
	}
	expect("a counted goroutine reaching Wait is found", body != nil && c.pathTo(body, isWait, reachOpt{noGo: true}) != nil, true)
	expect("synchronous reachability ignores go edges", c.pathTo(fn("Box.Spawn"), isWait, reachOpt{noGo: true}) == nil, true)
	expect("reachability follows go edges when asked", c.pathTo(fn("Box.Spawn"), isWait, reachOpt{}) != nil, true)
	// --- guard dominance
	guarded := func(f *ssa.Function) bool {
		for _, ci := range findCalls(f, false, "controls.sink") {
			if !guardedBy(ci.Block(), func(g Guard) bool { return gCallErrNil(g, "controls.validate") }) {
				return false
			}
		}
		return true
	}
	expect("guard dominance flags an unguarded sink", guarded(fn("Unguarded")), false)
	expect("guard dominance accepts a guarded sink", guarded(fn("Guarded")), true)
	// --- return provenance
	swallow := false
	for _, lf := range returnLeaves(fn("Swallows"), 0) {
		if isNilConst(lf.Val) && lf.GuardedBy(func(g Guard) bool {
			return gNil(g, true, func(v ssa.Value) bool {
				cc, _ := originCall(v)
				return cc != nil && nameMatches(callName(cc.Common()), "controls.commit")
			})
		}) {
			swallow = true
		}
	}
	expect("return provenance flags nil returned on the failure branch", swallow, true)
	// --- response typestate
	h := &httpAnalysis{c: c, pkg: p.Repo[0], decls: map[*types.Func]*ast.FuncDecl{}, summary: map[*types.Func]StateSet{}, viol: map[*types.Func][]httpViolation{}, ops: map[*types.Func]int{}, resp: map[*types.Func]int{}}
	h.extraOperate = func(name string) bool { return name == "controls.operate" }
	for _, file := range p.Repo[0].Syntax {
		for _, d := range file.Decls {
			if fd, ok := d.(*ast.FuncDecl); ok && fd.Body != nil {
				if o, ok := p.Repo[0].TypesInfo.Defs[fd.Name].(*types.Func); ok {
					h.decls[o] = fd
				}
			}
		}
	}
	kinds := func(name string) map[string]bool {
		res := map[string]bool{}
		for o, fd := range h.decls {
			if o.Name() == name {
				_, viol, _, _ := h.analyse(o, fd.Body, nil, false)
				for _, v := range viol {
					res[v.kind] = true
				}
			}
		}
		return res
	}
	bad := kinds("BadHandler")
	expect("typestate flags an operation after an error response", bad["operate-after-error"], true)
	expect("typestate flags a second response", bad["second-response"], true)
	expect("typestate accepts the correct handler", len(kinds("GoodHandler")) == 0, true)
	// --- exact callee matching (who-may-call rules with expected count 0)
	expect("a flat os.Remove is found", len(findCalls(fn("RemovesFlat"), false, "=os.Remove")) == 1, true)
	expect("os.RemoveAll is not taken for os.Remove", len(findCalls(fn("RemovesTree"), false, "=os.Remove")) == 0, true)
	return out
}
