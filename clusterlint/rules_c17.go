package main

import (
	"fmt"
	"go/constant"
	"go/token"

	"golang.org/x/tools/go/ssa"
)

func init() {
	register(
		&Rule{ID: "R17.1", Props: []string{"C17"}, Floor: 5, Title: "raft membership: AddVoter only for absent peers, RemoveServer only for present peers and never the last one; these are the only membership calls", Run: r171},
		&Rule{ID: "R17.2", Props: []string{"C17"}, Floor: 5, Title: "ready is signalled only after WaitForSync (leader, voter, updates in that order); Join syncs before recovering", Run: r172},
		&Rule{ID: "R17.4", Props: []string{"C17"}, Floor: 3, Title: "a removed peer marks itself removed before shutting down and cleans consensus data only after consensus stopped; raft refuses to clean while running", Run: r174},
	)
}

func r171(c *Ctx, r *R) {
	add := c.fn(r, "consensus/raft", "raftWrapper.AddPeer")
	rm := c.fn(r, "consensus/raft", "raftWrapper.RemovePeer")
	findGuard := func(b *ssa.BasicBlock, want bool, f *ssa.Function) bool {
		return guardedBy(b, func(g Guard) bool {
			call, _ := originCall(g.Cond)
			if call == nil || g.Branch != want || !nameMatches(callName(call.Common()), "consensus/raft.find") {
				return false
			}
			// (the peer searched for is the wrapper's own parameter, also
			// when the search sits in a helper shared by both wrappers)
			return paramIndex(f, g.Resolve(call.Common().Args[1])) == 2
		})
	}
	if add != nil {
		av := findCalls(add, false, "hashicorp/raft.Raft).AddVoter")
		if len(av) != 1 {
			r.Bad("add:AddVoter", add.Pos(), "AddPeer has %d AddVoter calls", len(av))
		} else {
			r.Check(findGuard(av[0].Block(), false, add), "add:only-absent", av[0].Pos(), "AddVoter only when the peer is not yet a member", "AddVoter is issued for a peer that is already a member (adding a present peer must be a no-op)")
			r.Check(guardedBy(av[0].Block(), func(g Guard) bool { return gCallErrNil(g, "raft.raftWrapper).Peers") }), "add:peers-known", av[0].Pos(), "membership is known before adding", "AddVoter is issued although the peerset could not be read")
		}
		// no-op returns nil
		for _, lf := range returnLeaves(add, 0) {
			if isNilConst(lf.Val) {
				noop := lf.GuardedBy(func(g Guard) bool { return gCall(g, true, "consensus/raft.find") })
				// ... or after the membership change went through
				done := false
				for _, ci := range av {
					if ci.Block().Dominates(lf.Block) && lf.GuardedBy(func(g Guard) bool {
						return gCallErrNil(g, "hashicorp/raft.Future).Error", "hashicorp/raft.IndexFuture).Error")
					}) {
						done = true
					}
				}
				r.Check(noop || done, "add:noop-present", lf.Pos, "nil without a log entry only when the peer is already present", "AddPeer returns nil without adding on a path where the peer is absent")
			}
		}
	}
	if rm != nil {
		rs := findCalls(rm, false, "hashicorp/raft.Raft).RemoveServer")
		if len(rs) != 1 {
			r.Bad("rm:RemoveServer", rm.Pos(), "RemovePeer has %d RemoveServer calls", len(rs))
		} else {
			r.Check(findGuard(rs[0].Block(), true, rm), "rm:only-present", rs[0].Pos(), "RemoveServer only when the peer is a member", "RemoveServer is issued for a peer that is not a member")
			// single-peer guard: an error return under len(peers) == 1 (or
			// <= 1 / < 2), decided before RemoveServer
			last := false
			for _, ret := range returnsOf(rm) {
				if isNilConst(retResult(ret, 0)) {
					continue
				}
				for _, g := range guardsOf(ret.Block()) {
					isLen := func(v ssa.Value) bool {
						call, _ := originCall(v)
						return call != nil && callName(call.Common()) == "builtin.len"
					}
					single := false
					if x, k, tme, isEq := eqConst(g.Cond); isEq && isLen(x) && tme == g.Branch {
						if iv, _ := constInt(ssa.NewConst(k, x.Type())); iv == 1 {
							single = true
						}
					}
					if bo, ok := g.Cond.(*ssa.BinOp); ok && isLen(bo.X) && g.Branch {
						if kk, ok := constInt(bo.Y); ok && ((bo.Op == token.LEQ && kk == 1) || (bo.Op == token.LSS && kk == 2)) {
							single = true
						}
					}
					if single && g.If.Block().Dominates(rs[0].Block()) {
						last = true
					}
				}
			}
			r.Check(last, "rm:not-the-last", rs[0].Pos(), "the last remaining peer cannot be removed", "RemovePeer no longer refuses to remove the only remaining peer: the cluster loses its last member and its pinset")
		}
		for _, lf := range returnLeaves(rm, 0) {
			if isNilConst(lf.Val) {
				noop := lf.GuardedBy(func(g Guard) bool { return gCall(g, false, "consensus/raft.find") })
				done := false
				for _, ci := range findCalls(rm, false, "hashicorp/raft.Raft).RemoveServer") {
					if ci.Block().Dominates(lf.Block) {
						done = true
					}
				}
				r.Check(noop || done, "rm:nil-means-absent-or-removed", lf.Pos, "nil only when the peer was absent or has been removed", "RemovePeer returns nil without the peer being absent or removed")
			}
		}
	}
	// the result of the membership change is what the wrapper returns: after
	// AddVoter / RemoveServer was issued, every return hands back that
	// future's error, or nil where it was tested to be nil
	changeResult := func(name string, f *ssa.Function, changes []ssa.CallInstruction) {
		if f == nil || len(changes) != 1 {
			return
		}
		isFutErr := func(v ssa.Value) bool {
			cc, _ := originCall(v)
			if cc == nil || !nameMatches(callName(cc.Common()), "hashicorp/raft.Future).Error", "hashicorp/raft.IndexFuture).Error") {
				return false
			}
			fc, _ := originCall(recvOf(cc.Common()))
			return fc != nil && ssa.Instruction(fc) == ssa.Instruction(changes[0].(*ssa.Call))
		}
		ok, n := true, 0
		for _, lf := range returnLeaves(f, 0) {
			if !(changes[0].Block() == lf.Block || changes[0].Block().Dominates(lf.Block)) {
				continue
			}
			n++
			switch {
			case isNilConst(lf.Val):
				if !lf.GuardedBy(func(g Guard) bool { return gNil(g, false, isFutErr) }) {
					ok = false
				}
			case isFutErr(lf.Val):
			default:
				leafOK := false
				for _, l := range phiLeaves(lf.Val) {
					if isFutErr(l) {
						leafOK = true
					}
				}
				if !leafOK {
					ok = false
				}
			}
		}
		r.Check(ok && n > 0, name+":returns-change-error", changes[0].Pos(), "the wrapper returns the outcome of the membership change", name+": after the membership change was issued the wrapper returns something other than that change's error (a shadowed or stale variable): a failed AddVoter/RemoveServer is acknowledged as success and the caller believes the peerset changed")
	}
	if add != nil {
		changeResult("add", add, findCalls(add, false, "hashicorp/raft.Raft).AddVoter"))
	}
	if rm != nil {
		changeResult("rm", rm, findCalls(rm, false, "hashicorp/raft.Raft).RemoveServer"))
	}
	// isVoter: this server's own entry, with voter suffrage
	if iv := c.P.Func("consensus/raft", "isVoter"); iv != nil {
		voter := c.constIn("github.com/hashicorp/raft", "Voter")
		for _, lf := range returnLeaves(iv, 0) {
			k, isK := constOf(lf.Val)
			if !isK || k == nil || !constant.BoolVal(k) {
				continue
			}
			own := lf.GuardedBy(func(g Guard) bool {
				b, ok := g.Cond.(*ssa.BinOp)
				if !ok || !((b.Op == token.EQL) == g.Branch) || (b.Op != token.EQL && b.Op != token.NEQ) {
					return false
				}
				return paramIndex(iv, b.X) == 0 || paramIndex(iv, b.Y) == 0
			})
			suff := lf.GuardedBy(func(g Guard) bool {
				x, kk, tme, ok := eqConst(g.Cond)
				if !ok || tme != g.Branch {
					return false
				}
				fl, _ := fieldLoad(x)
				return fl != nil && fl.Name() == "Suffrage" && (voter == nil || constant.Compare(kk, token.EQL, voter))
			})
			r.Check(own && suff, "isVoter:own-entry-and-voter", lf.Pos, "a server is a voter when its own entry has voter suffrage", fmt.Sprintf("isVoter answers true without requiring both `this server's entry` (%v) and `suffrage == Voter` (%v): a joining peer is declared synced (WaitForVoter) while it is still a non-voter, before it holds the log", own, suff))
		}
	}
	// only membership calls
	c.P.RepoFuncs(func(f *ssa.Function) {
		if isTestSupportFn(f) {
			return
		}
		for _, ci := range findCalls(f, false, "hashicorp/raft.Raft).AddVoter", "hashicorp/raft.Raft).RemoveServer", "hashicorp/raft.Raft).AddNonvoter", "hashicorp/raft.Raft).RemovePeer", "hashicorp/raft.Raft).AddPeer", "hashicorp/raft.Raft).DemoteVoter") {
			ok := f == add || f == rm
			r.Check(ok, "membership-callers:"+f.Name()+":"+shortName(ci), ci.Pos(), "membership changes go through the guarded wrappers", f.String()+" changes raft membership directly, bypassing the idempotence and last-peer guards")
		}
	})
}

func allReturnsError(from, avoid *ssa.BasicBlock) bool {
	for _, ret := range returnsFrom(from) {
		if isNilConst(retResult(ret, len(ret.Results)-1)) {
			return false
		}
	}
	return !blockReaches(from, avoid) && from != avoid
}

// blockReachesAvoiding: can `to` be reached from `from` without passing `avoid`?
func blockReachesAvoiding(from, to, avoid *ssa.BasicBlock) bool {
	seen := map[*ssa.BasicBlock]bool{}
	var walk func(b *ssa.BasicBlock) bool
	walk = func(b *ssa.BasicBlock) bool {
		if b == to {
			return true
		}
		if seen[b] || b == avoid {
			return false
		}
		seen[b] = true
		for _, s := range b.Succs {
			if walk(s) {
				return true
			}
		}
		return false
	}
	return walk(from)
}

func r172(c *Ctx, r *R) {
	f := c.fn(r, "consensus/raft", "Consensus.finishBootstrap")
	if f != nil {
		var send *ssa.Send
		instrs(f, func(i ssa.Instruction) {
			if s, ok := i.(*ssa.Send); ok {
				if fl, _ := fieldLoad(s.Chan); fl != nil && fl.Name() == "readyCh" {
					send = s
				}
			}
		})
		if send == nil {
			r.Bad("ready:send", f.Pos(), "finishBootstrap never signals readiness")
		} else {
			r.Check(guardedBy(send.Block(), func(g Guard) bool { return gCallErrNil(g, "raft.Consensus).WaitForSync") }), "ready:after-sync", send.Pos(), "ready is signalled only after WaitForSync succeeded", "readiness is signalled without a successful WaitForSync: a new peer reports ready before it holds the pinset")
		}
		// no other send on readyCh in the package
		n := 0
		c.P.RepoFuncs(func(g *ssa.Function) {
			instrs(g, func(i ssa.Instruction) {
				if s, ok := i.(*ssa.Send); ok {
					if fl, _ := fieldLoad(s.Chan); fl != nil && fl.Name() == "readyCh" && g.Pkg == f.Pkg {
						n++
					}
				}
			})
		})
		r.Check(n == 1, "ready:single-signal", f.Pos(), "readyCh has one sender", fmt.Sprintf("readyCh has %d senders", n))
	}
	w := c.fn(r, "consensus/raft", "Consensus.WaitForSync")
	if w != nil {
		order := []string{"raft.raftWrapper).WaitForLeader", "raft.raftWrapper).WaitForVoter", "raft.raftWrapper).WaitForUpdates"}
		var calls []ssa.CallInstruction
		if r172Table(c, r, w, order) {
			goto join
		}
		for _, p := range order {
			cs := findCalls(w, false, p)
			if len(cs) != 1 {
				r.Bad("sync:"+p, w.Pos(), "WaitForSync has %d calls to %s: a joiner may be declared synced without having become a voter / applied the log", len(cs), p)
				return
			}
			calls = append(calls, cs[0])
		}
		okOrder := dominatesInstr(calls[0], calls[1]) && dominatesInstr(calls[1], calls[2])
		okGuards := guardedBy(calls[1].Block(), func(g Guard) bool { return gCallErrNil(g, order[0]) }) && guardedBy(calls[2].Block(), func(g Guard) bool { return gCallErrNil(g, order[1]) })
		r.Check(okOrder && okGuards, "sync:order", w.Pos(), "leader, then voter, then updates, each after the previous succeeded", "WaitForSync does not wait for leader, voter and updates in that order")
		for _, lf := range returnLeaves(w, 0) {
			if isNilConst(lf.Val) {
				r.Check(lf.GuardedBy(func(g Guard) bool { return gCallErrNil(g, order[2]) }), "sync:nil-after-updates", lf.Pos, "nil only after the log was applied", "WaitForSync returns nil before WaitForUpdates succeeded")
			}
		}
	}
join:
	j := c.fn(r, "", "Cluster.Join")
	if j != nil {
		ws := findCalls(j, false, ModPath+".Consensus).WaitForSync")
		rc := findCalls(j, false, ModPath+".Cluster).RecoverAllLocal")
		ok := len(ws) == 1 && len(rc) >= 1 && dominatesInstr(ws[0], rc[0]) && guardedBy(rc[0].Block(), func(g Guard) bool { return gCallErrNil(g, ModPath+".Consensus).WaitForSync") })
		r.Check(ok, "join:sync-before-recover", j.Pos(), "Join waits for the state to be synced before acting on it", "Join acts on the pinset (RecoverAllLocal) before WaitForSync succeeded")
	}
}

func r174(c *Ctx, r *R) {
	w := c.fn(r, "", "Cluster.watchPeers")
	if w != nil {
		var setRemoved *ssa.Store
		instrs(w, func(i ssa.Instruction) {
			if st, ok := i.(*ssa.Store); ok {
				if fl, _ := fieldOfAddrValue(st.Addr); fl != nil && fl.Name() == "removed" {
					setRemoved = st
				}
			}
		})
		var goShut *ssa.Go
		instrs(w, func(i ssa.Instruction) {
			if g, ok := i.(*ssa.Go); ok && nameMatches(callName(g.Common()), ModPath+".Cluster).Shutdown") {
				goShut = g
			}
		})
		ok := setRemoved != nil && goShut != nil && dominatesInstr(setRemoved, goShut) && lockHeldAt(setRemoved, "shutdownLock")
		r.Check(ok, "watchPeers:removed-before-shutdown", w.Pos(), "removed is set (under shutdownLock) before the shutdown is started", "watchPeers starts the shutdown without first marking the peer as removed under shutdownLock: the removed peer keeps its consensus data")
	}
	s := c.fn(r, "", "Cluster.Shutdown")
	if s != nil {
		// in Shutdown or a helper extracted from it: guarded where it is
		// written, ordered by where Shutdown calls it
		dcl := findCallsDeep(s, ModPath+".Consensus).Clean")
		if len(dcl) != 1 {
			r.Bad("shutdown:clean", s.Pos(), "Cluster.Shutdown has %d consensus.Clean calls: a removed peer must discard its consensus data", len(dcl))
		} else {
			cl := []ssa.CallInstruction{dcl[0].Outer}
			b := cl[0].Block()
			ib := dcl[0].Inner.Block()
			rem := guardedBy(ib, func(g Guard) bool { return gField(g, "removed", true) })
			rdy := guardedBy(ib, func(g Guard) bool { return gField(g, "readyB", true) })
			stopped := false
			for _, sh := range findCalls(s, false, ").Shutdown") {
				recvIsConsensus := false
				for _, l := range phiLeaves(recvOf(sh.Common())) {
					if fl, _ := fieldLoad(l); fl != nil && fl.Name() == "consensus" {
						recvIsConsensus = true
					}
				}
				if !recvIsConsensus {
					continue
				}
				if dominatesInstr(sh, cl[0]) || precedes(sh, cl[0]) {
					// and the failure edge of that shutdown returns
					errSucc, _ := errEdge(s, sh.(ssa.Value))
					if errSucc != nil && !blockReaches(errSucc, b) && errSucc != b {
						stopped = true
					}
				}
			}
			r.Check(rem && rdy && stopped, "shutdown:clean-conditions", cl[0].Pos(), "consensus data is cleaned only for a removed, once-ready peer after consensus stopped", fmt.Sprintf("consensus.Clean is not conditioned on removed (%v), readyB (%v) and a successful consensus shutdown (%v)", rem, rdy, stopped))
		}
	}
	cc := c.fn(r, "consensus/raft", "Consensus.Clean")
	if cc != nil {
		cs := findCalls(cc, false, "consensus/raft.CleanupRaft")
		ok := len(cs) == 1 && guardedBy(cs[0].Block(), func(g Guard) bool { return gField(g, "shutdown", true) })
		r.Check(ok, "raft-clean:only-when-shutdown", cc.Pos(), "raft data is cleaned only when the component is shut down", "raft.Clean removes the data of a running consensus component")
	}
}

// r172Table decides the WaitForSync clauses when the three waits are kept as
// a table of steps run by a loop (see stepTable): each wait is the whole
// result of its row's function, the rows are in the required order, and nil
// is returned only after the loop ran out of rows.
func r172Table(c *Ctx, r *R, w *ssa.Function, order []string) bool {
	for _, tb := range stepTablesOf(w) {
		if !tb.Abort {
			continue
		}
		rowOf := map[string]int{}
		for k, fn := range tb.Fns {
			for _, p := range order {
				cs := findCalls(fn, false, p)
				if len(cs) != 1 {
					continue
				}
				// the row answers with this call's error and nothing else
				whole := true
				for _, lf := range returnLeaves(fn, 0) {
					cc, idx := originCall(lf.Val)
					if cc == nil || ssa.Instruction(cc) != ssa.Instruction(cs[0].(*ssa.Call)) || idx != cc.Common().Signature().Results().Len()-1 {
						whole = false
					}
				}
				if whole {
					if _, dup := rowOf[p]; dup {
						return false
					}
					rowOf[p] = k
				}
			}
		}
		if len(rowOf) != len(order) {
			continue
		}
		// nothing else in WaitForSync calls the waits
		for _, p := range order {
			if len(findCalls(w, false, p)) != 0 {
				return false
			}
		}
		okOrder := rowOf[order[0]] < rowOf[order[1]] && rowOf[order[1]] < rowOf[order[2]]
		r.Check(okOrder, "sync:order", tb.Call.Pos(), "leader, then voter, then updates (rows of a step table run in order, the first failure returns)", "WaitForSync does not wait for leader, voter and updates in that order")
		for _, lf := range returnLeaves(w, 0) {
			if isNilConst(lf.Val) {
				r.Check(mustPass(lf.Block, tb.ExitEdge), "sync:nil-after-updates", lf.Pos, "nil only after every step of the table returned nil", "WaitForSync returns nil before WaitForUpdates succeeded")
			}
		}
		for _, p := range order {
			r.OK("sync:"+p, tb.Call.Pos(), "%s is one step of the table", p)
		}
		return true
	}
	return false
}
