package main

import (
	"fmt"
	"go/constant"
	"go/token"
	"strings"

	"golang.org/x/tools/go/ssa"
)

func init() {
	register(
		&Rule{ID: "R14.1", Props: []string{"C14"}, Floor: 2, Title: "state import replaces: both state managers clean the existing state successfully before importing", Run: r141},
		&Rule{ID: "R14.2", Props: []string{"C14", "C08", "C01"}, Floor: 3, Title: "export and import use the same JSON record type, one fresh record per entry", Run: r142},
		&Rule{ID: "R14.3", Props: []string{"C14"}, Floor: 5, Title: "snapshot save and offline read use the same codec and namespace as the running consensus; the snapshot sink is cancelled on failure and closed on success", Run: r143},
		&Rule{ID: "R14.4", Props: []string{"C14"}, Floor: 1, Title: "an unparsable peerstore line is never used (value paired with a tested error is not used on the error path)", Run: r144},
		&Rule{ID: "R14.5", Props: []string{"C14"}, Floor: 3, Title: "the peerstore file is truncated on save, written in slice order, and peers are saved sorted by priority", Run: r145},
	)
}

func r141(c *Ctx, r *R) {
	for _, tn := range []string{"raftStateManager", "crdtStateManager"} {
		f := c.fn(r, "cmdutils", tn+".ImportState")
		if f == nil {
			continue
		}
		imps := findCalls(f, false, "cmdutils.importState")
		if len(imps) != 1 {
			r.Bad("import:"+tn, f.Pos(), "%s.ImportState has %d importState calls", tn, len(imps))
			continue
		}
		ok := guardedBy(imps[0].Block(), func(g Guard) bool { return gCallErrNil(g, "cmdutils."+tn+").Clean") })
		r.Check(ok, "clean-before-import:"+tn, imps[0].Pos(), "the existing state is cleaned (successfully) before importing", tn+".ImportState imports on top of the existing state: pins not in the import survive (import must replace)")
		// the reader given to importState is ImportState's own
		r.Check(paramIndex(f, imps[0].Common().Args[0]) == 1, "import-source:"+tn, imps[0].Pos(), "the given reader is what is imported", "importState is not fed ImportState's reader")
	}
	// Clean implementations
	if g := c.fn(r, "cmdutils", "raftStateManager.Clean"); g != nil {
		r.Check(returnsCall(g, "consensus/raft.CleanupRaft"), "clean-impl:raft", g.Pos(), "raft clean = CleanupRaft", "raftStateManager.Clean no longer calls CleanupRaft")
	}
	if g := c.fn(r, "cmdutils", "crdtStateManager.Clean"); g != nil {
		r.Check(returnsCall(g, "consensus/crdt.Clean"), "clean-impl:crdt", g.Pos(), "crdt clean = crdt.Clean", "crdtStateManager.Clean no longer calls crdt.Clean")
	}
}

// freshPerIteration: the decode target is allocated inside the loop.
func freshPerIteration(call ssa.CallInstruction, argIdx int) bool {
	a := call.Common().Args[argIdx]
	if mi, ok := a.(*ssa.MakeInterface); ok {
		a = mi.X
	}
	al, ok := a.(*ssa.Alloc)
	if !ok {
		return false
	}
	return blockReaches(al.Block(), al.Block())
}

func r142(c *Ctx, r *R) {
	ex := c.fn(r, "cmdutils", "exportState")
	im := c.fn(r, "cmdutils", "importState")
	if ex == nil || im == nil {
		return
	}
	var encT, decT string
	for _, ci := range findCalls(ex, false, "(*encoding/json.Encoder).Encode") {
		encT = strip(ci.Common().Args[1]).Type().String()
	}
	var dec ssa.CallInstruction
	for _, ci := range findCalls(im, false, "(*encoding/json.Decoder).Decode") {
		decT = strip(ci.Common().Args[1]).Type().String()
		dec = ci
	}
	r.Check(encT != "" && encT == decT && strings.HasSuffix(encT, "/api.Pin"), "same-record-type", ex.Pos(), "export writes and import reads JSON *api.Pin records", fmt.Sprintf("export encodes %q, import decodes %q", encT, decT))
	if dec != nil {
		r.Check(freshPerIteration(dec, 1), "import:fresh-record", dec.Pos(), "each imported pin is decoded into a fresh record", "importState decodes every entry into the same record: fields omitted by one entry keep the previous entry's values, and stored pins alias one object")
		// what is added is what was decoded
		adds := findCalls(im, false, "/state.WriteOnly).Add", "/state.State).Add")
		ok := len(adds) == 1 && strip(adds[0].Common().Args[1]) == strip(dec.Common().Args[1])
		r.Check(ok, "import:adds-decoded", im.Pos(), "the decoded record is what is added to the state", "importState adds something other than the decoded record")
	}
	// snapshot restore decodes each entry into a fresh record too
	un := c.fn(r, "state/dsstate", "State.Unmarshal")
	if un != nil {
		// the decode may live in a helper of the package (one record per
		// call is fresh; a record handed in by Unmarshal must be allocated
		// in the loop that calls the helper)
		type decSite struct {
			ci    ssa.CallInstruction
			fresh bool
		}
		var sites []decSite
		for _, ci := range findCalls(un, false, "codec.Decoder).Decode") {
			sites = append(sites, decSite{ci, freshPerIteration(ci, 1)})
		}
		for _, hc := range callsIn(un) {
			h := hc.Common().StaticCallee()
			if h == nil || h.Blocks == nil || h.Pkg != un.Pkg {
				continue
			}
			for _, ci := range findCalls(h, false, "codec.Decoder).Decode") {
				a := ci.Common().Args[1]
				if mi, ok := a.(*ssa.MakeInterface); ok {
					a = mi.X
				}
				fresh := false
				switch x := a.(type) {
				case *ssa.Alloc:
					fresh = x.Parent() == h // a record of the call's own
				case *ssa.Parameter:
					for i, q := range h.Params {
						if q == x && i < len(hc.Common().Args) {
							if al, ok := stripLocal(hc.Common().Args[i]).(*ssa.Alloc); ok {
								fresh = loopHeaderOf(hc.Block()) == nil || blockReaches(al.Block(), al.Block())
								// handed in from outside a loop and used by a call inside one
								for _, other := range callsIn(un) {
									if other != hc && other.Common().StaticCallee() == h && loopHeaderOf(other.Block()) != nil && i < len(other.Common().Args) && stripLocal(other.Common().Args[i]) == ssa.Value(al) && !blockReaches(al.Block(), al.Block()) {
										fresh = false
									}
								}
							}
						}
					}
				}
				sites = append(sites, decSite{hc, fresh})
			}
		}
		if len(sites) == 0 {
			r.Und("unmarshal:fresh-entry", un.Pos(), "State.Unmarshal: no decode call found")
		}
		for _, ds := range sites {
			ci := ds.ci
			r.Check(ds.fresh, "unmarshal:fresh-entry", ci.Pos(), "each snapshot entry is decoded into a fresh record", "State.Unmarshal decodes every entry into the same record: the codec reuses the value's byte slice, so with a datastore that keeps references every key ends up holding the last entry's bytes")
		}
	}
}

func r143(c *Ctx, r *R) {
	// namespace + handle agreement
	type use struct {
		f    *ssa.Function
		call ssa.CallInstruction
	}
	var uses []use
	for _, n := range []string{"OfflineState", "NewConsensus"} {
		f := c.fn(r, "consensus/raft", n)
		if f == nil {
			continue
		}
		for _, ci := range findCalls(f, false, "state/dsstate.New") {
			uses = append(uses, use{f, ci})
		}
	}
	for _, u := range uses {
		a := u.call.Common().Args
		ns, _ := fieldLoad(a[1])
		h, _ := originCall(a[2])
		ok := ns != nil && ns.Name() == "DatastoreNamespace" && h != nil && nameMatches(callName(h.Common()), "state/dsstate.DefaultHandle")
		r.Check(ok, "state-params:"+u.f.Name(), u.call.Pos(), u.f.Name()+" builds the state with config.DatastoreNamespace and the default codec handle", u.f.Name()+" builds its state with another namespace or codec than the running consensus: a snapshot written by one is not readable by the other")
	}
	if len(uses) < 2 {
		r.Bad("state-params", token.NoPos, "raft OfflineState/NewConsensus no longer both build a dsstate (found %d)", len(uses))
	}
	// OfflineState restores the latest snapshot through Unmarshal
	if f := c.fn(r, "consensus/raft", "OfflineState"); f != nil {
		un := findCalls(f, false, "dsstate.State).Unmarshal")
		ok := len(un) == 1
		if ok {
			src, _ := originCall(un[0].Common().Args[1])
			ok = src != nil && nameMatches(callName(src.Common()), "consensus/raft.LastStateRaw")
		}
		r.Check(ok, "offline:reads-latest-snapshot", f.Pos(), "the offline state is the latest snapshot, unmarshaled", "OfflineState does not unmarshal the latest snapshot")
	}
	// SnapshotSave sink discipline
	f := c.fn(r, "consensus/raft", "SnapshotSave")
	if f == nil {
		return
	}
	enc := findCalls(f, false, "go-libp2p-raft.EncodeSnapshot")
	if len(enc) != 1 {
		r.Bad("snapshot:encode", f.Pos(), "SnapshotSave has %d EncodeSnapshot calls", len(enc))
		return
	}
	r.Check(paramIndex(f, strip(enc[0].Common().Args[0])) == 1, "snapshot:encodes-given-state", enc[0].Pos(), "the given state is what is encoded", "SnapshotSave encodes something other than the given state")
	encV := enc[0].(ssa.Value)
	okCancel, okClose := false, false
	for _, ci := range callsIn(f) {
		if !ci.Common().IsInvoke() {
			continue
		}
		switch ci.Common().Method.Name() {
		case "Cancel":
			if guardedBy(ci.Block(), func(g Guard) bool {
				return gNil(g, true, func(v ssa.Value) bool { cc, _ := originCall(v); return ssa.Value(cc) == encV })
			}) {
				okCancel = true
			}
		case "Close":
			if guardedBy(ci.Block(), func(g Guard) bool {
				return gNil(g, false, func(v ssa.Value) bool { cc, _ := originCall(v); return ssa.Value(cc) == encV })
			}) {
				okClose = true
			}
		}
	}
	r.Check(okCancel && okClose, "snapshot:sink", enc[0].Pos(), "the sink is cancelled when encoding fails and closed when it succeeds", fmt.Sprintf("snapshot sink discipline broken (cancel on failure: %v, close on success: %v): a partial snapshot is published or a complete one discarded", okCancel, okClose))
}

func r144(c *Ctx, r *R) {
	f := c.fn(r, "pstoremgr", "Manager.LoadPeerstore")
	if f == nil {
		return
	}
	// keptOK: the value v, kept under the given guards, comes from a parse
	// whose failure was excluded: a (T, error) call with err == nil among
	// the guards, or a (T, bool) helper of the repository with ok == true
	// among the guards whose own true answers satisfy the same (recursively)
	var keptOK func(v ssa.Value, guards []Guard, depth int) (bool, string, bool)
	keptOK = func(v ssa.Value, guards []Guard, depth int) (ok bool, what string, relevant bool) {
		call, idx := originCallLocal(v)
		if call == nil || idx != 0 || depth > 3 {
			return true, "", false
		}
		sig := call.Common().Signature()
		if sig.Results().Len() != 2 {
			return true, "", false
		}
		has := func(pred func(g Guard) bool) bool {
			for _, g := range guards {
				if pred(g) {
					return true
				}
			}
			return false
		}
		switch sig.Results().At(1).Type().String() {
		case "error":
			return has(func(g Guard) bool {
				return gNil(g, false, func(x ssa.Value) bool { cc, i := originCallLocal(x); return cc == call && i == 1 })
			}), shortName(call), true
		case "bool":
			h := call.Common().StaticCallee()
			if h == nil || h.Blocks == nil || h.Pkg == nil || !isRepoPath(h.Pkg.Pkg.Path()) {
				return true, "", false
			}
			if !has(func(g Guard) bool {
				ex, isEx := g.Cond.(*ssa.Extract)
				return isEx && ex.Tuple == ssa.Value(call) && ex.Index == 1 && g.Branch
			}) {
				return false, shortName(call), true
			}
			rel := false
			for _, hb := range h.Blocks {
				if hb == h.Recover || len(hb.Instrs) == 0 {
					continue
				}
				ret, isRet := hb.Instrs[len(hb.Instrs)-1].(*ssa.Return)
				if !isRet || len(ret.Results) != 2 {
					continue
				}
				if k, isK := constOf(retResult(ret, 1)); isK && (k == nil || !constant.BoolVal(k)) {
					continue // answers "skip"
				}
				ok2, w2, rel2 := keptOK(retResult(ret, 0), guardsOf(hb), depth+1)
				if rel2 {
					rel = true
					if !ok2 {
						return false, w2, true
					}
				}
			}
			return true, shortName(call), rel
		}
		return true, "", false
	}
	n := 0
	for _, ci := range callsIn(f) {
		if callName(ci.Common()) != "builtin.append" {
			continue
		}
		for _, e := range variadicElems(ci.Common().Args[1]) {
			ok, what, relevant := keptOK(e, guardsOf(ci.Block()), 0)
			if !relevant {
				continue
			}
			n++
			r.Check(ok, "LoadPeerstore", ci.Pos(), "a parsed address is kept only when parsing succeeded", "LoadPeerstore keeps the value of "+what+" without its failure having been excluded: an unparsable line yields a nil address and the import crashes")
		}
	}
	if n == 0 {
		r.Und("LoadPeerstore", f.Pos(), "shape of LoadPeerstore not recognised")
	}
}

func r145(c *Ctx, r *R) {
	f := c.fn(r, "pstoremgr", "Manager.SavePeerstore")
	if f != nil {
		trunc := false
		for _, ci := range callsIn(f) {
			cn := callName(ci.Common())
			if cn == "os.Create" {
				trunc = true
			}
			if cn == "os.OpenFile" {
				if k, ok := constOf(ci.Common().Args[1]); ok && k != nil {
					iv, _ := constant.Int64Val(k)
					if iv&0x200 != 0 { // O_TRUNC on linux
						trunc = true
					}
				}
			}
		}
		r.Check(trunc, "save:truncates", f.Pos(), "the file is truncated before writing", "SavePeerstore overwrites the file without truncating it: after a shorter save the tail of the old content (departed peers) is read back")
		// writes happen inside a loop over the parameter, via the file
		wr := findCalls(f, false, "(*os.File).Write", "(*os.File).WriteString", "fmt.Fprintf", "fmt.Fprintln")
		inLoop := false
		for _, ci := range wr {
			if blockReaches(ci.Block(), ci.Block()) {
				inLoop = true
			}
		}
		r.Check(inLoop, "save:one-line-per-address", f.Pos(), "one write per address, in iteration order of the given slice", "SavePeerstore no longer writes one line per address")
	}
	g := c.fn(r, "pstoremgr", "Manager.PeerInfos")
	if g != nil {
		sorted := len(findCalls(g, false, "sort.Sort", "sort.Stable", "sort.Slice", "sort.SliceStable")) > 0
		r.Check(sorted, "peerinfos:sorted", g.Pos(), "peer infos are sorted by priority before being saved", "PeerInfos no longer sorts by priority: the saved order is arbitrary")
	}
	l := c.fn(r, "pstoremgr", "peerSort.Less")
	if l != nil {
		ok := false
		for _, lf := range returnLeaves(l, 0) {
			if b, isB := lf.Val.(*ssa.BinOp); isB && b.Op == token.LSS {
				ok = true
			}
		}
		r.Check(ok, "peersort:less", l.Pos(), "lower priority value sorts first", "peerSort.Less no longer orders by ascending priority value")
	}
}
