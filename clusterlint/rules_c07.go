package main

import (
	"fmt"
	"go/ast"
	"go/constant"
	"go/token"
	"go/types"
	"sort"
	"strings"

	"golang.org/x/tools/go/ssa"
)

func init() {
	register(
		&Rule{ID: "R07.0", Props: []string{"C07"}, Floor: 55, Title: "every gorpc client call site resolves to constant (service, method) pairs with a registered RPCAPI method", Run: r070},
		&Rule{ID: "R07.1", Props: []string{"C07"}, Floor: 50, Title: "the RPC methods of the registered services and the keys of DefaultRPCPolicy are the same set; every service is registered", Run: r071},
		&Rule{ID: "R07.2", Props: []string{"C07"}, Floor: 5, Title: "the authorisation function answers true only for open endpoints, IsTrustedPeer(caller) for trusted ones, false otherwise, and is installed on every RPC server", Run: r072},
		&Rule{ID: "R07.3", Props: []string{"C07"}, Floor: 3, Title: "open endpoints cannot reach pinset writes, the pin tracker or IPFS-driving calls", Run: r073},
		&Rule{ID: "R07.4", Props: []string{"C07"}, Floor: 50, Title: "no endpoint is more permissive than in the reviewed policy table; new endpoints are closed, or trusted with a remote caller", Run: r074},
		&Rule{ID: "R07.5", Props: []string{"C07"}, Floor: 6, Title: "trust predicates: raft trusts everyone; crdt trusts only under TrustAll, self or the trusted set; Trust/Distrust store/delete the same key; TrustAll only from '*'", Run: r075},
		&Rule{ID: "R07.6", Props: []string{"C07", "C02"}, Floor: 2, Title: "the pubsub topic validator returns IsTrustedPeer(signer) and its registration is fail-closed", Run: r076},
	)
}

func r070(c *Ctx, r *R) {
	for _, s := range c.RPC {
		key := fmt.Sprintf("%s:%s", s.Fn.String(), s.Kind)
		if !s.Resolved {
			r.Und(key, s.Call.Pos(), "RPC call site not resolvable: %s", s.Why)
			continue
		}
		var ts []string
		for _, t := range s.Targets {
			ts = append(ts, t.Svc+"."+t.Method)
		}
		sort.Strings(ts)
		loc := "remote-or-either"
		if s.Local {
			loc = "local"
		}
		r.OK(key+"->"+fmt.Sprint(ts), s.Call.Pos(), "%s call to %v (%s)", loc, ts, s.Targets[0].Via)
	}
}

// policyTable reads the DefaultRPCPolicy composite literal.
func (c *Ctx) policyTable(r *R) (map[string]string, map[string]token.Pos) {
	pkg := c.P.Pkg("")
	if pkg == nil {
		r.Und("anchor:root-package", token.NoPos, "root package not loaded")
		return nil, nil
	}
	tbl := map[string]string{}
	poss := map[string]token.Pos{}
	found := false
	for _, f := range pkg.Syntax {
		for _, d := range f.Decls {
			gd, ok := d.(*ast.GenDecl)
			if !ok || gd.Tok != token.VAR {
				continue
			}
			for _, sp := range gd.Specs {
				vs := sp.(*ast.ValueSpec)
				for i, n := range vs.Names {
					if n.Name != "DefaultRPCPolicy" || i >= len(vs.Values) {
						continue
					}
					cl, ok := vs.Values[i].(*ast.CompositeLit)
					if !ok {
						r.Und("DefaultRPCPolicy", n.Pos(), "DefaultRPCPolicy is not a composite literal")
						return nil, nil
					}
					found = true
					for _, el := range cl.Elts {
						kv, ok := el.(*ast.KeyValueExpr)
						if !ok {
							continue
						}
						k, ok := constStr(pkg, kv.Key)
						if !ok {
							r.Und("DefaultRPCPolicy:key", kv.Pos(), "non-constant key in DefaultRPCPolicy")
							continue
						}
						v := constVal(pkg, kv.Value)
						name := types.ExprString(kv.Value)
						if v == nil {
							r.Und("DefaultRPCPolicy:"+k, kv.Pos(), "non-constant endpoint type %s", name)
							continue
						}
						if _, dup := tbl[k]; dup {
							r.Bad("DefaultRPCPolicy:dup:"+k, kv.Pos(), "duplicate policy entry %s", k)
						}
						tbl[k] = levelName(v)
						poss[k] = kv.Pos()
					}
				}
			}
		}
	}
	if !found {
		r.Und("DefaultRPCPolicy", token.NoPos, "DefaultRPCPolicy not found")
		return nil, nil
	}
	return tbl, poss
}

func levelName(v constant.Value) string {
	i, _ := constant.Int64Val(v)
	switch i {
	case 0:
		return "closed"
	case 1:
		return "trusted"
	case 2:
		return "open"
	}
	return fmt.Sprintf("unknown(%d)", i)
}

var levelRank = map[string]int{"closed": 0, "trusted": 1, "open": 2}

func r071(c *Ctx, r *R) {
	// the endpoint type constants must keep the meaning levelName assumes
	for i, n := range []string{"RPCClosed", "RPCTrusted", "RPCOpen"} {
		v := c.constNamed("", n)
		if v == nil {
			r.Und("const:"+n, token.NoPos, "constant %s not found", n)
			return
		}
		if iv, _ := constant.Int64Val(v); iv != int64(i) {
			r.Und("const:"+n, token.NoPos, "constant %s = %s, checker assumes %d", n, v, i)
			return
		}
	}
	tbl, poss := c.policyTable(r)
	if tbl == nil {
		return
	}
	methods := c.rpcMethods()
	if len(c.serviceTypes()) < 5 {
		r.Und("services", token.NoPos, "RPCServiceID names %d services, expected 5", len(c.serviceTypes()))
	}
	var names []string
	for n := range methods {
		names = append(names, n)
	}
	sort.Strings(names)
	for _, n := range names {
		if lvl, ok := tbl[n]; ok {
			r.OK("method:"+n, methods[n].Pos(), "RPC method %s has policy entry (%s)", n, lvl)
		} else {
			r.Bad("method:"+n, methods[n].Pos(), "RPC method %s has no entry in DefaultRPCPolicy: the authoriser denies it, and Config.Validate (isRPCPolicyValid) rejects the configuration", n)
		}
	}
	for k := range tbl {
		if _, ok := methods[k]; !ok {
			r.Bad("entry:"+k, poss[k], "policy entry %s names no RPC method of a registered service", k)
		}
	}
	// every service type is registered with RegisterName(RPCServiceID(x), x)
	f := c.fn(r, "", "newRPCServer")
	if f == nil {
		return
	}
	regs := findCalls(f, false, "go-libp2p-gorpc.Server).RegisterName")
	registered := map[string]bool{}
	for _, ci := range regs {
		args := callArgs(ci.Common())
		if len(args) != 2 {
			continue
		}
		t := strip(args[1]).Type()
		if idc, _ := originCall(args[0]); idc != nil && len(idc.Common().Args) == 1 {
			// name computed from a value: it must be the registered receiver
			if t2 := strip(idc.Common().Args[0]).Type(); !types.Identical(t, t2) {
				r.Bad("register:"+t.String(), ci.Pos(), "RegisterName(name-of(%s), %s): name and receiver differ", t2, t)
				continue
			}
		}
		if p, ok := t.(*types.Pointer); ok {
			if nt, ok := p.Elem().(*types.Named); ok {
				registered[nt.Obj().Name()] = true
			}
		}
	}
	for svc, nt := range c.serviceTypes() {
		r.Check(registered[nt.Obj().Name()], "registered:"+svc, f.Pos(), "service "+svc+" is registered on the RPC server", "service "+svc+" ("+nt.Obj().Name()+") is never registered on the RPC server")
	}
}

func r072(c *Ctx, r *R) {
	f := c.fn(r, "", "newRPCServer")
	if f == nil {
		return
	}
	// the closure passed to WithAuthorizeFunc
	var auth *ssa.Function
	wa := findCalls(f, false, "go-libp2p-gorpc.WithAuthorizeFunc")
	for _, ci := range wa {
		if g := fnOfValue(ci.Common().Args[0]); g != nil {
			if auth != nil && auth != g {
				r.Und("authF", ci.Pos(), "several different authorisation functions")
				return
			}
			auth = g
		} else {
			r.Und("authF", ci.Pos(), "authorisation function is not a closure defined in newRPCServer")
			return
		}
	}
	if auth == nil {
		r.Bad("authF", f.Pos(), "no rpc.WithAuthorizeFunc in newRPCServer: every remote call would be authorised")
		return
	}
	// every NewServer call gets WithAuthorizeFunc(auth)
	ns := findCalls(f, false, "go-libp2p-gorpc.NewServer")
	if len(ns) == 0 {
		r.Und("NewServer", f.Pos(), "no rpc.NewServer call found")
	}
	for i, ci := range ns {
		args := ci.Common().Args
		ok := false
		for _, el := range variadicElems(args[len(args)-1]) {
			if call, _ := originCall(el); call != nil && nameMatches(callName(call.Common()), "go-libp2p-gorpc.WithAuthorizeFunc") && fnOfValue(call.Common().Args[0]) == auth {
				ok = true
			}
		}
		r.Check(ok, fmt.Sprintf("NewServer#%d", i+1), ci.Pos(), "rpc.NewServer receives WithAuthorizeFunc(authF)", "rpc.NewServer is created WITHOUT the authorisation function: all endpoints are open on this construction path")
	}
	// the server that gets the services registered is one of those
	// shape of the closure
	off := 0 // a method used as the authoriser has its receiver first
	if auth.Signature.Recv() != nil {
		off = 1
	}
	if len(auth.Params) != 3+off {
		r.Und("authF:params", auth.Pos(), "authorisation closure has %d parameters", len(auth.Params))
		return
	}
	open := c.constNamed("", "RPCOpen")
	trusted := c.constNamed("", "RPCTrusted")
	isType := func(v ssa.Value) bool { // the looked-up endpoint type
		l, idx := mapLookupOf(v)
		if l == nil || idx != 0 {
			return false
		}
		fld, _ := fieldLoad(l.X)
		return fld != nil && fld.Name() == "RPCPolicy"
	}
	leaves := returnLeavesDeep(auth, 0) // through a helper extracted from the closure
	if len(leaves) == 0 {
		r.Und("authF:returns", auth.Pos(), "no return found")
	}
	nTrue, nTrust := 0, 0
	for _, lf := range leaves {
		gs := lf.Guards()
		if k, isK := constOf(lf.Val); isK {
			if k == nil || !constant.BoolVal(k) {
				r.OK("authF:false", lf.Pos, "path returns false (deny)")
				continue
			}
			okOpen, okFound := false, false
			for _, g := range gs {
				if gEq(g, open, true, isType) {
					okOpen = true
				}
				if l, idx := mapLookupOf(g.Cond); l != nil && idx == 1 && g.Branch {
					okFound = true
				}
			}
			nTrue++
			r.Check(okOpen && okFound, "authF:true", lf.Pos, "constant true only when the policy entry exists and equals RPCOpen",
				"authorisation returns true on a path that is not guarded by `entry found && type == RPCOpen`")
			continue
		}
		call, _ := originCall(lf.Val)
		if call != nil && nameMatches(callName(call.Common()), ").IsTrustedPeer") {
			args := callArgs(call.Common())
			pidOK := len(args) == 2 && paramIndex(auth, args[1]) == off
			okT := false
			for _, g := range gs {
				if gEq(g, trusted, true, isType) {
					okT = true
				}
			}
			nTrust++
			r.Check(pidOK && okT, "authF:trusted", call.Pos(), "trusted endpoints answer consensus.IsTrustedPeer(caller)",
				"IsTrustedPeer result is returned but not for the caller's peer id under type == RPCTrusted")
			continue
		}
		r.Bad("authF:other", lf.Pos, "authorisation returns a value that is neither false, true-for-open nor IsTrustedPeer(caller): %s", lf.Val)
	}
	r.Check(nTrust >= 1, "authF:has-trusted-path", auth.Pos(), "a trusted path exists", "no path consults IsTrustedPeer: trusted endpoints are unreachable or decided otherwise")
	// lookup key is svc + "." + method
	keyOK := false
	instrsDeep(auth, func(i ssa.Instruction) {
		l, ok := i.(*ssa.Lookup)
		if !ok {
			return
		}
		// X + "." + Y (the key may reach a helper as its parameter)
		if b, ok := strip(l.Index).(*ssa.BinOp); ok && b.Op == token.ADD {
			if b2, ok := b.X.(*ssa.BinOp); ok && b2.Op == token.ADD {
				dot, _ := constString(b2.Y)
				if paramIndex(auth, b2.X) == 1+off && dot == "." && paramIndex(auth, b.Y) == 2+off {
					keyOK = true
				}
			}
		}
	})
	r.Check(keyOK, "authF:key", auth.Pos(), "policy is looked up under svc+\".\"+method of the incoming call", "policy lookup key is not svc+\".\"+method of the incoming call")
}

// mutatingSinks are the calls an untrusted peer must never be able to cause.
var c07Sinks = []string{
	").LogPin", ").LogUnpin", ").RmPeer",
	ModPath + ".PinTracker).Track", ModPath + ".PinTracker).Untrack", ModPath + ".PinTracker).Recover", ModPath + ".PinTracker).RecoverAll",
	ModPath + ".PinTracker).Status", ModPath + ".PinTracker).StatusAll",
	ModPath + ".IPFSConnector).Pin", ModPath + ".IPFSConnector).Unpin", ModPath + ".IPFSConnector).PinLs", ModPath + ".IPFSConnector).PinLsCid",
	ModPath + ".IPFSConnector).BlockPut", ModPath + ".IPFSConnector).BlockGet", ModPath + ".IPFSConnector).RepoGC",
	ModPath + ".IPFSConnector).ConfigKey", ModPath + ".IPFSConnector).Resolve",
	ModPath + ".Consensus).State", "/state.State).List", "/state.ReadOnly).List", "/state.ReadOnly).Get",
}

func r073(c *Ctx, r *R) {
	tbl, poss := c.policyTable(r)
	if tbl == nil {
		return
	}
	var open []string
	for k, v := range tbl {
		if v == "open" {
			open = append(open, k)
		}
	}
	sort.Strings(open)
	// control: the search must find the path a closed write endpoint has
	if m := c.rpcMethod("Cluster", "Pin"); m == nil || c.pathTo(m, sinkNamed(").LogPin"), reachOpt{}) == nil {
		r.Und("control:Cluster.Pin->LogPin", token.NoPos, "the reachability search does not find Cluster.Pin -> Consensus.LogPin: the call graph is blind, open endpoints cannot be cleared")
	}
	if m := c.rpcMethod("Cluster", "PeerRemove"); m == nil || c.pathTo(m, sinkNamed(ModPath+".IPFSConnector).Pin"), reachOpt{}) != nil {
		// PeerRemove re-pins through consensus only; reaching IPFS Pin
		// synchronously would indicate a graph far too coarse to be useful
		r.Und("control:precision", token.NoPos, "the reachability search is too coarse (Cluster.PeerRemove reaches IPFSConnector.Pin)")
	}
	for _, ep := range open {
		parts := strings.SplitN(ep, ".", 2)
		m := c.rpcMethod(parts[0], parts[1])
		if m == nil {
			r.Und("open:"+ep, poss[ep], "open endpoint %s has no RPCAPI method", ep)
			continue
		}
		path := c.pathTo(m, sinkNamed(c07Sinks...), reachOpt{})
		if path != nil {
			r.Bad("open:"+ep, m.Pos(), "open endpoint %s (callable by any peer) reaches a pinset/tracker/IPFS operation: %s", ep, strings.Join(path, " -> "))
		} else {
			r.OK("open:"+ep, m.Pos(), "open endpoint %s reaches none of %d sink patterns", ep, len(c07Sinks))
		}
	}
}

// refPolicy is the policy table of the pinned commit, reviewed against the
// call sites (R07.0): every trusted endpoint has a remote caller except the
// two marked. It is the oracle for "meant for local use": intent exists only
// as this table, so any loosening relative to it is reported.
var refPolicy = map[string]string{
	"Cluster.BlockAllocate": "closed", "Cluster.ConnectGraph": "closed", "Cluster.ID": "open", "Cluster.Join": "closed",
	"Cluster.PeerAdd": "open", "Cluster.PeerRemove": "trusted" /* upstream choice, no remote caller */, "Cluster.Peers": "trusted",
	"Cluster.Pin": "closed", "Cluster.PinGet": "closed", "Cluster.PinPath": "closed", "Cluster.Pins": "closed",
	"Cluster.Recover": "closed", "Cluster.RecoverAll": "closed", "Cluster.RecoverAllLocal": "trusted",
	"Cluster.RecoverLocal": "trusted" /* upstream choice, no remote caller */, "Cluster.RepoGC": "closed", "Cluster.RepoGCLocal": "trusted",
	"Cluster.SendInformerMetric": "closed", "Cluster.SendInformersMetrics": "closed", "Cluster.Alerts": "closed",
	"Cluster.Status": "closed", "Cluster.StatusAll": "closed", "Cluster.StatusAllLocal": "closed", "Cluster.StatusLocal": "closed",
	"Cluster.Unpin": "closed", "Cluster.UnpinPath": "closed", "Cluster.Version": "open",
	"PinTracker.Recover": "trusted", "PinTracker.RecoverAll": "closed", "PinTracker.Status": "trusted", "PinTracker.StatusAll": "trusted",
	"PinTracker.Track": "closed", "PinTracker.Untrack": "closed",
	"IPFSConnector.BlockGet": "closed", "IPFSConnector.BlockPut": "trusted", "IPFSConnector.ConfigKey": "closed", "IPFSConnector.Pin": "closed",
	"IPFSConnector.PinLs": "closed", "IPFSConnector.PinLsCid": "closed", "IPFSConnector.RepoStat": "trusted", "IPFSConnector.Resolve": "closed",
	"IPFSConnector.SwarmPeers": "trusted", "IPFSConnector.Unpin": "closed",
	"Consensus.AddPeer": "trusted", "Consensus.LogPin": "trusted", "Consensus.LogUnpin": "trusted", "Consensus.Peers": "closed", "Consensus.RmPeer": "trusted",
	"PeerMonitor.LatestMetrics": "closed", "PeerMonitor.MetricNames": "closed",
}

func r074(c *Ctx, r *R) {
	tbl, poss := c.policyTable(r)
	if tbl == nil {
		return
	}
	remote := map[string]bool{}
	for _, s := range c.RPC {
		if s.Resolved && !s.Local {
			for _, t := range s.Targets {
				remote[t.Svc+"."+t.Method] = true
			}
		}
	}
	var keys []string
	for k := range tbl {
		keys = append(keys, k)
	}
	sort.Strings(keys)
	for _, k := range keys {
		lvl := tbl[k]
		ref, known := refPolicy[k]
		if _, okl := levelRank[lvl]; !okl {
			r.Bad("policy:"+k, poss[k], "endpoint %s has unknown type %s", k, lvl)
			continue
		}
		if known {
			if levelRank[lvl] > levelRank[ref] {
				r.Bad("policy:"+k, poss[k], "endpoint %s is %s, the reviewed table has it %s: access was loosened", k, lvl, ref)
			} else {
				r.OK("policy:"+k, poss[k], "endpoint %s is %s (reviewed: %s)", k, lvl, ref)
			}
			continue
		}
		switch {
		case lvl == "closed":
			r.OK("policy:"+k, poss[k], "new endpoint %s is closed", k)
		case lvl == "trusted" && remote[k]:
			r.OK("policy:"+k, poss[k], "new endpoint %s is trusted and has a remote call site", k)
		default:
			r.Bad("policy:"+k, poss[k], "new endpoint %s is %s without being in the reviewed table (new endpoints must be closed, or trusted with a remote caller)", k, lvl)
		}
	}
	// the policy in use is the default table unless tightened
	c.P.RepoFuncs(func(f *ssa.Function) {
		if isTestSupportFn(f) {
			return
		}
		instrs(f, func(i ssa.Instruction) {
			mu, ok := i.(*ssa.MapUpdate)
			if !ok {
				return
			}
			fld, _ := fieldLoad(mu.Map)
			if fld == nil || fld.Name() != "RPCPolicy" {
				return
			}
			k, okk := constString(mu.Key)
			v, okv := constOf(mu.Value)
			if !okk || !okv || v == nil {
				r.Und("policy-update:"+f.String(), mu.Pos(), "RPC policy modified at run time with non-constant key/value")
				return
			}
			lvl := levelName(v)
			ref, known := refPolicy[k]
			if !known || levelRank[lvl] > levelRank[ref] {
				r.Bad("policy-update:"+k, mu.Pos(), "%s sets policy %s=%s, looser than the reviewed %s", f, k, lvl, ref)
			} else {
				r.OK("policy-update:"+k, mu.Pos(), "%s tightens %s to %s", f, k, lvl)
			}
		})
	})
}

func r075(c *Ctx, r *R) {
	var trustSetField *types.Var
	// raft: constant true
	if f := c.fn(r, "consensus/raft", "Consensus.IsTrustedPeer"); f != nil {
		ok := true
		for _, lf := range returnLeaves(f, 0) {
			k, isK := constOf(lf.Val)
			if !isK || k == nil || !constant.BoolVal(k) {
				ok = false
			}
		}
		r.Check(ok, "raft.IsTrustedPeer", f.Pos(), "raft trusts every peer (constant true)", "raft IsTrustedPeer is no longer constant true: 'every peer in Raft mode' is broken")
	}
	// crdt
	f := c.fn(r, "consensus/crdt", "Consensus.IsTrustedPeer")
	if f != nil {
		pidIdx := 2 // (css, ctx, pid)
		// the trusted set: the sync.Map field of Consensus that
		// IsTrustedPeer looks the peer up in (whatever it is called)
		for _, ci := range findCalls(f, false, "(*sync.Map).Load") {
			if fld, _ := fieldOfAddrValue(ci.Common().Args[0]); fld != nil && trustSetField == nil {
				trustSetField = fld
			}
		}
		// the three legitimate reasons to answer true, as branch edges:
		// TrustAll, pid == own id, pid found in trustedPeers
		isLoadOK := func(v ssa.Value) bool {
			call, idx := originCall(v)
			if call == nil || idx != 1 || !nameMatches(callName(call.Common()), "(*sync.Map).Load") {
				return false
			}
			args := callArgs(call.Common())
			fld, _ := fieldOfAddrValue(call.Common().Args[0])
			return len(args) == 1 && paramIndex(f, args[0]) == pidIdx && fld != nil && fld == trustSetField
		}
		reason := func(g Guard) bool {
			if gField(g, "TrustAll", true) {
				return true
			}
			if b, ok := g.Cond.(*ssa.BinOp); ok && (b.Op == token.EQL && g.Branch || b.Op == token.NEQ && !g.Branch) {
				var other ssa.Value
				if paramIndex(f, b.X) == pidIdx {
					other = b.Y
				} else if paramIndex(f, b.Y) == pidIdx {
					other = b.X
				}
				if other != nil {
					if call, _ := originCall(other); call != nil && nameMatches(callName(call.Common()), "host.Host).ID") {
						return true
					}
				}
			}
			return g.Branch && isLoadOK(g.Cond)
		}
		// the peer trusts itself (the pubsub validator also sees the
		// peer's own publications: without this a peer with an explicit
		// trust list that does not name itself rejects everything it sends)
		isSelf := func(g Guard) bool {
			b, ok := g.Cond.(*ssa.BinOp)
			if !ok || !(b.Op == token.EQL && g.Branch || b.Op == token.NEQ && !g.Branch) {
				return false
			}
			var other ssa.Value
			if paramIndex(f, b.X) == pidIdx {
				other = b.Y
			} else if paramIndex(f, b.Y) == pidIdx {
				other = b.X
			}
			if other == nil {
				return false
			}
			call, _ := originCall(other)
			return call != nil && nameMatches(callName(call.Common()), "host.Host).ID")
		}
		selfTrusted := false
		for _, lf := range returnLeaves(f, 0) {
			if k, isK := constOf(lf.Val); isK && k != nil && constant.BoolVal(k) && (lf.GuardedBy(isSelf) || mustPass(lf.Block, func(g Guard) bool { return isSelf(g) || gField(g, "TrustAll", true) })) {
				if lf.GuardedBy(isSelf) {
					selfTrusted = true
				}
			}
		}
		if !selfTrusted {
			// `TrustAll || pid == self` joined into one return
			for _, b := range f.Blocks {
				if iff, ok := b.Instrs[len(b.Instrs)-1].(*ssa.If); ok {
					if isSelf(Guard{Cond: iff.Cond, Branch: true, If: iff}) {
						// the true edge must lead to a `return true`
						for _, lf := range returnLeaves(f, 0) {
							if k, isK := constOf(lf.Val); isK && k != nil && constant.BoolVal(k) && (lf.Block == b.Succs[0] || blockReachesAvoiding(b.Succs[0], lf.Block, b.Succs[1]) || lf.Into != nil && lf.Block == b) {
								selfTrusted = true
							}
						}
					}
				}
			}
		}
		r.Check(selfTrusted, "crdt.IsTrustedPeer:self", f.Pos(), "a peer always trusts itself", "crdt IsTrustedPeer no longer answers true for the peer's own id: the pubsub validator also runs on the peer's own publications, so a peer whose trust list does not name itself never gets an update out")
		nTrue, nLoad := 0, 0
		for _, lf := range returnLeaves(f, 0) {
			if k, isK := constOf(lf.Val); isK {
				if k == nil || !constant.BoolVal(k) {
					r.OK("crdt.IsTrustedPeer:false", lf.Pos, "returns false")
					continue
				}
				nTrue++
				// every path to this `true` took one of the three edges
				// (dominance is not enough: `TrustAll || pid == self` joins)
				okG := lf.GuardedBy(reason) || mustPass(lf.Block, reason)
				r.Check(okG, fmt.Sprintf("crdt.IsTrustedPeer:true#%d", nTrue), lf.Pos, "constant true only after TrustAll, pid == own id or membership in trustedPeers", "crdt IsTrustedPeer returns true on a path that established none of TrustAll, pid == own id, membership in trustedPeers")
				continue
			}
			if isLoadOK(lf.Val) {
				nLoad++
				r.OK("crdt.IsTrustedPeer:load", lf.Pos, "otherwise answers membership of pid in trustedPeers")
				continue
			}
			r.Bad("crdt.IsTrustedPeer:other", lf.Pos, "returns something other than TrustAll/self/trustedPeers membership: %s", lf.Val)
		}
		// membership is consulted at all (as a returned value or as a test)
		usesLoad := nLoad > 0
		for _, b := range f.Blocks {
			if iff, ok := b.Instrs[len(b.Instrs)-1].(*ssa.If); ok {
				cond := iff.Cond
				for {
					if u, ok := cond.(*ssa.UnOp); ok && u.Op == token.NOT {
						cond = u.X
						continue
					}
					break
				}
				if isLoadOK(cond) {
					usesLoad = true
				}
			}
		}
		r.Check(usesLoad, "crdt.IsTrustedPeer:membership", f.Pos(), "membership of pid in trustedPeers is consulted", "crdt IsTrustedPeer no longer consults trustedPeers.Load(pid)")
	}
	// Trust stores pid, Distrust deletes pid, same map
	checkKey := func(name, method string) {
		g := c.fn(r, "consensus/crdt", "Consensus."+name)
		if g == nil {
			return
		}
		calls := findCalls(g, false, "(*sync.Map)."+method)
		ok := false
		for _, ci := range calls {
			args := callArgs(ci.Common())
			fld, _ := fieldOfAddrValue(ci.Common().Args[0])
			if len(args) >= 1 && paramIndex(g, args[0]) == 2 && fld != nil && fld == trustSetField {
				// must not be conditional
				if onEveryPath(ci) {
					ok = true
				}
			}
		}
		r.Check(ok, "crdt."+name, g.Pos(), name+" unconditionally calls trustedPeers."+method+"(pid)", name+" does not unconditionally call trustedPeers."+method+"(pid): trust would not follow Trust/Distrust calls")
	}
	checkKey("Trust", "Store")
	checkKey("Distrust", "Delete")
	// setup trusts every configured peer
	if s := c.fn(r, "consensus/crdt", "Consensus.setup"); s != nil {
		ok := false
		for _, ci := range findCalls(s, false, "crdt.Consensus).Trust") {
			args := callArgs(ci.Common())
			// argument is an element of config.TrustedPeers (range loop)
			if len(args) == 2 && derivesFromField(args[1], "TrustedPeers", 6) {
				ok = true
			}
		}
		r.Check(ok, "crdt.setup:trust-config", s.Pos(), "setup calls Trust for the elements of config.TrustedPeers", "setup no longer trusts the peers listed in config.TrustedPeers")
	}
	// who may grant trust: trustedPeers is written only by Trust/Distrust,
	// Trust is called only from setup (configured peers), and
	// Config.TrustAll / TrustedPeers are assigned only by the config code
	{
		trustFn := c.P.Func("consensus/crdt", "Consensus.Trust")
		c.P.RepoFuncs(func(g *ssa.Function) {
			if isTestSupportFn(g) {
				return
			}
			for _, ci := range callsIn(g) {
				cn := callName(ci.Common())
				if nameMatches(cn, "(*sync.Map).Store", "(*sync.Map).LoadOrStore") && len(ci.Common().Args) > 0 {
					if fld, _ := fieldOfAddrValue(ci.Common().Args[0]); fld != nil && fld == trustSetField {
						r.Check(g == trustFn, "trust-writers:"+g.String(), ci.Pos(), "the trusted set is written by Trust only", g.String()+" adds to the trusted set outside Trust()")
					}
				}
				if trustFn != nil && ci.Common().StaticCallee() == trustFn || nameMatches(cn, ModPath+".Consensus).Trust") {
					ok := g.String() == "(*"+ModPath+"/consensus/crdt.Consensus).setup"
					r.Check(ok, "trust-callers:"+g.String(), ci.Pos(), "Trust is called for configured peers only (setup)", g.String()+" grants trust: a peer becomes trusted without being in the configuration or an explicit Trust call by the operator")
				}
			}
			instrs(g, func(i ssa.Instruction) {
				st, ok := i.(*ssa.Store)
				if !ok {
					return
				}
				fld, base := fieldOfAddrValue(st.Addr)
				if fld == nil || (fld.Name() != "TrustAll" && fld.Name() != "TrustedPeers") || !strings.HasSuffix(base.Type().String(), "consensus/crdt.Config") {
					return
				}
				allowed := strings.HasPrefix(g.String(), "(*"+ModPath+"/consensus/crdt.Config).")
				if !allowed && fld.Name() == "TrustAll" {
					if k, isK := constOf(st.Val); isK && (k == nil || !constant.BoolVal(k)) {
						allowed = true // turning trust-all off is always fine
					}
				}
				if !allowed && fld.Name() == "TrustedPeers" {
					// the daemons fill the list from user input; not TrustAll
					allowed = strings.Contains(g.String(), "/cmd/") || strings.Contains(g.String(), "/cmdutils")
				}
				r.Check(allowed, "trust-config-writers:"+fld.Name()+":"+g.String(), st.Pos(), fld.Name()+" is assigned by configuration code", g.String()+" assigns crdt Config."+fld.Name()+" outside the configuration code")
			})
		})
	}
	// saving the configuration writes "*" only for trust-all
	if tj := c.fn(r, "consensus/crdt", "Config.toJSONConfig"); tj != nil {
		n := 0
		instrsDeep(tj, func(i ssa.Instruction) { // (or a helper that renders the trust settings)
			st, ok := i.(*ssa.Store)
			if !ok {
				return
			}
			if s, isS := constString(st.Val); !isS || s != "*" {
				return
			}
			n++
			r.Check(guardedBy(st.Block(), func(g Guard) bool { return gField(g, "TrustAll", true) }), "crdt.config:star-only-for-trustall", st.Pos(), "\"*\" is written only when TrustAll is set",
				"toJSONConfig writes \"*\" for a configuration that does not trust everyone: after the save/env-var round trip (always run by the daemon) an explicit or empty trust list becomes trust-all")
		})
		if n == 0 {
			r.Und("crdt.config:star", tj.Pos(), "toJSONConfig never writes \"*\": TrustAll is not saved")
		}
	}
	// TrustAll while loading JSON (decided on the SSA, so that the value
	// may travel through a local): every value stored into cfg.TrustAll is
	// the constant false, or the constant true on a path guarded by a
	// comparison with the literal "*"; and some store dominates every exit
	// that can report success (Default() leaves TrustAll = true, so an
	// input that skips the store - a missing or null trusted_peers key -
	// would trust everyone without a "*" entry).
	af := c.fn(r, "consensus/crdt", "Config.applyJSONConfig")
	if af == nil {
		return
	}
	var stores []*ssa.Store
	// in applyJSONConfig or in a helper extracted from it
	instrsDeep(af, func(i ssa.Instruction) {
		st, ok := i.(*ssa.Store)
		if !ok {
			return
		}
		fa, ok := st.Addr.(*ssa.FieldAddr)
		if !ok || fieldOfAddr(fa).Name() != "TrustAll" || paramIndex(af, fa.X) != 0 {
			return
		}
		stores = append(stores, st)
	})
	if len(stores) == 0 {
		r.Bad("crdt.config:TrustAll", af.Pos(), "applyJSONConfig never assigns TrustAll: the trust-all default survives every configuration")
		return
	}
	underStar := func(g Guard) bool {
		_, k, tme, ok := eqConst(g.Cond)
		return ok && k.Kind() == constant.String && constant.StringVal(k) == "*" && tme == g.Branch
	}
	okVals, nTrue := true, 0
	why := ""
	for _, st := range stores {
		// the value may be computed by a helper extracted from the loader
		for _, lf := range valueLeavesDeep(st.Val, st.Block()) {
			k, isK := constOf(lf.Val)
			switch {
			case isK && k != nil && !boolVal(k):
			case isK && k != nil && boolVal(k):
				nTrue++
				if !lf.GuardedBy(underStar) && !guardedBy(st.Block(), underStar) {
					okVals = false
					why = "true is stored on a path not guarded by a comparison with \"*\" (" + c.P.Pos(st.Pos()) + ")"
				}
			default:
				okVals = false
				why = "a value of unknown origin is stored (" + c.P.Pos(st.Pos()) + ")"
			}
		}
	}
	r.Check(okVals && nTrue >= 1, "crdt.config:TrustAll", af.Pos(), "loading JSON stores false into TrustAll, and true only under the literal \"*\"", "TrustAll can become true from JSON without the \"*\" entry, or \"*\" no longer sets it ("+why+")")
	for _, lf := range returnLeaves(af, 0) {
		if call, _ := originCall(lf.Val); call != nil && (nameMatches(callName(call.Common()), "fmt.Errorf") || nameMatches(callName(call.Common()), "errors.New")) {
			continue // a definite error: the configuration is not used
		}
		dom := false
		for _, st := range stores {
			if st.Parent() == af {
				if st.Block() == lf.Block || st.Block().Dominates(lf.Block) {
					dom = true
				}
				continue
			}
			// in a helper: the helper is called on every path to this
			// exit and the store is executed on every path through it
			h := st.Parent()
			site := singleCallSite[h]
			if site == nil || site.Parent() != af {
				continue
			}
			if site.Block() != lf.Block && !site.Block().Dominates(lf.Block) {
				continue
			}
			always := true
			for _, hb := range h.Blocks {
				if hb == h.Recover || len(hb.Instrs) == 0 {
					continue
				}
				if _, isRet := hb.Instrs[len(hb.Instrs)-1].(*ssa.Return); isRet {
					if st.Block() != hb && !st.Block().Dominates(hb) {
						always = false
					}
				}
			}
			if always {
				dom = true
			}
		}
		r.Check(dom, "crdt.config:TrustAll:reset-unconditional", lf.Pos, "every successful exit of applyJSONConfig is dominated by an assignment of TrustAll", "applyJSONConfig can succeed without having assigned TrustAll (true by default): a configuration without a \"*\" entry (missing/null/empty list on that path) trusts every peer")
	}
}

// fieldOfAddrValue: v is &x.f (FieldAddr) -> f.
func fieldOfAddrValue(v ssa.Value) (*types.Var, ssa.Value) {
	if fa, ok := v.(*ssa.FieldAddr); ok {
		return fieldOfAddr(fa), fa.X
	}
	return nil, nil
}

// derivesFromField: v is computed (loads, index, range/next, extract, phi)
// from a load of a field with the given name.
func derivesFromField(v ssa.Value, field string, depth int) bool {
	if depth < 0 || v == nil {
		return false
	}
	if f, _ := fieldLoad(v); f != nil && f.Name() == field {
		return true
	}
	switch x := v.(type) {
	case *ssa.UnOp:
		return derivesFromField(x.X, field, depth-1)
	case *ssa.IndexAddr:
		return derivesFromField(x.X, field, depth-1)
	case *ssa.Index:
		return derivesFromField(x.X, field, depth-1)
	case *ssa.Extract:
		return derivesFromField(x.Tuple, field, depth-1)
	case *ssa.Next:
		return derivesFromField(x.Iter, field, depth-1)
	case *ssa.Range:
		return derivesFromField(x.X, field, depth-1)
	case *ssa.Phi:
		for _, e := range x.Edges {
			if derivesFromField(e, field, depth-1) {
				return true
			}
		}
	case *ssa.FieldAddr:
		if fieldOfAddr(x) != nil && fieldOfAddr(x).Name() == field {
			return true
		}
		return derivesFromField(x.X, field, depth-1)
	case *ssa.ChangeType:
		return derivesFromField(x.X, field, depth-1)
	case *ssa.MakeInterface:
		return derivesFromField(x.X, field, depth-1)
	case *ssa.Slice:
		return derivesFromField(x.X, field, depth-1)
	}
	return false
}

func r076(c *Ctx, r *R) {
	s := c.fn(r, "consensus/crdt", "Consensus.setup")
	if s == nil {
		return
	}
	regs := findCalls(s, false, "go-libp2p-pubsub.PubSub).RegisterTopicValidator")
	if len(regs) == 0 {
		r.Bad("validator:registered", s.Pos(), "setup registers no pubsub topic validator: updates from untrusted peers are merged")
		return
	}
	for _, ci := range regs {
		args := callArgs(ci.Common())
		if len(args) < 2 {
			r.Und("validator:args", ci.Pos(), "unexpected RegisterTopicValidator arguments")
			continue
		}
		v := fnOfValue(args[1])
		if v == nil {
			r.Und("validator:fn", ci.Pos(), "validator is not a function literal")
			continue
		}
		okAll := true
		n := 0
		// the answer is IsTrustedPeer(msg.GetFrom()): returned as such, or
		// as true/false under the corresponding outcome of that call
		isTrustOfSigner := func(x ssa.Value) bool {
			call, _ := originCall(x)
			if call == nil || !nameMatches(callName(call.Common()), "crdt.Consensus).IsTrustedPeer") {
				return false
			}
			a := callArgs(call.Common())
			from, _ := originCall(a[1])
			return from != nil && nameMatches(callName(from.Common()), "pubsub.Message).GetFrom")
		}
		for _, lf := range returnLeaves(v, 0) {
			n++
			if isTrustOfSigner(lf.Val) {
				continue
			}
			if k, isK := constOf(lf.Val); isK && k != nil {
				want := constant.BoolVal(k)
				if lf.GuardedBy(func(g Guard) bool { return g.Branch == want && isTrustOfSigner(g.Cond) }) {
					continue
				}
			}
			okAll = false
		}
		r.Check(okAll && n > 0, "validator:returns", v.Pos(), "validator returns IsTrustedPeer(msg.GetFrom())", "topic validator does not return IsTrustedPeer(msg.GetFrom()) on every path")
		// same topic as the broadcaster
		bc := findCalls(s, false, "go-ds-crdt.NewPubSubBroadcaster")
		sameTopic := false
		for _, b := range bc {
			ba := b.Common().Args
			if len(ba) >= 3 && sameValue(ba[2], args[0]) {
				sameTopic = true
			}
		}
		r.Check(sameTopic, "validator:topic", ci.Pos(), "validator is registered on the topic the broadcaster subscribes to", "validator topic differs from the broadcaster's topic")
		// fail-closed: the error of the registration is tested and the
		// error edge does not reach crdt.New / NewPubSubBroadcaster
		errV := ssa.Value(nil)
		if cv, ok := ci.(ssa.Value); ok {
			errV = cv
		}
		failClosed := false
		if errV != nil {
			for _, b := range s.Blocks {
				iff, ok := b.Instrs[len(b.Instrs)-1].(*ssa.If)
				if !ok {
					continue
				}
				x, tn, ok := nilCmp(iff.Cond)
				if !ok {
					continue
				}
				isErr := false
				for _, l := range phiLeaves(x) {
					if l == errV {
						isErr = true
					}
				}
				if !isErr {
					continue
				}
				errSucc := b.Succs[1]
				if tn {
					errSucc = b.Succs[0]
				}
				// error edge must not reach the datastore construction
				if !blockReachesCall(errSucc, b, "go-ds-crdt.New", "go-ds-crdt.NewPubSubBroadcaster") {
					failClosed = true
				}
			}
		}
		r.Check(failClosed, "validator:fail-closed", ci.Pos(), "a failed validator registration aborts setup before the CRDT datastore is created",
			"the registration error is ignored or only logged: setup goes on to create the CRDT datastore without a trust gate (fail-open)")
	}
}

func sameValue(a, b ssa.Value) bool {
	la, lb := phiLeaves(a), phiLeaves(b)
	if len(la) != len(lb) {
		return false
	}
	for i := range la {
		if la[i] != lb[i] {
			return false
		}
	}
	return true
}

// blockReachesCall: starting at block `from` (not passing through `avoid`
// again is irrelevant in a DAG; loops are handled by the visited set), is a
// call matching pats reachable within the function?
func blockReachesCall(from, avoid *ssa.BasicBlock, pats ...string) bool {
	seen := map[*ssa.BasicBlock]bool{}
	var walk func(b *ssa.BasicBlock) bool
	walk = func(b *ssa.BasicBlock) bool {
		if seen[b] {
			return false
		}
		seen[b] = true
		for _, i := range b.Instrs {
			if ci, ok := i.(ssa.CallInstruction); ok && nameMatches(callName(ci.Common()), pats...) {
				return true
			}
		}
		for _, s := range b.Succs {
			if walk(s) {
				return true
			}
		}
		return false
	}
	return walk(from)
}
