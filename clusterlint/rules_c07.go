package main

import (
	"fmt"
	"go/token"
	"sort"
)

func init() {
	register(
		&Rule{ID: "R07.0", Props: []string{"C07"}, Floor: 55, Title: "every gorpc client call site resolves to constant (service, method) pairs with a registered RPCAPI method", Run: r070},
	)
}

func r070(c *Ctx, r *R) {
	for _, s := range c.RPC {
		key := fmt.Sprintf("%s:%s", s.Fn.String(), s.Kind)
		if !s.Resolved {
			r.Und(key, s.Call.Pos(), "RPC call site not resolvable: %s", s.Why)
			continue
		}
		var ts []string
		for _, t := range s.Targets {
			ts = append(ts, t.Svc+"."+t.Method)
		}
		sort.Strings(ts)
		loc := "remote-or-either"
		if s.Local {
			loc = "local"
		}
		r.OK(key+"->"+fmt.Sprint(ts), s.Call.Pos(), "%s call to %v (%s)", loc, ts, s.Targets[0].Via)
	}
	_ = token.NoPos
}
