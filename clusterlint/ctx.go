package main

import (
	"fmt"
	"go/ast"
	"go/constant"
	"go/token"
	"go/types"
	"os"
	"sort"
	"strings"

	"golang.org/x/tools/go/packages"
	"golang.org/x/tools/go/ssa"
)

// Ctx is what rules see.
type Ctx struct {
	P   *Program
	RPC []*RPCSite
	// rpcTargets: call instruction -> RPCAPI methods it dispatches to
	rpcTargets map[ssa.CallInstruction][]*ssa.Function
	rpcParam   map[ssa.CallInstruction]bool // site whose strings come from parameters
	ctxFns     map[*ssa.Function]bool       // functions visited per entry site
	rpcUnres   []string
	reachMemo  map[*ssa.Function]map[*ssa.Function]bool
	lw         *lockWorld
	svcTypes   map[string]*types.Named
}

func newCtx(p *Program) *Ctx {
	return &Ctx{P: p, rpcTargets: map[ssa.CallInstruction][]*ssa.Function{}, rpcParam: map[ssa.CallInstruction]bool{}, ctxFns: map[*ssa.Function]bool{}, reachMemo: map[*ssa.Function]map[*ssa.Function]bool{}}
}

func (c *Ctx) prepare() {
	c.resolveRPC()
}

// ---------------------------------------------------------------------
// anchors

// fn returns the function or records an undecided obligation.
func (c *Ctx) fn(r *R, rel, name string) *ssa.Function {
	f := c.P.Func(rel, name)
	if f == nil || f.Blocks == nil {
		r.Und("anchor:"+rel+"."+name, token.NoPos, "anchor function %s.%s not found (renamed or removed): the clause cannot be decided", rel, name)
		return nil
	}
	return f
}

func (c *Ctx) decl(r *R, rel, name string) (*ast.FuncDecl, *packages.Package) {
	fd, pkg := c.P.FuncDecl(rel, name)
	if fd == nil || fd.Body == nil {
		r.Und("anchor:"+rel+"."+name, token.NoPos, "anchor function %s.%s not found (renamed or removed): the clause cannot be decided", rel, name)
		return nil, nil
	}
	return fd, pkg
}

// namedType returns the named type rel.name.
func (c *Ctx) namedType(r *R, rel, name string) *types.Named {
	pkg := c.P.Pkg(rel)
	if pkg != nil {
		if o := pkg.Types.Scope().Lookup(name); o != nil {
			if n, ok := o.Type().(*types.Named); ok {
				return n
			}
		}
	}
	if r != nil {
		r.Und("anchor:type:"+rel+"."+name, token.NoPos, "anchor type %s.%s not found", rel, name)
	}
	return nil
}

func structOf(t types.Type) *types.Struct {
	if t == nil {
		return nil
	}
	if p, ok := t.Underlying().(*types.Pointer); ok {
		t = p.Elem()
	}
	s, _ := t.Underlying().(*types.Struct)
	return s
}

func fieldByName(t types.Type, name string) *types.Var {
	s := structOf(t)
	if s == nil {
		return nil
	}
	for i := 0; i < s.NumFields(); i++ {
		if s.Field(i).Name() == name {
			return s.Field(i)
		}
	}
	return nil
}

// ---------------------------------------------------------------------
// instructions and calls

func instrs(f *ssa.Function, fn func(ssa.Instruction)) {
	for _, b := range f.Blocks {
		for _, i := range b.Instrs {
			fn(i)
		}
	}
}

// withAnon visits f and all closures nested in it.
func withAnon(f *ssa.Function, fn func(*ssa.Function)) {
	fn(f)
	for _, a := range f.AnonFuncs {
		withAnon(a, fn)
	}
}

// callName names the callee of a call: the static callee's String(), or the
// interface method's FullName for invoke-mode calls, or "" for dynamic calls
// through a function value.
func callName(cc *ssa.CallCommon) string {
	if cc.IsInvoke() {
		return cc.Method.FullName()
	}
	if f := cc.StaticCallee(); f != nil {
		if f.Origin() != nil {
			return f.Origin().String()
		}
		return f.String()
	}
	if b, ok := cc.Value.(*ssa.Builtin); ok {
		return "builtin." + b.Name()
	}
	return ""
}

// calleeHasName reports whether a call targets something whose name ends
// with the given suffix (e.g. ".LogPin", "api.PinCid").
func nameMatches(name string, pats ...string) bool {
	for _, p := range pats {
		if strings.HasPrefix(p, "=") { // exact name
			if name == p[1:] {
				return true
			}
			continue
		}
		if name == p || strings.HasSuffix(name, p) {
			return true
		}
	}
	return false
}

// callsIn lists the call instructions (call, go, defer) of f in block order.
func callsIn(f *ssa.Function) []ssa.CallInstruction {
	var out []ssa.CallInstruction
	instrs(f, func(i ssa.Instruction) {
		if ci, ok := i.(ssa.CallInstruction); ok {
			out = append(out, ci)
		}
	})
	return out
}

// findCalls lists calls in f (optionally incl. closures) whose callee name
// matches one of the patterns.
func findCalls(f *ssa.Function, anon bool, pats ...string) []ssa.CallInstruction {
	var out []ssa.CallInstruction
	visit := func(g *ssa.Function) {
		for _, ci := range callsIn(g) {
			if nameMatches(callName(ci.Common()), pats...) {
				out = append(out, ci)
			}
		}
	}
	if anon {
		withAnon(f, visit)
	} else {
		visit(f)
	}
	return out
}

// deepCall is a call found in f or, through single-caller helpers, in a
// piece of f that was extracted into a helper.
type deepCall struct {
	Outer ssa.CallInstruction // the call in f itself (== Inner when direct)
	Inner ssa.CallInstruction // the matching call
}

// findCallsDeep is findCalls that also looks into the single-caller helpers
// f calls (an extracted piece of f is still f), three levels down.
func findCallsDeep(f *ssa.Function, pats ...string) []deepCall {
	var out []deepCall
	var walk func(g *ssa.Function, outer ssa.CallInstruction, depth int)
	walk = func(g *ssa.Function, outer ssa.CallInstruction, depth int) {
		for _, ci := range callsIn(g) {
			o := outer
			if o == nil {
				o = ci
			}
			if nameMatches(callName(ci.Common()), pats...) {
				out = append(out, deepCall{Outer: o, Inner: ci})
				continue
			}
			if callee := ci.Common().StaticCallee(); callee != nil && callee.Blocks != nil && depth < 3 && singleCallSite[callee] == ci {
				walk(callee, o, depth+1)
			} else if transparentWrapper(callee, pats...) || higherOrderWrapper(ci, pats...) {
				out = append(out, deepCall{Outer: o, Inner: ci})
			}
		}
	}
	walk(f, nil, 0)
	return out
}

// higherOrderWrapper: the call hands a repository helper a function value
// matching pats (a method value `x.F`, a function) and the helper's results
// are, on every return, those of its call of that parameter
// (`peerChange(ctx, pid, cc.raft.AddPeer)`): for the caller this is a call of F
// with some bracketing around it.
func higherOrderWrapper(ci ssa.CallInstruction, pats ...string) bool {
	h := ci.Common().StaticCallee()
	if h == nil || h.Blocks == nil || h.Pkg == nil || !isRepoPath(h.Pkg.Pkg.Path()) || ci.Common().IsInvoke() {
		return false
	}
	args := ci.Common().Args
	if len(args) != len(h.Params) {
		return false
	}
	for i, a := range args {
		var fn *ssa.Function
		switch x := stripLocal(a).(type) {
		case *ssa.MakeClosure:
			fn, _ = x.Fn.(*ssa.Function)
		case *ssa.Function:
			fn = x
		}
		if fn == nil {
			continue
		}
		name := strings.TrimSuffix(fn.String(), "$bound")
		if !nameMatches(name, pats...) {
			continue
		}
		// h returns what its call of parameter i returned
		prm := h.Params[i]
		rets := returnsOf(h)
		if len(rets) == 0 {
			continue
		}
		ok := true
		for _, ret := range rets {
			if len(ret.Results) == 0 {
				ok = false
				break
			}
			for _, res := range ret.Results {
				c, _ := originCallLocal(res)
				if c == nil || c.Common().Value != ssa.Value(prm) {
					ok = false
				}
			}
		}
		if ok {
			return true
		}
	}
	return false
}

// transparentWrapper: h is a repository function that hands back, result
// for result, what one call matching pats returned (`return x.F(...)` after
// some preparation): for a caller its call *is* that call.
func transparentWrapper(h *ssa.Function, pats ...string) bool {
	if h == nil || h.Blocks == nil || h.Pkg == nil || !isRepoPath(h.Pkg.Pkg.Path()) {
		return false
	}
	rets := returnsOf(h)
	if len(rets) == 0 {
		return false
	}
	for _, ret := range rets {
		if len(ret.Results) == 0 {
			return false
		}
		var src *ssa.Call
		for i := range ret.Results {
			var c *ssa.Call
			switch x := retResult(ret, i).(type) {
			case *ssa.Extract:
				if cc, ok := x.Tuple.(*ssa.Call); ok && x.Index == i {
					c = cc
				}
			case *ssa.Call:
				if len(ret.Results) == 1 {
					c = x
				}
			}
			if c == nil || (src != nil && c != src) {
				return false
			}
			src = c
		}
		if !nameMatches(callName(src.Common()), pats...) {
			return false
		}
	}
	return true
}

// callMatches: the call is one matching pats, or of a transparent wrapper
// of one.
func callMatches(cc *ssa.CallCommon, pats ...string) bool {
	return nameMatches(callName(cc), pats...) || transparentWrapper(cc.StaticCallee(), pats...)
}

// instrsDeep visits the instructions of f and of the single-caller helpers
// it calls (pieces of f), three levels down.
func instrsDeep(f *ssa.Function, fn func(ssa.Instruction)) {
	var walk func(g *ssa.Function, depth int)
	walk = func(g *ssa.Function, depth int) {
		instrs(g, func(i ssa.Instruction) {
			fn(i)
			if ci, ok := i.(ssa.CallInstruction); ok && depth < 3 {
				if callee := ci.Common().StaticCallee(); callee != nil && callee.Blocks != nil && singleCallSite[callee] == ci {
					walk(callee, depth+1)
				}
			}
		})
	}
	walk(f, 0)
}

// callsInDeep lists the calls of f and of the single-caller helpers it
// calls (pieces of f).
func callsInDeep(f *ssa.Function) []ssa.CallInstruction {
	var out []ssa.CallInstruction
	instrsDeep(f, func(i ssa.Instruction) {
		if ci, ok := i.(ssa.CallInstruction); ok {
			out = append(out, ci)
		}
	})
	return out
}

// findInner is findCalls looking also into the single-caller helpers f calls;
// it returns the matching calls themselves (wherever they live).
func findInner(f *ssa.Function, pats ...string) []ssa.CallInstruction {
	var out []ssa.CallInstruction
	for _, dc := range findCallsDeep(f, pats...) {
		out = append(out, dc.Inner)
	}
	return out
}

// findCallsDeepAny is findCallsDeep with an arbitrary predicate.
func findCallsDeepAny(f *ssa.Function, match func(g *ssa.Function, ci ssa.CallInstruction) bool) []deepCall {
	var out []deepCall
	var walk func(g *ssa.Function, outer ssa.CallInstruction, depth int)
	walk = func(g *ssa.Function, outer ssa.CallInstruction, depth int) {
		for _, ci := range callsIn(g) {
			o := outer
			if o == nil {
				o = ci
			}
			if match(g, ci) {
				out = append(out, deepCall{Outer: o, Inner: ci})
				continue
			}
			if callee := ci.Common().StaticCallee(); callee != nil && callee.Blocks != nil && depth < 3 && singleCallSite[callee] == ci {
				walk(callee, o, depth+1)
			}
		}
	}
	walk(f, nil, 0)
	return out
}

// callArgs returns the arguments without the receiver.
func callArgs(cc *ssa.CallCommon) []ssa.Value {
	if cc.IsInvoke() {
		return cc.Args
	}
	if f := cc.StaticCallee(); f != nil && f.Signature.Recv() != nil && len(cc.Args) > 0 {
		return cc.Args[1:]
	}
	return cc.Args
}

// ---------------------------------------------------------------------
// values

// strip removes value-preserving conversions.
func strip(v ssa.Value) ssa.Value {
	for n := 0; n < 64; n++ {
		switch x := v.(type) {
		case *ssa.ChangeType:
			v = x.X
		case *ssa.MakeInterface:
			v = x.X
		case *ssa.ChangeInterface:
			v = x.X
		case *ssa.Convert:
			v = x.X
		case *ssa.Parameter:
			// the parameter of a single-caller helper is the caller's
			// argument (see paramAlias)
			a, ok := paramAlias[x]
			if !ok {
				return v
			}
			v = a
		default:
			return v
		}
	}
	return v
}

// stripLocal is strip without following helper-parameter aliases.
func stripLocal(v ssa.Value) ssa.Value {
	for {
		switch x := v.(type) {
		case *ssa.ChangeType:
			v = x.X
		case *ssa.MakeInterface:
			v = x.X
		case *ssa.ChangeInterface:
			v = x.X
		case *ssa.Convert:
			v = x.X
		default:
			return v
		}
	}
}

// constOf returns the constant value of v, if it is one.
func constOf(v ssa.Value) (constant.Value, bool) {
	if k, ok := strip(v).(*ssa.Const); ok {
		if k.Value == nil {
			return nil, true // nil / zero
		}
		return k.Value, true
	}
	return nil, false
}

func isNilConst(v ssa.Value) bool {
	k, ok := strip(v).(*ssa.Const)
	return ok && k.IsNil()
}

func constString(v ssa.Value) (string, bool) {
	if k, ok := strip(v).(*ssa.Const); ok && k.Value != nil && k.Value.Kind() == constant.String {
		return constant.StringVal(k.Value), true
	}
	return "", false
}

func constInt(v ssa.Value) (int64, bool) {
	if k, ok := strip(v).(*ssa.Const); ok && k.Value != nil && k.Value.Kind() == constant.Int {
		i, ok := constant.Int64Val(k.Value)
		return i, ok
	}
	return 0, false
}

// originCall: if v is the result (or one extracted result) of a call, return
// that call and the result index.
func originCall(v ssa.Value) (*ssa.Call, int) {
	v = strip(v)
	switch x := v.(type) {
	case *ssa.Call:
		return x, 0
	case *ssa.Extract:
		if c, ok := x.Tuple.(*ssa.Call); ok {
			return c, x.Index
		}
	}
	return nil, -1
}

// originCallLocal is originCall without following helper-parameter aliases.
func originCallLocal(v ssa.Value) (*ssa.Call, int) {
	v = stripLocal(v)
	switch x := v.(type) {
	case *ssa.Call:
		return x, 0
	case *ssa.Extract:
		if c, ok := x.Tuple.(*ssa.Call); ok {
			return c, x.Index
		}
	}
	return nil, -1
}

// deepLeaves switches on the expansion of leaves through single-caller
// helpers (see returnLeavesDeep / valueLeavesDeep / Expand).
var deepLeaves bool

// returnLeavesDeep is returnLeaves with results of single-caller helpers
// replaced by what those helpers return.
func returnLeavesDeep(f *ssa.Function, idx int) []RetLeaf {
	deepLeaves = true
	defer func() { deepLeaves = false }()
	return returnLeaves(f, idx)
}

// valueLeavesDeep is valueLeaves with the same expansion.
func valueLeavesDeep(v ssa.Value, at *ssa.BasicBlock) []RetLeaf {
	deepLeaves = true
	defer func() { deepLeaves = false }()
	return valueLeaves(v, at)
}

// Expand: if the leaf is the result of a single-caller helper, the leaves of
// that helper's result (one level); nil otherwise.
func (l RetLeaf) Expand() []RetLeaf {
	call, idx := originCallLocal(l.Val)
	if call == nil {
		return nil
	}
	callee := call.Common().StaticCallee()
	if callee == nil || callee.Blocks == nil || singleCallSite[callee] != ssa.CallInstruction(call) {
		return nil
	}
	var out []RetLeaf
	for _, lf := range returnLeaves(callee, idx) {
		lf.Via = append(append([]*ssa.Call{}, l.Via...), call)
		out = append(out, lf)
	}
	return out
}

// ViaCall reports whether the leaf was returned through a call matching pats.
func (l RetLeaf) ViaCall(pats ...string) bool {
	for _, c := range l.Via {
		if nameMatches(callName(c.Common()), pats...) {
			return true
		}
	}
	return false
}

// fieldLoad: if v is a load of (or Field on) struct field f, return f and
// the base value.
func fieldLoad(v ssa.Value) (*types.Var, ssa.Value) {
	v = strip(v)
	switch x := v.(type) {
	case *ssa.UnOp:
		if x.Op == token.MUL {
			if fa, ok := x.X.(*ssa.FieldAddr); ok {
				return fieldOfAddr(fa), fa.X
			}
		}
	case *ssa.Field:
		s := structOf(x.X.Type())
		if s != nil {
			return s.Field(x.Field), x.X
		}
	}
	return nil, nil
}

func fieldOfAddr(fa *ssa.FieldAddr) *types.Var {
	s := structOf(fa.X.Type())
	if s == nil {
		return nil
	}
	return s.Field(fa.Field)
}

// phiLeaves expands phis (and loads from single-function allocs written by
// stores) to the set of leaf values that may flow into v.
func phiLeaves(v ssa.Value) []ssa.Value {
	var out []ssa.Value
	seen := map[ssa.Value]bool{}
	var walk func(v ssa.Value)
	walk = func(v ssa.Value) {
		if seen[v] {
			return
		}
		seen[v] = true
		switch x := v.(type) {
		case *ssa.Phi:
			for _, e := range x.Edges {
				walk(e)
			}
			return
		case *ssa.ChangeType:
			walk(x.X)
			return
		case *ssa.MakeInterface:
			walk(x.X)
			return
		case *ssa.ChangeInterface:
			walk(x.X)
			return
		case *ssa.UnOp:
			if x.Op == token.MUL {
				if al, ok := x.X.(*ssa.Alloc); ok {
					// local variable that escaped SSA renaming (captured or
					// address-taken): all values stored to it
					st := storesTo(al)
					if len(st) > 0 {
						for _, s := range st {
							walk(s.Val)
						}
						return
					}
				}
			}
		}
		out = append(out, v)
	}
	walk(v)
	return out
}

// storesTo returns the stores whose address is exactly the alloc (in the
// alloc's function and its closures via free variables is not followed).
func storesTo(al *ssa.Alloc) []*ssa.Store {
	var out []*ssa.Store
	if al.Referrers() == nil {
		return nil
	}
	for _, ref := range *al.Referrers() {
		if s, ok := ref.(*ssa.Store); ok && s.Addr == al {
			out = append(out, s)
		}
	}
	return out
}

// ---------------------------------------------------------------------
// guards (P1)

// Guard is a branch condition whose edge dominates an instruction.
type Guard struct {
	Cond   ssa.Value
	Branch bool // the edge taken: true = then
	If     *ssa.If
	// Derived: not a test on the path itself but implied by the answer of
	// a helper call tested on it (see derivedGuards)
	Derived bool
	// Via: for a derived guard, the helper calls it was derived through,
	// innermost first; Resolve maps a value of the helper's frame (one of
	// its parameters) to the argument at that call
	Via []*ssa.Call
}

// Resolve: a value appearing in a derived guard, expressed in the frame of
// the function whose block the guard was computed for: parameters of the
// helpers the guard was derived through become the arguments they were
// called with.
func (g Guard) Resolve(v ssa.Value) ssa.Value {
	for _, call := range g.Via {
		p, ok := stripLocal(v).(*ssa.Parameter)
		if !ok {
			return v
		}
		h := call.Common().StaticCallee()
		if h == nil || p.Parent() != h {
			return v
		}
		for i, q := range h.Params {
			if q == p && i < len(call.Common().Args) {
				v = call.Common().Args[i]
			}
		}
	}
	return v
}

// guardsOf returns the conditions whose then/else edge dominates block b.
// Negations are normalised away (the branch is flipped).
func guardsOf(b *ssa.BasicBlock) []Guard {
	var out []Guard
	for cur := b; cur != nil; cur = cur.Idom() {
		d := cur.Idom()
		if d == nil {
			break
		}
		if len(cur.Preds) != 1 || cur.Preds[0] != d {
			continue
		}
		iff, ok := d.Instrs[len(d.Instrs)-1].(*ssa.If)
		if !ok {
			continue
		}
		var br bool
		switch cur {
		case d.Succs[0]:
			br = true
		case d.Succs[1]:
			br = false
		default:
			continue
		}
		if d.Succs[0] == d.Succs[1] {
			continue
		}
		cond := iff.Cond
		for {
			if u, ok := cond.(*ssa.UnOp); ok && u.Op == token.NOT {
				cond = u.X
				br = !br
				continue
			}
			break
		}
		out = append(out, Guard{Cond: cond, Branch: br, If: iff})
	}
	// a short-circuit condition that go/ssa materialised as a boolean phi
	// (`case a && b:`, `x := a || b; if x`): when the phi is known true and
	// only one incoming edge can carry true, that edge was taken - its value
	// is true and the guards of its source block hold (dually for false)
	if guardDepth < 6 {
		for _, g := range append([]Guard(nil), out...) {
			phi, ok := g.Cond.(*ssa.Phi)
			if !ok {
				continue
			}
			if b, isB := phi.Type().Underlying().(*types.Basic); !isB || b.Kind() != types.Bool {
				continue
			}
			cand := -1
			n := 0
			for i, e := range phi.Edges {
				if k, isK := e.(*ssa.Const); isK && k.Value != nil && constant.BoolVal(k.Value) != g.Branch {
					continue // this edge carries the opposite constant
				}
				cand = i
				n++
			}
			if n != 1 {
				continue
			}
			e := phi.Edges[cand]
			if _, isK := e.(*ssa.Const); !isK {
				cond, br := e, g.Branch
				for {
					if u, ok := cond.(*ssa.UnOp); ok && u.Op == token.NOT {
						cond, br = u.X, !br
						continue
					}
					break
				}
				out = append(out, Guard{Cond: cond, Branch: br, If: g.If})
			}
			guardDepth++
			out = append(out, guardsOf(phi.Block().Preds[cand])...)
			guardDepth--
		}
	}
	// a block of a single-caller helper also stands under the guards of
	// the helper's only call site (the helper is a piece of its caller)
	if f := b.Parent(); f != nil {
		if site, ok := singleCallSite[f]; ok && site.Block() != nil && site.Parent() != f {
			if guardDepth < 6 {
				guardDepth++
				out = append(out, guardsOf(site.Block())...)
				guardDepth--
			}
		}
	}
	// what the answers of helper calls imply: `ok, err := h(x); if err !=
	// nil {..}; if ok {..}` stands under the guards common to every return
	// of h that can produce those answers
	if guardDepth < 3 && !noDerived {
		guardDepth++
		out = append(out, derivedGuards(out)...)
		guardDepth--
	}
	return out
}

var guardDepth int

// noDerived switches helper-answer derivation off (used while computing it).
var noDerived bool

type derivedKey struct {
	call *ssa.Call
	cons string
}

var derivedMemo = map[derivedKey][]Guard{}

// derivedGuards: for every repository helper whose results the guards gs
// constrain (a bool result known true/false, an error or pointer result
// known nil/non-nil), the guards that hold at every return statement of the
// helper compatible with those answers - including, for a constrained bool
// result returned as an expression (`return find(xs, x), nil`), that
// expression with the known truth value. These are facts of the path, so a
// rule asking "is this block reached only if P" sees P when it was tested
// inside a helper instead of inline.
func derivedGuards(gs []Guard) []Guard {
	type constraint struct {
		idx  int
		kind byte // 't' true, 'f' false, 'n' nil, 'v' non-nil
	}
	byCall := map[*ssa.Call][]constraint{}
	var order []*ssa.Call
	add := func(call *ssa.Call, c constraint) {
		if _, ok := byCall[call]; !ok {
			order = append(order, call)
		}
		byCall[call] = append(byCall[call], c)
	}
	helperOf := func(call *ssa.Call) *ssa.Function {
		h := call.Common().StaticCallee()
		if h == nil || len(h.Blocks) == 0 || !isRepoFn(h) || isTestSupportFn(h) {
			return nil
		}
		return h
	}
	for _, g := range gs {
		if call, idx := originCallLocal(g.Cond); call != nil && helperOf(call) != nil {
			h := helperOf(call)
			if idx < h.Signature.Results().Len() {
				if b, ok := h.Signature.Results().At(idx).Type().Underlying().(*types.Basic); ok && b.Kind() == types.Bool {
					k := byte('f')
					if g.Branch {
						k = 't'
					}
					add(call, constraint{idx, k})
				}
			}
			continue
		}
		if b, ok := g.Cond.(*ssa.BinOp); ok && (b.Op == token.EQL || b.Op == token.NEQ) {
			var x ssa.Value
			switch {
			case isNilConst(b.Y):
				x = b.X
			case isNilConst(b.X):
				x = b.Y
			default:
				continue
			}
			if call, idx := originCallLocal(x); call != nil && helperOf(call) != nil && idx < helperOf(call).Signature.Results().Len() {
				k := byte('v')
				if (b.Op == token.EQL) == g.Branch {
					k = 'n'
				}
				add(call, constraint{idx, k})
			}
		}
	}
	var out []Guard
	for _, call := range order {
		cons := byCall[call]
		key := derivedKey{call, fmt.Sprint(cons)}
		if d, ok := derivedMemo[key]; ok {
			out = append(out, d...)
			continue
		}
		derivedMemo[key] = nil // recursion guard
		h := helperOf(call)
		type gk struct {
			iff  *ssa.If
			cond ssa.Value
			br   bool
		}
		var common map[gk]Guard
		nRet := 0
		if len(cons) == 1 && (cons[0].kind == 't' || cons[0].kind == 'f') {
			// one bool answer: per leaf of the result (a short-circuit
			// expression returns a phi: each edge has its own guards)
			c0 := cons[0]
			for _, lf := range returnLeaves(h, c0.idx) {
				var here []Guard
				if k, isK := constOf(lf.Val); isK {
					if k == nil || constant.BoolVal(k) != (c0.kind == 't') {
						continue
					}
				} else {
					cond, br := stripLocal(lf.Val), c0.kind == 't'
					for {
						if u, ok := cond.(*ssa.UnOp); ok && u.Op == token.NOT {
							cond, br = u.X, !br
							continue
						}
						break
					}
					contra := false
					for _, g2 := range lf.Guards() {
						if stripLocal(g2.Cond) == cond && g2.Branch != br {
							contra = true
						}
					}
					if contra {
						continue
					}
					here = append(here, Guard{Cond: cond, Branch: br})
				}
				here = append(here, lf.Guards()...)
				nRet++
				m := map[gk]Guard{}
				for _, g2 := range here {
					m[gk{g2.If, nilIfHasIf(g2), g2.Branch}] = g2
				}
				if common == nil {
					common = m
				} else {
					for k := range common {
						if _, ok := m[k]; !ok {
							delete(common, k)
						}
					}
				}
			}
		} else {
			for _, blk := range h.Blocks {
				ret, ok := blk.Instrs[len(blk.Instrs)-1].(*ssa.Return)
				if !ok || blk == h.Recover {
					continue
				}
				rg := guardsOf(blk)
				compatible := true
				var extra []Guard
				for _, c := range cons {
					if c.idx >= len(ret.Results) {
						compatible = false
						break
					}
					leaves := phiLeaves(retResult(ret, c.idx))
					anyOK := false
					for _, lf := range leaves {
						lf = stripLocal(lf)
						if k, isK := lf.(*ssa.Const); isK {
							switch c.kind {
							case 't', 'f':
								if k.Value != nil && constant.BoolVal(k.Value) == (c.kind == 't') {
									anyOK = true
								}
							case 'n':
								if k.IsNil() {
									anyOK = true
								}
							case 'v':
								if !k.IsNil() {
									anyOK = true
								}
							}
							continue
						}
						// a computed value: contradicted only if this very
						// return stands under the opposite test of it
						contra := false
						for _, g2 := range rg {
							switch c.kind {
							case 't', 'f':
								if stripLocal(g2.Cond) == lf && g2.Branch != (c.kind == 't') {
									contra = true
								}
							case 'n', 'v':
								if b2, ok := g2.Cond.(*ssa.BinOp); ok && (b2.Op == token.EQL || b2.Op == token.NEQ) {
									var y ssa.Value
									if isNilConst(b2.Y) {
										y = b2.X
									} else if isNilConst(b2.X) {
										y = b2.Y
									}
									if y != nil && stripLocal(y) == lf {
										saysNil := (b2.Op == token.EQL) == g2.Branch
										if saysNil != (c.kind == 'n') {
											contra = true
										}
									}
								}
							}
						}
						if !contra {
							anyOK = true
							if (c.kind == 't' || c.kind == 'f') && len(leaves) == 1 {
								cond, br := lf, c.kind == 't'
								for {
									if u, ok := cond.(*ssa.UnOp); ok && u.Op == token.NOT {
										cond, br = u.X, !br
										continue
									}
									break
								}
								extra = append(extra, Guard{Cond: cond, Branch: br})
							}
						}
					}
					if !anyOK {
						compatible = false
						break
					}
				}
				if !compatible {
					continue
				}
				nRet++
				here := map[gk]Guard{}
				for _, g2 := range append(rg, extra...) {
					here[gk{g2.If, nilIfHasIf(g2), g2.Branch}] = g2
				}
				if common == nil {
					common = here
				} else {
					for k := range common {
						if _, ok := here[k]; !ok {
							delete(common, k)
						}
					}
				}
			}
		}
		var d []Guard
		if nRet > 0 {
			for _, g2 := range common {
				d = append(d, g2)
			}
			sort.Slice(d, func(i, j int) bool {
				pi, pj := token.NoPos, token.NoPos
				if d[i].If != nil {
					pi = d[i].If.Pos()
				} else {
					pi = d[i].Cond.Pos()
				}
				if d[j].If != nil {
					pj = d[j].If.Pos()
				} else {
					pj = d[j].Cond.Pos()
				}
				if pi != pj {
					return pi < pj
				}
				return !d[i].Branch && d[j].Branch
			})
		}
		for i := range d {
			d[i].Derived = true
			d[i].Via = append(append([]*ssa.Call{}, d[i].Via...), call)
		}
		derivedMemo[key] = d
		out = append(out, d...)
	}
	return out
}

// nilIfHasIf: guards taken from an If are identified by it; guards made of a
// returned expression by the expression.
func nilIfHasIf(g Guard) ssa.Value {
	if g.If != nil {
		return nil
	}
	return g.Cond
}

// mustPass: every path from the function's entry to block `to` takes at
// least one branch edge whose condition satisfies cut. Unlike guardedBy
// (dominance) this also holds for join-shaped code: `switch t { case A, B:
// }; use()` reaches use() only over the edges t==A or t==B although neither
// dominates it.
func mustPass(to *ssa.BasicBlock, cut func(Guard) bool) bool {
	return mustPassX(to, cut, nil)
}

// mustPassX is mustPass with a second kind of cut: a path also counts when
// it runs through a block satisfying cutBlock (one that makes a given call).
func mustPassX(to *ssa.BasicBlock, cut func(Guard) bool, cutBlock func(*ssa.BasicBlock) bool) bool {
	f := to.Parent()
	if f == nil || len(f.Blocks) == 0 {
		return false
	}
	seen := map[*ssa.BasicBlock]bool{}
	work := []*ssa.BasicBlock{f.Blocks[0]}
	for len(work) > 0 {
		b := work[len(work)-1]
		work = work[:len(work)-1]
		if seen[b] {
			continue
		}
		seen[b] = true
		if b == to {
			return false
		}
		if cutBlock != nil && cutBlock(b) {
			continue
		}
		iff, isIf := b.Instrs[len(b.Instrs)-1].(*ssa.If)
		for i, sc := range b.Succs {
			if isIf && len(b.Succs) == 2 && b.Succs[0] != b.Succs[1] {
				cond, br := iff.Cond, i == 0
				for {
					if u, ok := cond.(*ssa.UnOp); ok && u.Op == token.NOT {
						cond, br = u.X, !br
						continue
					}
					break
				}
				if cut(Guard{Cond: cond, Branch: br, If: iff}) {
					continue
				}
			}
			work = append(work, sc)
		}
	}
	// a single-caller helper: the call site's own paths count as well
	return true
}

// builtFrom: the (slice) value v is assembled, through append, slice
// literals, re-slicing, phis and local variables, from some value that
// satisfies match. Used for "the result contains X" clauses independently of
// how the list is put together.
func builtFrom(v ssa.Value, match func(ssa.Value) bool) bool {
	seen := map[ssa.Value]bool{}
	var walk func(v ssa.Value, depth int) bool
	walk = func(v ssa.Value, depth int) bool {
		if v == nil || seen[v] || depth > 40 {
			return false
		}
		seen[v] = true
		if match(v) {
			return true
		}
		switch x := v.(type) {
		case *ssa.Call:
			if callName(x.Common()) == "builtin.append" {
				for _, a := range x.Common().Args {
					if walk(a, depth+1) {
						return true
					}
				}
			}
		case *ssa.Slice:
			return walk(x.X, depth+1)
		case *ssa.Phi:
			for _, e := range x.Edges {
				if walk(e, depth+1) {
					return true
				}
			}
		case *ssa.MakeInterface:
			return walk(x.X, depth+1)
		case *ssa.ChangeType:
			return walk(x.X, depth+1)
		case *ssa.Convert:
			return walk(x.X, depth+1)
		case *ssa.Extract:
			return walk(x.Tuple, depth+1)
		case *ssa.Alloc:
			// an array literal / local: what is stored into it or its elements
			for _, ref := range *x.Referrers() {
				switch y := ref.(type) {
				case *ssa.Store:
					if y.Addr == ssa.Value(x) && walk(y.Val, depth+1) {
						return true
					}
				case *ssa.IndexAddr:
					for _, r2 := range *y.Referrers() {
						if st, ok := r2.(*ssa.Store); ok && st.Addr == ssa.Value(y) && walk(st.Val, depth+1) {
							return true
						}
					}
				}
			}
		case *ssa.UnOp:
			if x.Op == token.MUL {
				if al, ok := x.X.(*ssa.Alloc); ok {
					return walk(al, depth+1)
				}
			}
		}
		return false
	}
	return walk(v, 0)
}

// establishes: the guard satisfies pred directly, or it is the true edge of
// a boolean helper of the repository all of whose true answers establish
// pred (returned under a guard satisfying it, being the test itself, or
// reached only over edges satisfying it).
func establishes(g Guard, pred func(g Guard) bool) bool {
	return establishesX(g, pred, nil)
}

// establishesX is establishes for either answer of the helper (the edge
// taken when it said g.Branch), with an optional block cut: a path inside
// the helper also counts when it runs through a block satisfying cutBlock
// (e.g. one that calls Cancel).
func establishesX(g Guard, pred func(g Guard) bool, cutBlock func(*ssa.BasicBlock) bool) bool {
	if pred(g) {
		return true
	}
	call, idx := originCallLocal(g.Cond)
	if call == nil {
		return false
	}
	h := call.Common().StaticCallee()
	if h == nil || h.Blocks == nil || h.Pkg == nil || !isRepoPath(h.Pkg.Pkg.Path()) || idx >= h.Signature.Results().Len() {
		return false
	}
	if b, ok := h.Signature.Results().At(idx).Type().Underlying().(*types.Basic); !ok || b.Kind() != types.Bool {
		return false
	}
	n := 0
	for _, lf := range returnLeaves(h, idx) {
		if k, isK := constOf(lf.Val); isK && (k == nil || constant.BoolVal(k) != g.Branch) {
			continue // the other answer does not take this edge
		}
		n++
		if lf.GuardedBy(pred) || pred(Guard{Cond: lf.Val, Branch: g.Branch}) {
			continue
		}
		if cutBlock != nil && (cutBlock(lf.Block) || mustPassX(lf.Block, pred, cutBlock)) {
			continue
		}
		// every path inside the helper to this answer passes such an edge
		blk := lf.Block
		if lf.Into != nil {
			// the value arrives over the edge blk -> Into: that edge counts
			gs := lf.Guards()
			if len(gs) > 0 && pred(gs[0]) {
				continue
			}
		}
		if mustPass(blk, pred) {
			continue
		}
		return false
	}
	return n > 0
}

// guardedByDeep is guardedBy that also looks into boolean helpers: a guard
// `if h(x)` (true edge) establishes pred when every way for h to answer true
// establishes it - the true result is returned under a guard satisfying
// pred, or is itself the test (`return v, err == nil`).
func guardedByDeep(b *ssa.BasicBlock, pred func(g Guard) bool) bool {
	for _, g := range guardsOf(b) {
		if pred(g) {
			return true
		}
		if !g.Branch {
			continue
		}
		call, idx := originCallLocal(g.Cond)
		if call == nil {
			continue
		}
		h := call.Common().StaticCallee()
		if h == nil || h.Blocks == nil || h.Pkg == nil || !isRepoPath(h.Pkg.Pkg.Path()) || idx >= h.Signature.Results().Len() {
			continue
		}
		if b, ok := h.Signature.Results().At(idx).Type().Underlying().(*types.Basic); !ok || b.Kind() != types.Bool {
			continue
		}
		all, n := true, 0
		for _, lf := range returnLeaves(h, idx) {
			if k, isK := constOf(lf.Val); isK && (k == nil || !constant.BoolVal(k)) {
				continue // a false answer does not take the true edge
			}
			n++
			if lf.GuardedBy(pred) || pred(Guard{Cond: lf.Val, Branch: true}) {
				continue
			}
			all = false
		}
		if all && n > 0 {
			return true
		}
	}
	return false
}

// guardedBy reports whether some dominating guard satisfies pred.
func guardedBy(b *ssa.BasicBlock, pred func(g Guard) bool) bool {
	for _, g := range guardsOf(b) {
		if pred(g) {
			return true
		}
	}
	return false
}

// nilCmp: cond is `x == nil` or `x != nil` (either operand order).
// Returns x and whether the TRUE branch means x != nil.
func nilCmp(cond ssa.Value) (x ssa.Value, trueMeansNonNil bool, ok bool) {
	b, isb := cond.(*ssa.BinOp)
	if !isb || (b.Op != token.EQL && b.Op != token.NEQ) {
		return nil, false, false
	}
	switch {
	case isNilConst(b.Y):
		x = b.X
	case isNilConst(b.X):
		x = b.Y
	default:
		return nil, false, false
	}
	return x, b.Op == token.NEQ, true
}

// gNonNil: guard establishes that value-satisfying-sel is non-nil (want=true)
// or nil (want=false).
func gNil(g Guard, wantNonNil bool, sel func(ssa.Value) bool) bool {
	x, tn, ok := nilCmp(g.Cond)
	if !ok {
		return false
	}
	nonNil := tn == g.Branch
	if nonNil != wantNonNil {
		return false
	}
	for _, l := range phiLeaves(x) {
		if sel(l) {
			return true
		}
	}
	return sel(x)
}

// errNilAfterCall: the guard establishes err == nil where err is a result of
// a call matching pats.
func gCallErrNil(g Guard, pats ...string) bool {
	return gNil(g, false, func(v ssa.Value) bool {
		call, _ := originCall(v)
		return call != nil && nameMatches(callName(call.Common()), pats...)
	})
}

// gField: guard is the boolean field `name` evaluated to `want`.
func gField(g Guard, name string, want bool) bool {
	f, _ := fieldLoad(g.Cond)
	return f != nil && f.Name() == name && g.Branch == want
}

// gCall: guard is a boolean call result of a callee matching pats evaluated
// to `want`.
func gCall(g Guard, want bool, pats ...string) bool {
	call, _ := originCall(g.Cond)
	return call != nil && g.Branch == want && nameMatches(callName(call.Common()), pats...)
}

// instrBlock returns the block of an instruction.
func dominatesInstr(a, b ssa.Instruction) bool {
	ba, bb := a.Block(), b.Block()
	if ba == bb {
		for _, i := range ba.Instrs {
			if i == a {
				return true
			}
			if i == b {
				return false
			}
		}
		return false
	}
	return ba.Dominates(bb)
}

// ---------------------------------------------------------------------
// returns (P2)

// RetLeaf is one value that may be returned in a result slot.
type RetLeaf struct {
	Ret   *ssa.Return
	Val   ssa.Value
	Block *ssa.BasicBlock // block whose guards apply to this leaf (phi edge source when known)
	Pos   token.Pos
	Into  *ssa.BasicBlock // for a phi leaf: the phi's block (the edge Block->Into is taken)
	Via   []*ssa.Call     // calls to single-caller helpers the value was returned through (outermost first)
}

// Guards returns the branch conditions known to hold when this leaf is the
// returned value: those dominating Block plus, for a phi leaf, the edge
// from Block into the phi's block.
func (l RetLeaf) Guards() []Guard {
	gs := guardsOf(l.Block)
	if l.Into != nil && len(l.Block.Instrs) > 0 {
		if iff, ok := l.Block.Instrs[len(l.Block.Instrs)-1].(*ssa.If); ok && l.Block.Succs[0] != l.Block.Succs[1] {
			br := l.Block.Succs[0] == l.Into
			if br || l.Block.Succs[1] == l.Into {
				cond := iff.Cond
				for {
					if u, ok := cond.(*ssa.UnOp); ok && u.Op == token.NOT {
						cond = u.X
						br = !br
						continue
					}
					break
				}
				gs = append([]Guard{{Cond: cond, Branch: br, If: iff}}, gs...)
			}
		}
	}
	return gs
}

// GuardedBy reports whether one of the leaf's guards satisfies pred.
func (l RetLeaf) GuardedBy(pred func(g Guard) bool) bool {
	for _, g := range l.Guards() {
		if pred(g) {
			return true
		}
	}
	return false
}

// valueLeaves enumerates the values that can flow into v (used in block at),
// expanding phis the way returnLeaves does, so that each leaf knows the
// guards of its own path (phi edges included).
func valueLeaves(v ssa.Value, at *ssa.BasicBlock) []RetLeaf {
	var out []RetLeaf
	expandLeaves(v, at, nil, map[ssa.Value]bool{}, &out)
	return out
}

// returnLeaves enumerates the values that can reach result slot idx of f,
// expanding phis; for a phi leaf the guarding block is the predecessor the
// edge comes from.
func returnLeaves(f *ssa.Function, idx int) []RetLeaf {
	var out []RetLeaf
	for _, b := range f.Blocks {
		if len(b.Instrs) == 0 {
			continue
		}
		ret, ok := b.Instrs[len(b.Instrs)-1].(*ssa.Return)
		if !ok || idx >= len(ret.Results) {
			continue
		}
		if b == f.Recover {
			continue // reached only through a recovered panic
		}
		expandLeaves(retResult(ret, idx), b, ret, map[ssa.Value]bool{}, &out)
	}
	// de-duplicate (defer-spilled results are seen from the normal and the
	// recover return)
	type k struct {
		v ssa.Value
		b *ssa.BasicBlock
	}
	seen := map[k]bool{}
	var ded []RetLeaf
	for _, l := range out {
		kk := k{l.Val, l.Block}
		if seen[kk] {
			continue
		}
		seen[kk] = true
		if !l.Pos.IsValid() {
			l.Pos = l.Ret.Pos()
		}
		if !l.Pos.IsValid() && len(l.Block.Instrs) > 0 {
			for i := len(l.Block.Instrs) - 1; i >= 0 && !l.Pos.IsValid(); i-- {
				l.Pos = l.Block.Instrs[i].Pos()
			}
		}
		ded = append(ded, l)
	}
	return ded
}

// retResult returns the value returned in slot i, looking through the
// spill that go/ssa inserts in functions with defer: `*res = v; rundefers;
// t = *res; return t`.
func retResult(ret *ssa.Return, i int) ssa.Value {
	v := ret.Results[i]
	u, ok := v.(*ssa.UnOp)
	if !ok || u.Op != token.MUL || u.Block() != ret.Block() {
		return v
	}
	al, ok := u.X.(*ssa.Alloc)
	if !ok {
		return v
	}
	var last ssa.Value
	for _, in := range ret.Block().Instrs {
		if in == ssa.Instruction(u) {
			break
		}
		if st, ok := in.(*ssa.Store); ok && st.Addr == ssa.Value(al) {
			last = st.Val
		}
	}
	if last != nil {
		return last
	}
	return v
}

// returnsOf lists the (non-recover) Return instructions of f.
func returnsOf(f *ssa.Function) []*ssa.Return {
	var out []*ssa.Return
	for _, b := range f.Blocks {
		if b == f.Recover || len(b.Instrs) == 0 {
			continue
		}
		if ret, ok := b.Instrs[len(b.Instrs)-1].(*ssa.Return); ok {
			out = append(out, ret)
		}
	}
	return out
}

func expandLeaves(v ssa.Value, blk *ssa.BasicBlock, ret *ssa.Return, seen map[ssa.Value]bool, out *[]RetLeaf) {
	// the result of a single-caller helper: what the helper returns, under
	// the helper's own guards (guardsOf adds those of the call site)
	if call, idx := originCallLocal(v); deepLeaves && call != nil && !seen[v] {
		if callee := call.Common().StaticCallee(); callee != nil && callee.Blocks != nil && singleCallSite[callee] == ssa.CallInstruction(call) && idx < callee.Signature.Results().Len() {
			seen[v] = true
			n := len(*out)
			for _, b := range callee.Blocks {
				if b == callee.Recover || len(b.Instrs) == 0 {
					continue
				}
				if r2, ok := b.Instrs[len(b.Instrs)-1].(*ssa.Return); ok && idx < len(r2.Results) {
					expandLeaves(retResult(r2, idx), b, ret, seen, out)
				}
			}
			for i := n; i < len(*out); i++ {
				(*out)[i].Via = append([]*ssa.Call{call}, (*out)[i].Via...)
				if !(*out)[i].Pos.IsValid() {
					(*out)[i].Pos = call.Pos()
				}
			}
			if len(*out) > n {
				return
			}
		}
	}
	switch x := v.(type) {
	case *ssa.Phi:
		if seen[x] {
			return
		}
		seen[x] = true
		for i, e := range x.Edges {
			n := len(*out)
			expandLeaves(e, x.Block().Preds[i], ret, seen, out)
			for j := n; j < len(*out); j++ {
				if (*out)[j].Into == nil && (*out)[j].Block == x.Block().Preds[i] {
					(*out)[j].Into = x.Block()
				}
			}
		}
		return
	case *ssa.ChangeType:
		expandLeaves(x.X, blk, ret, seen, out)
		return
	case *ssa.UnOp:
		if x.Op == token.MUL {
			if al, ok := x.X.(*ssa.Alloc); ok {
				// named result spilled because of defer/closure capture
				sts := storesTo(al)
				if len(sts) > 0 && !seen[x] {
					seen[x] = true
					for _, s := range sts {
						n := len(*out)
						at := s.Block()
						if at.Dominates(blk) {
							at = blk // the load's block knows at least as much
						}
						expandLeaves(s.Val, at, ret, seen, out)
						for i := n; i < len(*out); i++ {
							if !(*out)[i].Pos.IsValid() {
								(*out)[i].Pos = s.Pos()
							}
						}
					}
					if !al.Heap || true {
						// zero value is also possible if no store dominates
					}
					return
				}
			}
		}
	}
	*out = append(*out, RetLeaf{Ret: ret, Val: v, Block: blk})
}

// ---------------------------------------------------------------------
// syntax helpers

// constVal evaluates a constant expression through types.Info.
func constVal(pkg *packages.Package, e ast.Expr) constant.Value {
	if tv, ok := pkg.TypesInfo.Types[e]; ok {
		return tv.Value
	}
	return nil
}

func constStr(pkg *packages.Package, e ast.Expr) (string, bool) {
	v := constVal(pkg, e)
	if v == nil || v.Kind() != constant.String {
		return "", false
	}
	return constant.StringVal(v), true
}

// declaredConsts lists the package-level constants whose type is exactly t,
// in source order.
func declaredConsts(t *types.Named) []*types.Const {
	var out []*types.Const
	scope := t.Obj().Pkg().Scope()
	for _, n := range scope.Names() {
		if k, ok := scope.Lookup(n).(*types.Const); ok && types.Identical(k.Type(), t) {
			out = append(out, k)
		}
	}
	sort.Slice(out, func(i, j int) bool { return out[i].Pos() < out[j].Pos() })
	return out
}

// calleeObj resolves the called function object of a call expression.
func calleeObj(pkg *packages.Package, call *ast.CallExpr) *types.Func {
	var id *ast.Ident
	switch f := ast.Unparen(call.Fun).(type) {
	case *ast.Ident:
		id = f
	case *ast.SelectorExpr:
		id = f.Sel
	case *ast.IndexExpr:
		if s, ok := f.X.(*ast.SelectorExpr); ok {
			id = s.Sel
		} else if i, ok := f.X.(*ast.Ident); ok {
			id = i
		}
	}
	if id == nil {
		return nil
	}
	fn, _ := pkg.TypesInfo.Uses[id].(*types.Func)
	return fn
}

// fieldsUsed collects the struct fields (by *types.Var) selected anywhere
// under node, split into reads and writes (assignment LHS, composite keys).
func fieldsUsed(pkg *packages.Package, node ast.Node) (reads, writes map[*types.Var]token.Pos) {
	reads, writes = map[*types.Var]token.Pos{}, map[*types.Var]token.Pos{}
	lhs := map[ast.Expr]bool{}
	ast.Inspect(node, func(n ast.Node) bool {
		switch x := n.(type) {
		case *ast.AssignStmt:
			for _, l := range x.Lhs {
				lhs[ast.Unparen(l)] = true
			}
		case *ast.IncDecStmt:
			lhs[ast.Unparen(x.X)] = true
		case *ast.UnaryExpr:
			if x.Op == token.AND { // &s.f handed to a callee that fills it
				lhs[ast.Unparen(x.X)] = true
			}
		case *ast.CompositeLit:
			for _, el := range x.Elts {
				if kv, ok := el.(*ast.KeyValueExpr); ok {
					if id, ok := kv.Key.(*ast.Ident); ok {
						if v, ok := pkg.TypesInfo.Uses[id].(*types.Var); ok && v.IsField() {
							writes[v] = id.Pos()
						}
					}
				}
			}
		}
		return true
	})
	ast.Inspect(node, func(n ast.Node) bool {
		se, ok := n.(*ast.SelectorExpr)
		if !ok {
			return true
		}
		sel := pkg.TypesInfo.Selections[se]
		if sel == nil || sel.Kind() != types.FieldVal {
			return true
		}
		v, _ := sel.Obj().(*types.Var)
		if v == nil {
			return true
		}
		if lhs[se] {
			writes[v] = se.Sel.Pos()
		} else {
			reads[v] = se.Sel.Pos()
		}
		// embedded path: selecting a promoted field also touches the
		// embedded fields on the way
		return true
	})
	return
}

// funcsCalledFrom returns fd plus the same-package functions it calls,
// transitively (syntax level, for field-coverage rules).
func funcsCalledFrom(p *Program, pkg *packages.Package, fd *ast.FuncDecl) []*ast.FuncDecl {
	byObj := map[*types.Func]*ast.FuncDecl{}
	for _, f := range pkg.Syntax {
		for _, d := range f.Decls {
			if x, ok := d.(*ast.FuncDecl); ok && x.Body != nil {
				if o, ok := pkg.TypesInfo.Defs[x.Name].(*types.Func); ok {
					byObj[o] = x
				}
			}
		}
	}
	seen := map[*ast.FuncDecl]bool{fd: true}
	work := []*ast.FuncDecl{fd}
	for len(work) > 0 {
		cur := work[0]
		work = work[1:]
		ast.Inspect(cur.Body, func(n ast.Node) bool {
			if id, ok := n.(*ast.Ident); ok {
				if o, ok := pkg.TypesInfo.Uses[id].(*types.Func); ok {
					if d := byObj[o]; d != nil && !seen[d] {
						seen[d] = true
						work = append(work, d)
					}
				}
			}
			return true
		})
	}
	var out []*ast.FuncDecl
	for d := range seen {
		out = append(out, d)
	}
	sort.Slice(out, func(i, j int) bool { return out[i].Pos() < out[j].Pos() })
	return out
}

// declClosure returns fd and the declarations of the same package it
// reaches through static calls (a codec split into per-message helpers is
// still one codec). The order is deterministic: fd first, then discovery
// order.
func declClosure(pkg *packages.Package, fd *ast.FuncDecl) []*ast.FuncDecl {
	byObj := map[*types.Func]*ast.FuncDecl{}
	for _, f := range pkg.Syntax {
		for _, d := range f.Decls {
			if x, ok := d.(*ast.FuncDecl); ok && x.Body != nil {
				if o, ok := pkg.TypesInfo.Defs[x.Name].(*types.Func); ok {
					byObj[o] = x
				}
			}
		}
	}
	out := []*ast.FuncDecl{fd}
	seen := map[*ast.FuncDecl]bool{fd: true}
	for i := 0; i < len(out) && len(out) < 64; i++ {
		ast.Inspect(out[i].Body, func(n ast.Node) bool {
			if call, ok := n.(*ast.CallExpr); ok {
				if o := calleeObj(pkg, call); o != nil {
					if d := byObj[o.Origin()]; d != nil && !seen[d] {
						seen[d] = true
						out = append(out, d)
					}
				}
			}
			return true
		})
	}
	return out
}

// fieldsUsedDeep is fieldsUsed over declClosure(fd).
func fieldsUsedDeep(pkg *packages.Package, fd *ast.FuncDecl) (reads, writes map[*types.Var]token.Pos) {
	reads, writes = map[*types.Var]token.Pos{}, map[*types.Var]token.Pos{}
	for _, d := range declClosure(pkg, fd) {
		rd, wr := fieldsUsed(pkg, d)
		for k, v := range rd {
			if _, ok := reads[k]; !ok {
				reads[k] = v
			}
		}
		for k, v := range wr {
			if _, ok := writes[k]; !ok {
				writes[k] = v
			}
		}
	}
	return
}

// ssaClosure: root and the functions of the same package it reaches through
// static calls and the closures it creates.
func ssaClosure(root *ssa.Function) map[*ssa.Function]bool {
	seen := map[*ssa.Function]bool{root: true}
	work := []*ssa.Function{root}
	for len(work) > 0 {
		f := work[0]
		work = work[1:]
		add := func(g *ssa.Function) {
			if g != nil && !seen[g] && len(g.Blocks) > 0 && g.Package() == root.Package() {
				seen[g] = true
				work = append(work, g)
			}
		}
		for _, a := range f.AnonFuncs {
			add(a)
		}
		for _, ci := range callsIn(f) {
			add(ci.Common().StaticCallee())
		}
	}
	return seen
}

// constStringsReaching collects the string constants that can reach v:
// through phis and local variables, through a parameter to the arguments at
// the call sites inside `within`, and through a struct field to every value
// stored into that field inside `within` (field-based: a table of names
// handed to a loop is read like the calls it replaces). ok is false when
// some source is not a constant.
func constStringsReaching(v ssa.Value, within map[*ssa.Function]bool) (map[string]token.Pos, bool) {
	out := map[string]token.Pos{}
	seen := map[ssa.Value]bool{}
	seenFld := map[*types.Var]bool{}
	ok := true
	var walk func(v ssa.Value, pos token.Pos, depth int)
	walk = func(v ssa.Value, pos token.Pos, depth int) {
		if depth > 12 {
			ok = false
			return
		}
		for _, lf := range phiLeaves(v) {
			lf = stripLocal(lf)
			if seen[lf] {
				continue
			}
			seen[lf] = true
			if k, isK := lf.(*ssa.Const); isK {
				if k.Value != nil && k.Value.Kind() == constant.String {
					p := pos
					if k.Pos().IsValid() {
						p = k.Pos()
					}
					out[constant.StringVal(k.Value)] = p
				} else {
					ok = false
				}
				continue
			}
			if p, isP := lf.(*ssa.Parameter); isP {
				fn := p.Parent()
				idx := -1
				for i, q := range fn.Params {
					if q == p {
						idx = i
					}
				}
				n := 0
				for g := range within {
					for _, ci := range callsIn(g) {
						if ci.Common().StaticCallee() == fn && !ci.Common().IsInvoke() && idx >= 0 && idx < len(ci.Common().Args) {
							n++
							walk(ci.Common().Args[idx], ci.Pos(), depth+1)
						}
					}
				}
				if n == 0 {
					ok = false
				}
				continue
			}
			if fld, _ := fieldLoad(lf); fld != nil {
				if seenFld[fld] {
					continue
				}
				seenFld[fld] = true
				n := 0
				for g := range within {
					instrs(g, func(i ssa.Instruction) {
						st, isSt := i.(*ssa.Store)
						if !isSt {
							return
						}
						if fa, isFA := st.Addr.(*ssa.FieldAddr); isFA && fieldOfAddr(fa) == fld {
							n++
							walk(st.Val, st.Pos(), depth+1)
						}
					})
				}
				if n == 0 {
					ok = false
				}
				continue
			}
			ok = false
		}
	}
	walk(v, token.NoPos, 0)
	return out, ok
}

// stepTable is the "sequence of steps kept as data" idiom: a slice literal of
// functions (or of structs with one function-typed field) built in f, walked
// by one range loop that calls the row's function and leaves the function
// on its first error. When Verified, running the loop is the same as
// writing `if err := Fns[0](); err != nil { return ... }; if err :=
// Fns[1]() ...` in order, and the code after the loop is reached only after
// every step returned nil.
type stepTable struct {
	Fns      []*ssa.Function     // the rows' functions, in row order
	Call     ssa.CallInstruction // the dynamic call in the loop
	Header   *ssa.BasicBlock
	ExitEdge func(g Guard) bool // the edge leaving the loop because the rows are exhausted
	// Abort: the loop leaves the function on the first error (steps gated
	// on their predecessors' success). RunAll: nothing leaves the loop
	// early, every row runs whatever the others returned.
	Abort, RunAll bool
}

func stepDbg(format string, args ...interface{}) {
	if os.Getenv("CLUSTERLINT_DEBUG_STEPS") != "" {
		fmt.Fprintf(os.Stderr, "steps: "+format+"\n", args...)
	}
}

func stepTablesOf(f *ssa.Function) []*stepTable {
	var out []*stepTable
	for _, ci := range callsIn(f) {
		cc := ci.Common()
		if cc.IsInvoke() || cc.StaticCallee() != nil {
			continue
		}
		if _, isBuiltin := cc.Value.(*ssa.Builtin); isBuiltin {
			continue
		}
		call, ok := ci.(*ssa.Call)
		if !ok {
			continue
		}
		// the called value: a row (or a row's field) of a slice indexed by
		// the loop variable, read in place or through the loop's copy of
		// the row (`for _, step := range steps { step.wait() }`)
		var ia *ssa.IndexAddr
		fieldIdx := -1
		rowAddr := func(x ssa.Value) *ssa.IndexAddr {
			switch a := x.(type) {
			case *ssa.IndexAddr:
				return a
			case *ssa.Alloc: // the copy: one store of a loaded row
				var found *ssa.IndexAddr
				n := 0
				if a.Referrers() != nil {
					for _, ref := range *a.Referrers() {
						if st, ok := ref.(*ssa.Store); ok && st.Addr == ssa.Value(a) {
							n++
							if u, ok := st.Val.(*ssa.UnOp); ok && u.Op == token.MUL {
								found, _ = u.X.(*ssa.IndexAddr)
							}
						}
					}
				}
				if n == 1 {
					return found
				}
			}
			return nil
		}
		switch v := cc.Value.(type) {
		case *ssa.Field: // load of the whole row, then the field
			if u, ok := v.X.(*ssa.UnOp); ok && u.Op == token.MUL {
				ia = rowAddr(u.X)
				fieldIdx = v.Field
			}
		case *ssa.UnOp:
			if v.Op == token.MUL {
				switch a := v.X.(type) {
				case *ssa.IndexAddr:
					ia = a
				case *ssa.FieldAddr:
					ia = rowAddr(a.X)
					fieldIdx = a.Field
				}
			}
		}
		if ia == nil {
			stepDbg("%s: no row address for %s", f.Name(), cc.Value)
			continue
		}
		sl, ok := ia.X.(*ssa.Slice)
		if !ok || sl.Low != nil || sl.High != nil {
			stepDbg("%s: not a full slice: %v", f.Name(), ia.X)
			continue
		}
		arr, ok := sl.X.(*ssa.Alloc)
		if !ok || arr.Referrers() == nil {
			stepDbg("%s: slice of non-alloc", f.Name())
			continue
		}
		// rows: stores of function values at constant indices; nothing else
		// writes the array
		rows := map[int64]*ssa.Function{}
		clean := true
		for _, ref := range *arr.Referrers() {
			switch x := ref.(type) {
			case *ssa.Slice:
			case *ssa.IndexAddr:
				k, isK := constInt(x.Index)
				if !isK || x.Referrers() == nil {
					clean = false
					continue
				}
				for _, r2 := range *x.Referrers() {
					switch y := r2.(type) {
					case *ssa.Store:
						if fieldIdx == -1 {
							if fn := fnOfValue(y.Val); fn != nil {
								rows[k] = fn
							} else {
								clean = false
							}
							continue
						}
						// the row stored whole, from a literal built in a local
						fn := (*ssa.Function)(nil)
						if u, ok := y.Val.(*ssa.UnOp); ok && u.Op == token.MUL {
							if lit, ok := u.X.(*ssa.Alloc); ok && lit.Referrers() != nil {
								for _, r3 := range *lit.Referrers() {
									if fa, ok := r3.(*ssa.FieldAddr); ok && fa.Field == fieldIdx && fa.Referrers() != nil {
										for _, r4 := range *fa.Referrers() {
											if st, ok := r4.(*ssa.Store); ok {
												fn = fnOfValue(st.Val)
											}
										}
									}
								}
							}
						}
						if fn != nil {
							rows[k] = fn
						} else {
							clean = false
						}
					case *ssa.FieldAddr:
						if y.Field != fieldIdx || y.Referrers() == nil {
							continue
						}
						for _, r3 := range *y.Referrers() {
							if st, ok := r3.(*ssa.Store); ok {
								if fn := fnOfValue(st.Val); fn != nil {
									rows[k] = fn
								} else {
									clean = false
								}
							}
						}
					}
				}
			default:
				clean = false
			}
		}
		if !clean || len(rows) == 0 {
			stepDbg("%s: rows clean=%v n=%d", f.Name(), clean, len(rows))
			continue
		}
		var fns []*ssa.Function
		for k := int64(0); k < int64(len(rows)); k++ {
			fn, ok := rows[k]
			if !ok {
				fns = nil
				break
			}
			fns = append(fns, fn)
		}
		if fns == nil {
			continue
		}
		// the index is the range variable: phi, or phi+1 in go/ssa's rotated
		// range loops, tested against the length on the way in
		var phi *ssa.Phi
		switch x := ia.Index.(type) {
		case *ssa.Phi:
			phi = x
		case *ssa.BinOp:
			if k, isK := constInt(x.Y); x.Op == token.ADD && isK && k == 1 {
				phi, _ = x.X.(*ssa.Phi)
			}
		}
		if phi == nil {
			stepDbg("%s: index not a range variable", f.Name())
			continue
		}
		hdr := phi.Block()
		isRangeCond := func(g Guard) bool {
			b, ok := g.Cond.(*ssa.BinOp)
			if !ok || b.Op != token.LSS || b.X != ia.Index {
				return false
			}
			lc, _ := originCallLocal(b.Y)
			return lc != nil && callName(lc.Common()) == "builtin.len"
		}
		// called on every iteration: the only test between the header and
		// the call is the range condition
		okUncond := true
		for _, g := range guardsOf(call.Block()) {
			if g.Derived || g.If == nil || !inNaturalLoop(g.If.Block(), hdr) {
				continue
			}
			if !(isRangeCond(g) && g.Branch) {
				okUncond = false
			}
		}
		// the next iteration is reached only after the call returned nil
		errIdx := call.Common().Signature().Results().Len() - 1
		if errIdx < 0 || !types.Identical(call.Common().Signature().Results().At(errIdx).Type(), types.Universe.Lookup("error").Type()) {
			continue
		}
		isOK := func(g Guard) bool {
			return gNil(g, false, func(v ssa.Value) bool { cc2, idx := originCallLocal(v); return cc2 == call && idx == errIdx })
		}
		okAbort := true
		seen := map[*ssa.BasicBlock]bool{}
		var walk func(b *ssa.BasicBlock)
		walk = func(b *ssa.BasicBlock) {
			if seen[b] || !okAbort {
				return
			}
			seen[b] = true
			iff, isIf := b.Instrs[len(b.Instrs)-1].(*ssa.If)
			for i, sc := range b.Succs {
				if isIf && len(b.Succs) == 2 {
					cond, br := iff.Cond, i == 0
					for {
						if u, ok := cond.(*ssa.UnOp); ok && u.Op == token.NOT {
							cond, br = u.X, !br
							continue
						}
						break
					}
					if isOK(Guard{Cond: cond, Branch: br, If: iff}) {
						continue
					}
				}
				if sc == hdr {
					okAbort = false
					return
				}
				if inNaturalLoop(sc, hdr) {
					walk(sc)
				}
			}
		}
		walk(call.Block())
		// or: nothing leaves the loop except the range running out
		okRunAll := true
		for _, b := range f.Blocks {
			if b == hdr || !inNaturalLoop(b, hdr) {
				continue
			}
			if len(b.Succs) == 0 {
				okRunAll = false
			}
			for _, sc := range b.Succs {
				if !inNaturalLoop(sc, hdr) {
					okRunAll = false
				}
			}
		}
		if !okUncond || !(okAbort || okRunAll) {
			stepDbg("%s: uncond=%v abort=%v runall=%v", f.Name(), okUncond, okAbort, okRunAll)
			continue
		}
		out = append(out, &stepTable{Fns: fns, Call: call, Header: hdr, ExitEdge: func(g Guard) bool { return isRangeCond(g) && !g.Branch }, Abort: okAbort, RunAll: okRunAll})
	}
	return out
}

// rangeOverLiteral: ia indexes a slice literal built in the same function
// with the variable of a range loop over it, in a block that runs on every
// iteration (the only test between the loop header and the block is the
// range condition). Returns the literal's elements in order: the loop is
// the sequence of its body for rows[0], rows[1], ...
func rangeOverLiteral(ia *ssa.IndexAddr, at *ssa.BasicBlock) (rows []ssa.Value, hdr *ssa.BasicBlock, ok bool) {
	sl, isSl := ia.X.(*ssa.Slice)
	if !isSl || sl.Low != nil || sl.High != nil {
		return nil, nil, false
	}
	arr, isA := sl.X.(*ssa.Alloc)
	if !isA || arr.Referrers() == nil {
		return nil, nil, false
	}
	byIdx := map[int64]ssa.Value{}
	for _, ref := range *arr.Referrers() {
		switch x := ref.(type) {
		case *ssa.Slice:
		case *ssa.IndexAddr:
			k, isK := constInt(x.Index)
			if !isK || x.Referrers() == nil {
				return nil, nil, false
			}
			for _, r2 := range *x.Referrers() {
				st, isSt := r2.(*ssa.Store)
				if !isSt || st.Addr != ssa.Value(x) {
					return nil, nil, false
				}
				byIdx[k] = st.Val
			}
		default:
			return nil, nil, false
		}
	}
	for k := int64(0); k < int64(len(byIdx)); k++ {
		v, has := byIdx[k]
		if !has {
			return nil, nil, false
		}
		rows = append(rows, v)
	}
	if len(rows) == 0 {
		return nil, nil, false
	}
	var phi *ssa.Phi
	switch x := ia.Index.(type) {
	case *ssa.Phi:
		phi = x
	case *ssa.BinOp:
		if k, isK := constInt(x.Y); x.Op == token.ADD && isK && k == 1 {
			phi, _ = x.X.(*ssa.Phi)
		}
	}
	if phi == nil {
		return nil, nil, false
	}
	hdr = phi.Block()
	for _, g := range guardsOf(at) {
		if g.Derived || g.If == nil || !inNaturalLoop(g.If.Block(), hdr) {
			continue
		}
		b, isB := g.Cond.(*ssa.BinOp)
		if !isB || b.Op != token.LSS || b.X != ia.Index || !g.Branch {
			return nil, nil, false
		}
		if lc, _ := originCallLocal(b.Y); lc == nil || callName(lc.Common()) != "builtin.len" {
			return nil, nil, false
		}
	}
	return rows, hdr, true
}

// onEveryPath: the instruction runs on every path through its function that
// ends in a return: its block stands under no test, and no return can be
// reached without passing it (an early `return` in front of it is a test
// too, although it guards no block that dominance would show).
func onEveryPath(in ssa.Instruction) bool {
	b := in.Block()
	if b == nil || len(guardsOf(b)) != 0 {
		return false
	}
	f := b.Parent()
	for _, ret := range returnsOf(f) {
		rb := ret.Block()
		if rb == b {
			continue
		}
		if !b.Dominates(rb) {
			return false
		}
	}
	return true
}

// flowsFromField: v is computed from a load of the named field - through
// calls (any argument), locals, slices, arithmetic, conversions and phis.
func flowsFromField(v ssa.Value, field string) bool {
	seen := map[ssa.Value]bool{}
	var walk func(v ssa.Value, depth int) bool
	walk = func(v ssa.Value, depth int) bool {
		if v == nil || depth > 14 || seen[v] {
			return false
		}
		seen[v] = true
		if f, _ := fieldLoad(v); f != nil && f.Name() == field {
			return true
		}
		switch x := v.(type) {
		case *ssa.UnOp:
			return walk(x.X, depth+1)
		case *ssa.FieldAddr:
			if f := fieldOfAddr(x); f != nil && f.Name() == field {
				return true
			}
			return false
		case *ssa.Slice:
			return walk(x.X, depth+1)
		case *ssa.IndexAddr:
			return walk(x.X, depth+1)
		case *ssa.Index:
			return walk(x.X, depth+1)
		case *ssa.Convert:
			return walk(x.X, depth+1)
		case *ssa.ChangeType:
			return walk(x.X, depth+1)
		case *ssa.MakeInterface:
			return walk(x.X, depth+1)
		case *ssa.Extract:
			return walk(x.Tuple, depth+1)
		case *ssa.BinOp:
			return walk(x.X, depth+1) || walk(x.Y, depth+1)
		case *ssa.Phi:
			for _, e := range x.Edges {
				if walk(e, depth+1) {
					return true
				}
			}
		case *ssa.Call:
			for _, a := range x.Common().Args {
				if walk(a, depth+1) {
					return true
				}
			}
		case *ssa.Alloc:
			if x.Referrers() != nil {
				for _, ref := range *x.Referrers() {
					if st, ok := ref.(*ssa.Store); ok && st.Addr == ssa.Value(x) && walk(st.Val, depth+1) {
						return true
					}
				}
			}
		}
		return false
	}
	return walk(v, 0)
}
