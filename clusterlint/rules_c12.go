package main

import (
	"fmt"
	"go/ast"
	"go/token"
	"go/types"
	"sort"
	"strings"

	"golang.org/x/tools/go/packages"
	"golang.org/x/tools/go/ssa"
)

func init() {
	register(
		&Rule{ID: "R12.1", Props: []string{"C12"}, Floor: 8, Title: "proxy hijack handlers answer exactly once on every path and perform no cluster operation after an error response", Run: r121},
		&Rule{ID: "R12.2", Props: []string{"C12"}, Floor: 3, Title: "requests the proxy itself sends to the daemon are OPTIONS or the header-extraction path; hijack handlers never reach the reverse proxy", Run: r122},
		&Rule{ID: "R12.3", Props: []string{"C12"}, Floor: 12, Title: "routing: hijack subrouter limited to POST/GET/PUT under /api/v0, exactly the pinning endpoints hijacked, each mapped to the replacing cluster operation, catch-all reverse proxy registered last", Run: r123},
		&Rule{ID: "R12.5", Props: []string{"C12"}, Floor: 4, Title: "each hijack handler reads the IPFS API's own option names (arg, type, unpin, pin, only-hash, trickle, stream-errors): a request option read under another name is silently ignored", Run: r125},
		&Rule{ID: "R12.4", Props: []string{"C12"}, Floor: 3, Title: "slash-style routes add the path argument to the request's own query and delegate", Run: r124},
	)
}

// rpcTargetsFrom lists the RPC endpoints called from f and from the
// same-package functions it calls statically (context-sensitive for
// parameter-dependent sites), without following the RPC itself.
func (c *Ctx) rpcTargetsFrom(f *ssa.Function) map[string]bool {
	out := map[string]bool{}
	type frame struct {
		f     *ssa.Function
		chain []ssa.CallInstruction
	}
	seen := map[*ssa.Function]int{}
	var walk func(fr frame, depth int)
	walk = func(fr frame, depth int) {
		if depth > 6 || seen[fr.f] > 4 {
			return
		}
		seen[fr.f]++
		visit := func(g *ssa.Function) {
			for _, ci := range callsIn(g) {
				if ts, ok := c.rpcTargets[ci]; ok {
					if c.rpcParam[ci] && len(fr.chain) > 0 && g == fr.f {
						if cts := c.rpcTargetsIn(g, ci, fr.chain); cts != nil {
							ts = cts
						}
					}
					for _, t := range ts {
						out[rpcNameOf(t)] = true
					}
					continue
				}
				if nameMatches(callName(ci.Common()), "adder/adderutils.AddMultipartHTTPHandler") {
					out["(adder)"] = true
				}
				if cal := ci.Common().StaticCallee(); cal != nil && cal.Pkg == g.Pkg && cal.Blocks != nil && g.Pkg != nil {
					walk(frame{cal, append([]ssa.CallInstruction{ci}, fr.chain...)}, depth+1)
				}
			}
		}
		withAnon(fr.f, visit)
	}
	walk(frame{f, nil}, 0)
	return out
}

func rpcNameOf(m *ssa.Function) string {
	// (*pkg.ClusterRPCAPI).Pin -> Cluster.Pin
	s := m.String()
	i := strings.LastIndex(s, ".")
	recv := s[:i]
	meth := s[i+1:]
	j := strings.LastIndex(recv, ".")
	t := strings.TrimSuffix(recv[j+1:], ")")
	return strings.TrimSuffix(t, "RPCAPI") + "." + meth
}

// readOnlyRPC lists the endpoints that do not change the pinset, the
// peerset or IPFS.
var readOnlyRPC = map[string]bool{
	"Cluster.ID": true, "Cluster.Version": true, "Cluster.Peers": true, "Cluster.PinGet": true, "Cluster.Pins": true,
	"Cluster.Status": true, "Cluster.StatusAll": true, "Cluster.StatusLocal": true, "Cluster.StatusAllLocal": true,
	"Cluster.Alerts": true, "Cluster.ConnectGraph": true,
	"PeerMonitor.LatestMetrics": true, "PeerMonitor.MetricNames": true, "Consensus.Peers": true,
	"IPFSConnector.RepoStat": true, "IPFSConnector.SwarmPeers": true, "IPFSConnector.Resolve": true,
	"IPFSConnector.PinLs": true, "IPFSConnector.PinLsCid": true, "IPFSConnector.ConfigKey": true, "IPFSConnector.BlockGet": true,
	"PinTracker.Status": true, "PinTracker.StatusAll": true,
}

func mutatingOf(ts map[string]bool) []string {
	var out []string
	for t := range ts {
		if !readOnlyRPC[t] {
			out = append(out, t)
		}
	}
	sort.Strings(out)
	return out
}

func checkHTTPFunc(r *R, h *httpAnalysis, fn *types.Func, label string, exactlyOne bool) {
	sum := h.summarise(fn)
	fd := h.decls[fn]
	for _, v := range h.viol[fn] {
		r.Bad(label+":"+v.kind, v.pos, "%s: %s", fn.Name(), v.msg)
	}
	if len(h.viol[fn]) == 0 {
		r.OK(label+":discipline", fd.Pos(), "%s: no second response and no operation after an error response (%d respond events, %d operate events)", fn.Name(), h.resp[fn], h.ops[fn])
	}
	if exactlyOne {
		bad := false
		for _, s := range statesOf(sum) {
			if hR(s) != 1 {
				bad = true
			}
		}
		if bad {
			r.Bad(label+":exactly-one", fd.Pos(), "%s does not write exactly one response on every path; exit states: %s", fn.Name(), describeHTTP(sum))
		} else {
			r.OK(label+":exactly-one", fd.Pos(), "%s writes exactly one response on every path", fn.Name())
		}
	}
}

func handlerFuncs(h *httpAnalysis, recvType string) []*types.Func {
	var out []*types.Func
	for fn := range h.decls {
		sig := fn.Type().(*types.Signature)
		if sig.Recv() == nil || !strings.HasSuffix(sig.Recv().Type().String(), recvType) {
			continue
		}
		if !takesWriter(fn) {
			continue
		}
		// handlers proper: (w, r) or (x, w, r) with a *http.Request; or
		// parse helpers returning a value
		hasReq := false
		for i := 0; i < sig.Params().Len(); i++ {
			if sig.Params().At(i).Type().String() == "*net/http.Request" {
				hasReq = true
			}
		}
		if !hasReq && fn.Name() != "sendResponse" {
			continue
		}
		out = append(out, fn)
	}
	sort.Slice(out, func(i, j int) bool { return out[i].Pos() < out[j].Pos() })
	return out
}

func r121(c *Ctx, r *R) {
	h := newHTTPAnalysis(c, "api/ipfsproxy")
	if h == nil {
		r.Und("pkg", token.NoPos, "ipfsproxy package missing")
		return
	}
	for _, fn := range handlerFuncs(h, "ipfsproxy.Server") {
		sig := fn.Type().(*types.Signature)
		if sig.Results().Len() > 0 {
			continue
		}
		checkHTTPFunc(r, h, fn, "proxy."+fn.Name(), true)
	}
	// the error responder itself writes exactly one head
	for fn := range h.decls {
		if fn.Name() == "ipfsErrorResponder" {
			// analysed as a plain function: WriteHeader events
			h.decls[fn] = h.decls[fn]
			ex, viol, _, _ := h.analyse(fn, h.decls[fn].Body, nil, false)
			ok := len(viol) == 0
			for _, s := range statesOf(ex) {
				if hR(s) != 1 || s&hE == 0 {
					// WriteHeader(code) with a non-constant code is "either"
					if hR(s) != 1 {
						ok = false
					}
				}
			}
			r.Check(ok, "proxy.ipfsErrorResponder:one-head", h.decls[fn].Pos(), "the error responder writes exactly one response head", "ipfsErrorResponder does not write exactly one response head")
		}
	}
}

func r122(c *Ctx, r *R) {
	sp := c.P.SSAPkg("api/ipfsproxy")
	if sp == nil {
		return
	}
	n := 0
	c.P.RepoFuncs(func(f *ssa.Function) {
		root := f
		for root.Parent() != nil {
			root = root.Parent()
		}
		if root.Pkg != sp {
			return
		}
		for _, ci := range findCalls(f, false, "net/http.NewRequest", "net/http.NewRequestWithContext") {
			n++
			a := ci.Common().Args
			off := 0
			if strings.HasSuffix(callName(ci.Common()), "WithContext") {
				off = 1
			}
			m, isK := constString(a[off])
			if !isK {
				if valueMentionsField(a[off], "Method", 6) {
					r.Bad("request:"+f.Name(), ci.Pos(), "%s sends the daemon a request of its own with the client's method: a POST or DELETE chosen by the client reaches the IPFS API on a path the proxy built for reading headers", f.Name())
					continue
				}
				r.Und("request:"+f.Name(), ci.Pos(), "request method is not a constant")
				continue
			}
			if m == "OPTIONS" {
				r.OK("request:"+f.Name(), ci.Pos(), "OPTIONS request (CORS pre-flight headers)")
				continue
			}
			// the URL must be built from config.ExtractHeadersPath and not
			// from the client's request
			url := a[off+1]
			fromCfg := valueMentionsField(url, "ExtractHeadersPath", 8)
			fromReq := valueMentionsField(url, "Path", 8) || valueMentionsField(url, "RawQuery", 8) || valueMentionsField(url, "RequestURI", 8)
			r.Check(fromCfg && !fromReq, "request:"+f.Name(), ci.Pos(), m+" request to the configured header-extraction path",
				fmt.Sprintf("the proxy sends a %s request to the daemon whose URL is not the header-extraction path (from config: %v, from the client's request: %v): a hijacked call reaches the daemon as the call it replaces", m, fromCfg, fromReq))
		}
	})
	if n == 0 {
		r.Und("requests", token.NoPos, "no request construction found in ipfsproxy")
	}
	// hijack handlers never reach the reverse proxy
	h := newHTTPAnalysis(c, "api/ipfsproxy")
	for _, fn := range handlerFuncs(h, "ipfsproxy.Server") {
		f := c.P.SSA.FuncValue(fn)
		if f == nil {
			continue
		}
		path := c.pathTo(f, sinkNamed("httputil.ReverseProxy).ServeHTTP"), reachOpt{})
		r.Check(path == nil, "no-relay:"+fn.Name(), f.Pos(), fn.Name()+" cannot reach the reverse proxy", fn.Name()+" can forward the hijacked request to the daemon: "+strings.Join(path, " -> "))
	}
}

// valueMentionsField: the value is computed from a load of a field with
// this name (through calls, conversions, string building).
func valueMentionsField(v ssa.Value, field string, depth int) bool {
	if depth < 0 || v == nil {
		return false
	}
	if fl, _ := fieldLoad(v); fl != nil && fl.Name() == field {
		return true
	}
	switch x := v.(type) {
	case *ssa.Call:
		for _, a := range x.Common().Args {
			if valueMentionsField(a, field, depth-1) {
				return true
			}
			for _, e := range variadicElems(a) {
				if valueMentionsField(e, field, depth-1) {
					return true
				}
			}
		}
	case *ssa.BinOp:
		return valueMentionsField(x.X, field, depth-1) || valueMentionsField(x.Y, field, depth-1)
	case *ssa.MakeInterface:
		return valueMentionsField(x.X, field, depth-1)
	case *ssa.ChangeType:
		return valueMentionsField(x.X, field, depth-1)
	case *ssa.Convert:
		return valueMentionsField(x.X, field, depth-1)
	case *ssa.UnOp:
		return valueMentionsField(x.X, field, depth-1)
	case *ssa.FieldAddr:
		if fieldOfAddr(x) != nil && fieldOfAddr(x).Name() == field {
			return true
		}
		return valueMentionsField(x.X, field, depth-1)
	case *ssa.Phi:
		for _, e := range x.Edges {
			if valueMentionsField(e, field, depth-1) {
				return true
			}
		}
	case *ssa.Extract:
		return valueMentionsField(x.Tuple, field, depth-1)
	}
	return false
}

// muxRoute is one `X.Path(p).HandlerFunc(h)` / `X.PathPrefix(p).Handler(h)`.
type muxRoute struct {
	path    string
	prefix  bool
	handler ast.Expr
	base    ast.Expr // router expression the chain starts from
	pos     token.Pos
	methods []string
	name    string
}

// muxChain decodes a method chain on a gorilla/mux router or route.
func muxChain(pkg *packages.Package, e ast.Expr) (rt muxRoute, ok bool) {
	return muxChainEnv(pkg, e, nil)
}

// muxChainEnv is muxChain inside a loop over a table of routes: env gives,
// for the loop variable, the expression each field has in the current row.
func muxChainEnv(pkg *packages.Package, e ast.Expr, env map[types.Object]map[string]ast.Expr) (rt muxRoute, ok bool) {
	sub := func(a ast.Expr) ast.Expr {
		if se, isSel := ast.Unparen(a).(*ast.SelectorExpr); isSel && env != nil {
			if id, isID := ast.Unparen(se.X).(*ast.Ident); isID {
				if row, bound := env[pkg.TypesInfo.ObjectOf(id)]; bound {
					if v, has := row[se.Sel.Name]; has {
						return v
					}
				}
			}
		}
		return a
	}
	for {
		call, isCall := ast.Unparen(e).(*ast.CallExpr)
		if !isCall {
			rt.base = e
			return rt, rt.handler != nil || rt.path != "" || len(rt.methods) > 0
		}
		se, isSel := call.Fun.(*ast.SelectorExpr)
		if !isSel {
			rt.base = e
			return rt, rt.handler != nil
		}
		fn := funcFullName(pkg, call)
		if !strings.Contains(fn, "gorilla/mux.") {
			rt.base = e
			return rt, rt.handler != nil || rt.path != ""
		}
		switch se.Sel.Name {
		case "Path":
			rt.path, _ = constStr(pkg, sub(call.Args[0]))
			rt.pos = call.Pos()
		case "PathPrefix":
			rt.path, _ = constStr(pkg, sub(call.Args[0]))
			rt.prefix = true
			rt.pos = call.Pos()
		case "HandlerFunc", "Handler":
			rt.handler = sub(call.Args[0])
		case "Methods":
			for _, a := range call.Args {
				if s, ok := constStr(pkg, sub(a)); ok {
					rt.methods = append(rt.methods, s)
				}
			}
		case "Name":
			rt.name, _ = constStr(pkg, sub(call.Args[0]))
		}
		e = se.X
	}
}

func r123(c *Ctx, r *R) {
	fd, pkg := c.decl(r, "api/ipfsproxy", "New")
	if fd == nil {
		return
	}
	var sub types.Object // hijack subrouter variable
	var subMethods []string
	var subPrefix string
	var routes []muxRoute
	var catchAll *muxRoute
	ast.Inspect(fd.Body, func(n ast.Node) bool {
		switch x := n.(type) {
		case *ast.AssignStmt:
			if len(x.Lhs) == 1 && len(x.Rhs) == 1 {
				if call, ok := x.Rhs[0].(*ast.CallExpr); ok {
					if se, ok := call.Fun.(*ast.SelectorExpr); ok && se.Sel.Name == "Subrouter" {
						rt, _ := muxChain(pkg, se.X)
						if id, ok := x.Lhs[0].(*ast.Ident); ok {
							sub = pkg.TypesInfo.ObjectOf(id)
							subMethods = rt.methods
							subPrefix = rt.path
						}
					}
				}
			}
		case *ast.RangeStmt:
			// routes kept in a table and registered in a loop: one route per
			// row, read like the statements the loop replaces
			v, isID := x.Value.(*ast.Ident)
			rows, _ := astTable(pkg, x.X, 0)
			if !isID || len(rows) == 0 {
				return true
			}
			obj := pkg.TypesInfo.ObjectOf(v)
			for _, st := range x.Body.List {
				es, ok := st.(*ast.ExprStmt)
				if !ok {
					continue
				}
				for _, row := range rows {
					rt, ok := muxChainEnv(pkg, es.X, map[types.Object]map[string]ast.Expr{obj: row})
					if !ok || rt.handler == nil {
						continue
					}
					if id, isID := ast.Unparen(rt.base).(*ast.Ident); isID && sub != nil && pkg.TypesInfo.ObjectOf(id) == sub {
						routes = append(routes, rt)
					} else if rt.prefix && rt.path == "/" {
						cp := rt
						catchAll = &cp
					} else {
						routes = append(routes, rt)
					}
				}
			}
			return false
		case *ast.ExprStmt:
			rt, ok := muxChain(pkg, x.X)
			if !ok || rt.handler == nil {
				return true
			}
			if id, isID := ast.Unparen(rt.base).(*ast.Ident); isID && sub != nil && pkg.TypesInfo.ObjectOf(id) == sub {
				routes = append(routes, rt)
			} else if rt.prefix && rt.path == "/" {
				cp := rt
				catchAll = &cp
			} else {
				routes = append(routes, rt)
			}
		}
		return true
	})
	if sub == nil {
		r.Und("subrouter", fd.Pos(), "hijack subrouter not found")
		return
	}
	sort.Strings(subMethods)
	r.Check(strings.Join(subMethods, ",") == "GET,POST,PUT", "subrouter:methods", fd.Pos(), "hijacking is limited to POST, GET and PUT", fmt.Sprintf("the hijack subrouter matches methods %v (expected POST, GET, PUT): OPTIONS/HEAD pre-flights would be answered by cluster, or mutating verbs relayed", subMethods))
	r.Check(subPrefix == "/api/v0", "subrouter:prefix", fd.Pos(), "hijacking is limited to /api/v0", "the hijack subrouter prefix is "+subPrefix)
	if catchAll == nil {
		r.Bad("catch-all", fd.Pos(), "no catch-all route to the reverse proxy: non-hijacked requests are not relayed")
	} else {
		isRP := strings.Contains(pkg.TypesInfo.TypeOf(catchAll.handler).String(), "httputil.ReverseProxy")
		last := true
		for _, rt := range routes {
			if rt.pos > catchAll.pos {
				last = false
			}
		}
		r.Check(isRP && last, "catch-all", catchAll.pos, "everything else goes to the reverse proxy, registered after the hijacked routes", "the catch-all is not the reverse proxy or is registered before a hijacked route (it would shadow it)")
	}
	// expected semantic of each hijacked path
	type want struct {
		must    []string // RPC that must be reachable
		mutOK   bool     // may reach mutating RPCs at all
		mustNot []string
	}
	expected := map[string]want{
		"/pin/add":       {must: []string{"Cluster.PinPath"}, mutOK: true, mustNot: []string{"Cluster.UnpinPath", "Cluster.Unpin"}},
		"/pin/add/{arg}": {must: []string{"Cluster.PinPath"}, mutOK: true, mustNot: []string{"Cluster.UnpinPath", "Cluster.Unpin"}},
		"/pin/rm":        {must: []string{"Cluster.UnpinPath"}, mutOK: true, mustNot: []string{"Cluster.PinPath", "Cluster.Pin"}},
		"/pin/rm/{arg}":  {must: []string{"Cluster.UnpinPath"}, mutOK: true, mustNot: []string{"Cluster.PinPath", "Cluster.Pin"}},
		"/pin/ls":        {},
		"/pin/ls/{arg}":  {},
		"/pin/update":    {must: []string{"Cluster.PinPath"}, mutOK: true},
		"/add":           {must: []string{"(adder)"}, mutOK: true},
		"/repo/stat":     {},
		"/repo/gc":       {must: []string{"Cluster.RepoGC"}, mutOK: true},
	}
	seen := map[string]bool{}
	for _, rt := range routes {
		w, known := expected[rt.path]
		if !known {
			r.Bad("route:"+rt.path, rt.pos, "the proxy hijacks %s, which is not one of the pinning endpoints: it is no longer relayed to the daemon", rt.path)
			continue
		}
		seen[rt.path] = true
		// resolve handler
		he := ast.Unparen(rt.handler)
		slash := false
		if call, ok := he.(*ast.CallExpr); ok && funcFullName(pkg, call) == ModPath+"/api/ipfsproxy.slashHandler" {
			slash = true
			he = ast.Unparen(call.Args[0])
		}
		r.Check(slash == strings.HasSuffix(rt.path, "/{arg}"), "route-style:"+rt.path, rt.pos, "argument style matches the handler wrapper", "slash-style route without slashHandler (or the reverse): the path argument is lost")
		var fn *types.Func
		if se, ok := he.(*ast.SelectorExpr); ok {
			fn, _ = pkg.TypesInfo.Uses[se.Sel].(*types.Func)
		}
		f := c.P.SSA.FuncValue(fn)
		if fn == nil || f == nil {
			r.Und("route:"+rt.path, rt.pos, "handler of %s is not a method value", rt.path)
			continue
		}
		ts := c.rpcTargetsFrom(f)
		mut := mutatingOf(ts)
		ok := true
		why := ""
		for _, m := range w.must {
			if !ts[m] {
				ok = false
				why += " does not reach " + m + ";"
			}
		}
		for _, m := range w.mustNot {
			if ts[m] {
				ok = false
				why += " reaches " + m + ";"
			}
		}
		if !w.mutOK && len(mut) > 0 {
			ok = false
			why += fmt.Sprintf(" read-only route reaches mutating %v;", mut)
		}
		r.Check(ok, "route:"+rt.path, rt.pos, fmt.Sprintf("%s -> %s performs %v", rt.path, fn.Name(), keysOf(ts)), fmt.Sprintf("%s -> %s:%s", rt.path, fn.Name(), why))
	}
	for p := range expected {
		if !seen[p] {
			r.Bad("route:"+p, fd.Pos(), "%s is no longer hijacked: the request reaches the daemon and pins/unpins outside cluster", p)
		}
	}
}

func keysOf(m map[string]bool) []string {
	var out []string
	for k := range m {
		out = append(out, k)
	}
	sort.Strings(out)
	return out
}

func r124(c *Ctx, r *R) {
	f := c.fn(r, "api/ipfsproxy", "slashHandler")
	if f == nil {
		return
	}
	// the handler slashHandler returns: a closure over the original
	// handler, or a method of a small type that holds it
	var g *ssa.Function
	var made *ssa.MakeClosure
	for _, lf := range returnLeaves(f, 0) {
		h := fnOfValue(lf.Val)
		if h == nil || (g != nil && g != h) {
			g = nil
			break
		}
		g = h
		made, _ = strip(lf.Val).(*ssa.MakeClosure)
	}
	if g == nil || len(g.Blocks) == 0 {
		r.Und("closure", f.Pos(), "slashHandler does not return a single handler function")
		return
	}
	off := 0
	if g.Signature.Recv() != nil {
		off = 1
	}
	okSet := false
	var qv ssa.Value
	for _, dc := range findCallsDeep(g, "(net/url.Values).Set") {
		ci := dc.Inner
		a := ci.Common().Args
		k, _ := constString(a[1])
		q, _ := originCall(a[0])
		l, _ := mapLookupOf(a[2])
		fromVars := false
		if l != nil {
			if vc, _ := originCall(l.X); vc != nil && nameMatches(callName(vc.Common()), "gorilla/mux.Vars") {
				if lk, _ := constString(l.Index); lk == "arg" {
					fromVars = true
				}
			}
		}
		if k == "arg" && fromVars {
			if q != nil && nameMatches(callName(q.Common()), "(*net/url.URL).Query") {
				okSet = true
				qv = a[0]
			} else {
				r.Bad("slash:own-query", ci.Pos(), "the path argument is set on a fresh query instead of the request's own query: all other options of a slash-style request (type, unpin, ...) are dropped")
			}
		}
	}
	r.Check(okSet, "slash:sets-arg", g.Pos(), "arg=<path variable> is added to the request's own query", "slashHandler does not add the path variable as ?arg= to the request's query")
	okStore := false
	instrsDeep(g, func(i ssa.Instruction) {
		st, ok := i.(*ssa.Store)
		if !ok {
			return
		}
		fl, _ := fieldOfAddrValue(st.Addr)
		if fl == nil || fl.Name() != "RawQuery" {
			return
		}
		if enc, _ := originCall(st.Val); enc != nil && nameMatches(callName(enc.Common()), "(net/url.Values).Encode") && qv != nil && enc.Common().Args[0] == qv {
			okStore = true
		}
	})
	r.Check(okStore, "slash:writes-query", g.Pos(), "the modified query is written back to the request", "the modified query is not written back to r.URL.RawQuery")
	// delegation: the function called with (w, r) is the handler that
	// slashHandler was given - captured by the closure, or kept in a field
	// of the method's receiver
	isOrig := func(cv ssa.Value) bool {
		if u, ok := cv.(*ssa.UnOp); ok && u.Op == token.MUL {
			cv = u.X
		}
		if fv, ok := cv.(*ssa.FreeVar); ok && made != nil {
			for i, x := range g.FreeVars {
				if x == fv && i < len(made.Bindings) {
					b := made.Bindings[i]
					if paramIndex(f, b) == 0 {
						return true
					}
					// captured by reference: the binding is the cell of the parameter
					if al, ok := b.(*ssa.Alloc); ok && al.Referrers() != nil {
						for _, ref := range *al.Referrers() {
							if st, ok := ref.(*ssa.Store); ok && st.Addr == ssa.Value(al) && paramIndex(f, st.Val) == 0 {
								return true
							}
						}
					}
				}
			}
			return false
		}
		// a func-typed field of the receiver, filled with the parameter
		// where slashHandler builds the receiver
		var fld *types.Var
		switch x := cv.(type) {
		case *ssa.FieldAddr:
			fld = fieldOfAddr(x)
		case *ssa.Field:
			if st := structOf(x.X.Type()); st != nil {
				fld = st.Field(x.Field)
			}
		}
		if fld == nil || off == 0 {
			return false
		}
		ok := false
		instrs(f, func(i ssa.Instruction) {
			if st, isSt := i.(*ssa.Store); isSt {
				if fa, isFA := st.Addr.(*ssa.FieldAddr); isFA && fieldOfAddr(fa) == fld && paramIndex(f, st.Val) == 0 {
					ok = true
				}
			}
		})
		return ok
	}
	okDel := false
	for _, ci := range callsIn(g) {
		if ci.Common().IsInvoke() || ci.Common().StaticCallee() != nil {
			continue
		}
		if isOrig(ci.Common().Value) {
			a := ci.Common().Args
			if len(a) == 2 && paramIndex(g, a[0]) == off && paramIndex(g, a[1]) == off+1 {
				okDel = true
			}
		}
	}
	r.Check(okDel, "slash:delegates", g.Pos(), "the original handler is called with the same writer and request", "slashHandler does not delegate to the original handler")
}

// astTable reads e as a table: a slice/array literal of structs, written in
// place, returned by a function of the same package, or kept in a variable.
// Each row maps field names to the expressions given for them.
func astTable(pkg *packages.Package, e ast.Expr, depth int) ([]map[string]ast.Expr, *types.Struct) {
	if depth > 3 {
		return nil, nil
	}
	e = ast.Unparen(e)
	switch x := e.(type) {
	case *ast.CompositeLit:
		t := pkg.TypesInfo.TypeOf(x)
		if t == nil {
			return nil, nil
		}
		var elem types.Type
		switch u := t.Underlying().(type) {
		case *types.Slice:
			elem = u.Elem()
		case *types.Array:
			elem = u.Elem()
		default:
			return nil, nil
		}
		if p, ok := elem.Underlying().(*types.Pointer); ok {
			elem = p.Elem()
		}
		st, ok := elem.Underlying().(*types.Struct)
		if !ok {
			return nil, nil
		}
		var rows []map[string]ast.Expr
		for _, el := range x.Elts {
			if kv, ok := el.(*ast.KeyValueExpr); ok {
				el = kv.Value
			}
			el = ast.Unparen(el)
			if u, ok := el.(*ast.UnaryExpr); ok && u.Op == token.AND {
				el = ast.Unparen(u.X)
			}
			cl, ok := el.(*ast.CompositeLit)
			if !ok {
				return nil, nil
			}
			row := map[string]ast.Expr{}
			for i, f := range cl.Elts {
				if kv, ok := f.(*ast.KeyValueExpr); ok {
					if id, ok := kv.Key.(*ast.Ident); ok {
						row[id.Name] = kv.Value
					}
				} else if i < st.NumFields() {
					row[st.Field(i).Name()] = f
				}
			}
			rows = append(rows, row)
		}
		return rows, st
	case *ast.CallExpr:
		fn := calleeObj(pkg, x)
		if fn == nil || fn.Pkg() != pkg.Types {
			return nil, nil
		}
		for _, f := range pkg.Syntax {
			for _, d := range f.Decls {
				fd, ok := d.(*ast.FuncDecl)
				if !ok || fd.Body == nil || pkg.TypesInfo.Defs[fd.Name] != types.Object(fn) {
					continue
				}
				var rets []*ast.ReturnStmt
				ast.Inspect(fd.Body, func(n ast.Node) bool {
					if _, isLit := n.(*ast.FuncLit); isLit {
						return false
					}
					if rs, ok := n.(*ast.ReturnStmt); ok {
						rets = append(rets, rs)
					}
					return true
				})
				if len(rets) != 1 || len(rets[0].Results) != 1 {
					return nil, nil
				}
				return astTable(pkg, rets[0].Results[0], depth+1)
			}
		}
	case *ast.Ident:
		obj := pkg.TypesInfo.ObjectOf(x)
		if obj == nil {
			return nil, nil
		}
		var def ast.Expr
		n := 0
		for _, f := range pkg.Syntax {
			ast.Inspect(f, func(nd ast.Node) bool {
				switch y := nd.(type) {
				case *ast.AssignStmt:
					if len(y.Lhs) == len(y.Rhs) {
						for i, l := range y.Lhs {
							if id, ok := l.(*ast.Ident); ok && pkg.TypesInfo.ObjectOf(id) == obj {
								def = y.Rhs[i]
								n++
							}
						}
					}
				case *ast.ValueSpec:
					if len(y.Names) == len(y.Values) {
						for i, id := range y.Names {
							if pkg.TypesInfo.ObjectOf(id) == obj {
								def = y.Values[i]
								n++
							}
						}
					}
				}
				return true
			})
		}
		if n == 1 {
			return astTable(pkg, def, depth+1)
		}
	}
	return nil, nil
}

// r125: the proxy impersonates the IPFS HTTP API, so the option names its
// handlers read are fixed by that API, not by cluster's own REST vocabulary
// (where the pin mode is "mode", not "type"). The table is the reviewed set
// of names per handler on the pinned tree; a handler that stops reading one
// of them drops that option of the request, one that reads a different name
// reads nothing.
func r125(c *Ctx, r *R) {
	want := map[string][]string{
		"Server.pinOpHandler":     {"arg", "type"},
		"Server.pinLsHandler":     {"arg"},
		"Server.pinUpdateHandler": {"arg", "unpin"},
		"Server.addHandler":       {"only-hash", "pin", "trickle"},
		"Server.repoGCHandler":    {"stream-errors"},
	}
	var names []string
	for n := range want {
		names = append(names, n)
	}
	sort.Strings(names)
	for _, n := range names {
		f := c.fn(r, "api/ipfsproxy", n)
		if f == nil {
			continue
		}
		within := ssaClosure(f)
		got := map[string]bool{}
		for g := range within {
			if g != f && len(g.Params) > 0 && g.Signature.Recv() != nil && strings.HasSuffix(g.Name(), "Handler") {
				continue // another handler reached through a shared dispatcher
			}
			for _, ci := range callsIn(g) {
				if nameMatches(callName(ci.Common()), "(net/url.Values).Get", "(net/url.Values).Has") {
					args := callArgs(ci.Common())
					ks, _ := constStringsReaching(args[len(args)-1], within)
					for k := range ks {
						got[k] = true
					}
				}
			}
			instrs(g, func(i ssa.Instruction) {
				if lk, ok := i.(*ssa.Lookup); ok && strings.HasSuffix(lk.X.Type().String(), "net/url.Values") {
					if k, isK := constString(lk.Index); isK {
						got[k] = true
					}
				}
			})
		}
		var missing []string
		for _, k := range want[n] {
			if !got[k] {
				missing = append(missing, k)
			}
		}
		r.Check(len(missing) == 0, "ipfs-options:"+n, f.Pos(), fmt.Sprintf("%s reads the IPFS API options %v", n, want[n]), fmt.Sprintf("%s no longer reads the IPFS API option(s) %v of the request (it reads %v): what the client asked for is silently ignored", n, missing, keysOf(got)))
	}
}
