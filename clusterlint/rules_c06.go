package main

import (
	"fmt"
	"go/ast"
	"go/constant"
	"go/token"
	"go/types"
	"sort"
	"strings"

	"golang.org/x/tools/go/packages"
	"golang.org/x/tools/go/ssa"
)

func init() {
	register(
		&Rule{ID: "R06.1", Props: []string{"C06"}, Floor: 1, Title: "StatusAll returns only entries whose status matches the filter (final filter)", Run: r061},
		&Rule{ID: "R06.2", Props: []string{"C06"}, Floor: 5, Title: "localStatus: the filter shortcut masks cover every status the guarded regions produce; each arm assigns the status it tested", Run: r062},
		&Rule{ID: "R06.3", Props: []string{"C06"}, Floor: 16, Title: "Operation.ToTrackerStatus is total over (type, phase) and maps each pair into the class the property names", Run: r063},
		&Rule{ID: "R06.4", Props: []string{"C06", "C05"}, Floor: 4, Title: "Status and StatusAll classify 'in the pinset, not on IPFS' in the same class and decide meta before remote before IPFS", Run: r064},
		&Rule{ID: "R05.7", Props: []string{"C05", "C06"}, Floor: 1, Title: "the listing StatusAll/RecoverAll work from is interpreted soundly: presence in the listing means 'pinned here' only for a recursive-only listing, a wider listing is compared with each pin's mode", Run: r057},
		&Rule{ID: "R06.5", Props: []string{"C06"}, Floor: 1, Title: "the IPFS listing used by StatusAll covers every pin mode the per-CID view understands", Run: r065},
		&Rule{ID: "R06.6", Props: []string{"C06"}, Floor: 2, Title: "GlobalPinInfo holds one entry per peer: PeerMap is a map keyed by the peer and Add is its only writer", Run: r066},
		&Rule{ID: "R06.7", Props: []string{"C06"}, Floor: 15, Title: "tracker status algebra: simple statuses are distinct single bits, composites are the OR of their members, every constant has a name, Match is bit intersection", Run: r067},
	)
}

// statusClass partitions the tracker statuses as the property does.
func statusClass(name string) string {
	switch name {
	case "TrackerStatusPinned":
		return "pinned"
	case "TrackerStatusUnpinned":
		return "unpinned"
	case "TrackerStatusRemote":
		return "remote"
	case "TrackerStatusSharded":
		return "sharded"
	case "TrackerStatusPinError", "TrackerStatusUnpinError", "TrackerStatusClusterError", "TrackerStatusUnexpectedlyUnpinned", "TrackerStatusError":
		return "error"
	case "TrackerStatusPinQueued", "TrackerStatusUnpinQueued", "TrackerStatusPinning", "TrackerStatusUnpinning", "TrackerStatusQueued":
		return "pending"
	}
	return "undefined"
}

// constName names a declared constant of the expression, if it is one.
func constName(pkg *packages.Package, e ast.Expr) string {
	switch x := ast.Unparen(e).(type) {
	case *ast.Ident:
		if k, ok := pkg.TypesInfo.Uses[x].(*types.Const); ok {
			return k.Name()
		}
	case *ast.SelectorExpr:
		if k, ok := pkg.TypesInfo.Uses[x.Sel].(*types.Const); ok {
			return k.Name()
		}
	}
	return ""
}

func r061(c *Ctx, r *R) {
	f := c.fn(r, "pintracker/stateless", "Tracker.StatusAll")
	if f == nil {
		return
	}
	// every append whose result can be returned is guarded by Match(filter)
	n := 0
	for _, ci := range callsInDeep(f) { // StatusAll and the helpers extracted from it
		if callName(ci.Common()) != "builtin.append" {
			continue
		}
		n++
		ok := guardedBy(ci.Block(), func(g Guard) bool {
			call, _ := originCall(g.Cond)
			if call == nil || !g.Branch || !nameMatches(callName(call.Common()), "api.TrackerStatus).Match") {
				return false
			}
			a := call.Common().Args
			return len(a) == 2 && paramIndex(f, a[1]) == 2
		})
		r.Check(ok, "final-filter", ci.Pos(), "entries are appended to the result only under Status.Match(filter)", "StatusAll appends entries without testing Status.Match(filter): a filtered listing contains entries outside the filter (the state/IPFS shortcuts in localStatus produce placeholder statuses)")
	}
	if n == 0 {
		// result built differently
		r.Und("final-filter", f.Pos(), "StatusAll builds its result without append: shape not recognised")
	}
	// the operation tracker's view takes precedence for every CID it
	// knows, exactly as in Status (GetExists answers first there): each
	// element of the complete operation list overwrites the entry of its
	// CID, unconditionally (a filter applied at this point keeps the stale
	// local entry of an operation that does not match the filter).
	var getAll *ssa.Call
	for _, ci := range callsInDeep(f) {
		if nameMatches(callName(ci.Common()), "optracker.OperationTracker).GetAll") {
			getAll, _ = ci.(*ssa.Call)
		}
	}
	if getAll == nil {
		r.Bad("overlay:complete", f.Pos(), "StatusAll does not overlay the complete list of tracked operations (OperationTracker.GetAll): the per-CID view (Status) answers from the tracker for every tracked CID")
		return
	}
	overlays := 0
	instrsDeep(f, func(i ssa.Instruction) {
		mu, ok := i.(*ssa.MapUpdate)
		if !ok {
			return
		}
		// value stored: an element of GetAll's result
		ld, ok := mu.Value.(*ssa.UnOp)
		if !ok {
			return
		}
		ia, ok := ld.X.(*ssa.IndexAddr)
		if !ok || ia.X != ssa.Value(getAll) {
			return
		}
		overlays++
		var extra []string
		for _, g := range guardsOf(mu.Block()) {
			if g.If.Parent() != getAll.Parent() {
				continue // a guard of the call site of the helper the overlay lives in: decided before
			}
			if g.If.Block() == getAll.Block() || g.If.Block().Dominates(getAll.Block()) {
				continue // decided before the operation list was taken
			}
			if bo, ok := g.Cond.(*ssa.BinOp); ok {
				if l, ok := bo.Y.(*ssa.Call); ok && callName(l.Common()) == "builtin.len" && l.Common().Args[0] == ssa.Value(getAll) {
					continue // the loop bound
				}
			}
			extra = append(extra, c.P.Pos(g.If.Cond.Pos()))
		}
		r.Check(len(extra) == 0, "overlay:unconditional", mu.Pos(), "every tracked operation replaces the local entry of its CID, unconditionally", fmt.Sprintf("the overlay of tracked operations onto the local listing is conditional (%v): an operation that fails the condition leaves the stale local status of its CID in the listing, which the per-CID view never reports", extra))
	})
	if overlays == 0 {
		r.Bad("overlay:complete", getAll.Pos(), "the tracked operations returned by GetAll are not stored into the listing map")
	}
}

func r062(c *Ctx, r *R) {
	fd, pkg := c.decl(r, "pintracker/stateless", "Tracker.localStatus")
	if fd == nil {
		return
	}
	isMatchFilter := func(e ast.Expr) (ast.Expr, bool) { // filter.Match(arg)
		call, ok := ast.Unparen(e).(*ast.CallExpr)
		if !ok || !strings.HasSuffix(funcFullName(pkg, call), "api.TrackerStatus).Match") || len(call.Args) != 1 {
			return nil, false
		}
		return call.Args[0], true
	}
	containsCall := func(n ast.Node, suffix string) bool {
		found := false
		ast.Inspect(n, func(x ast.Node) bool {
			if call, ok := x.(*ast.CallExpr); ok {
				fn := funcFullName(pkg, call)
				if strings.HasSuffix(fn, suffix) {
					found = true
				}
			}
			return true
		})
		return found
	}
	var mState, mIPFS constant.Value
	ast.Inspect(fd.Body, func(n ast.Node) bool {
		ifs, ok := n.(*ast.IfStmt)
		if !ok {
			return true
		}
		arg, ok := isMatchFilter(ifs.Cond)
		if !ok {
			return true
		}
		v := constVal(pkg, arg)
		if v == nil {
			return true
		}
		if containsCall(ifs.Body, ").List") {
			mState = v
		}
		if containsCall(ifs.Body, "stateless.Tracker).ipfsStatusAll") {
			mIPFS = v
		}
		return true
	})
	if mState == nil || mIPFS == nil {
		r.Und("masks", fd.Pos(), "filter shortcuts around state.List / ipfsStatusAll not recognised (state=%v ipfs=%v)", mState != nil, mIPFS != nil)
		return
	}
	ms, _ := constant.Int64Val(mState)
	mi, _ := constant.Int64Val(mIPFS)
	// statuses assigned in the function
	type asg struct {
		name string
		val  int64
		pos  token.Pos
		node *ast.AssignStmt
	}
	var asgs []asg
	ast.Inspect(fd.Body, func(n ast.Node) bool {
		as, ok := n.(*ast.AssignStmt)
		if !ok || len(as.Lhs) != 1 || len(as.Rhs) != 1 {
			return true
		}
		se, ok := as.Lhs[0].(*ast.SelectorExpr)
		if !ok || se.Sel.Name != "Status" {
			return true
		}
		v := constVal(pkg, as.Rhs[0])
		if v == nil {
			return true
		}
		iv, _ := constant.Int64Val(v)
		asgs = append(asgs, asg{constName(pkg, as.Rhs[0]), iv, as.Pos(), as})
		return true
	})
	pinned, _ := constant.Int64Val(c.constIn("api", "TrackerStatusPinned"))
	for _, a := range asgs {
		r.Check(a.val&ms != 0, "state-mask-covers:"+a.name, a.pos, a.name+" is produced from the state listing and is in the listing's shortcut mask",
			a.name+" is produced in the loop over the state but is not in the mask that decides whether the state is listed: filtering for it returns nothing")
	}
	r.Check(pinned&ms != 0 && pinned&mi != 0, "masks-cover:TrackerStatusPinned", fd.Pos(), "pinned is in both shortcut masks", "TrackerStatusPinned is missing from a shortcut mask: filtering for pinned returns nothing")
	// the status that depends on the IPFS listing being present (the
	// default arm, paired with errUnexpectedlyUnpinned) must be in the
	// IPFS mask, or every pin would be reported with it
	for _, a := range asgs {
		if statusClass(a.name) == "error" {
			r.Check(a.val&mi != 0, "ipfs-mask-covers:"+a.name, a.pos, a.name+" (needs the IPFS listing) is in the IPFS shortcut mask",
				a.name+" is decided from the IPFS listing but is not in the mask that decides whether IPFS is listed: a filter for it reports every pin")
		}
	}
	r.Check(mi&^ms == 0, "ipfs-mask-subset", fd.Pos(), "the IPFS shortcut mask is a subset of the state shortcut mask", "IPFS is queried for statuses for which the state is not listed")
	// each arm that tests filter.Match(K) assigns K
	ast.Inspect(fd.Body, func(n ast.Node) bool {
		cc, ok := n.(*ast.CaseClause)
		if !ok {
			return true
		}
		var tested []string
		ast.Inspect(cc, func(x ast.Node) bool {
			if e, ok := x.(ast.Expr); ok {
				if arg, ok := isMatchFilter(e); ok {
					if nm := constName(pkg, arg); nm != "" {
						tested = append(tested, nm)
					}
				}
			}
			return true
		})
		if len(tested) != 1 {
			return true
		}
		for _, a := range asgs {
			if a.pos >= cc.Pos() && a.pos < cc.End() {
				r.Check(a.name == tested[0], "arm-agrees:"+tested[0], a.pos, "the arm tests the filter for "+tested[0]+" and assigns it", "the arm tests the filter for "+tested[0]+" but assigns "+a.name)
			}
		}
		return true
	})
}

// evalSwitch evaluates a function made of nested switches over bound
// identifiers to the constant it returns, for one environment.
func evalSwitch(pkg *packages.Package, stmts []ast.Stmt, env map[types.Object]constant.Value) (string, bool) {
	for _, st := range stmts {
		switch s := st.(type) {
		case *ast.ReturnStmt:
			if len(s.Results) != 1 {
				return "", false
			}
			if n := constName(pkg, s.Results[0]); n != "" {
				return n, true
			}
			return "", false
		case *ast.SwitchStmt:
			id, ok := s.Tag.(*ast.Ident)
			if !ok {
				return "", false
			}
			v, bound := env[pkg.TypesInfo.ObjectOf(id)]
			if !bound {
				return "", false
			}
			var def *ast.CaseClause
			var hit *ast.CaseClause
			for _, cl := range s.Body.List {
				cc := cl.(*ast.CaseClause)
				if cc.List == nil {
					def = cc
					continue
				}
				for _, e := range cc.List {
					if k := constVal(pkg, e); k != nil && constant.Compare(k, token.EQL, v) {
						hit = cc
					}
				}
			}
			if hit == nil {
				hit = def
			}
			if hit == nil {
				continue
			}
			if res, ok := evalSwitch(pkg, hit.Body, env); ok {
				return res, true
			}
			// fallthrough the switch (no return inside)
		case *ast.AssignStmt, *ast.ExprStmt, *ast.DeclStmt:
			continue
		default:
			return "", false
		}
	}
	return "", false
}

func r063(c *Ctx, r *R) {
	f := c.fn(r, "pintracker/optracker", "Operation.ToTrackerStatus")
	ot := c.namedType(r, "pintracker/optracker", "OperationType")
	pt := c.namedType(r, "pintracker/optracker", "Phase")
	ts := c.namedType(r, "api", "TrackerStatus")
	if f == nil || ot == nil || pt == nil || ts == nil {
		return
	}
	nameOf := func(v constant.Value) string {
		for _, k := range declaredConsts(ts) {
			if constant.Compare(k.Val(), token.EQL, v) {
				return k.Name()
			}
		}
		return "?"
	}
	want := func(typ, ph string) string {
		switch typ {
		case "OperationPin":
			switch ph {
			case "PhaseError":
				return "error"
			case "PhaseQueued", "PhaseInProgress":
				return "pending"
			case "PhaseDone":
				return "pinned"
			}
		case "OperationUnpin":
			switch ph {
			case "PhaseError":
				return "error"
			case "PhaseQueued", "PhaseInProgress":
				return "pending"
			case "PhaseDone":
				return "unpinned"
			}
		case "OperationRemote":
			return "remote"
		case "OperationShard":
			return "sharded"
		}
		return "undefined"
	}
	seen := map[string]string{}
	for _, tk := range declaredConsts(ot) {
		for _, pk := range declaredConsts(pt) {
			key := tk.Name() + "," + pk.Name()
			// concrete evaluation of the function with Type() and Phase()
			// bound to this pair (independent of switch/if form)
			_, val, ok := ssaEval(f, func(v ssa.Value) (constant.Value, bool) {
				if call, isC := v.(*ssa.Call); isC {
					switch {
					case nameMatches(callName(call.Common()), "optracker.Operation).Type"):
						return tk.Val(), true
					case nameMatches(callName(call.Common()), "optracker.Operation).Phase"):
						return pk.Val(), true
					}
				}
				return nil, false
			})
			if !ok {
				r.Und("pair:"+key, f.Pos(), "could not evaluate ToTrackerStatus for (%s)", key)
				continue
			}
			res := nameOf(val)
			w := want(tk.Name(), pk.Name())
			if tk.Name() == "OperationUnknown" {
				r.Check(statusClass(res) == "undefined", "pair:"+key, f.Pos(), "unknown operations are undefined", "unknown operation maps to "+res)
				continue
			}
			r.Check(statusClass(res) == w, "pair:"+key, f.Pos(), fmt.Sprintf("(%s) -> %s (class %s)", key, res, w), fmt.Sprintf("(%s) maps to %s (class %s), the property requires class %s", key, res, statusClass(res), w))
			if tk.Name() == "OperationPin" || tk.Name() == "OperationUnpin" {
				if prev, dup := seen[res]; dup {
					r.Bad("distinct:"+res, f.Pos(), "(%s) and (%s) both map to %s: the views can no longer tell them apart", prev, key, res)
				}
				seen[res] = key
			}
		}
	}
}

func r064(c *Ctx, r *R) {
	// constant paired with errUnexpectedlyUnpinned in each view
	find := func(name string) (string, token.Pos) {
		fd, pkg := c.decl(r, "pintracker/stateless", name)
		if fd == nil {
			return "", token.NoPos
		}
		res, rp := "", token.NoPos
		ast.Inspect(fd.Body, func(n ast.Node) bool {
			bl, ok := n.(*ast.BlockStmt)
			var list []ast.Stmt
			if ok {
				list = bl.List
			} else if cc, ok := n.(*ast.CaseClause); ok {
				list = cc.Body
			} else {
				return true
			}
			hasErr := false
			var st string
			var sp token.Pos
			for _, s := range list {
				as, ok := s.(*ast.AssignStmt)
				if !ok || len(as.Lhs) != 1 || len(as.Rhs) != 1 {
					continue
				}
				se, ok := as.Lhs[0].(*ast.SelectorExpr)
				if !ok {
					continue
				}
				if se.Sel.Name == "Error" {
					found := false
					ast.Inspect(as.Rhs[0], func(x ast.Node) bool {
						if id, ok := x.(*ast.Ident); ok && id.Name == "errUnexpectedlyUnpinned" {
							found = true
						}
						return true
					})
					hasErr = hasErr || found
				}
				if se.Sel.Name == "Status" {
					if nm := constName(pkg, as.Rhs[0]); nm != "" {
						st, sp = nm, as.Pos()
					}
				}
			}
			if hasErr && st != "" {
				res, rp = st, sp
			}
			return true
		})
		return res, rp
	}
	s1, p1 := find("Tracker.Status")
	s2, p2 := find("Tracker.localStatus")
	if s1 == "" || s2 == "" {
		r.Und("unexpectedly-unpinned", token.NoPos, "the status paired with errUnexpectedlyUnpinned was not found in Status (%q) / localStatus (%q)", s1, s2)
	} else {
		r.Check(statusClass(s1) == "error", "status:class", p1, "Status reports "+s1+" (error class) for a pin missing from IPFS", "Status reports "+s1+" (class "+statusClass(s1)+") for a pin that should be pinned here and is not: the property requires an error status")
		r.Check(statusClass(s2) == "error", "statusall:class", p2, "StatusAll reports "+s2+" (error class) for a pin missing from IPFS", "StatusAll reports "+s2+" (class "+statusClass(s2)+") for a pin that should be pinned here and is not: the property requires an error status")
	}
	// order of decisions in Status: Type == MetaType, then IsRemotePin, then PinLsCid
	f := c.fn(r, "pintracker/stateless", "Tracker.Status")
	if f != nil {
		meta := c.constIn("api", "MetaType")
		var site *RPCSite
		for _, s := range c.RPC {
			if s.Fn == f && len(s.Targets) == 1 && s.Targets[0].Method == "PinLsCid" {
				site = s
			}
		}
		if site == nil {
			r.Bad("status:ipfs", f.Pos(), "Status does not consult IPFS (PinLsCid)")
		} else {
			b := site.Call.Block()
			notMeta := guardedBy(b, func(g Guard) bool {
				return gEq(g, meta, false, func(x ssa.Value) bool { fld, _ := fieldLoad(x); return fld != nil && fld.Name() == "Type" })
			})
			notRemote := guardedBy(b, func(g Guard) bool { return gCall(g, false, "api.Pin).IsRemotePin") })
			inState := guardedBy(b, func(g Guard) bool { return gCallErrNil(g, ").Get") })
			noOp := guardedBy(b, func(g Guard) bool {
				call, idx := originCall(g.Cond)
				return call != nil && idx == 1 && !g.Branch && nameMatches(callName(call.Common()), "optracker.OperationTracker).GetExists")
			})
			r.Check(notMeta && notRemote && inState && noOp, "status:order", site.Call.Pos(), "IPFS is consulted only for pins in the state that are neither meta nor remote and have no tracked operation",
				fmt.Sprintf("Status consults IPFS without first deciding operation table (%v), state membership (%v), meta (%v), remote (%v)", noOp, inState, notMeta, notRemote))
			// meta before remote, as in the listing: a meta entry has no
			// allocations but keeps its replication factors, so the remote
			// test is true for it on every peer
			for _, rc := range findCalls(f, false, "api.Pin).IsRemotePin") {
				metaFirst := guardedBy(rc.Block(), func(g Guard) bool {
					return gEq(g, meta, false, func(x ssa.Value) bool { fld, _ := fieldLoad(x); return fld != nil && fld.Name() == "Type" })
				})
				r.Check(metaFirst, "status:meta-before-remote", rc.Pos(), "the remote test is reached only for pins that are not meta entries (same order as the listing)", "Status tests IsRemotePin before the meta test: a meta entry (no allocations, positive factors) is reported remote by the per-CID view and sharded by the listing")
			}
			// the pin given to PinLsCid is the one from the state
			a := callArgs(site.Call.Common())
			pc, idx := originCall(a[4])
			r.Check(pc != nil && idx == 0 && nameMatches(callName(pc.Common()), ").Get"), "status:ipfs-arg", site.Call.Pos(), "IPFS is asked about the pin recorded in the state (mode-aware)", "IPFS is not asked about the recorded pin (its mode decides which pin type counts)")
		}
	}
	// order of the decisions in localStatus (on the SSA, so a switch, an
	// if/else chain or early continues are the same thing): "remote" is
	// decided only for pins that are not meta entries, and the IPFS listing
	// is consulted only for pins that are neither
	if f := c.fn(r, "pintracker/stateless", "Tracker.localStatus"); f != nil {
		meta := c.constNamed("api", "MetaType")
		remote := c.constNamed("api", "TrackerStatusRemote")
		unexp := c.constNamed("api", "TrackerStatusUnexpectedlyUnpinned")
		notMeta := func(g Guard) bool {
			x, k, tme, isEq := eqConst(g.Cond)
			if !isEq || meta == nil || !constant.Compare(k, token.EQL, meta) || tme == g.Branch {
				return false
			}
			fl, _ := fieldLoad(x)
			return fl != nil && fl.Name() == "Type"
		}
		notRemote := func(g Guard) bool { return gCall(g, false, "api.Pin).IsRemotePin") }
		ok, nRemote, nIpfs := true, 0, 0
		instrsDeep(f, func(i ssa.Instruction) {
			switch x := i.(type) {
			case *ssa.Store:
				fl, _ := fieldOfAddrValue(x.Addr)
				k, isK := constOf(x.Val)
				if fl == nil || fl.Name() != "Status" || !isK || k == nil {
					return
				}
				switch {
				case remote != nil && constant.Compare(k, token.EQL, remote):
					nRemote++
					if !guardedBy(x.Block(), notMeta) {
						ok = false
					}
				case unexp != nil && constant.Compare(k, token.EQL, unexp):
					nIpfs++
					if !guardedBy(x.Block(), notMeta) || !guardedBy(x.Block(), notRemote) {
						ok = false
					}
				}
			case *ssa.MapUpdate:
				// the listing's own entry is taken over
				if l, _ := mapLookupOf(x.Value); l != nil {
					nIpfs++
					if !guardedBy(x.Block(), notMeta) || !guardedBy(x.Block(), notRemote) {
						ok = false
					}
				}
			}
		})
		if nRemote == 0 || nIpfs == 0 {
			r.Und("statusall:order", f.Pos(), "localStatus: the remote / IPFS decisions were not recognised")
		} else {
			r.Check(ok, "statusall:order", f.Pos(), "localStatus decides meta, then remote, then IPFS", "localStatus does not decide meta before remote before IPFS: the two views disagree for pins that are both")
		}
	}
}

func r065(c *Ctx, r *R) {
	f := c.fn(r, "pintracker/stateless", "Tracker.ipfsStatusAll")
	if f == nil {
		return
	}
	pm := c.namedType(r, "api", "PinMode")
	fdS, pkgS := c.decl(r, "api", "PinMode.String")
	if pm == nil || fdS == nil {
		return
	}
	// strings of the declared modes
	modeStr := map[string]bool{}
	for _, k := range declaredConsts(pm) {
		env := map[types.Object]constant.Value{}
		if fdS.Recv != nil && len(fdS.Recv.List[0].Names) == 1 {
			env[pkgS.TypesInfo.ObjectOf(fdS.Recv.List[0].Names[0])] = k.Val()
		}
		// String returns string literals, evaluate
		var res string
		ast.Inspect(fdS.Body, func(n ast.Node) bool {
			cc, ok := n.(*ast.CaseClause)
			if !ok || cc.List == nil {
				return true
			}
			for _, e := range cc.List {
				if kv := constVal(pkgS, e); kv != nil && constant.Compare(kv, token.EQL, k.Val()) {
					for _, s := range cc.Body {
						if ret, ok := s.(*ast.ReturnStmt); ok && len(ret.Results) == 1 {
							if sv, ok := constStr(pkgS, ret.Results[0]); ok {
								res = sv
							}
						}
					}
				}
			}
			return true
		})
		// (however String is written: evaluated first, the switch read
		// syntactically as a fall-back)
		if sf := c.P.Func("api", "PinMode.String"); sf != nil {
			if _, v, ok := ssaEval(sf, bindParams(sf, map[int]constant.Value{0: k.Val()})); ok && v != nil && v.Kind() == constant.String {
				res = constant.StringVal(v)
			}
		}
		if res != "" {
			modeStr[res] = true
		}
	}
	if len(modeStr) < 2 {
		r.Und("modes", f.Pos(), "the names of the pin modes could not be determined from PinMode.String")
		return
	}
	var listed []string
	for _, s := range c.RPC {
		if s.Fn != f || len(s.Targets) != 1 || s.Targets[0].Method != "PinLs" {
			continue
		}
		a := callArgs(s.Call.Common())
		if str, ok := constString(a[4]); ok {
			listed = append(listed, str)
		} else {
			r.Und("pinls-arg", s.Call.Pos(), "PinLs filter is not a constant")
			return
		}
	}
	if len(listed) == 0 {
		r.Und("pinls", f.Pos(), "ipfsStatusAll makes no PinLs call")
		return
	}
	sort.Strings(listed)
	covered := map[string]bool{}
	for _, l := range listed {
		if l == "all" {
			for m := range modeStr {
				covered[m] = true
			}
		}
		covered[l] = true
	}
	var missing []string
	for m := range modeStr {
		if !covered[m] {
			missing = append(missing, m)
		}
	}
	sort.Strings(missing)
	key := fmt.Sprintf("stateless.ipfsStatusAll PinLs{%s}", strings.Join(listed, ","))
	if len(missing) == 0 {
		r.OK(key, f.Pos(), "the listing covers all pin modes %v", listed)
	} else {
		r.Bad(key, f.Pos(), "StatusAll lists only %v pins from IPFS; pins in mode %v are invisible to it, so a healthy %v pin is 'pinned' in Status (PinLsCid is mode-aware) and 'unexpectedly_unpinned' in StatusAll", listed, missing, missing)
	}
}

func r066(c *Ctx, r *R) {
	gpi := c.namedType(r, "api", "GlobalPinInfo")
	if gpi == nil {
		return
	}
	pmf := fieldByName(gpi, "PeerMap")
	if pmf == nil {
		r.Bad("PeerMap:type", token.NoPos, "GlobalPinInfo has no PeerMap field")
		return
	}
	_, isMap := pmf.Type().Underlying().(*types.Map)
	r.Check(isMap, "PeerMap:type", pmf.Pos(), "PeerMap is a map: at most one entry per key", "PeerMap is not a map: a peer can appear more than once per CID")
	// writers
	var writers []string
	okKey := true
	c.P.RepoFuncs(func(f *ssa.Function) {
		if isTestSupportFn(f) {
			return
		}
		instrs(f, func(i ssa.Instruction) {
			mu, ok := i.(*ssa.MapUpdate)
			if !ok {
				return
			}
			fld, _ := fieldLoad(mu.Map)
			if fld != pmf {
				return
			}
			writers = append(writers, f.String())
			// key derives from the entry's own peer: peer.Encode(pi.Peer)
			kc, _ := originCall(mu.Key)
			if kc == nil || !nameMatches(callName(kc.Common()), "peer.Encode", "peer.IDB58Encode") {
				okKey = false
			} else if fl, _ := fieldLoad(kc.Common().Args[0]); fl == nil || fl.Name() != "Peer" {
				okKey = false
			}
		})
	})
	sort.Strings(writers)
	only := len(writers) == 1 && strings.HasSuffix(writers[0], "api.GlobalPinInfo).Add")
	r.Check(only && okKey, "PeerMap:writers", pmf.Pos(), "GlobalPinInfo.Add is the only writer and keys entries by the reporting peer", fmt.Sprintf("PeerMap is written by %v / not keyed by the entry's peer", writers))
}

func r067(c *Ctx, r *R) {
	ts := c.namedType(r, "api", "TrackerStatus")
	if ts == nil {
		return
	}
	pkg := c.P.Pkg("api")
	// name table
	names := map[int64]string{}
	found := false
	for _, f := range pkg.Syntax {
		ast.Inspect(f, func(n ast.Node) bool {
			vs, ok := n.(*ast.ValueSpec)
			if !ok || len(vs.Names) != 1 || vs.Names[0].Name != "trackerStatusString" || len(vs.Values) != 1 {
				return true
			}
			cl, ok := vs.Values[0].(*ast.CompositeLit)
			if !ok {
				return true
			}
			found = true
			vals := map[string]bool{}
			for _, el := range cl.Elts {
				kv := el.(*ast.KeyValueExpr)
				k := constVal(pkg, kv.Key)
				v, _ := constStr(pkg, kv.Value)
				if k == nil {
					continue
				}
				iv, _ := constant.Int64Val(k)
				names[iv] = v
				if vals[v] {
					r.Bad("name-dup:"+v, kv.Pos(), "two statuses share the name %q: the inverse table loses one", v)
				}
				vals[v] = true
			}
			return true
		})
	}
	if !found {
		r.Und("trackerStatusString", token.NoPos, "trackerStatusString table not found")
		return
	}
	singles := map[int64]string{}
	var consts []*types.Const
	consts = append(consts, declaredConsts(ts)...)
	// the composites are untyped-expression constants of the same type too
	for _, k := range consts {
		iv, _ := constant.Int64Val(k.Val())
		_, named := names[iv]
		r.Check(named, "named:"+k.Name(), k.Pos(), k.Name()+" has a string form", k.Name()+" has no entry in trackerStatusString: it is rendered as a list of other statuses and cannot be parsed back")
		if iv != 0 && iv&(iv-1) == 0 {
			if prev, dup := singles[iv]; dup {
				r.Bad("distinct:"+k.Name(), k.Pos(), "%s and %s have the same value", prev, k.Name())
			}
			singles[iv] = k.Name()
		}
	}
	// composites: value equals OR of the members named in their definition
	for _, f := range pkg.Syntax {
		ast.Inspect(f, func(n ast.Node) bool {
			vs, ok := n.(*ast.ValueSpec)
			if !ok || len(vs.Values) != 1 || len(vs.Names) != 1 {
				return true
			}
			k, ok := pkg.TypesInfo.Defs[vs.Names[0]].(*types.Const)
			if !ok || !types.Identical(k.Type(), ts) {
				return true
			}
			iv, _ := constant.Int64Val(k.Val())
			if iv == 0 || iv&(iv-1) == 0 {
				return true
			}
			// composite
			var or int64
			ast.Inspect(vs.Values[0], func(x ast.Node) bool {
				if id, ok := x.(*ast.Ident); ok {
					if mk, ok := pkg.TypesInfo.Uses[id].(*types.Const); ok {
						mv, _ := constant.Int64Val(mk.Val())
						or |= mv
					}
				}
				return true
			})
			cls := ""
			okClass := true
			for bit, nm := range singles {
				if iv&bit != 0 {
					cl := statusClass(nm)
					if cl == "error" || cl == "pending" {
						if cls == "" {
							cls = cl
						} else if cls != cl {
							okClass = false
						}
					} else {
						okClass = false
					}
				}
			}
			r.Check(or == iv && okClass, "composite:"+k.Name(), vs.Pos(), k.Name()+" is the union of its members (one class)", k.Name()+" is not the union of single statuses of one class: Match on it is not the union of matches")
			return true
		})
	}
	// Match is `filter == 0 || st == 0 || st&filter > 0`
	fd, mp := c.decl(r, "api", "TrackerStatus.Match")
	if fd != nil {
		hasAnd := false
		ast.Inspect(fd.Body, func(n ast.Node) bool {
			if be, ok := n.(*ast.BinaryExpr); ok && be.Op == token.AND {
				x, y := mp.TypesInfo.ObjectOf(identOf(be.X)), mp.TypesInfo.ObjectOf(identOf(be.Y))
				if x != nil && y != nil && x != y {
					hasAnd = true
				}
			}
			return true
		})
		r.Check(hasAnd, "match:intersection", fd.Pos(), "Match intersects the status with the filter", "Match no longer intersects status and filter bits")
	}
}

func identOf(e ast.Expr) *ast.Ident {
	if id, ok := ast.Unparen(e).(*ast.Ident); ok {
		return id
	}
	return &ast.Ident{}
}

func init() {
	register(&Rule{ID: "R06.8", Props: []string{"C06"}, Floor: 4, Title: "cluster-wide status of one CID: unallocated members are reported remote, unreachable allocated peers cluster_error under their own id, a CID outside the pinset unpinned", Run: r068})
}

func r068(c *Ctx, r *R) {
	f := c.fn(r, "", "Cluster.globalPinInfoCid")
	if f == nil {
		return
	}
	remoteK, unpinK, cerrK := c.constNamed("api", "TrackerStatusRemote"), c.constNamed("api", "TrackerStatusUnpinned"), c.constNamed("api", "TrackerStatusClusterError")
	sawRemote, sawUnpinned := false, false
	for _, ci := range findCalls(f, false, ModPath+".setTrackerStatus") {
		a := ci.Common().Args
		switch {
		case isConst(a[3], remoteK):
			sawRemote = true
			ok := false
			var remoteLeaves []ssa.Value
			for _, lf := range valueLeavesDeep(a[2], ci.Block()) { // also through a helper that computes the two sets
				remoteLeaves = append(remoteLeaves, lf.Val)
				for _, via := range lf.Via { // the calls the value was returned through (peersSubtract itself may be one)
					remoteLeaves = append(remoteLeaves, via)
				}
			}
			for _, l := range remoteLeaves {
				if call, _ := originCallLocal(l); call != nil && nameMatches(callName(call.Common()), ModPath+".peersSubtract") {
					// members minus the allocated peers
					fl, _ := fieldLoad(call.Common().Args[1])
					if fl != nil && fl.Name() == "Allocations" {
						ok = true
					}
					for _, l2 := range phiLeaves(call.Common().Args[1]) {
						if fl2, _ := fieldLoad(l2); fl2 != nil && fl2.Name() == "Allocations" {
							ok = true
						}
					}
				}
			}
			r.Check(ok, "global:remote-set", ci.Pos(), "members that are not allocated the pin are reported remote", "the set reported as 'remote' is not members minus the pin's allocations")
		case isConst(a[3], unpinK):
			sawUnpinned = true
			ok := guardedBy(ci.Block(), func(g Guard) bool {
				b, isB := g.Cond.(*ssa.BinOp)
				return isB && (b.Op == token.EQL) == g.Branch && (isGlobalLoad(b.Y, "ErrNotFound") || isGlobalLoad(b.X, "ErrNotFound"))
			})
			r.Check(ok, "global:unpinned-when-absent", ci.Pos(), "every member is reported unpinned exactly when the CID is not in the pinset", "members are reported 'unpinned' on a path other than 'not found in the pinset'")
		default:
			r.Bad("global:other-status", ci.Pos(), "globalPinInfoCid assigns an unexpected blanket status")
		}
	}
	r.Check(sawRemote && sawUnpinned, "global:blanket-statuses", f.Pos(), "remote and unpinned blanket statuses are both assigned", "globalPinInfoCid no longer reports remote members / absent pins")
	// error case: cluster_error under the failing destination's own id
	adds := findCalls(f, false, "api.GlobalPinInfo).Add")
	okErr, okReply := false, false
	for _, ci := range adds {
		arg := ci.Common().Args[1]
		if al, ok := arg.(*ssa.Alloc); ok {
			st := map[string]ssa.Value{}
			if al.Referrers() != nil {
				var collect func(base ssa.Value)
				collect = func(base ssa.Value) {
					for _, ref := range *base.Referrers() {
						fa, ok := ref.(*ssa.FieldAddr)
						if !ok || fa.Referrers() == nil {
							continue
						}
						for _, r2 := range *fa.Referrers() {
							if s, ok := r2.(*ssa.Store); ok && s.Addr == ssa.Value(fa) {
								st[fieldOfAddr(fa).Name()] = s.Val
							}
						}
						collect(fa)
					}
				}
				collect(al)
			}
			// Peer = dests[i], Status = ClusterError, and the error tested is errs[i] with the same i
			peerIdx := indexOf(st["Peer"])
			errIdx := ssa.Value(nil)
			for _, g := range guardsOf(ci.Block()) {
				if x, tn, ok := nilCmp(g.Cond); ok && tn == g.Branch {
					errIdx = indexOf(x)
				}
			}
			okErr = isConst(st["Status"], cerrK) && peerIdx != nil && errIdx != nil && peerIdx == errIdx
			r.Check(okErr, "global:error-entry", ci.Pos(), "an unreachable allocated peer is reported cluster_error under its own peer id", "the cluster_error entry is not filed under the peer whose request failed (or has another status)")
		} else {
			// gpin.Add(r) with r a reply, under e == nil
			okReply = guardedBy(ci.Block(), func(g Guard) bool {
				_, tn, ok := nilCmp(g.Cond)
				return ok && tn != g.Branch
			})
			r.Check(okReply, "global:reply-entry", ci.Pos(), "a peer's own report is added only when its request succeeded", "a reply is added although its request failed")
		}
	}
	if !okErr && len(adds) < 2 {
		r.Bad("global:error-entry", f.Pos(), "globalPinInfoCid no longer reports unreachable peers as cluster_error")
	}
}

// indexOf: v is `x[i]` (load of IndexAddr / Index); returns i.
func indexOf(v ssa.Value) ssa.Value {
	switch x := v.(type) {
	case *ssa.UnOp:
		if ia, ok := x.X.(*ssa.IndexAddr); ok {
			return ia.Index
		}
	case *ssa.Index:
		return x.Index
	}
	return nil
}

func r057(c *Ctx, r *R) {
	f := c.fn(r, "pintracker/stateless", "Tracker.ipfsStatusAll")
	if f == nil {
		return
	}
	var listed []string
	for _, s := range c.RPC {
		if s.Fn != f || len(s.Targets) != 1 || s.Targets[0].Method != "PinLs" {
			continue
		}
		a := callArgs(s.Call.Common())
		if str, ok := constString(a[4]); ok {
			listed = append(listed, str)
		} else {
			r.Und("pinls-arg", s.Call.Pos(), "PinLs filter is not a constant")
			return
		}
	}
	if len(listed) == 0 {
		r.Und("pinls", f.Pos(), "ipfsStatusAll makes no PinLs call")
		return
	}
	sort.Strings(listed)
	// a failed listing is an error, not an empty listing: with an empty
	// listing every allocated item looks unexpectedly unpinned and the
	// recover round re-pins the whole pinset
	for _, s := range c.RPC {
		if s.Fn != f || len(s.Targets) != 1 || s.Targets[0].Method != "PinLs" {
			continue
		}
		call, _ := s.Call.(*ssa.Call)
		if call == nil {
			continue
		}
		okErr := true
		for _, lf := range returnLeaves(f, f.Signature.Results().Len()-1) {
			if !isNilConst(lf.Val) {
				continue
			}
			if !mustPass(lf.Block, func(g Guard) bool {
				return gNil(g, false, func(v ssa.Value) bool { cc, _ := originCall(v); return cc == call })
			}) {
				okErr = false
			}
		}
		r.Check(okErr, "stateless.ipfsStatusAll:listing-error-returned", s.Call.Pos(), "no listing is returned when the PinLs request failed", "ipfsStatusAll answers with a (possibly empty) listing and no error although the PinLs request failed: StatusAll then reports every item allocated here as unexpectedly_unpinned while Status says pinned, and RecoverAll re-requests pins that were never missing")
	}
	// a listing wider than the recursive pins is only usable if the entries
	// are compared with the mode the pinset records: localStatus decides
	// "pinned here" by the mere presence of the CID in the listing, which
	// is sound for a recursive-only listing of (mostly) recursive pins and
	// wrong as soon as direct or indirect entries are in it
	wider := false
	for _, l := range listed {
		if l != "recursive" {
			wider = true
		}
	}
	if !wider {
		r.OK("stateless.localStatus:mode-aware-listing", f.Pos(), "the listing holds recursive pins only: presence means pinned recursively")
	}
	if wider {
		modeAware := false
		if ls := c.P.Func("pintracker/stateless", "Tracker.localStatus"); ls != nil {
			modeAware = len(findCallsDeep(ls, "api.IPFSPinStatus).IsPinned")) > 0
		}
		r.Check(modeAware, "stateless.localStatus:mode-aware-listing", f.Pos(), "a listing that includes direct/indirect entries is compared with each pin's mode", fmt.Sprintf("StatusAll lists %v pins from IPFS but decides 'pinned here' by presence in the listing: an indirect entry (a block of another pin) or a direct pin of a recursively pinned item hides that the item is not pinned as required, so it is never reported unexpectedly_unpinned and never recovered", listed))
	}
}
