package main

import (
	"fmt"
	"go/ast"
	"go/constant"
	"go/token"
	"go/types"
	"golang.org/x/tools/go/packages"
	"reflect"
	"sort"
	"strings"

	"golang.org/x/tools/go/ssa"
)

func init() {
	register(
		&Rule{ID: "R17.5", Props: []string{"C17", "C01"}, Floor: 20, Title: "every field of the raft consensus structures that is read is also initialised somewhere (no forgotten field in a constructor); raft is configured not to shut itself down on removal", Run: r175},
		&Rule{ID: "R10.7", Props: []string{"C10"}, Floor: 2, Title: "the re-pin sweeps visit every pin: no exit from the loop depends on the outcome of one re-pin", Run: r107},
	)
}

// fieldWritesReads collects, for the structs of one package, which fields
// are written (stores, composite-literal keys) and read anywhere in the
// repository.
func (c *Ctx) fieldWritesReads(rel string) (writes, reads map[*types.Var]token.Pos) {
	writes, reads = map[*types.Var]token.Pos{}, map[*types.Var]token.Pos{}
	for _, pkg := range c.P.Repo {
		if strings.HasPrefix(pkg.PkgPath, ModPath+"/test") {
			continue
		}
		for _, f := range pkg.Syntax {
			rd, wr := fieldsUsed(pkg, f)
			for v, p := range rd {
				reads[v] = p
			}
			for v, p := range wr {
				writes[v] = p
			}
			// positional composite literals write every field
			ast.Inspect(f, func(n ast.Node) bool {
				cl, ok := n.(*ast.CompositeLit)
				if !ok || len(cl.Elts) == 0 {
					return true
				}
				if _, keyed := cl.Elts[0].(*ast.KeyValueExpr); keyed {
					return true
				}
				if st := structOf(pkg.TypesInfo.TypeOf(cl)); st != nil && st.NumFields() == len(cl.Elts) {
					for i := 0; i < st.NumFields(); i++ {
						writes[st.Field(i)] = cl.Pos()
					}
				}
				return true
			})
		}
	}
	return
}

func r175(c *Ctx, r *R) {
	writes, reads := c.fieldWritesReads("consensus/raft")
	for _, tn := range []string{"raftWrapper", "Consensus", "LogOp"} {
		nt := c.namedType(r, "consensus/raft", tn)
		if nt == nil {
			continue
		}
		st := nt.Underlying().(*types.Struct)
		for i := 0; i < st.NumFields(); i++ {
			f := st.Field(i)
			_, rd := reads[f]
			_, wr := writes[f]
			if !rd {
				r.OK("field:"+tn+"."+f.Name(), f.Pos(), "not read")
				continue
			}
			// zero-value-is-fine fields: sync primitives and plain flags start at zero
			ts := f.Type().String()
			zeroOK := strings.HasPrefix(ts, "sync.") || ts == "bool" && (f.Name() == "shutdown")
			r.Check(wr || zeroOK, "field:"+tn+"."+f.Name(), f.Pos(), "read and initialised", "raft."+tn+"."+f.Name()+" is read but never assigned: the constructor forgot it, so it is always the zero value (e.g. a joining peer is not treated as staging and bootstraps its own one-peer cluster)")
		}
	}
	// ShutdownOnRemove forced off
	d := c.fn(r, "consensus/raft", "Config.Default")
	if d != nil {
		ok := false
		instrs(d, func(i ssa.Instruction) {
			st, isSt := i.(*ssa.Store)
			if !isSt {
				return
			}
			if fl, _ := fieldOfAddrValue(st.Addr); fl != nil && fl.Name() == "ShutdownOnRemove" {
				if k, isK := constOf(st.Val); isK && (k == nil || !boolVal(k)) && onEveryPath(st) {
					ok = true
				}
			}
		})
		r.Check(ok, "raftconfig:ShutdownOnRemove", d.Pos(), "raft is configured not to shut itself down when removed (cluster does it, after cleaning up)", "raft Config.Default no longer forces ShutdownOnRemove=false: a removed leader's raft stops underneath the component, Peers() errors or hangs and the peer never notices its removal nor discards its data")
	}
}

func r107(c *Ctx, r *R) {
	rp := c.fn(r, "", "Cluster.repinFromPeer")
	if rp == nil {
		return
	}
	sites, _ := c.callSitesOf(rp)
	for _, s := range sites {
		f := s.Parent()
		bad, inLoop := sweepCanStop(s)
		if !inLoop {
			r.Und("sweep:"+f.Name(), s.Pos(), "the re-pin call in %s is not inside a loop", f.Name())
			continue
		}
		r.Check(!bad, "sweep:"+f.Name(), s.Pos(), "after re-pinning one pin the sweep always continues with the next", f.Name()+" can stop the sweep after one re-pin (a return or break inside the loop): one pin that cannot be re-allocated leaves all later pins on the failed/removed peer")
	}
	sort.Strings(nil)
}

func init() {
	register(&Rule{ID: "R13.8", Props: []string{"C13"}, Floor: 3, Title: "blocks before pins: every pin made by the sharding finaliser and the shard flush is dominated by the successful delivery of the DAG it pins, and no block is sent after a pin", Run: r138})
}

// r138: C13 says content is never pinned unless its blocks were delivered.
// In the sharded path the finaliser builds extra DAGs (shard DAGs, the
// cluster DAG) and pins them: each adder.Pin must come after the successful
// AddMany of those nodes (check before effect), and nothing is sent after a
// pin inside the same function.
func r138(c *Ctx, r *R) {
	for _, fn := range [][2]string{{"adder/sharding", "DAGService.Finalize"}, {"adder/sharding", "shard.Flush"}} {
		f := c.fn(r, fn[0], fn[1])
		if f == nil {
			continue
		}
		// sends and pins, in f or in helpers extracted from it: ordered by
		// their (outer) position in f, guarded where they are written
		sends := findCallsDeep(f, "adder.BlockAdder).AddMany", "adder.BlockAdder).Add", "sharding.DAGService).flushCurrentShard")
		pins := findCallsDeep(f, ModPath+"/adder.Pin")
		if len(pins) == 0 {
			r.Und("pins:"+fn[1], f.Pos(), "%s makes no adder.Pin call", fn[1])
			continue
		}
		for i, dp := range pins {
			p := dp.Inner
			key := fmt.Sprintf("%s:pin#%d", fn[1], i+1)
			late := ""
			for _, ds := range sends {
				a, b := ssa.Instruction(dp.Outer), ssa.Instruction(ds.Outer)
				if dp.Outer == ds.Outer {
					// both inside the same helper call: compare there
					a, b = dp.Inner, ds.Inner
					if a.Parent() != b.Parent() {
						continue
					}
				}
				after := false
				if a.Block() == b.Block() {
					after = dominatesInstr(a, b)
				} else {
					after = blockReaches(a.Block(), b.Block())
				}
				if after {
					late = c.P.Pos(ds.Inner.Pos())
				}
			}
			if late != "" {
				r.Bad(key, p.Pos(), "blocks are sent (%s) after this pin was submitted: if that delivery fails the pin is already in the pinset and points at blocks that were never stored", late)
				continue
			}
			ok := guardedBy(p.Block(), func(g Guard) bool {
				return gCallErrNil(g, "adder.BlockAdder).AddMany", "adder.BlockAdder).Add")
			})
			r.Check(ok, key, p.Pos(), "the pin is submitted only after the DAG's blocks were delivered without error", "this pin is not guarded by the success of the block delivery (AddMany): the DAG is pinned although its blocks may not have been stored")
		}
	}
}

func init() {
	register(
		&Rule{ID: "R15.7", Props: []string{"C15"}, Floor: 5, Title: "config.SetIfNotDefault skips exactly the zero value of each type it handles (a negative number or any other non-zero value is applied, so that Validate sees it)", Run: r157},
		&Rule{ID: "R15.8", Props: []string{"C15"}, Floor: 60, Title: "settings are loaded independently: in the from-JSON side no read of a JSON setting is conditional on the value of a different setting", Run: r158},
	)
}

func r157(c *Ctx, r *R) {
	f := c.fn(r, "config", "SetIfNotDefault")
	if f == nil {
		return
	}
	// v is src asserted to a concrete type: src.(T), or the value of a
	// bound type switch / comma-ok assertion
	isSrcAssert := func(v ssa.Value) bool {
		if ex, ok := v.(*ssa.Extract); ok && ex.Index == 0 {
			v = ex.Tuple
		}
		ta, ok := v.(*ssa.TypeAssert)
		return ok && paramIndex(f, ta.X) == 0
	}
	instrs(f, func(i ssa.Instruction) {
		st, ok := i.(*ssa.Store)
		if !ok {
			return
		}
		// *dest.(*T) = v
		addr := st.Addr
		if ex, ok := addr.(*ssa.Extract); ok && ex.Index == 0 {
			addr = ex.Tuple
		}
		ta, ok := addr.(*ssa.TypeAssert)
		if !ok || paramIndex(f, ta.X) != 1 {
			return
		}
		pt, ok := ta.AssertedType.(*types.Pointer)
		if !ok {
			return
		}
		tname := pt.Elem().String()
		good, other := false, ""
		for _, g := range guardsOf(st.Block()) {
			switch x := g.Cond.(type) {
			case *ssa.BinOp:
				// the comparison that decides "is default": src.(T) OP const
				var k ssa.Value
				if isSrcAssert(x.X) {
					k = x.Y
				} else if isSrcAssert(x.Y) {
					k = x.X
				} else {
					continue
				}
				kc, isK := k.(*ssa.Const)
				zero := isK && (kc.Value == nil || (kc.Value.Kind() == constant.String && constant.StringVal(kc.Value) == "") || (kc.Value.Kind() != constant.String && kc.Value.Kind() != constant.Bool && constant.Sign(kc.Value) == 0))
				if zero && ((x.Op == token.NEQ && g.Branch) || (x.Op == token.EQL && !g.Branch)) {
					good = true
				} else {
					other = x.Op.String()
				}
			default:
				// bool: `if b` with b = src.(bool)
				if isSrcAssert(g.Cond) && g.Branch {
					good = true
				}
			}
		}
		r.Check(good && other == "", "zero-only:"+tname, st.Pos(), "the "+tname+" value is applied whenever it differs from the zero value", fmt.Sprintf("the %s value is applied under a test other than `!= zero` (%s): non-zero values that fail it (e.g. negative numbers) are silently replaced by the default instead of being loaded and validated", tname, other))
	})
}

func r158(c *Ctx, r *R) {
	ccs := c.componentConfigs(r)
	for _, cc := range ccs {
		J := jsonStructOf(c, cc)
		loadRoot, _ := c.P.FuncDecl(cc.rel, cc.name+".LoadJSON")
		if J == nil || loadRoot == nil {
			continue // reported by R15.1
		}
		label := cc.rel + "." + cc.name
		isJ := func(t types.Type) bool {
			if p, ok := t.(*types.Pointer); ok {
				t = p.Elem()
			}
			nt, ok := t.(*types.Named)
			if !ok {
				return false
			}
			if nt == J {
				return true
			}
			// nested JSON structs of the same package
			_, isS := nt.Underlying().(*types.Struct)
			return isS && nt.Obj().Pkg() == cc.pkg.Types && nt != cc.t && strings.HasPrefix(strings.ToLower(nt.Obj().Name()), "json")
		}
		isCfg := func(t types.Type) bool {
			if p, ok := t.(*types.Pointer); ok {
				t = p.Elem()
			}
			return t == types.Type(cc.t)
		}
		// fieldOf: v is (a load of) a field of a J or cfg value
		fieldOf := func(v ssa.Value) (kind string, f *types.Var) {
			if u, ok := v.(*ssa.UnOp); ok && u.Op == token.MUL {
				v = u.X
			}
			switch x := v.(type) {
			case *ssa.FieldAddr:
				fv := fieldOfAddr(x)
				if isJ(x.X.Type()) {
					return "json", fv
				}
				if isCfg(x.X.Type()) {
					return "cfg", fv
				}
			case *ssa.Field:
				if st, ok := x.X.Type().Underlying().(*types.Struct); ok {
					if isJ(x.X.Type()) {
						return "json", st.Field(x.Field)
					}
				}
			}
			return "", nil
		}
		var mentioned func(v ssa.Value, depth int, out map[string]bool)
		mentioned = func(v ssa.Value, depth int, out map[string]bool) {
			if depth > 6 || v == nil {
				return
			}
			if k, f := fieldOf(v); f != nil {
				out[k+":"+f.Name()] = true
				return
			}
			switch x := v.(type) {
			case *ssa.BinOp:
				mentioned(x.X, depth+1, out)
				mentioned(x.Y, depth+1, out)
			case *ssa.UnOp:
				mentioned(x.X, depth+1, out)
			case *ssa.Call:
				for _, a := range x.Common().Args {
					mentioned(a, depth+1, out)
				}
				if x.Common().IsInvoke() {
					mentioned(x.Common().Value, depth+1, out)
				}
			case *ssa.Phi:
				for _, e := range x.Edges {
					mentioned(e, depth+1, out)
				}
			case *ssa.Convert:
				mentioned(x.X, depth+1, out)
			case *ssa.ChangeType:
				mentioned(x.X, depth+1, out)
			case *ssa.Extract:
				mentioned(x.Tuple, depth+1, out)
			case *ssa.Lookup:
				mentioned(x.X, depth+1, out)
			case *ssa.Index:
				mentioned(x.X, depth+1, out)
			case *ssa.IndexAddr:
				mentioned(x.X, depth+1, out)
			case *ssa.Slice:
				mentioned(x.X, depth+1, out)
			}
		}
		for _, d := range funcsCalledFrom(c.P, cc.pkg, loadRoot) {
			obj, _ := cc.pkg.TypesInfo.Defs[d.Name].(*types.Func)
			if obj == nil {
				continue
			}
			f := c.P.SSA.FuncValue(obj)
			if f == nil || f.Blocks == nil {
				continue
			}
			done := map[string]bool{}
			instrs(f, func(i ssa.Instruction) {
				v, ok := i.(ssa.Value)
				if !ok {
					return
				}
				kind, fv := fieldOf(v)
				if kind != "json" {
					return
				}
				if _, isLoadOrAddr := i.(*ssa.UnOp); isLoadOrAddr {
					return // the FieldAddr itself is visited
				}
				key := label + ":" + f.Name() + ":" + fv.Name()
				var dep []string
				for _, g := range guardsOf(i.Block()) {
					// error tests are not conditions on settings: a loader
					// that refuses the input does not load the rest
					if bo, ok := g.Cond.(*ssa.BinOp); ok && (isNilConst(bo.X) || isNilConst(bo.Y)) {
						other := bo.X
						if isNilConst(bo.X) {
							other = bo.Y
						}
						if other.Type().String() == "error" {
							continue
						}
					}
					// loop conditions (range over a list setting) are not
					// conditions either: what follows the loop runs always
					hb := g.If.Block()
					isLoop := false
					for _, p := range hb.Preds {
						if hb.Dominates(p) {
							isLoop = true
						}
					}
					if isLoop {
						continue
					}
					m := map[string]bool{}
					mentioned(g.Cond, 0, m)
					for k := range m {
						if k != "json:"+fv.Name() {
							dep = append(dep, k+" (test at "+c.P.Pos(g.If.Cond.Pos())+")")
						}
					}
				}
				sort.Strings(dep)
				if len(dep) > 0 {
					if !done[key+"!"] {
						done[key+"!"] = true
						r.Bad(key, i.Pos(), "the JSON setting %s is read only under a condition on other settings %v: when that condition fails the saved value is silently replaced by the default (and a malformed value is accepted)", fv.Name(), dep)
					}
					return
				}
				if !done[key] {
					done[key] = true
					r.OK(key, i.Pos(), "read independently of other settings")
				}
			})
		}
	}
}

func init() {
	register(&Rule{ID: "R17.6", Props: []string{"C17", "C14"}, Floor: 5, Title: "a removed peer's raft data is really discarded: the backup rotation vacates the oldest slot recursively before renaming, the data folder is moved or removed on every cleaning path, and no flat os.Remove is used on these folders", Run: r176})
}

// r176: "a removed peer ... discards its consensus data" (C17). CleanupRaft
// either removes the folder (no snapshot) or rotates it into the backups.
// The rotation renames name.old.(i-1) -> name.old.i, so the last slot must
// be free: it is either new or was removed with os.RemoveAll (backups are
// non-empty directories; os.Remove fails on them and the rename that
// follows fails with EEXIST, leaving the live data in place).
func r176(c *Ctx, r *R) {
	mb := c.fn(r, "consensus/raft", "dataBackupHelper.makeBackup")
	cr := c.fn(r, "consensus/raft", "CleanupRaft")
	if mb == nil || cr == nil {
		return
	}
	// no flat remove anywhere in the package's non-test code
	n := 0
	c.P.RepoFuncs(func(f *ssa.Function) {
		if f.Pkg == nil || f.Pkg.Pkg.Path() != ModPath+"/consensus/raft" {
			return
		}
		for _, ci := range findCalls(f, false, "=os.Remove") {
			n++
			r.Bad("flat-remove:"+f.Name(), ci.Pos(), "%s removes a path with os.Remove: raft data and backup folders are non-empty directories, the call fails and the stale data stays", f.Name())
		}
	})
	if n == 0 {
		r.OK("flat-remove", mb.Pos(), "no os.Remove in consensus/raft (folders are removed with os.RemoveAll)")
	}
	// the rotation: a RemoveAll under len(backups) >= keep, before the renames
	rm := findCalls(mb, false, "=os.RemoveAll")
	rn := findCalls(mb, false, "=os.Rename")
	okRm := false
	for _, x := range rm {
		before := true
		for _, y := range rn {
			if !(x.Block() != y.Block() && blockReaches(x.Block(), y.Block()) || x.Block() == y.Block() && dominatesInstr(x, y)) {
				before = false
			}
		}
		if before && len(rn) > 0 {
			okRm = true
		}
	}
	r.Check(okRm, "rotation:oldest-removed-first", mb.Pos(), "the oldest backup is removed recursively before the renames shift the others", "makeBackup no longer removes the oldest backup (recursively) before shifting the others: once all slots are used the rename fails and the live data folder is not moved away")
	// the final move of the live folder is makeBackup's result
	okMove := false
	for _, lf := range returnLeaves(mb, 0) {
		if call, _ := originCall(lf.Val); call != nil && nameMatches(callName(call.Common()), "=os.Rename") {
			okMove = true
		}
	}
	r.Check(okMove, "rotation:moves-live-folder", mb.Pos(), "the live data folder is renamed into the first backup slot and that result is returned", "makeBackup does not end by renaming the live data folder into the first backup slot")
	// listBackups returns the contiguous run name.old.0 .. name.old.k (the
	// rotation relies on backups[i] being slot i): once a slot is missing
	// nothing more is appended
	if lb := c.fn(r, "consensus/raft", "dataBackupHelper.listBackups"); lb != nil {
		var apps []ssa.CallInstruction
		for _, ci := range callsIn(lb) {
			if callName(ci.Common()) == "builtin.append" {
				apps = append(apps, ci)
			}
		}
		okContig, seen := true, 0
		for _, b := range lb.Blocks {
			iff, ok := b.Instrs[len(b.Instrs)-1].(*ssa.If)
			if !ok {
				continue
			}
			// which edge means "the slot is missing": os.IsNotExist tested
			// here, negated, or behind a boolean helper (`!exists(name)`)
			branch, isTest := missingEdge(iff.Cond, 0)
			if !isTest {
				continue
			}
			seen++
			missing := b.Succs[0]
			if !branch {
				missing = b.Succs[1]
			}
			for _, a := range apps {
				if a.Block() == missing || blockReaches(missing, a.Block()) {
					okContig = false
				}
			}
		}
		r.Check(okContig && seen > 0 && len(apps) > 0, "rotation:list-contiguous", lb.Pos(), "listBackups stops at the first missing slot (position in the list = slot number)", "listBackups goes on collecting after a missing slot: the list no longer maps position to slot number, so with a gap in the numbering the renames hit existing folders, fail, and the live data folder is neither moved nor recoverable as the newest backup")
	}
	// CleanupRaft: every path either removes the folder or makes the backup
	okPaths := true
	for _, ret := range returnsOf(cr) {
		b := ret.Block()
		dom := false
		for _, ci := range findCalls(cr, false, "=os.RemoveAll", "raft.dataBackupHelper).makeBackup") {
			if ci.Block() == b || ci.Block().Dominates(b) {
				dom = true
			}
		}
		if !dom {
			okPaths = false
		}
	}
	r.Check(okPaths, "cleanup:every-path", cr.Pos(), "every exit of CleanupRaft is dominated by the removal or the backup of the data folder", "CleanupRaft can return without having removed or backed up the data folder")
}

func init() {
	register(&Rule{ID: "R04.7", Props: []string{"C04"}, Floor: 6, Title: "unpinning sharded content also unpins its cluster-DAG and shard entries: the meta arm logs the unpin only after unpinClusterDag succeeded, which unpins every CID of the list built from the meta pin's reference and the cluster DAG's links", Run: r047})
}

func r047(c *Ctx, r *R) {
	// (1) Unpin: the meta entry goes only after its DAG entries (decided by
	// R04.4 `meta-dag-first` on paths; here: the call exists and meta pins
	// reach it)
	if f := c.fn(r, "", "Cluster.Unpin"); f != nil {
		meta := c.constIn("api", "MetaType")
		isT := func(x ssa.Value) bool { fl, _ := fieldLoad(x); return fl != nil && fl.Name() == "Type" }
		ucd := findCalls(f, false, ModPath+".Cluster).unpinClusterDag")
		okReach := false
		for _, u := range ucd {
			// reachable for a meta pin
			if !mustPass(u.Block(), func(g Guard) bool {
				if gEq(g, meta, false, isT) {
					return true
				}
				x, kk, tme, isEq := eqConst(g.Cond)
				return isEq && isT(x) && tme == g.Branch && !constant.Compare(kk, token.EQL, meta)
			}) {
				okReach = true
			}
		}
		okAfter := len(ucd) > 0
		for _, ci := range findCalls(f, false, c04Sinks[1]) {
			if !mustPass(ci.Block(), func(g Guard) bool {
				if gCallErrNil(g, ModPath+".Cluster).unpinClusterDag") || gEq(g, meta, false, isT) {
					return true
				}
				x, kk, tme, isEq := eqConst(g.Cond)
				return isEq && isT(x) && tme == g.Branch && !constant.Compare(kk, token.EQL, meta)
			}) {
				okAfter = false
			}
		}
		r.Check(okReach && okAfter, "Unpin:meta-after-dag", f.Pos(), "the meta entry is unpinned only after its cluster-DAG and shard entries were", "Unpin removes the meta entry of sharded content without (successfully) unpinning its cluster-DAG and shard entries first: they stay in the pinset for ever")
	}
	// (2) unpinClusterDag: every listed CID is unpinned
	if f := c.fn(r, "", "Cluster.unpinClusterDag"); f != nil {
		lus := findCalls(f, false, c04Sinks[1])
		if len(lus) != 1 {
			r.Bad("unpinClusterDag:LogUnpin", f.Pos(), "unpinClusterDag has %d LogUnpin calls (expected one, in the loop over the listed CIDs)", len(lus))
		} else {
			lu := lus[0]
			// argument: PinCid(element of cidsFromMetaPin's list)
			fromList := false
			if pc, _ := originCall(callArgs(lu.Common())[1]); pc != nil && nameMatches(callName(pc.Common()), "api.PinCid") {
				if ld, ok := pc.Common().Args[0].(*ssa.UnOp); ok {
					if ia, ok := ld.X.(*ssa.IndexAddr); ok {
						if src, idx := originCall(ia.X); src != nil && idx == 0 && nameMatches(callName(src.Common()), ModPath+".Cluster).cidsFromMetaPin") {
							fromList = true
						}
					}
				}
			}
			// a list that came with an error is partial (the reference
			// and the meta CID without the shards): it is never used
			complete := guardedBy(lu.Block(), func(g Guard) bool { return gCallErrNil(g, ModPath+".Cluster).cidsFromMetaPin") })
			r.Check(complete, "unpinClusterDag:list-complete", lu.Pos(), "the listed CIDs are unpinned only when the list was computed without error", "unpinClusterDag uses the list although cidsFromMetaPin reported an error: that list is partial (cluster-DAG and meta CID, no shards), so the root and the cluster DAG are removed and every shard entry is orphaned for good")
			r.Check(fromList, "unpinClusterDag:element", lu.Pos(), "each element of the list computed from the meta pin is unpinned", "unpinClusterDag does not unpin the elements of cidsFromMetaPin's list")
			// the sweep is complete: the loop is left after a LogUnpin only
			// by returning that call's error
			b := lu.Block()
			var header *ssa.BasicBlock
			for d := b; d != nil; d = d.Idom() {
				if inNaturalLoop(b, d) {
					header = d
					break
				}
			}
			okSweep := header != nil
			if header != nil {
				seen := map[*ssa.BasicBlock]bool{}
				var walk func(x *ssa.BasicBlock)
				walk = func(x *ssa.BasicBlock) {
					if seen[x] || x == header {
						return
					}
					seen[x] = true
					if !inNaturalLoop(x, header) {
						// allowed only as the error return of this LogUnpin
						ret, isRet := x.Instrs[len(x.Instrs)-1].(*ssa.Return)
						if !isRet || !guardedBy(x, func(g Guard) bool {
							return gNil(g, true, func(v ssa.Value) bool { cc, _ := originCall(v); return ssa.Value(cc) == lu.(ssa.Value) })
						}) {
							okSweep = false
						}
						_ = ret
						return
					}
					for _, n := range x.Succs {
						walk(n)
					}
				}
				for _, n := range b.Succs {
					walk(n)
				}
			}
			r.Check(okSweep, "unpinClusterDag:sweep", lu.Pos(), "the loop over the listed CIDs is left early only with the error of a failed unpin", "unpinClusterDag can stop before every listed CID was unpinned without reporting an error")
		}
	}
	// (3) cidsFromMetaPin: the successful result for a meta pin is built
	// from the meta pin's reference (the cluster-DAG entry) and from the
	// CIDs of the cluster DAG's links (the shard entries), however the list
	// is put together
	cf := c.fn(r, "", "Cluster.cidsFromMetaPin")
	if cf == nil {
		return
	}
	n := 0
	for _, ret := range returnsOf(cf) {
		if ret.Block() == cf.Recover || len(ret.Results) != 2 || !isNilConst(retResult(ret, 1)) {
			continue
		}
		// the return after the cluster DAG was read and parsed
		if !guardedBy(ret.Block(), func(g Guard) bool { return gCallErrNil(g, "sharding.CborDataToNode") }) {
			continue
		}
		n++
		list := retResult(ret, 0)
		hasRef := builtFrom(list, func(v ssa.Value) bool {
			// *pin.Reference
			if u, ok := v.(*ssa.UnOp); ok && u.Op == token.MUL {
				if fl, _ := fieldLoad(u.X); fl != nil && fl.Name() == "Reference" {
					return true
				}
			}
			return false
		})
		hasLinks := builtFrom(list, func(v ssa.Value) bool {
			// <element of Links()>.Cid
			fl, base := fieldLoad(v)
			if fl == nil || fl.Name() != "Cid" {
				return false
			}
			// base: *IndexAddr(links, i) or IndexAddr elem pointer
			for k := 0; k < 4 && base != nil; k++ {
				switch y := base.(type) {
				case *ssa.UnOp:
					base = y.X
					continue
				case *ssa.IndexAddr:
					if call, _ := originCall(y.X); call != nil && strings.HasSuffix(callName(call.Common()), ".Links") {
						return true
					}
				}
				break
			}
			return false
		})
		r.Check(hasRef, "cidsFromMetaPin:reference", ret.Pos(), "the successful list contains the meta pin's reference (the cluster-DAG entry)", "cidsFromMetaPin's successful result no longer contains the meta pin's reference (the cluster-DAG entry is never unpinned)")
		r.Check(hasLinks, "cidsFromMetaPin:links", ret.Pos(), "the successful list contains the CID of every link of the cluster DAG (the shard entries)", "cidsFromMetaPin's successful result no longer contains the cluster DAG's links (shard entries are never unpinned)")
	}
	if n == 0 {
		r.Und("cidsFromMetaPin:return", cf.Pos(), "no successful return after the cluster DAG was parsed found in cidsFromMetaPin")
	}
}

func init() {
	register(&Rule{ID: "R15.9", Props: []string{"C15", "C16"}, Floor: 100, Title: "save and load pair each JSON setting with the configuration field of the same setting (no crossed fields: pin_timeout is not written from UnpinTimeout)", Run: r159})
}

// c15Pairs: JSON field -> configuration field where the names differ on
// purpose (confirmed by reading).
var c15Pairs = map[string]string{
	".Config.ConnectionManager":                 "ConnMgr",         // cluster: connection_manager section <-> ConnMgr struct
	"api/ipfsproxy.Config.NodeMultiaddress":     "NodeAddr",        // node_multiaddress <-> NodeAddr
	"ipfsconn/ipfshttp.Config.NodeMultiaddress": "NodeAddr",        // node_multiaddress <-> NodeAddr
	"api/rest.Config.SSLCertFile":               "pathSSLCertFile", // the path as given (the TLS field holds the loaded certificate)
	"api/rest.Config.SSLKeyFile":                "pathSSLKeyFile",  // idem
}

func r159(c *Ctx, r *R) {
	ccs := c.componentConfigs(r)
	for _, cc := range ccs {
		J := jsonStructOf(c, cc)
		if J == nil {
			continue
		}
		label := cc.rel + "." + cc.name
		saveRoot, _ := c.P.FuncDecl(cc.rel, cc.name+".ToJSON")
		loadRoot, _ := c.P.FuncDecl(cc.rel, cc.name+".LoadJSON")
		if saveRoot == nil || loadRoot == nil {
			continue
		}
		pkg := cc.pkg
		// fieldsOf: which fields of the JSON struct / the config struct an
		// expression mentions
		isNamed := func(t types.Type, want *types.Named) bool {
			if p, ok := t.(*types.Pointer); ok {
				t = p.Elem()
			}
			nt, ok := t.(*types.Named)
			return ok && nt == want
		}
		isJT := func(t types.Type) bool {
			if isNamed(t, J) {
				return true
			}
			if p, ok := t.(*types.Pointer); ok {
				t = p.Elem()
			}
			nt, ok := t.(*types.Named)
			if !ok || nt.Obj().Pkg() != pkg.Types || nt == cc.t {
				return false
			}
			_, isS := nt.Underlying().(*types.Struct)
			return isS && strings.HasPrefix(strings.ToLower(nt.Obj().Name()), "json")
		}
		mention := func(e ast.Node, wantJSON bool) []string {
			var out []string
			ast.Inspect(e, func(n ast.Node) bool {
				se, ok := n.(*ast.SelectorExpr)
				if !ok {
					return true
				}
				// walk the selector chain down to its root: every field
				// on a chain rooted at a JSON (or configuration) value
				// counts, also fields of nested structs of other packages
				// (cfg.RaftConfig.HeartbeatTimeout)
				var names []string
				var x ast.Expr = se
				rooted := false
				for {
					cur, ok := ast.Unparen(x).(*ast.SelectorExpr)
					if !ok {
						break
					}
					sel := pkg.TypesInfo.Selections[cur]
					if sel == nil || sel.Kind() != types.FieldVal {
						break
					}
					names = append(names, sel.Obj().Name())
					rt := sel.Recv()
					if wantJSON && isJT(rt) || !wantJSON && (isNamed(rt, cc.t) || cfgNested(rt, cc, pkg)) {
						rooted = true
					}
					x = cur.X
				}
				if rooted {
					out = append(out, names...)
				}
				return true
			})
			return out
		}
		norm := func(s string) string { return strings.ToLower(strings.ReplaceAll(s, "_", "")) }
		// namesakes: the JSON field with the same (normalised) name as a
		// configuration field, and the reverse
		jsonNames, cfgNames := map[string]string{}, map[string]string{}
		var collect func(st *types.Struct, into map[string]string, depth int)
		collect = func(st *types.Struct, into map[string]string, depth int) {
			for i := 0; i < st.NumFields(); i++ {
				f := st.Field(i)
				into[norm(f.Name())] = f.Name()
				ft := f.Type()
				if p, ok := ft.(*types.Pointer); ok {
					ft = p.Elem()
				}
				if nt, ok := ft.(*types.Named); ok && depth < 2 && nt.Obj().Pkg() == pkg.Types {
					if s2, ok := nt.Underlying().(*types.Struct); ok {
						collect(s2, into, depth+1)
					}
				}
			}
		}
		collect(J.Underlying().(*types.Struct), jsonNames, 0)
		if st, ok := cc.t.Underlying().(*types.Struct); ok {
			collect(st, cfgNames, 0)
		}
		jsonNamesake := func(cfgField string) string {
			for jf, g := range c15Pairs {
				if strings.HasPrefix(jf, label+".") && g == cfgField {
					return strings.TrimPrefix(jf, label+".")
				}
			}
			return jsonNames[norm(cfgField)]
		}
		cfgNamesake := func(jsonField string) string {
			if g, ok := c15Pairs[label+"."+jsonField]; ok {
				return g
			}
			return cfgNames[norm(jsonField)]
		}
		check := func(side, jf string, cfs []string, pos token.Pos) {
			if len(cfs) == 0 {
				return
			}
			key := label + ":" + side + ":" + jf
			for _, g := range cfs {
				if norm(g) == norm(jf) || c15Pairs[label+"."+jf] == g {
					r.OK(key, pos, "paired with the configuration field %s", g)
					return
				}
			}
			// a differently named partner is a naming choice; a partner
			// that is the namesake of ANOTHER JSON setting is a crossing
			for _, g := range cfs {
				if other := jsonNamesake(g); other != "" && norm(other) != norm(jf) {
					r.Bad(key, pos, "on the %s side the JSON setting %s is paired with the configuration field %s, which belongs to the setting %s: the value of another setting is written in its place", side, jf, g, other)
					return
				}
			}
			r.OK(key, pos, "paired with differently named configuration field(s) %v that belong to no other setting", cfs)
		}
		for _, d := range funcsCalledFrom(c.P, pkg, saveRoot) {
			ast.Inspect(d.Body, func(n ast.Node) bool {
				switch x := n.(type) {
				case *ast.CompositeLit:
					if tv, ok := pkg.TypesInfo.Types[x]; ok && isJT(tv.Type) {
						for _, el := range x.Elts {
							if kv, ok := el.(*ast.KeyValueExpr); ok {
								if id, ok := kv.Key.(*ast.Ident); ok {
									check("save", id.Name, mention(kv.Value, false), kv.Pos())
								}
							}
						}
					}
				case *ast.AssignStmt:
					if len(x.Lhs) == 1 && len(x.Rhs) == 1 {
						if js := mention(x.Lhs[0], true); len(js) == 1 {
							if _, isSel := x.Lhs[0].(*ast.SelectorExpr); isSel {
								check("save", js[0], mention(x.Rhs[0], false), x.Pos())
							}
						}
					}
				}
				return true
			})
		}
		for _, d := range funcsCalledFrom(c.P, pkg, loadRoot) {
			ast.Inspect(d.Body, func(n ast.Node) bool {
				switch x := n.(type) {
				case *ast.AssignStmt:
					if len(x.Lhs) == 1 && len(x.Rhs) == 1 {
						if cs := mention(x.Lhs[0], false); len(cs) >= 1 {
							if _, isSel := x.Lhs[0].(*ast.SelectorExpr); isSel {
								if js := mention(x.Rhs[0], true); len(js) > 0 {
									// load: the JSON fields feeding configuration field cs[last]
									cf := cs[len(cs)-1]
									ok := false
									for _, j := range js {
										if norm(j) == norm(cf) || c15Pairs[label+"."+j] == cf {
											ok = true
										}
									}
									for _, c2 := range cs {
										for _, j := range js {
											if norm(j) == norm(c2) || c15Pairs[label+"."+j] == c2 {
												ok = true
											}
										}
									}
									key := label + ":load:" + cf
									if ok {
										r.OK(key, x.Pos(), "loaded from the JSON field of the same setting")
									} else {
										crossed := ""
										for _, j := range js {
											// j has a namesake configuration field other than cf
											if cfgNamesake(j) != "" && norm(cfgNamesake(j)) != norm(cf) {
												crossed = j
											}
										}
										if crossed != "" {
											r.Bad(key, x.Pos(), "on the load side the configuration field %s is assigned from the JSON field %s, which belongs to another setting", cf, crossed)
										} else {
											r.OK(key, x.Pos(), "loaded from differently named JSON field(s) %v that belong to no other setting", js)
										}
									}
								}
							}
						}
					}
				case *ast.CallExpr:
					// config.SetIfNotDefault(jcfg.F, &cfg.G) and
					// &config.DurationOpt{Duration: jcfg.F, Dst: &cfg.G}
					if strings.HasSuffix(funcFullName(pkg, x), "config.SetIfNotDefault") && len(x.Args) == 2 {
						js, cs := mention(x.Args[0], true), mention(x.Args[1], false)
						if len(js) > 0 && len(cs) > 0 {
							check("load", js[0], cs, x.Pos())
						}
					}
				case *ast.CompositeLit:
					if tv, ok := pkg.TypesInfo.Types[x]; ok && strings.HasSuffix(tv.Type.String(), "config.DurationOpt") {
						var js, cs []string
						for _, el := range x.Elts {
							if kv, ok := el.(*ast.KeyValueExpr); ok {
								if id, ok := kv.Key.(*ast.Ident); ok {
									switch id.Name {
									case "Duration":
										js = mention(kv.Value, true)
									case "Dst":
										cs = mention(kv.Value, false)
									}
								}
							}
						}
						if len(js) > 0 && len(cs) > 0 {
							check("load", js[0], cs, x.Pos())
						}
					}
				}
				return true
			})
		}
	}
}

// cfgNested: t is a struct type nested in the component's configuration
// (e.g. Batching inside crdt.Config).
func cfgNested(t types.Type, cc compCfg, pkg *packages.Package) bool {
	if p, ok := t.(*types.Pointer); ok {
		t = p.Elem()
	}
	nt, ok := t.(*types.Named)
	if !ok || nt.Obj().Pkg() != pkg.Types {
		return false
	}
	st, ok := cc.t.Underlying().(*types.Struct)
	if !ok {
		return false
	}
	for i := 0; i < st.NumFields(); i++ {
		ft := st.Field(i).Type()
		if p, ok := ft.(*types.Pointer); ok {
			ft = p.Elem()
		}
		if ft == types.Type(nt) {
			return true
		}
	}
	return false
}

func init() {
	register(&Rule{ID: "R07.8", Props: []string{"C12", "C11", "C07", "C08"}, Floor: 55, Title: "type agreement across the string-dispatched RPC boundary: at every gorpc call site the argument and the reply have exactly the types the endpoint declares (gorpc refuses or mis-decodes anything else at run time)", Run: r078})
}

// r078: gorpc dispatches on strings, so the compiler never compares the
// argument passed as interface{} with the endpoint's parameter. A local
// call with a value where the endpoint takes a pointer (or another type) is
// refused at run time ("is being called with the wrong arg type") and the
// operation silently does not happen; a remote call is mis-decoded.
func r078(c *Ctx, r *R) {
	methods := c.rpcMethods()
	operand := func(v ssa.Value) (types.Type, bool) {
		mi, ok := v.(*ssa.MakeInterface)
		if !ok {
			return nil, false // passed through as interface{} (wrappers): decided at the wrapper's callers
		}
		return mi.X.Type(), true
	}
	for _, s := range c.RPC {
		if !s.Resolved {
			continue
		}
		pos, ok := rpcArgPos[s.Kind]
		if !ok {
			continue
		}
		args := callArgs(s.Call.Common())
		ai, ri := pos[1]+2, pos[1]+3
		if ri >= len(args) {
			continue
		}
		for _, t := range s.Targets {
			m := methods[t.Svc+"."+t.Method]
			if m == nil {
				continue // reported by R07.0
			}
			sig := m.Type().(*types.Signature)
			in, out := sig.Params().At(1).Type(), sig.Params().At(2).Type()
			key := fmt.Sprintf("%s.%s@%s", t.Svc, t.Method, s.Fn.Name())
			if at, ok := operand(args[ai]); ok {
				r.Check(types.Identical(at, in), "arg:"+key, s.Call.Pos(), "argument type "+types.TypeString(at, shortQual)+" is the endpoint's", fmt.Sprintf("%s.%s is called with an argument of type %s where the endpoint takes %s: gorpc refuses the call at run time (or decodes garbage remotely) and the operation does not happen", t.Svc, t.Method, types.TypeString(at, shortQual), types.TypeString(in, shortQual)))
			}
			if strings.HasPrefix(s.Kind, "Multi") {
				// replies are a []interface{} built by an rpcutil helper:
				// the element types are read off the helper (what it
				// wraps into each interface slot)
				if hc, _ := originCall(args[ri]); hc != nil {
					if h := hc.Common().StaticCallee(); h != nil && h.Blocks != nil {
						var ets []types.Type
						instrs(h, func(i ssa.Instruction) {
							if st, ok := i.(*ssa.Store); ok {
								if _, isIdx := st.Addr.(*ssa.IndexAddr); isIdx {
									if mi, ok := st.Val.(*ssa.MakeInterface); ok {
										ets = append(ets, mi.X.Type())
									}
								}
							}
						})
						for _, et := range ets {
							r.Check(types.Identical(et, out), "reply:"+key, s.Call.Pos(), "each reply slot built by "+h.Name()+" has the endpoint's reply type "+types.TypeString(et, shortQual), fmt.Sprintf("%s.%s is broadcast with reply slots of type %s (built by %s) where the endpoint writes %s", t.Svc, t.Method, types.TypeString(et, shortQual), h.Name(), types.TypeString(out, shortQual)))
						}
					}
				}
				continue
			}
			if rt, ok := operand(args[ri]); ok {
				r.Check(types.Identical(rt, out), "reply:"+key, s.Call.Pos(), "reply type "+types.TypeString(rt, shortQual)+" is the endpoint's", fmt.Sprintf("%s.%s is called with a reply of type %s where the endpoint writes %s", t.Svc, t.Method, types.TypeString(rt, shortQual), types.TypeString(out, shortQual)))
			}
		}
	}
}

func shortQual(p *types.Package) string { return p.Name() }

func init() {
	register(&Rule{ID: "R11.7", Props: []string{"C11", "C13"}, Floor: 4, Title: "mid-stream add errors reach the client: the server announces and sets the X-Stream-Error trailer when the add fails, and the client reads that trailer only after the response body was read to its end (net/http fills trailers at EOF) and turns it into an error", Run: r117})
}

func r117(c *Ctx, r *R) {
	// server side: Trailer announced before WriteHeader, set under err != nil
	srv := c.fn(r, "adder/adderutils", "AddMultipartHTTPHandler")
	var trailerName string
	if srv != nil {
		announced, setOnErr := false, false
		// in the handler or in the helper it hands the streaming case to
		var sets, whs []ssa.CallInstruction
		for _, dc := range findCallsDeep(srv, "(net/http.Header).Set") {
			sets = append(sets, dc.Inner)
		}
		for _, dc := range findCallsDeep(srv, "net/http.ResponseWriter).WriteHeader") {
			whs = append(whs, dc.Inner)
		}
		for _, ci := range sets {
			a := callArgs(ci.Common())
			k0, ok0 := constOf(a[0])
			if !ok0 || k0 == nil || k0.Kind() != constant.String {
				continue
			}
			if constant.StringVal(k0) == "Trailer" {
				if k1, ok1 := constOf(a[1]); ok1 && k1 != nil && k1.Kind() == constant.String {
					trailerName = constant.StringVal(k1)
					// before the status line is written
					for _, wh := range whs {
						if wh.Parent() != ci.Parent() {
							continue
						}
						if wh.Block() == ci.Block() && dominatesInstr(ci, wh) || ci.Block().Dominates(wh.Block()) && ci.Block() != wh.Block() {
							announced = true
						}
					}
				}
			}
		}
		for _, ci := range sets {
			a := callArgs(ci.Common())
			if k0, ok0 := constOf(a[0]); ok0 && k0 != nil && k0.Kind() == constant.String && constant.StringVal(k0) == trailerName && trailerName != "" {
				if guardedBy(ci.Block(), func(g Guard) bool {
					return gNil(g, true, func(v ssa.Value) bool {
						cc, _ := originCall(v)
						return cc != nil && callMatches(cc.Common(), "adder.Adder).FromMultipart")
					})
				}) {
					setOnErr = true
				}
			}
		}
		r.Check(announced, "server:trailer-announced", srv.Pos(), "the streaming add announces its error trailer before the status line", "the streaming add no longer announces an error trailer before WriteHeader: an error after the 200 cannot be reported")
		r.Check(setOnErr, "server:trailer-set-on-error", srv.Pos(), "a failed add sets the announced trailer", "a failed streaming add no longer sets the announced error trailer: the client sees a successful, truncated stream")
	}
	// client side
	f := c.fn(r, "api/rest/client", "defaultClient.handleStreamResponse")
	if f == nil {
		return
	}
	var get ssa.CallInstruction
	for _, ci := range findCalls(f, false, "(net/http.Header).Get") {
		if fl, _ := fieldLoad(ci.Common().Args[0]); fl != nil && fl.Name() == "Trailer" {
			get = ci
		}
	}
	if get == nil {
		r.Bad("client:reads-trailer", f.Pos(), "the client never reads the response trailers of a streaming request: an add that failed after the 200 is reported as success")
		return
	}
	if k, ok := constOf(get.Common().Args[1]); ok && k != nil && k.Kind() == constant.String {
		r.Check(trailerName == "" || constant.StringVal(k) == trailerName, "client:same-trailer", get.Pos(), "client and server agree on the trailer name", fmt.Sprintf("the client reads trailer %s, the server sets %q", k, trailerName))
	}
	// body reads: uses of the decoder built on resp.Body
	var dec ssa.Value
	for _, ci := range findCalls(f, false, "encoding/json.NewDecoder") {
		dec = ci.(ssa.Value)
	}
	if dec == nil {
		r.Und("client:decoder", f.Pos(), "no json decoder over the response body found in handleStreamResponse")
		return
	}
	early := ""
	for _, ref := range *dec.Referrers() {
		ci, ok := ref.(ssa.CallInstruction)
		if !ok {
			continue
		}
		after := false
		if ci.Block() == get.Block() {
			after = dominatesInstr(get, ci)
		} else {
			after = blockReaches(get.Block(), ci.Block())
		}
		if after {
			early = c.P.Pos(ci.Pos())
		}
	}
	r.Check(early == "", "client:trailer-after-body", get.Pos(), "the trailer is read when nothing more is read from the body", "the trailer is read before the body was consumed (body read at "+early+" follows): net/http fills Response.Trailer only at EOF, so the error trailer is always empty and a failed add is reported as success")
	// a non-empty trailer becomes an error
	toErr := false
	for _, lf := range returnLeaves(f, 0) {
		if !isNilConst(lf.Val) && lf.GuardedBy(func(g Guard) bool {
			x, k, tme, ok := eqConst(g.Cond)
			if !ok || k.Kind() != constant.String || constant.StringVal(k) != "" {
				return false
			}
			cc, _ := originCall(x)
			return cc != nil && ssa.Value(cc) == get.(ssa.Value) && tme != g.Branch
		}) {
			toErr = true
		}
	}
	r.Check(toErr, "client:trailer-becomes-error", get.Pos(), "a non-empty error trailer is returned as an error", "a non-empty error trailer no longer becomes an error")
}

func init() {
	register(&Rule{ID: "R15.10", Props: []string{"C15", "C07"}, Floor: 2, Title: "list settings are replaced, not accumulated: a loader that appends to a configuration field first stores a fresh value into it (loaders run on already-loaded configurations: ApplyEnvVars after LoadJSON)", Run: r1510})
}

func r1510(c *Ctx, r *R) {
	ccs := c.componentConfigs(r)
	n := 0
	for _, cc := range ccs {
		loadRoot, _ := c.P.FuncDecl(cc.rel, cc.name+".LoadJSON")
		if loadRoot == nil {
			continue
		}
		label := cc.rel + "." + cc.name
		roots := []*ast.FuncDecl{loadRoot}
		if env, _ := c.P.FuncDecl(cc.rel, cc.name+".ApplyEnvVars"); env != nil {
			roots = append(roots, env)
		}
		seenF := map[*ssa.Function]bool{}
		for _, root := range roots {
			for _, d := range funcsCalledFrom(c.P, cc.pkg, root) {
				obj, _ := cc.pkg.TypesInfo.Defs[d.Name].(*types.Func)
				if obj == nil {
					continue
				}
				f := c.P.SSA.FuncValue(obj)
				if f == nil || f.Blocks == nil || seenF[f] {
					continue
				}
				seenF[f] = true
				isCfgField := func(v ssa.Value) *types.Var {
					fa, ok := v.(*ssa.FieldAddr)
					if !ok {
						return nil
					}
					t := fa.X.Type()
					if p, ok := t.(*types.Pointer); ok {
						t = p.Elem()
					}
					if t != types.Type(cc.t) {
						return nil
					}
					return fieldOfAddr(fa)
				}
				instrs(f, func(i ssa.Instruction) {
					st, ok := i.(*ssa.Store)
					if !ok {
						return
					}
					fld := isCfgField(st.Addr)
					if fld == nil {
						return
					}
					ap, ok := st.Val.(*ssa.Call)
					if !ok || callName(ap.Common()) != "builtin.append" {
						return
					}
					// self-append: first operand is (derived from) a load of the same field
					self := false
					for _, l := range phiLeaves(ap.Common().Args[0]) {
						if ld, ok := l.(*ssa.UnOp); ok && ld.Op == token.MUL {
							if g := isCfgField(ld.X); g == fld {
								self = true
							}
						}
						if l == ssa.Value(ap) {
							continue
						}
					}
					if !self {
						return
					}
					n++
					// a dominating store of a value not derived from the field
					fresh := false
					instrs(f, func(j ssa.Instruction) {
						s2, ok := j.(*ssa.Store)
						if !ok || s2 == st || isCfgField(s2.Addr) != fld {
							return
						}
						if c2, ok := s2.Val.(*ssa.Call); ok && callName(c2.Common()) == "builtin.append" {
							return
						}
						if s2.Block() == st.Block() && dominatesInstr(s2, st) || s2.Block() != st.Block() && s2.Block().Dominates(st.Block()) {
							fresh = true
						}
					})
					r.Check(fresh, label+":"+f.Name()+":"+fld.Name(), st.Pos(), "the list is reset before elements are appended", fmt.Sprintf("%s appends to the configuration field %s without first storing a fresh value into it: applied to an already-loaded configuration (ApplyEnvVars after LoadJSON, a second LoadJSON) the old elements stay and the list grows", f.Name(), fld.Name()))
				})
			}
		}
	}
	_ = n
}

func init() {
	register(&Rule{ID: "R15.11", Props: []string{"C15"}, Floor: 24, Title: "environment overrides start from the current configuration: ApplyEnvVars feeds envconfig the JSON form of the configuration as it is (not a fresh, empty one) and applies exactly that value back", Run: r1511})
}

func r1511(c *Ctx, r *R) {
	for _, cc := range c.componentConfigs(r) {
		f := c.P.Func(cc.rel, cc.name+".ApplyEnvVars")
		label := cc.rel + "." + cc.name
		if f == nil || f.Blocks == nil {
			continue
		}
		procs := findCalls(f, false, "envconfig.Process")
		if len(procs) == 0 {
			// nothing overridable (or delegated): not this rule's business
			continue
		}
		for _, p := range procs {
			target := callArgs(p.Common())[1]
			if mi, ok := target.(*ssa.MakeInterface); ok {
				target = mi.X
			}
			// (1) the target is the JSON form of the receiver
			src, _ := originCall(target)
			fromCfg := false
			if src != nil {
				if cal := src.Common().StaticCallee(); cal != nil && cal.Signature.Recv() != nil && len(src.Common().Args) > 0 && paramIndex(f, src.Common().Args[0]) == 0 {
					fromCfg = true
				}
			}
			r.Check(fromCfg, label+":from-current", p.Pos(), "envconfig overrides the JSON form of the current configuration", "ApplyEnvVars lets envconfig fill a JSON value that is not derived from the current configuration: every setting not present in the environment falls back to its zero/default value when applied (file values are lost)")
			// (2) the same value is applied back and that result returned
			applied := false
			for _, lf := range returnLeaves(f, 0) {
				call, _ := originCall(lf.Val)
				if call == nil {
					continue
				}
				for _, a := range call.Common().Args {
					if strip(a) == strip(target) {
						applied = true
					}
				}
			}
			r.Check(applied, label+":applied-back", p.Pos(), "the overridden JSON value is applied to the configuration and that result is returned", "ApplyEnvVars does not apply the value envconfig filled (or drops the result of applying it): environment overrides have no effect or their errors are lost")
		}
	}
}

func init() {
	register(&Rule{ID: "R15.12", Props: []string{"C15"}, Floor: 14, Title: "loaders drop no parse error: on the from-JSON side every callee that is given input and returns an error has that error examined (a malformed duration, address or key is refused, not replaced by the default)", Run: r1512})
}

func r1512(c *Ctx, r *R) {
	for _, cc := range c.componentConfigs(r) {
		loadRoot, _ := c.P.FuncDecl(cc.rel, cc.name+".LoadJSON")
		if loadRoot == nil {
			continue
		}
		label := cc.rel + "." + cc.name
		roots := []*ast.FuncDecl{loadRoot}
		if env, _ := c.P.FuncDecl(cc.rel, cc.name+".ApplyEnvVars"); env != nil {
			roots = append(roots, env)
		}
		seenF := map[*ssa.Function]bool{}
		var probs []string
		var first token.Pos
		for _, root := range roots {
			for _, d := range funcsCalledFrom(c.P, cc.pkg, root) {
				obj, _ := cc.pkg.TypesInfo.Defs[d.Name].(*types.Func)
				if obj == nil {
					continue
				}
				f := c.P.SSA.FuncValue(obj)
				if f == nil || f.Blocks == nil || seenF[f] {
					continue
				}
				seenF[f] = true
				instrs(f, func(i ssa.Instruction) {
					x, ok := i.(*ssa.Call)
					if !ok {
						return
					}
					sig := x.Common().Signature()
					n := sig.Results().Len()
					if n == 0 || sig.Results().At(n-1).Type().String() != "error" {
						return
					}
					cn := callName(x.Common())
					if nameMatches(cn, "(*go.uber.org/zap.SugaredLogger)", "fmt.Fprint", "(*bytes.Buffer).Write", "(*strings.Builder).Write") {
						return
					}
					// input-free calls (cfg.Default()) cannot fail on input
					args := x.Common().Args
					if sig.Recv() != nil && !x.Common().IsInvoke() && len(args) > 0 {
						args = args[1:]
					}
					hasInput := false
					for _, a := range args {
						if _, isK := constOf(a); !isK {
							hasInput = true
						}
					}
					if !hasInput {
						return
					}
					// the whole outcome is discarded (an expression
					// statement). `v, _ := parse(x)` is a different idiom:
					// a failure leaves the zero value in v, which the
					// validation that ends every loader (R15.2) sees.
					used := false
					if x.Referrers() != nil {
						for _, ref := range *x.Referrers() {
							if _, isDbg := ref.(*ssa.DebugRef); !isDbg {
								used = true
							}
						}
					}
					if !used {
						probs = append(probs, fmt.Sprintf("%s discards the outcome (error included) of %s at %s", f.Name(), shortName(x), c.P.Pos(x.Pos())))
						if !first.IsValid() {
							first = x.Pos()
						}
					}
				})
			}
		}
		if len(probs) == 0 {
			r.OK("loader:"+label, loadRoot.Pos(), "no dropped parse error on the load side")
		} else {
			r.Bad("loader:"+label, first, "%s: malformed input is silently accepted and the setting keeps its previous/default value (settings parsed after it by the same call are skipped as well)", strings.Join(probs, "; "))
		}
	}
}

func init() {
	register(&Rule{ID: "R09.7", Props: []string{"C09", "C10"}, Floor: 2, Title: "one alert decision per (metric name, peer) and check round: no alert() call sits in a loop over the entries of one peer's metrics window (the decision, FailedMetric, is per pair; alert() alternates between alerting and forgetting)", Run: r097})
}

func r097(c *Ctx, r *R) {
	al := c.fn(r, "monitor/metrics", "Checker.alert")
	if al == nil {
		return
	}
	loopOf := func(b *ssa.BasicBlock) *ssa.BasicBlock {
		for d := b; d != nil; d = d.Idom() {
			if inNaturalLoop(b, d) {
				return d
			}
		}
		return nil
	}
	// a call of alert() outside any loop in an unexported helper stands
	// for the helper's own call sites (`alertIfFailed(name, peer)`)
	var sites []ssa.CallInstruction
	var lift func(fn *ssa.Function, depth int)
	lift = func(fn *ssa.Function, depth int) {
		ss, _ := c.callSitesOf(fn)
		for _, s := range ss {
			p := s.Parent()
			if loopOf(s.Block()) == nil && depth < 2 && p.Object() != nil && !p.Object().Exported() {
				if up, _ := c.callSitesOf(p); len(up) > 0 {
					lift(p, depth+1)
					continue
				}
			}
			sites = append(sites, s)
		}
	}
	lift(al, 0)
	for _, s := range sites {
		f := s.Parent()
		header := loopOf(s.Block())
		key := "per-pair:" + f.Name()
		if header == nil {
			r.OK(key, s.Pos(), "alert() is not called in a loop")
			continue
		}
		// what the innermost loop ranges over: the slice indexed by the
		// loop's own counter
		isCounter := func(v ssa.Value) bool {
			if bo, ok := v.(*ssa.BinOp); ok {
				v = bo.X
			}
			phi, ok := v.(*ssa.Phi)
			return ok && phi.Block() == header
		}
		src := ""
		window := false
		instrs(f, func(i ssa.Instruction) {
			ia, ok := i.(*ssa.IndexAddr)
			if !ok || !isCounter(ia.Index) || !inNaturalLoop(ia.Block(), header) && ia.Block() != header {
				return
			}
			if call, _ := originCall(ia.X); call != nil {
				src = callName(call.Common())
				if nameMatches(src, "metrics.Store).PeerMetricAll", "metrics.Window).All") {
					window = true
				}
			} else if p := paramIndex(f, ia.X); p >= 0 {
				src = "parameter " + f.Params[p].Name()
			}
		})
		// where the round skips a pair "we hold nothing for", the test is
		// about that very pair (name and peer), not about the peer at large:
		// alert() forgets a pair after reporting it, and a pair that is
		// looked at again because the peer still has other metrics is
		// reported again and again
		if f.Name() == "CheckPeers" {
			fms := findCalls(f, false, "metrics.Checker).FailedMetric")
			if len(fms) == 0 {
				fms = append(fms, s) // decided inside the helper this site calls
			}
			for _, fm := range fms {
				for _, g := range guardsOf(fm.Block()) {
					if g.Derived {
						continue
					}
					x, _, _, isCmp := cmpIntConst(g.Cond)
					if !isCmp {
						continue
					}
					lc, _ := originCall(x)
					if lc == nil || callName(lc.Common()) != "builtin.len" {
						continue
					}
					acc, _ := originCall(lc.Common().Args[0])
					if acc == nil {
						continue
					}
					pairwise := len(callArgs(acc.Common())) >= 2
					r.Check(pairwise, "per-pair:skip-test:"+f.Name(), g.Cond.Pos(), "a pair is skipped when nothing is stored for that pair", f.Name()+" skips a (metric name, peer) pair by a test on the peer alone ("+shortName(acc)+"): a pair that was reported and forgotten is examined again as long as the peer has any other metric, found 'failed' (no window) and reported every other round")
				}
			}
		}
		r.Check(!window, key, s.Pos(), "the innermost loop around alert() ranges over "+src+" (one element per peer/metric pair)", f.Name()+" calls alert() once per entry of one peer's metrics window ("+src+"): FailedMetric is decided per (name, peer), so a window holding N expired entries alerts about N/2 times in the round that detects the failure instead of once")
	}
}

func init() {
	register(&Rule{ID: "R02.7", Props: []string{"C02"}, Floor: 1, Title: "a failed batch commit is never reported as success: BatchingState.Commit returns the datastore batch's own error (the batch worker, R02.5, keeps counter and timer only on that error)", Run: r027})
}

func r027(c *Ctx, r *R) {
	f := c.fn(r, "state/dsstate", "BatchingState.Commit")
	if f != nil {
		ok, n := true, 0
		for _, lf := range returnLeaves(f, 0) {
			n++
			call, _ := originCall(lf.Val)
			if call == nil || !nameMatches(callName(call.Common()), "go-datastore.Batch).Commit") {
				ok = false
			}
		}
		r.Check(ok && n > 0, "batchingstate:returns-commit-error", f.Pos(), "BatchingState.Commit returns exactly the datastore batch's Commit result", "BatchingState.Commit can return something other than the datastore batch's error (a constant nil, a shadowed result): the batch worker takes a failed commit for a success, resets its counter, leaves the age timer idle, and the accepted operations are never committed")
	}
}

func init() {
	register(&Rule{ID: "R16.6", Props: []string{"C16", "C05"}, Floor: 6, Title: "cancellation reaches the daemon: every request Connector.Pin, Unpin, pinProgress and pinUpdate send runs under a context derived from the caller's context parameter (the tracker's per-operation context), never under the connector's own long-lived context", Run: r166})
}

// ctxRoots follows a context value back through the deriving calls
// (context.With*, trace.StartSpan, trace.NewContext, tag.New) and reports
// where it ultimately comes from: "param:<i>", "field:<name>", "background"
// or "?".
func ctxRoots(f *ssa.Function, v ssa.Value, depth int, out map[string]bool) {
	ctxRootsSeen(f, v, depth, out, map[ssa.Value]bool{})
}

func ctxRootsSeen(f *ssa.Function, v ssa.Value, depth int, out map[string]bool, seen map[ssa.Value]bool) {
	if seen[v] {
		return // a cycle through a variable re-assigned from itself (ctx, cancel := WithCancel(ctx))
	}
	seen[v] = true
	if depth > 40 {
		out["?"] = true
		return
	}
	ctxRoots := func(f *ssa.Function, v ssa.Value, depth int, out map[string]bool) {
		ctxRootsSeen(f, v, depth, out, seen)
	}
	switch x := v.(type) {
	case *ssa.Parameter:
		out[fmt.Sprintf("param:%d", paramIndex(f, x))] = true
	case *ssa.FreeVar:
		out["freevar:"+x.Name()] = true
	case *ssa.Extract:
		ctxRoots(f, x.Tuple, depth+1, out)
	case *ssa.Phi:
		for _, e := range x.Edges {
			ctxRoots(f, e, depth+1, out)
		}
	case *ssa.ChangeInterface:
		ctxRoots(f, x.X, depth+1, out)
	case *ssa.MakeInterface:
		ctxRoots(f, x.X, depth+1, out)
	case *ssa.UnOp:
		if fl, _ := fieldLoad(x); fl != nil {
			out["field:"+fl.Name()] = true
			return
		}
		if al, ok := x.X.(*ssa.Alloc); ok {
			for _, st := range storesTo(al) {
				ctxRoots(f, st.Val, depth+1, out)
			}
			return
		}
		if fv, ok := x.X.(*ssa.FreeVar); ok {
			out["freevar:"+fv.Name()] = true
			return
		}
		out["?"] = true
	case *ssa.Call:
		cn := callName(x.Common())
		switch {
		case nameMatches(cn, "=context.WithTimeout", "=context.WithCancel", "=context.WithDeadline", "=context.WithValue", "trace.StartSpan", "tag.New"):
			ctxRoots(f, x.Common().Args[0], depth+1, out)
		case nameMatches(cn, "trace.NewContext"):
			ctxRoots(f, x.Common().Args[0], depth+1, out)
		case nameMatches(cn, "=context.Background", "=context.TODO"):
			out["background"] = true
		default:
			out["?:"+cn] = true
		}
	default:
		out["?"] = true
	}
}

func r166(c *Ctx, r *R) {
	senders := []string{"ipfshttp.Connector).postCtx", "ipfshttp.Connector).doPostCtx", "ipfshttp.Connector).pinProgress", "ipfshttp.Connector).pinUpdate", "net/http.NewRequestWithContext", "net/http.Request).WithContext"}
	for _, name := range []string{"Connector.Pin", "Connector.Unpin", "Connector.pinProgress", "Connector.pinUpdate", "Connector.postCtx", "Connector.doPostCtx"} {
		f := c.fn(r, "ipfsconn/ipfshttp", name)
		if f == nil {
			continue
		}
		if name == "Connector.doPostCtx" {
			// the helper every request goes through must itself attach
			// the context it is given
			if len(findCalls(f, false, "net/http.NewRequestWithContext", "net/http.Request).WithContext")) == 0 {
				r.Bad(name+":attaches-context", f.Pos(), "doPostCtx builds the request without attaching any context: no request to the daemon can be cancelled")
			}
		}
		withAnon(f, func(g *ssa.Function) {
			for _, ci := range findCalls(g, false, senders...) {
				args := callArgs(ci.Common())
				var ctxArg ssa.Value
				for _, a := range args {
					if a.Type().String() == "context.Context" {
						ctxArg = a
						break
					}
				}
				if ctxArg == nil {
					continue
				}
				roots := map[string]bool{}
				ctxRoots(g, ctxArg, 0, roots)
				var rs []string
				ok := true
				for k := range roots {
					rs = append(rs, k)
					// the caller's context: parameter 1 of the method, or
					// (inside a closure) the captured ctx variable
					if !(k == "param:1" && g == f) && !strings.HasPrefix(k, "freevar:ctx") {
						ok = false
					}
				}
				sort.Strings(rs)
				key := fmt.Sprintf("%s:%s", name, shortName(ci.(*ssa.Call)))
				r.Check(ok && len(rs) > 0, key, ci.Pos(), "the request context derives from the caller's context", fmt.Sprintf("%s sends a request under a context that does not derive (only) from the caller's context %v: cancelling the tracker's operation no longer aborts the request, so an unpin that overtakes a slow pin leaves the CID pinned with status unpinned", name, rs))
			}
		})
	}
}

func init() {
	register(&Rule{ID: "R06.9", Props: []string{"C06", "C16"}, Floor: 1, Title: "the per-CID IPFS query is mode-aware: the pin/ls request PinLsCid sends is built from the recorded pin's depth/mode (a direct pin does not count for a recursive entry, as in the listing)", Run: r069})
}

func r069(c *Ctx, r *R) {
	f := c.fn(r, "ipfsconn/ipfshttp", "Connector.PinLsCid")
	if f == nil {
		return
	}
	posts := findCalls(f, false, "ipfshttp.Connector).postCtx")
	if len(posts) == 0 {
		r.Und("pinlscid:request", f.Pos(), "PinLsCid sends no request through postCtx")
		return
	}
	var dependsOnMode func(v ssa.Value, depth int, seen map[ssa.Value]bool) bool
	dependsOnMode = func(v ssa.Value, depth int, seen map[ssa.Value]bool) bool {
		if v == nil || depth > 14 || seen[v] {
			return false
		}
		seen[v] = true
		if fl, _ := fieldLoad(v); fl != nil && (fl.Name() == "MaxDepth" || fl.Name() == "Mode") {
			return true
		}
		switch x := v.(type) {
		case *ssa.Call:
			for _, a := range x.Common().Args {
				if dependsOnMode(a, depth+1, seen) {
					return true
				}
			}
			if x.Common().IsInvoke() {
				return dependsOnMode(x.Common().Value, depth+1, seen)
			}
		case *ssa.MakeInterface:
			return dependsOnMode(x.X, depth+1, seen)
		case *ssa.ChangeType:
			return dependsOnMode(x.X, depth+1, seen)
		case *ssa.Convert:
			return dependsOnMode(x.X, depth+1, seen)
		case *ssa.BinOp:
			return dependsOnMode(x.X, depth+1, seen) || dependsOnMode(x.Y, depth+1, seen)
		case *ssa.Phi:
			for _, e := range x.Edges {
				if dependsOnMode(e, depth+1, seen) {
					return true
				}
			}
		case *ssa.Slice:
			return dependsOnMode(x.X, depth+1, seen)
		case *ssa.Alloc:
			// a varargs array: what is stored into its elements
			for _, ref := range *x.Referrers() {
				if ia, ok := ref.(*ssa.IndexAddr); ok {
					for _, r2 := range *ia.Referrers() {
						if st, ok := r2.(*ssa.Store); ok && dependsOnMode(st.Val, depth+1, seen) {
							return true
						}
					}
				}
			}
		case *ssa.UnOp:
			return dependsOnMode(x.X, depth+1, seen)
		case *ssa.Extract:
			return dependsOnMode(x.Tuple, depth+1, seen)
		}
		return false
	}
	for _, p := range posts {
		path := callArgs(p.Common())[1]
		r.Check(dependsOnMode(path, 0, map[ssa.Value]bool{}), "pinlscid:mode-aware", p.Pos(), "the pin/ls request depends on the recorded pin's depth/mode", "PinLsCid's request no longer depends on the pin's depth/mode: IPFS answers for any pin type, so a direct pin counts as 'pinned' for an entry recorded as recursive in the per-CID view while the listing reports it unexpectedly unpinned")
	}
}

func init() {
	register(&Rule{ID: "R03.6", Props: []string{"C03", "C10"}, Floor: 3, Title: "obtainAllocations counts like with like: `needed`/`wanted` are the factors minus the healthy current holders, and everything compared with them counts new peers only (candidates, the allocator's answer), never the current holders again", Run: r036})
}

func r036(c *Ctx, r *R) {
	f := c.fn(r, "", "Cluster.obtainAllocations")
	if f == nil {
		return
	}
	// needed = rplMin - nCur, wanted = rplMax - nCur
	var nCur ssa.Value
	quota := map[ssa.Value]string{}
	instrs(f, func(i ssa.Instruction) {
		bo, ok := i.(*ssa.BinOp)
		if !ok || bo.Op != token.SUB {
			return
		}
		switch paramIndex(f, bo.X) {
		case 3:
			quota[bo] = "needed"
			nCur = bo.Y
		case 4:
			quota[bo] = "wanted"
			if nCur == nil {
				nCur = bo.Y
			}
		}
	})
	if len(quota) < 2 || nCur == nil {
		r.Und("quotas", f.Pos(), "needed = rplMin - current and wanted = rplMax - current not recognised in obtainAllocations")
		return
	}
	// the subtrahend is the number of healthy current holders
	isLenOfCurrent := false
	if call, _ := originCall(nCur); call != nil && callName(call.Common()) == "builtin.len" {
		isLenOfCurrent = true
	}
	r.Check(isLenOfCurrent, "quota:minus-current", nCur.Pos(), "the quotas subtract a length (the healthy current holders)", "needed/wanted no longer subtract the number of healthy current holders")
	var dependsOn func(v, target ssa.Value, depth int) bool
	dependsOn = func(v, target ssa.Value, depth int) bool {
		if v == target {
			return true
		}
		if depth > 8 {
			return false
		}
		switch x := v.(type) {
		case *ssa.BinOp:
			return dependsOn(x.X, target, depth+1) || dependsOn(x.Y, target, depth+1)
		case *ssa.Phi:
			for _, e := range x.Edges {
				if dependsOn(e, target, depth+1) {
					return true
				}
			}
		case *ssa.Convert:
			return dependsOn(x.X, target, depth+1)
		case *ssa.Call:
			if cn := callName(x.Common()); strings.HasSuffix(cn, "minInt") || strings.HasSuffix(cn, "maxInt") {
				for _, a := range x.Common().Args {
					if dependsOn(a, target, depth+1) {
						return true
					}
				}
			}
		}
		return false
	}
	n := 0
	for _, b := range f.Blocks {
		iff, ok := b.Instrs[len(b.Instrs)-1].(*ssa.If)
		if !ok {
			continue
		}
		bo, ok := iff.Cond.(*ssa.BinOp)
		if !ok {
			continue
		}
		for _, pair := range [][2]ssa.Value{{bo.X, bo.Y}, {bo.Y, bo.X}} {
			q, other := pair[0], pair[1]
			name, isQ := quota[q]
			if !isQ {
				continue
			}
			if _, isK := constOf(other); isK {
				continue // needed <= 0, wanted < 0
			}
			n++
			r.Check(!dependsOn(other, nCur, 0), fmt.Sprintf("compare:%s#%d", name, n), iff.Cond.Pos(), "what is compared with "+name+" counts new peers only", "a count that includes the healthy current holders is compared with `"+name+"`, which already has them subtracted: they are counted twice, so an allocation with fewer than the minimum number of healthy holders passes the check")
		}
	}
	if n < 2 {
		r.Und("compare", f.Pos(), "fewer than two comparisons against needed/wanted found (%d)", n)
	}
	// thresholds: the allocator is consulted exactly when peers are needed
	// (needed > 0): a pin that has its minimum number of healthy holders
	// gets no new allocation (needed == 0 included), and holders are
	// dropped only above the maximum (wanted < 0)
	posOf := func(g Guard, name string) (positive bool, ok bool) {
		// the guard decides the sign of a quota: returns whether it
		// establishes quota > 0 (true) or quota <= 0 (false)
		switch signOf(g, func(v ssa.Value) bool { return quota[v] == name }) {
		case 1:
			return true, true
		case 0:
			return false, true
		}
		return false, false
	}
	al := findCalls(f, false, ModPath+".PinAllocator).Allocate")
	if len(al) == 1 {
		ok := guardedBy(al[0].Block(), func(g Guard) bool { p, isQ := posOf(g, "needed"); return isQ && p })
		r.Check(ok, "threshold:allocate-only-when-needed", al[0].Pos(), "new peers are allocated only when fewer healthy holders than the minimum remain (needed > 0)", "the allocator is consulted although the pin already has its minimum number of healthy holders (the test on `needed` is not `needed <= 0`): a pin at exactly its minimum is moved or extended on every re-pin sweep")
	}
	for _, ret := range returnsOf(f) {
		if len(ret.Results) == 2 && isNilConst(retResult(ret, 0)) && isNilConst(retResult(ret, 1)) {
			ok := guardedBy(ret.Block(), func(g Guard) bool { p, isQ := posOf(g, "needed"); return isQ && !p })
			r.Check(ok, "threshold:nothing-new-when-satisfied", ret.Pos(), "`no new allocations` is answered exactly under needed <= 0", "obtainAllocations answers `nothing to allocate` under a test other than needed <= 0")
		}
	}
}

func init() {
	register(&Rule{ID: "R09.8", Props: []string{"C09", "C03"}, Floor: 4, Title: "informer siblings agree: a metric is marked valid only when the query behind it succeeded, and every metric that can be valid gets the configured TTL before it is returned", Run: r098})
}

func r098(c *Ctx, r *R) {
	for _, inf := range [][2]string{{"informer/disk", "Informer.GetMetric"}, {"informer/numpin", "Informer.GetMetric"}} {
		f := c.fn(r, inf[0], inf[1])
		if f == nil {
			continue
		}
		label := inf[0]
		var rpcCall *ssa.Call
		for _, ci := range callsIn(f) {
			if nameMatches(callName(ci.Common()), "gorpc.Client).CallContext", "gorpc.Client).Call") {
				rpcCall, _ = ci.(*ssa.Call)
			}
		}
		if rpcCall == nil {
			r.Und(label+":query", f.Pos(), "no RPC query found in GetMetric")
			continue
		}
		errOfQuery := func(v ssa.Value) bool { cc, _ := originCall(v); return cc == rpcCall }
		// (1) Valid
		nValid := 0
		instrs(f, func(i ssa.Instruction) {
			st, ok := i.(*ssa.Store)
			if !ok {
				return
			}
			fa, ok := st.Addr.(*ssa.FieldAddr)
			if !ok || fieldOfAddr(fa).Name() != "Valid" {
				return
			}
			for _, lf := range valueLeaves(st.Val, st.Block()) {
				k, isK := constOf(lf.Val)
				switch {
				case isK && k != nil && !boolVal(k):
					// false: always fine
				case isK && k != nil && boolVal(k):
					nValid++
					ok := lf.GuardedBy(func(g Guard) bool { return gNil(g, false, errOfQuery) })
					r.Check(ok, label+":valid-only-on-success", st.Pos(), "Valid is true only where the query's error was tested to be nil", "the metric is marked valid on a path where the query behind it may have failed: a made-up value (0 pins, 0 bytes free) is used for allocation")
				default:
					// err == nil as a value
					nValid++
					bo, isB := lf.Val.(*ssa.BinOp)
					ok := isB && bo.Op == token.EQL && (isNilConst(bo.Y) && errOfQuery(bo.X) || isNilConst(bo.X) && errOfQuery(bo.Y))
					r.Check(ok, label+":valid-only-on-success", st.Pos(), "Valid is the outcome of the query (err == nil)", "the metric's Valid flag is not derived from the outcome of the query behind it")
				}
			}
		})
		if nValid == 0 {
			r.Bad(label+":valid-only-on-success", f.Pos(), "GetMetric never produces a valid metric")
		}
		// (2) TTL before return, for every metric that is not constant-invalid
		ttl := findCalls(f, false, "api.Metric).SetTTL")
		okTTL := len(ttl) > 0
		for _, ret := range returnsOf(f) {
			if ret.Block() == f.Recover {
				continue
			}
			// the early "no client" return is constant-invalid: it is the
			// one not reachable from the query
			if !blockReaches(rpcCall.Block(), ret.Block()) && rpcCall.Block() != ret.Block() {
				continue
			}
			dom := false
			for _, t := range ttl {
				if t.Block() == ret.Block() || t.Block().Dominates(ret.Block()) {
					dom = true
				}
			}
			if !dom {
				okTTL = false
			}
		}
		r.Check(okTTL, label+":ttl", f.Pos(), "every metric built from the query gets its TTL (SetTTL dominates the return)", "GetMetric can return a metric without a TTL: it is expired on arrival, the peer never has a valid metric and is never a candidate (or is reported failed)")
		// the TTL is the configured one
		for _, t := range ttl {
			ta := callArgs(t.Common())
			fl, _ := fieldLoad(ta[len(ta)-1])
			r.Check(fl != nil && fl.Name() == "MetricTTL", label+":ttl-configured", t.Pos(), "the TTL is the configured metric_ttl", "the metric's TTL is not the configured metric_ttl")
		}
	}
}

func init() {
	register(&Rule{ID: "R08.7", Props: []string{"C08", "C09", "C14"}, Floor: 3, Title: "one fresh record per decoded message: a decoder call that runs once per loop iteration decodes into a variable allocated in that iteration (decoders keep the fields an input omits and reuse byte slices, and the address is often handed on)", Run: r087})
}

// r087buffers: messages that arrive one by one (pubsub, RPC) are decoded
// from their own bytes. A decoder built once over a local bytes.Buffer that
// each iteration of the receive loop appends to is a stream decoder over
// the concatenation of all messages: one malformed or over-long message
// leaves bytes (and the decoder's sticky error) behind, and no later message
// is decoded correctly.
func r087buffers(c *Ctx, r *R) {
	c.P.RepoFuncs(func(f *ssa.Function) {
		if f.Blocks == nil || f.Pkg == nil || strings.HasPrefix(f.Pkg.Pkg.Path(), ModPath+"/test") {
			return
		}
		for _, nd := range findCalls(f, false, "codec.NewDecoder", "encoding/json.NewDecoder", "msgpack.NewDecoder") {
			args := nd.Common().Args
			if len(args) == 0 {
				continue
			}
			src := args[0]
			if mi, ok := src.(*ssa.MakeInterface); ok {
				src = mi.X
			}
			if !strings.HasSuffix(src.Type().String(), "*bytes.Buffer") {
				continue
			}
			for _, w := range findCalls(f, false, "(*bytes.Buffer).Write", "(*bytes.Buffer).WriteString", "(*bytes.Buffer).ReadFrom") {
				if stripLocal(w.Common().Args[0]) != stripLocal(src) {
					continue
				}
				// the write is in a loop that does not contain the decoder's construction
				wb := w.Block()
				for d := wb; d != nil; d = d.Idom() {
					if inNaturalLoop(wb, d) && !inNaturalLoop(nd.Block(), d) {
						r.Bad("shared-decoder:"+f.String(), nd.Pos(), "%s builds one decoder over a buffer that every iteration of the loop at %s appends a new message to: the messages are decoded as one stream, so trailing bytes or a decode error of one message corrupt or block every later one", f.Name(), c.P.Pos(w.Pos()))
						break
					}
				}
			}
		}
	})
}

func r087(c *Ctx, r *R) {
	r087buffers(c, r)
	decoders := []string{"encoding/json.Decoder).Decode", "codec.Decoder).Decode", "=encoding/json.Unmarshal", "msgpack.Decoder).Decode", "proto.Unmarshal", "api.Pin).ProtoUnmarshal"}
	n := 0
	c.P.RepoFuncs(func(f *ssa.Function) {
		if f.Blocks == nil || f.Pkg == nil || strings.HasPrefix(f.Pkg.Pkg.Path(), ModPath+"/test") {
			return
		}
		for _, ci := range findCalls(f, false, decoders...) {
			b := ci.Block()
			var header *ssa.BasicBlock
			for d := b; d != nil; d = d.Idom() {
				if inNaturalLoop(b, d) {
					header = d
					break
				}
			}
			// the target: the last pointer-typed argument (or receiver for ProtoUnmarshal)
			args := ci.Common().Args
			if header == nil {
				// decoded once per call: a helper that decodes into a
				// record it is handed, called in a loop with the address
				// of a variable that lives outside the loop
				var prm *ssa.Parameter
				for i := len(args) - 1; i >= 0 && prm == nil; i-- {
					a := args[i]
					if mi, ok := a.(*ssa.MakeInterface); ok {
						a = mi.X
					}
					if q, ok := a.(*ssa.Parameter); ok && q.Parent() == f {
						if _, isPtr := q.Type().Underlying().(*types.Pointer); isPtr {
							prm = q
						}
					}
				}
				if prm == nil || f.Object() == nil || f.Object().Exported() {
					continue
				}
				pi := -1
				for i, q := range f.Params {
					if q == prm {
						pi = i
					}
				}
				sites, _ := c.callSitesOf(f)
				for _, s := range sites {
					h := loopHeaderOf(s.Block())
					if h == nil || pi >= len(s.Common().Args) {
						continue
					}
					al, ok := stripLocal(s.Common().Args[pi]).(*ssa.Alloc)
					if !ok {
						continue
					}
					n++
					g := s.Parent()
					key := "fresh:" + strings.TrimPrefix(g.Pkg.Pkg.Path(), ModPath) + "." + g.Name()
					inLoop := al.Block() == h || inNaturalLoop(al.Block(), h)
					r.Check(inLoop, key, s.Pos(), "the decode target is allocated in the iteration that decodes into it", fmt.Sprintf("%s decodes (through %s) every message of the loop into the same variable %q (declared outside the loop): fields an input omits keep the previous message's values, and whatever keeps the address sees every later message", g.Name(), f.Name(), al.Comment))
				}
				continue
			}
			var target ssa.Value
			for i := len(args) - 1; i >= 0; i-- {
				a := args[i]
				if mi, ok := a.(*ssa.MakeInterface); ok {
					a = mi.X
				}
				if _, ok := a.Type().Underlying().(*types.Pointer); ok {
					target = a
					break
				}
			}
			if nameMatches(callName(ci.Common()), "api.Pin).ProtoUnmarshal") {
				target = args[0]
			}
			al, ok := target.(*ssa.Alloc)
			if !ok {
				// a field of an outer object, a parameter, a fresh `new`
				// from a call: only plain variables are this rule's business
				if call, _ := originCall(target); call != nil {
					continue
				}
				continue
			}
			n++
			key := "fresh:" + strings.TrimPrefix(f.Pkg.Pkg.Path(), ModPath) + "." + f.Name()
			if f.Parent() != nil {
				key += "$" + f.Parent().Name()
			}
			inLoop := al.Block() == header || inNaturalLoop(al.Block(), header)
			r.Check(inLoop, key, ci.Pos(), "the decode target is allocated in the iteration that decodes into it", fmt.Sprintf("%s decodes every message of the loop into the same variable %q (declared outside the loop): fields an input omits keep the previous message's values, and whatever keeps the address sees every later message", f.Name(), al.Comment))
		}
	})
	_ = n
}

func init() {
	register(&Rule{ID: "R13.9", Props: []string{"C13"}, Floor: 3, Title: "the adder's pin helper keeps the block destinations unless the pin is for everyone (factor below zero), hands exactly that pin to Cluster.Pin; in the indirect shard DAG no test inside the leaf loop is made constant by the loop bound (the last, partial leaf is built)", Run: r139})
}

func r139(c *Ctx, r *R) {
	f := c.fn(r, "adder", "Pin")
	if f != nil {
		n := 0
		instrs(f, func(i ssa.Instruction) {
			st, ok := i.(*ssa.Store)
			if !ok {
				return
			}
			fa, ok := st.Addr.(*ssa.FieldAddr)
			if !ok || fieldOfAddr(fa).Name() != "Allocations" {
				return
			}
			n++
			okGuard := false
			why := "unconditionally"
			for _, g := range guardsOf(st.Block()) {
				if gCall(g, true, "IsPinEverywhere") {
					okGuard = true
				}
				bo, isB := g.Cond.(*ssa.BinOp)
				if !isB {
					continue
				}
				fl, _ := fieldLoad(bo.X)
				k, isK := constInt(bo.Y)
				if fl == nil || !strings.HasPrefix(fl.Name(), "ReplicationFactor") || !isK {
					continue
				}
				op := bo.Op
				if !g.Branch { // negate
					switch op {
					case token.LSS:
						op = token.GEQ
					case token.LEQ:
						op = token.GTR
					case token.GEQ:
						op = token.LSS
					case token.GTR:
						op = token.LEQ
					case token.EQL:
						op = token.NEQ
					case token.NEQ:
						op = token.EQL
					}
				}
				switch {
				case op == token.LSS && k == 0, op == token.LEQ && k == -1, op == token.EQL && k == -1:
					okGuard = true
				default:
					why = fmt.Sprintf("under %s %s %d", fl.Name(), op, k)
				}
			}
			r.Check(okGuard, "adder.Pin:keeps-destinations", st.Pos(), "the allocations preset by the adder are dropped only for pin-everywhere pins (factor < 0)", "adder.Pin drops the block destinations "+why+": a pin with unset (0, 'use the default') or positive factors is re-allocated at pin time and can land on peers that never received the blocks")
		})
		// the pin handed on is the pin received
		for _, s := range c.RPC {
			if s.Fn == f && len(s.Targets) == 1 && s.Targets[0].Method == "Pin" {
				a := callArgs(s.Call.Common())
				pos := rpcArgPos[s.Kind]
				arg := a[pos[1]+2]
				if mi, ok := arg.(*ssa.MakeInterface); ok {
					arg = mi.X
				}
				r.Check(paramIndex(f, arg) == 2, "adder.Pin:same-pin", s.Call.Pos(), "the pin given to the helper is the pin submitted", "adder.Pin submits something other than the pin it was given")
			}
		}
		_ = n
	}
	// makeDAG: the loop over leaves
	md := c.fn(r, "adder/sharding", "makeDAG")
	if md == nil {
		return
	}
	checked := 0
	for _, h := range md.Blocks {
		iff, ok := h.Instrs[len(h.Instrs)-1].(*ssa.If)
		if !ok {
			continue
		}
		isLoop := false
		for _, p := range h.Preds {
			if h.Dominates(p) {
				isLoop = true
			}
		}
		bo, okB := iff.Cond.(*ssa.BinOp)
		if !isLoop || !okB {
			continue
		}
		phi, okP := bo.X.(*ssa.Phi)
		if !okP || phi.Block() != h {
			continue
		}
		bound := bo.Y
		if _, isK := constOf(bound); isK {
			continue // the inner loop over MaxLinks
		}
		checked++
		// comparisons of the counter with the bound inside the loop
		for _, b := range md.Blocks {
			if b == h || !inNaturalLoop(b, h) {
				continue
			}
			for _, in := range b.Instrs {
				c2, ok := in.(*ssa.BinOp)
				if !ok || (c2.Op != token.EQL && c2.Op != token.NEQ) {
					continue
				}
				if (c2.X == ssa.Value(phi) && c2.Y == bound) || (c2.Y == ssa.Value(phi) && c2.X == bound) {
					r.Check(bo.Op != token.LSS, "makeDAG:last-leaf", c2.Pos(), "the leaf loop reaches the index its body treats as the last (partial) leaf", "the leaf loop stops before the index that its own body tests for as 'the last, partially filled leaf' (the test is constant under the loop bound): the trailing leaf of an indirect shard DAG is never built and its blocks are linked from no shard")
				}
			}
		}
	}
	if checked == 0 {
		r.Und("makeDAG:loop", md.Pos(), "the leaf loop of makeDAG was not recognised")
	}
}

func init() {
	register(&Rule{ID: "R07.9", Props: []string{"C07", "C02"}, Floor: 3, Title: "the subject of the pubsub trust test is authentic and Distrust always takes effect: the gossipsub instance signs and strictly verifies messages (an unsigned message with a forged author is dropped before the validator sees it); Trust and Distrust reach the trusted set on every path", Run: r079})
}

func r079(c *Ctx, r *R) {
	f := c.fn(r, "", "newPubSub")
	if f != nil {
		signing, strict, policy := "", "", ""
		for _, ci := range callsIn(f) {
			cn := callName(ci.Common())
			switch {
			case nameMatches(cn, "go-libp2p-pubsub.WithMessageSigning"):
				if k, ok := constOf(ci.Common().Args[0]); ok && k != nil {
					signing = k.String()
				} else {
					signing = "?"
				}
			case nameMatches(cn, "go-libp2p-pubsub.WithStrictSignatureVerification"):
				if k, ok := constOf(ci.Common().Args[0]); ok && k != nil {
					strict = k.String()
				} else {
					strict = "?"
				}
			case nameMatches(cn, "go-libp2p-pubsub.WithMessageSignaturePolicy"):
				if k, ok := constOf(ci.Common().Args[0]); ok && k != nil {
					policy = k.String()
				} else {
					policy = "?"
				}
			case nameMatches(cn, "go-libp2p-pubsub.WithNoAuthor"), nameMatches(cn, "go-libp2p-pubsub.WithMessageAuthor"):
				policy = "author-override"
			}
		}
		// StrictSign = msgSigning|msgVerification = 3 in go-libp2p-pubsub
		strictSign := ""
		if pp := c.P.All["github.com/libp2p/go-libp2p-pubsub"]; pp != nil && pp.Types != nil {
			if o, ok := pp.Types.Scope().Lookup("StrictSign").(*types.Const); ok {
				strictSign = o.Val().String()
			}
		}
		ok := (signing == "true" && strict == "true" && policy == "") || (policy != "" && policy == strictSign && signing != "false" && strict != "false")
		r.Check(ok, "pubsub:strict-signing", f.Pos(), "gossipsub is created with message signing and strict signature verification", fmt.Sprintf("gossipsub is not created with signing and strict signature verification (signing=%q strict=%q policy=%q, StrictSign=%s): unsigned messages are accepted, so the author the trust validator tests (msg.GetFrom) can be forged by any swarm member", signing, strict, policy, strictSign))
	}
	for _, name := range []string{"Distrust", "Trust"} {
		g := c.fn(r, "consensus/crdt", "Consensus."+name)
		if g == nil {
			continue
		}
		op := "(*sync.Map).Delete"
		if name == "Trust" {
			op = "(*sync.Map).Store"
		}
		ops := findCalls(g, false, op)
		okAll := len(ops) > 0
		for _, ret := range returnsOf(g) {
			if ret.Block() == g.Recover {
				continue
			}
			dom := false
			for _, o := range ops {
				if o.Block() == ret.Block() || o.Block().Dominates(ret.Block()) {
					dom = true
				}
			}
			// an error return may precede it; a nil return may not
			if !dom && isNilConst(retResult(ret, 0)) {
				okAll = false
			}
			if !dom && !isNilConst(retResult(ret, 0)) {
				if call, _ := originCall(retResult(ret, 0)); call == nil {
					okAll = false
				}
			}
		}
		r.Check(okAll, "crdt."+name+":always-takes-effect", g.Pos(), name+" reaches the trusted set before every successful return", name+" can return success without having updated the trusted set: the call is silently ignored and the peer keeps (or never gets) its trust")
	}
}

func init() {
	register(&Rule{ID: "R09.9", Props: []string{"C09", "C10"}, Floor: 1, Title: "an alert belongs to one failure episode: when the checker observes an unexpired latest metric, the 'already alerted' counter of that peer and metric is cleared (otherwise the next failure is taken for the one already reported, its metrics are forgotten and no alert is ever sent)", Run: r099})
}

func r099(c *Ctx, r *R) {
	f := c.fn(r, "monitor/metrics", "Checker.failed")
	if f == nil {
		return
	}
	// functions that delete from the failedPeers bookkeeping
	clears := func(g *ssa.Function) bool {
		found := false
		instrs(g, func(i ssa.Instruction) {
			ci, ok := i.(ssa.CallInstruction)
			if !ok || callName(ci.Common()) != "builtin.delete" {
				return
			}
			m := ci.Common().Args[0]
			// the map is failedPeers itself or one of its values
			if fl, _ := fieldLoad(m); fl != nil && fl.Name() == "failedPeers" {
				found = true
			}
			if lk, ok := m.(*ssa.Lookup); ok {
				if fl, _ := fieldLoad(lk.X); fl != nil && fl.Name() == "failedPeers" {
					found = true
				}
			}
			if ex, ok := m.(*ssa.Extract); ok {
				if lk, ok := ex.Tuple.(*ssa.Lookup); ok {
					if fl, _ := fieldLoad(lk.X); fl != nil && fl.Name() == "failedPeers" {
						found = true
					}
				}
			}
		})
		return found
	}
	n := 0
	for _, ret := range returnsOf(f) {
		if ret.Block() == f.Recover {
			continue
		}
		// the "healthy" exit: result 3 is the constant false under
		// Expired() == false
		k, isK := constOf(retResult(ret, 3))
		if !isK || k == nil || boolVal(k) {
			continue
		}
		if !guardedBy(ret.Block(), func(g Guard) bool { return gCall(g, false, "api.Metric).Expired") }) {
			continue
		}
		n++
		cleared := false
		// ... directly, or through one more helper of the package
		clearsDeep := func(g *ssa.Function) bool {
			if clears(g) {
				return true
			}
			for _, c2 := range callsIn(g) {
				if h := c2.Common().StaticCallee(); h != nil && h.Blocks != nil && h.Pkg == g.Pkg && clears(h) {
					return true
				}
			}
			return false
		}
		for _, ci := range callsIn(f) {
			cal := ci.Common().StaticCallee()
			if cal == nil || cal.Blocks == nil || !clearsDeep(cal) {
				continue
			}
			if ci.Block() == ret.Block() || ci.Block().Dominates(ret.Block()) {
				if guardedBy(ci.Block(), func(g Guard) bool { return gCall(g, false, "api.Metric).Expired") }) || ci.Block() == ret.Block() {
					cleared = true
				}
			}
		}
		r.Check(cleared, "episode:counter-cleared-when-healthy", ret.Pos(), "observing an unexpired metric clears the alert counter of the pair", "the checker never clears a pair's alert counter when it sees the peer healthy again: if the peer renews within one check interval after an alert and fails later, alert() takes the new failure for the one already reported, forgets the metrics and sends nothing - the failure is never reported and the peer's pins are never re-homed")
	}
	if n == 0 {
		r.Und("episode", f.Pos(), "the 'latest metric unexpired: not failed' exit of Checker.failed was not recognised")
	}
	// the bookkeeping is per (peer, metric name): a peer's whole record is
	// dropped only when no name is left in it. Dropping it on the health
	// (or the forgetting) of one name also clears the counters of the
	// peer's other names, whose expired metrics are then alerted again on
	// every round and never forgotten
	nDel := 0
	c.P.RepoFuncs(func(g *ssa.Function) {
		if g.Pkg != f.Pkg {
			return
		}
		for _, ci := range callsIn(g) {
			if callName(ci.Common()) != "builtin.delete" {
				continue
			}
			if fl, _ := fieldLoad(ci.Common().Args[0]); fl == nil || fl.Name() != "failedPeers" {
				continue
			}
			nDel++
			empty := guardedBy(ci.Block(), func(gd Guard) bool {
				// len(record) == 0 in any of its spellings (== 0, < 1, <= 0,
				// the false edge of > 0 / != 0)
				x, op, k, ok := cmpIntConst(gd.Cond)
				if !ok {
					return false
				}
				zero := false
				switch {
				case op == token.EQL && k == 0, op == token.LEQ && k == 0, op == token.LSS && k == 1:
					zero = gd.Branch
				case op == token.NEQ && k == 0, op == token.GTR && k == 0, op == token.GEQ && k == 1:
					zero = !gd.Branch
				default:
					return false
				}
				if !zero {
					return false
				}
				lc, _ := originCall(x)
				if lc == nil || callName(lc.Common()) != "builtin.len" {
					return false
				}
				// len of the peer's own record: failedPeers[pid] (directly,
				// or the local it was read into)
				for _, l := range phiLeaves(lc.Common().Args[0]) {
					var lk *ssa.Lookup
					switch y := l.(type) {
					case *ssa.Lookup:
						lk = y
					case *ssa.Extract:
						lk, _ = y.Tuple.(*ssa.Lookup)
					}
					if lk != nil {
						if fl, _ := fieldLoad(lk.X); fl != nil && fl.Name() == "failedPeers" {
							return true
						}
					}
				}
				return false
			})
			r.Check(empty, "episode:peer-record-dropped-only-when-empty:"+g.Name(), ci.Pos(), "a peer's alert record is dropped only when it holds no metric name any more", g.Name()+" drops a peer's whole alert record although other metric names may still be counted in it: their expired metrics are alerted again on every check and never forgotten")
		}
	})
	if nDel == 0 {
		r.Und("episode:peer-record", f.Pos(), "no place drops a peer's alert record: the bookkeeping was not recognised")
	}
}

func init() {
	register(&Rule{ID: "R17.7", Props: []string{"C17", "C14"}, Floor: 2, Title: "raft data is located through GetDataFolder() everywhere: the raw data_folder setting (empty by default) is read only by GetDataFolder and by the configuration's own save/load/default code", Run: r177})
}

func r177(c *Ctx, r *R) {
	pkg := c.P.Pkg("consensus/raft")
	nt := c.namedType(r, "consensus/raft", "Config")
	if pkg == nil || nt == nil {
		return
	}
	var fld *types.Var
	if st, ok := nt.Underlying().(*types.Struct); ok {
		for i := 0; i < st.NumFields(); i++ {
			if st.Field(i).Name() == "DataFolder" {
				fld = st.Field(i)
			}
		}
	}
	if fld == nil {
		r.Und("field", nt.Obj().Pos(), "raft.Config has no DataFolder field")
		return
	}
	allowed := map[string]bool{"GetDataFolder": true, "toJSONConfig": true, "applyJSONConfig": true, "Default": true, "LoadJSON": true, "ApplyEnvVars": true, "Validate": true, "ToJSON": true, "ToDisplayJSON": true}
	getter := 0
	for _, p := range c.P.Repo {
		if strings.HasPrefix(p.PkgPath, ModPath+"/test") {
			continue
		}
		for _, file := range p.Syntax {
			for _, d := range file.Decls {
				fd, ok := d.(*ast.FuncDecl)
				if !ok || fd.Body == nil {
					continue
				}
				ast.Inspect(fd.Body, func(n ast.Node) bool {
					se, ok := n.(*ast.SelectorExpr)
					if !ok {
						return true
					}
					sel := p.TypesInfo.Selections[se]
					if sel == nil || sel.Obj() != types.Object(fld) {
						return true
					}
					isCfgMethod := fd.Recv != nil && recvTypeName(fd.Recv.List[0].Type) == "Config" && p == pkg
					if isCfgMethod && allowed[fd.Name.Name] {
						if fd.Name.Name == "GetDataFolder" {
							getter++
						}
						return true
					}
					r.Bad("raw-data-folder:"+fd.Name.Name, se.Pos(), "%s reads the raw data_folder setting instead of GetDataFolder(): with the default (empty) setting it operates on \"\" instead of <base dir>/raft - a removed peer's data is not cleaned, or the wrong folder is used", fd.Name.Name)
					return true
				})
			}
		}
	}
	r.Check(getter > 0, "getter", fld.Pos(), "GetDataFolder resolves the data_folder setting", "GetDataFolder no longer reads the data_folder setting")
	// and the cleaning entry point goes through the getter
	if cr := c.fn(r, "consensus/raft", "CleanupRaft"); cr != nil {
		r.Check(len(findCalls(cr, false, "raft.Config).GetDataFolder")) > 0, "cleanup:uses-getter", cr.Pos(), "CleanupRaft locates the data through GetDataFolder()", "CleanupRaft does not locate the data folder through GetDataFolder()")
	}
}

// missingEdge: cond tests whether a file is missing (os.IsNotExist of a
// Stat error), directly, negated, or through a boolean helper of the
// repository; returns the truth value of cond that means "missing".
func missingEdge(cond ssa.Value, depth int) (when bool, ok bool) {
	when = true
	for {
		if u, isU := cond.(*ssa.UnOp); isU && u.Op == token.NOT {
			cond, when = u.X, !when
			continue
		}
		break
	}
	call, idx := originCallLocal(cond)
	if call == nil {
		return false, false
	}
	if nameMatches(callName(call.Common()), "=os.IsNotExist") {
		return when, true
	}
	h := call.Common().StaticCallee()
	if h == nil || depth > 2 || len(h.Blocks) == 0 || !isRepoFn(h) || idx >= h.Signature.Results().Len() {
		return false, false
	}
	if b, isB := h.Signature.Results().At(idx).Type().Underlying().(*types.Basic); !isB || b.Kind() != types.Bool {
		return false, false
	}
	// the value the helper returns when the file is missing, the same on
	// every return that depends on the test
	var ret *bool
	set := func(v bool) bool {
		if ret != nil && *ret != v {
			return false
		}
		ret = &v
		return true
	}
	isMissing := func(want bool) func(g Guard) bool {
		return func(g Guard) bool {
			w, ok := missingEdge(g.Cond, depth+1)
			return ok && (w == g.Branch) == want
		}
	}
	for _, lf := range returnLeaves(h, idx) {
		if k, isK := constOf(lf.Val); isK && k != nil {
			switch {
			case lf.GuardedBy(isMissing(true)):
				if !set(constant.BoolVal(k)) {
					return false, false
				}
			case lf.GuardedBy(isMissing(false)):
				if !set(!constant.BoolVal(k)) {
					return false, false
				}
			default:
				return false, false
			}
			continue
		}
		w, ok := missingEdge(lf.Val, depth+1)
		if !ok || !set(w) {
			return false, false
		}
	}
	if ret == nil {
		return false, false
	}
	// cond (after the NOTs) is missing when the helper returns *ret
	if !*ret {
		when = !when
	}
	return when, true
}

// sweepCanStop: the call sits in a loop (inLoop) and some path from it
// leaves the loop or the function without coming back to the loop header
// first (bad): a return or break that depends on the outcome of one element.
func sweepCanStop(s ssa.CallInstruction) (bad bool, inLoop bool) {
	f := s.Parent()
	b := s.Block()
	var header *ssa.BasicBlock
	for d := b; d != nil; d = d.Idom() {
		if inNaturalLoop(b, d) {
			header = d
			break
		}
	}
	if header == nil {
		return false, false
	}
	seen := map[*ssa.BasicBlock]bool{}
	var walk func(x *ssa.BasicBlock)
	walk = func(x *ssa.BasicBlock) {
		if seen[x] || x == header {
			return
		}
		seen[x] = true
		if !inNaturalLoop(x, header) {
			bad = true // left the loop without passing the header
			return
		}
		if _, ok := x.Instrs[len(x.Instrs)-1].(*ssa.Return); ok && x != f.Recover {
			bad = true
		}
		for _, n := range x.Succs {
			walk(n)
		}
	}
	for _, n := range b.Succs {
		walk(n)
	}
	if _, ok := b.Instrs[len(b.Instrs)-1].(*ssa.Return); ok {
		bad = true
	}
	return bad, true
}

func init() {
	register(&Rule{ID: "R14.7", Props: []string{"C14"}, Floor: 2, Title: "restoring saved state keeps what can be kept: importing a peerstore continues past an address that cannot be imported, and cleaning raft data discards the folder without a backup only when it was read and found to hold no snapshot", Run: r147})
}

func r147(c *Ctx, r *R) {
	// (a) ImportPeers is a sweep over the saved addresses
	if ip := c.fn(r, "pstoremgr", "Manager.ImportPeers"); ip != nil {
		n := 0
		for _, ci := range findCalls(ip, false, "pstoremgr.Manager).ImportPeer") {
			n++
			bad, inLoop := sweepCanStop(ci)
			r.Check(inLoop && !bad, "peerstore:import-continues", ci.Pos(), "an address that cannot be imported does not stop the import of the following ones", "ImportPeers stops at the first address it cannot import (a return or break depends on one element): every later peer of the saved peerstore is lost, silently - the callers ignore the error")
		}
		if n == 0 {
			r.Und("peerstore:import", ip.Pos(), "ImportPeers does not call ImportPeer: shape not recognised")
		}
	}
	// (b) CleanupRaft: a data folder is removed without being kept as a
	// backup only if latestSnapshot read it successfully and found nothing
	if cr := c.fn(r, "consensus/raft", "CleanupRaft"); cr != nil {
		var ls *ssa.Call
		for _, ci := range findCalls(cr, false, "consensus/raft.latestSnapshot") {
			ls, _ = ci.(*ssa.Call)
		}
		rm := findCalls(cr, false, "=os.RemoveAll")
		if ls == nil || len(rm) == 0 {
			r.Und("raft-clean:shape", cr.Pos(), "CleanupRaft: latestSnapshot / os.RemoveAll not found")
			return
		}
		for _, ci := range rm {
			noSnap := guardedBy(ci.Block(), func(g Guard) bool {
				return gNil(g, false, func(v ssa.Value) bool { cc, idx := originCall(v); return cc == ls && idx == 0 })
			})
			readOK := guardedBy(ci.Block(), func(g Guard) bool {
				return gNil(g, false, func(v ssa.Value) bool { cc, idx := originCall(v); return cc == ls && idx == 2 })
			})
			r.Check(noSnap && readOK, "raft-clean:remove-only-when-empty", ci.Pos(), "the folder is removed outright only when it was read without error and holds no snapshot", fmt.Sprintf("CleanupRaft removes the data folder outright without having established both `no snapshot` (%v) and `read without error` (%v): a folder whose newest snapshot is damaged is deleted instead of being kept as a backup, older valid snapshots and the log included", noSnap, readOK))
		}
	}
}

func init() {
	register(&Rule{ID: "R16.7", Props: []string{"C16", "C11"}, Floor: 1, Title: "error values are recognised in the form they are produced in: where the repository type-asserts an error to one of its own error types (T or *T), that very form is what the repository wraps into error values (an assertion to T never matches a *T)", Run: r167})
}

// r167: `err.(ipfsError)` and `return body, &ipfsError{...}` each look fine
// alone; together the assertion never succeeds and the branch that
// recognises the daemon's "not pinned" answer is dead. The compiler cannot
// see it (both forms implement error). Checked for every assertion of an
// error-typed value to a repository type: the asserted form must be among
// the forms in which that type is converted to an interface anywhere in the
// repository.
func r167(c *Ctx, r *R) {
	errT := types.Universe.Lookup("error").Type().Underlying().(*types.Interface)
	named := func(t types.Type) (*types.Named, bool) {
		ptr := false
		if p, ok := t.(*types.Pointer); ok {
			t, ptr = p.Elem(), true
		}
		n, _ := t.(*types.Named)
		return n, ptr
	}
	// forms produced: MakeInterface of T / *T
	produced := map[*types.Named]map[bool]token.Pos{}
	c.P.RepoFuncs(func(f *ssa.Function) {
		if isTestSupportFn(f) {
			return
		}
		instrs(f, func(i ssa.Instruction) {
			mi, ok := i.(*ssa.MakeInterface)
			if !ok {
				return
			}
			n, ptr := named(mi.X.Type())
			if n == nil || n.Obj().Pkg() == nil || !isRepoPath(n.Obj().Pkg().Path()) {
				return
			}
			if !types.Implements(mi.X.Type(), errT) {
				return
			}
			if produced[n] == nil {
				produced[n] = map[bool]token.Pos{}
			}
			produced[n][ptr] = mi.Pos()
		})
	})
	nAssert := 0
	c.P.RepoFuncs(func(f *ssa.Function) {
		if isTestSupportFn(f) {
			return
		}
		instrs(f, func(i ssa.Instruction) {
			ta, ok := i.(*ssa.TypeAssert)
			if !ok || !types.Identical(ta.X.Type().Underlying(), errT) {
				return
			}
			n, ptr := named(ta.AssertedType)
			if n == nil || n.Obj().Pkg() == nil || !isRepoPath(n.Obj().Pkg().Path()) {
				return
			}
			nAssert++
			forms := produced[n]
			_, same := forms[ptr]
			_, other := forms[!ptr]
			key := fmt.Sprintf("assert:%s:%s", f.Name(), types.TypeString(ta.AssertedType, shortQual))
			switch {
			case same:
				r.OK(key, ta.Pos(), "%s is produced in the asserted form", types.TypeString(ta.AssertedType, shortQual))
			case other:
				r.Bad(key, ta.Pos(), "%s asserts an error to %s, but the repository only ever wraps this type in the other form (%s): the assertion never succeeds and the case it recognises is handled as a generic failure", f.Name(), types.TypeString(ta.AssertedType, shortQual), c.P.Pos(forms[!ptr]))
			default:
				r.OK(key, ta.Pos(), "%s is not produced as an error value in the repository (comes from elsewhere)", types.TypeString(ta.AssertedType, shortQual))
			}
		})
	})
	if nAssert == 0 {
		r.Und("assert", token.NoPos, "no assertion of an error to a repository type found (the connector's recognition of IPFS API errors was expected)")
	}
}

func init() {
	register(&Rule{ID: "R15.13", Props: []string{"C15"}, Floor: 2, Title: "option blocks merged into an already-loaded configuration override it: every mergo.Merge on the from-JSON side passes WithOverride (loaders also run on loaded configurations - ApplyEnvVars after LoadJSON - where a non-overriding merge silently keeps the old value)", Run: r1513})
}

func r1513(c *Ctx, r *R) {
	n := 0
	c.P.RepoFuncs(func(f *ssa.Function) {
		if isTestSupportFn(f) {
			return
		}
		for _, ci := range findCalls(f, false, "imdario/mergo.Merge") {
			n++
			args := ci.Common().Args
			ok := false
			if len(args) > 0 {
				for _, el := range variadicElems(args[len(args)-1]) {
					if fn := fnOfValue(el); fn != nil && strings.HasSuffix(fn.String(), "mergo.WithOverride") {
						ok = true
					}
				}
			}
			r.Check(ok, "merge-overrides:"+f.String(), ci.Pos(), "the merge overrides what the configuration already holds", f.String()+" merges loaded options into the configuration without mergo.WithOverride: when the loader runs on an already-loaded configuration (environment overrides after the file) a value that differs from the one already set is silently dropped")
		}
	})
	if n == 0 {
		r.Und("merge", token.NoPos, "no mergo.Merge call found (the datastore option blocks were expected)")
	}
}

func init() {
	register(&Rule{ID: "R01.7", Props: []string{"C01", "C04", "C17"}, Floor: 3, Title: "a raft operation redirected to the leader arrives at its own endpoint: the method name LogPin, LogUnpin, AddPeer and RmPeer hand to commit/redirectToLeader is their own (an unpin forwarded as \"LogPin\" is applied as a pin by the leader)", Run: r017})
	register(&Rule{ID: "R09.10", Props: []string{"C09"}, Floor: 2, Title: "the store's per-peer lookups answer 'nothing' only when nothing is stored, and the peerset filter keeps members only: PeerLatest returns nil only for a missing window or an empty one (the failure detector reads nil as 'failed'), PeersetFilter returns only metrics whose peer passed the membership test", Run: r0910})
	register(&Rule{ID: "R06.10", Props: []string{"C06", "C05"}, Floor: 1, Title: "the operation tracker lists every operation it holds: GetAll appends one entry per tracked operation, unconditionally (errored operations are exactly the cancelled ones that are kept)", Run: r0610})
}

func r017(c *Ctx, r *R) {
	isSink := func(h *ssa.Function) bool {
		return h != nil && nameMatches(h.String(), "raft.Consensus).commit", "raft.Consensus).redirectToLeader")
	}
	// h forwards its parameter k as a method name to commit/redirectToLeader
	// (directly or through one more helper)
	var forwards func(h *ssa.Function, k int, depth int) bool
	forwards = func(h *ssa.Function, k int, depth int) bool {
		if h == nil || len(h.Blocks) == 0 || depth > 2 {
			return false
		}
		for _, ci := range callsIn(h) {
			cal := ci.Common().StaticCallee()
			if cal == nil {
				continue
			}
			for i, a := range ci.Common().Args {
				if paramIndexLocal(h, a) != k {
					continue
				}
				if isSink(cal) || forwards(cal, i, depth+1) {
					return true
				}
			}
		}
		return false
	}
	n := 0
	for _, name := range []string{"LogPin", "LogUnpin", "AddPeer", "RmPeer"} {
		f := c.fn(r, "consensus/raft", "Consensus."+name)
		if f == nil {
			continue
		}
		for _, ci := range callsIn(f) {
			cal := ci.Common().StaticCallee()
			if cal == nil || cal.Pkg != f.Pkg {
				continue
			}
			for i, a := range ci.Common().Args {
				s, isS := constString(a)
				if !isS {
					continue
				}
				if !isSink(cal) && !forwards(cal, i, 0) {
					continue
				}
				n++
				r.Check(s == name, "redirect-target:"+name, ci.Pos(), name+" is forwarded to the leader's "+name+" endpoint", fmt.Sprintf("%s hands the method name %q to the redirect: on a non-leader the operation reaches the leader's %s endpoint and is applied as that operation", name, s, s))
			}
		}
	}
	if n == 0 {
		r.Und("redirect-target", token.NoPos, "no constant method name handed to commit/redirectToLeader found")
	}
}

func r0910(c *Ctx, r *R) {
	// PeerLatest: nil only when there is no window or Latest() failed
	if f := c.fn(r, "monitor/metrics", "Store.PeerLatest"); f != nil {
		for _, lf := range returnLeaves(f, 0) {
			if !isNilConst(lf.Val) {
				continue
			}
			absent := func(g Guard) bool {
				if l, idx := mapLookupOf(g.Cond); l != nil && idx == 1 && !g.Branch {
					return true // not found in byName / byPeer
				}
				return gNil(g, true, func(v ssa.Value) bool {
					cc, _ := originCall(v)
					return cc != nil && nameMatches(callName(cc.Common()), "metrics.Window).Latest")
				})
			}
			// (directly, or as the `not found` answer of a lookup helper
			// every false answer of which is a failed lookup)
			ok := false
			for _, g := range lf.Guards() {
				if establishesX(g, absent, nil) {
					ok = true
				}
			}
			r.Check(ok, "peerlatest:nil-only-when-absent", lf.Pos, "nil only when no metric is stored for the pair", "PeerLatest answers nil for a pair that has a stored latest metric (a test other than 'no window' / 'empty window'): the failure detector takes nil for 'failed', so a peer whose latest metric is unexpired is alerted and its metrics are dropped")
		}
	}
	// PeersetFilter: what is returned was built from elements that passed
	// the membership test; the input list itself is never handed back
	if f := c.fn(r, "monitor/metrics", "PeersetFilter"); f != nil {
		okAll, n := true, 0
		why := ""
		for _, lf := range returnLeaves(f, 0) {
			n++
			if paramIndex(f, lf.Val) == 0 {
				// the unfiltered input: only when it is empty
				empty := lf.GuardedBy(func(g Guard) bool {
					x, op, k, ok := cmpIntConst(g.Cond)
					if !ok {
						return false
					}
					lc, _ := originCall(x)
					if lc == nil || callName(lc.Common()) != "builtin.len" || paramIndex(f, lc.Common().Args[0]) != 0 {
						return false
					}
					switch {
					case op == token.EQL && k == 0, op == token.LEQ && k == 0, op == token.LSS && k == 1:
						return g.Branch
					case op == token.NEQ && k == 0, op == token.GTR && k == 0, op == token.GEQ && k == 1:
						return !g.Branch
					}
					return false
				}) && !lf.GuardedBy(func(g Guard) bool { return false })
				// `len(peerset) == 0 || len(metrics) == 0` joins two reasons:
				// every path to the return must establish the emptiness of
				// the metrics themselves
				if !empty || !mustPass(lf.Block, func(g Guard) bool {
					x, op, k, ok := cmpIntConst(g.Cond)
					if !ok {
						return false
					}
					lc, _ := originCall(x)
					if lc == nil || callName(lc.Common()) != "builtin.len" || paramIndex(f, lc.Common().Args[0]) != 0 {
						return false
					}
					switch {
					case op == token.EQL && k == 0, op == token.LEQ && k == 0, op == token.LSS && k == 1:
						return g.Branch
					case op == token.NEQ && k == 0, op == token.GTR && k == 0, op == token.GEQ && k == 1:
						return !g.Branch
					}
					return false
				}) {
					okAll = false
					why = "the unfiltered input is returned on a path that did not establish that it is empty (e.g. for an empty peerset)"
				}
				continue
			}
		}
		// every append of an input element is under the membership test
		for _, ci := range callsIn(f) {
			if callName(ci.Common()) != "builtin.append" {
				continue
			}
			member := guardedBy(ci.Block(), func(g Guard) bool {
				l, idx := mapLookupOf(g.Cond)
				return l != nil && idx == 1 && g.Branch
			})
			if !member {
				okAll = false
				why = "a metric is kept without the membership test"
			}
		}
		r.Check(okAll && n > 0, "peersetfilter:members-only", f.Pos(), "only metrics of peerset members are returned", "PeersetFilter can return metrics of peers that are not in the peerset: "+why+" - with a known, empty peerset every stored metric of non-members is reported and used for allocation")
	}
}

func r0610(c *Ctx, r *R) {
	f := c.fn(r, "pintracker/optracker", "OperationTracker.GetAll")
	if f == nil {
		return
	}
	// the loop that builds the listing: in GetAll or in a helper of the
	// package it hands the operations to (also one shared with Filter)
	n := 0
	var fns []*ssa.Function
	for g := range ssaClosure(f) {
		fns = append(fns, g)
	}
	sort.Slice(fns, func(i, j int) bool { return fns[i].Pos() < fns[j].Pos() })
	for _, g := range fns {
		for _, ci := range callsIn(g) {
			if callName(ci.Common()) != "builtin.append" || !strings.HasSuffix(ci.Common().Args[0].Type().String(), "api.PinInfo") {
				continue
			}
			n++
			// the only test above the append is the loop's own condition
			ok := true
			for _, gd := range guardsOf(ci.Block()) {
				if gd.Derived || gd.If == nil || gd.If.Parent() != g {
					continue
				}
				if ex, isEx := stripLocal(gd.Cond).(*ssa.Extract); isEx && ex.Index == 0 {
					if _, isN := ex.Tuple.(*ssa.Next); isN {
						continue // range over a map
					}
				}
				if b, isB := gd.Cond.(*ssa.BinOp); isB && b.Op == token.LSS {
					continue // i < len(...)
				}
				ok = false
			}
			r.Check(ok, "getall:every-operation", ci.Pos(), "every tracked operation is listed", "GetAll skips some tracked operations (a test inside the loop): operations that failed are kept cancelled in the tracker and are known nowhere else - a failed unpin disappears from StatusAll and is never retried by RecoverAll")
		}
	}
	if n == 0 {
		r.Und("getall", f.Pos(), "GetAll appends nothing: shape not recognised")
	}
}

func init() {
	register(&Rule{ID: "R10.8", Props: []string{"C10"}, Floor: 1, Title: "the expiry sweep visits every pin: no exit from StateSync's loop depends on the outcome of one unpin", Run: r108})
	register(&Rule{ID: "R11.8", Props: []string{"C11", "C08"}, Floor: 4, Title: "the client's pin-type filter can express every pin type the server filters by: the table Allocations turns into the filter query lists every storable PinType", Run: r118})
	register(&Rule{ID: "R13.10", Props: []string{"C13", "C12", "C08"}, Floor: 6, Title: "import parameters travel unchanged: every AddParams field is restored by AddParamsFromQuery, and newIpfsAdder copies each importer option from the request's field of the same name (nothing is re-derived after the request was parsed)", Run: r1310})
	register(&Rule{ID: "R15.14", Props: []string{"C15"}, Floor: 1, Title: "a loop over components keeps every error: where a loader's error is assigned inside a loop and returned after it, the loop is left on the first error (otherwise a later success overwrites it and a refused setting is silently replaced by its default)", Run: r1514})
	register(&Rule{ID: "R17.8", Props: []string{"C17", "C01"}, Floor: 3, Title: "raft operations are attempted at least once: the retry loops of commit, AddPeer and RmPeer run for i <= CommitRetries (with `<` a configuration with commit_retries 0 does nothing and reports success)", Run: r178})
}

func r108(c *Ctx, r *R) {
	f := c.fn(r, "", "Cluster.StateSync")
	if f == nil {
		return
	}
	n := 0
	for _, dc := range findCallsDeep(f, ModPath+".Cluster).Unpin") {
		n++
		bad, inLoop := sweepCanStop(dc.Inner)
		r.Check(inLoop && !bad, "expiry-sweep:continues", dc.Inner.Pos(), "an expired pin that cannot be unpinned does not stop the sweep", "the expiry sweep stops at the first expired pin it cannot unpin (a return or break depends on one element): a shard or cluster-DAG pin with an expiry keeps every expired pin listed after it pinned for ever")
	}
	if n == 0 {
		r.Und("expiry-sweep", f.Pos(), "no Unpin call in StateSync")
	}
}

func r118(c *Ctx, r *R) {
	f := c.fn(r, "api/rest/client", "defaultClient.Allocations")
	pt := c.namedType(r, "api", "PinType")
	if f == nil || pt == nil {
		return
	}
	listed := map[int64]bool{}
	for g := range ssaClosure(f) { // the table may sit in a helper that renders the filter
		instrs(g, func(i ssa.Instruction) {
			st, ok := i.(*ssa.Store)
			if !ok {
				return
			}
			if _, isIA := st.Addr.(*ssa.IndexAddr); !isIA {
				return
			}
			if k, isK := st.Val.(*ssa.Const); isK && types.Identical(k.Type(), pt) && k.Value != nil {
				if v, ok := constant.Int64Val(k.Value); ok {
					listed[v] = true
				}
			}
		})
	}
	for _, k := range declaredConsts(pt) {
		if k.Name() == "AllType" || k.Name() == "BadType" {
			continue
		}
		v, _ := constant.Int64Val(k.Val())
		r.Check(listed[v], "client-filter:"+k.Name(), f.Pos(), "the client can ask for "+k.Name()+" allocations", "client.Allocations cannot express the pin type "+k.Name()+": the bit is dropped from the filter sent to the server (an empty filter means everything), so the caller gets a different set of pins than it asked for")
	}
}

func r1310(c *Ctx, r *R) {
	// (a) every AddParams field is written by the query reader
	rfd, rpkg := c.decl(r, "api", "AddParamsFromQuery")
	wfd, _ := c.decl(r, "api", "AddParams.ToQueryString")
	nt := c.namedType(r, "api", "AddParams")
	if rfd != nil && wfd != nil && nt != nil {
		// writes by the reader and its helpers - not by the constructor of
		// the defaults, which sets every field to a constant
		wr := map[*types.Var]token.Pos{}
		for _, d := range declClosure(rpkg, rfd) {
			if strings.HasPrefix(d.Name.Name, "Default") {
				continue
			}
			_, w := fieldsUsed(rpkg, d)
			for k, v := range w {
				wr[k] = v
			}
		}
		rd, _ := fieldsUsedDeep(rpkg, wfd)
		for _, fl := range flatFields(nt, "PinOptions") {
			_, a := wr[fl]
			_, b := rd[fl]
			r.Check(a && b, "addparams-field:"+fl.Name(), fl.Pos(), "the option travels in the query form", fmt.Sprintf("AddParams.%s is not both restored by AddParamsFromQuery (%v) and written by ToQueryString (%v): the requested option is silently replaced by its default", fl.Name(), a, b))
		}
	}
	// (b) the importer is configured from the request's fields as they are
	f := c.fn(r, "adder", "newIpfsAdder")
	if f == nil {
		return
	}
	pnt := c.namedType(r, "api", "AddParams")
	n := 0
	instrs(f, func(i ssa.Instruction) {
		st, ok := i.(*ssa.Store)
		if !ok {
			return
		}
		fa, ok := st.Addr.(*ssa.FieldAddr)
		if !ok || !strings.HasSuffix(fa.X.Type().String(), "ipfsadd.Adder") {
			return
		}
		name := fieldOfAddr(fa).Name()
		has := false
		if pnt != nil {
			for _, pf := range flatFields(pnt, "") {
				if pf.Name() == name {
					has = true
				}
			}
		}
		if !has {
			return // no request field of that name (Trickle <- Layout, Out, ...)
		}
		n++
		fl, _ := fieldLoad(st.Val)
		r.Check(fl != nil && fl.Name() == name && strings.HasSuffix(fl.Pkg().Path(), "/api"), "importer-option:"+name, st.Pos(), "the importer's "+name+" is the request's "+name, "newIpfsAdder derives the importer's "+name+" from something other than the request's "+name+" alone: defaults implied by other options were already applied when the request was parsed, re-deriving them here overrides what the client asked for explicitly (the root then differs from what the standard importer computes)")
	})
	if n == 0 {
		r.Und("importer-options", f.Pos(), "newIpfsAdder copies no option from the request: shape not recognised")
	}
}

func r1514(c *Ctx, r *R) {
	n := 0
	for _, pkg := range []string{"config"} {
		sp := c.P.SSAPkg(pkg)
		if sp == nil {
			continue
		}
		c.P.RepoFuncs(func(f *ssa.Function) {
			root := f
			for root.Parent() != nil {
				root = root.Parent()
			}
			if root.Pkg != sp || len(f.Blocks) == 0 {
				return
			}
			errT := types.Universe.Lookup("error").Type()
			for _, ci := range callsIn(f) {
				call, ok := ci.(*ssa.Call)
				if !ok {
					continue
				}
				res := call.Common().Signature().Results()
				if res.Len() == 0 || !types.Identical(res.At(res.Len()-1).Type(), errT) {
					continue
				}
				b := call.Block()
				var header *ssa.BasicBlock
				for d := b; d != nil; d = d.Idom() {
					if inNaturalLoop(b, d) {
						header = d
						break
					}
				}
				if header == nil {
					continue
				}
				// the error is carried round the loop in a phi of the header
				// that is returned afterwards
				for _, in := range header.Instrs {
					phi, isPhi := in.(*ssa.Phi)
					if !isPhi || !types.Identical(phi.Type(), errT) {
						continue
					}
					carries := false
					for _, e := range phi.Edges {
						for _, l := range phiLeaves(e) {
							if cc, idx := originCallLocal(l); cc == call && idx == res.Len()-1 {
								carries = true
							}
						}
					}
					returned := false
					for _, ret := range returnsOf(f) {
						if len(ret.Results) == 0 {
							continue
						}
						if stripLocal(retResult(ret, len(ret.Results)-1)) == ssa.Value(phi) {
							returned = true
						}
					}
					if !carries || !returned {
						continue
					}
					n++
					// the back edge must not be taken with a non-nil error
					isErrNil := func(g Guard) bool {
						return gNil(g, false, func(v ssa.Value) bool { cc, idx := originCallLocal(v); return cc == call && idx == res.Len()-1 })
					}
					leavesOnErr := true
					seen := map[*ssa.BasicBlock]bool{}
					var walk func(x *ssa.BasicBlock)
					walk = func(x *ssa.BasicBlock) {
						if seen[x] || !leavesOnErr {
							return
						}
						seen[x] = true
						iff, isIf := x.Instrs[len(x.Instrs)-1].(*ssa.If)
						for i, sc := range x.Succs {
							if isIf && len(x.Succs) == 2 {
								cond, br := iff.Cond, i == 0
								for {
									if u, ok := cond.(*ssa.UnOp); ok && u.Op == token.NOT {
										cond, br = u.X, !br
										continue
									}
									break
								}
								if isErrNil(Guard{Cond: cond, Branch: br, If: iff}) {
									continue
								}
							}
							if sc == header {
								leavesOnErr = false
								return
							}
							if inNaturalLoop(sc, header) {
								walk(sc)
							}
						}
					}
					walk(b)
					r.Check(leavesOnErr, "loop-keeps-error:"+f.String(), call.Pos(), "the loop is left on the first error", f.String()+" carries the error of "+shortName(call)+" round a loop and returns it afterwards, but goes on iterating after a failure: a later success overwrites the error and a refused component configuration is silently replaced by its defaults")
				}
			}
		})
	}
	if n == 0 {
		r.OK("loop-keeps-error", token.NoPos, "no loader carries an error round a loop (errors are returned where they occur)")
	}
}

func r178(c *Ctx, r *R) {
	n := 0
	for _, name := range []string{"commit", "AddPeer", "RmPeer"} {
		f := c.fn(r, "consensus/raft", "Consensus."+name)
		if f == nil {
			continue
		}
		for _, b := range f.Blocks {
			iff, ok := b.Instrs[len(b.Instrs)-1].(*ssa.If)
			if !ok {
				continue
			}
			bo, ok := iff.Cond.(*ssa.BinOp)
			if !ok {
				continue
			}
			fx, _ := fieldLoad(bo.X)
			fy, _ := fieldLoad(bo.Y)
			var atLeastOnce bool
			switch {
			case fy != nil && fy.Name() == "CommitRetries":
				atLeastOnce = bo.Op == token.LEQ // i <= retries
			case fx != nil && fx.Name() == "CommitRetries":
				atLeastOnce = bo.Op == token.GEQ // retries >= i
			default:
				continue
			}
			n++
			r.Check(atLeastOnce, "retry-loop:"+name, iff.Cond.Pos(), name+" makes CommitRetries+1 attempts", "Consensus."+name+" loops while i < CommitRetries: with commit_retries 0 (valid, and the value of a configuration that omits the key) the operation is never attempted and nil is returned - the caller believes the log entry / membership change was made")
		}
	}
	if n == 0 {
		r.Und("retry-loop", token.NoPos, "no retry loop bounded by CommitRetries found in commit/AddPeer/RmPeer")
	}
}

// flatFields lists the fields of a struct type with embedded structs
// flattened (an embedded struct named skip is left out as a whole).
func flatFields(t types.Type, skip string) []*types.Var {
	st := structOf(t)
	if st == nil {
		return nil
	}
	var out []*types.Var
	for i := 0; i < st.NumFields(); i++ {
		f := st.Field(i)
		if f.Embedded() {
			if f.Name() != skip {
				out = append(out, flatFields(f.Type(), skip)...)
			}
			continue
		}
		out = append(out, f)
	}
	return out
}

func init() {
	register(&Rule{ID: "R08.8", Props: []string{"C08", "C01", "C14"}, Floor: 8, Title: "the stored form of a pin is decoded field by field: in ProtoUnmarshal the restoring of one field is conditional only on that field's own stored value (never on whether another field, e.g. the expiry, is set), and the snapshot's keys are written relative to the namespace and re-rooted under it on restore", Run: r088})
}

func r088(c *Ctx, r *R) {
	f := c.fn(r, "api", "Pin.ProtoUnmarshal")
	if f == nil {
		return
	}
	isGetter := func(call *ssa.Call) (string, bool) {
		cal := call.Common().StaticCallee()
		if cal == nil || cal.Pkg == nil || !strings.HasSuffix(cal.Pkg.Pkg.Path(), "/api/pb") || !strings.HasPrefix(cal.Name(), "Get") {
			return "", false
		}
		// a getter of a sub-message is transparent
		if res := cal.Signature.Results(); res.Len() == 1 {
			if p, ok := res.At(0).Type().(*types.Pointer); ok {
				if nt, ok := p.Elem().(*types.Named); ok && strings.HasSuffix(pkgPathOf(nt), "/api/pb") {
					return "", false
				}
			}
		}
		return cal.Name(), true
	}
	var getters func(v ssa.Value, depth int, seen map[ssa.Value]bool, out map[string]bool)
	getters = func(v ssa.Value, depth int, seen map[ssa.Value]bool, out map[string]bool) {
		if v == nil || depth > 10 || seen[v] {
			return
		}
		seen[v] = true
		switch x := v.(type) {
		case *ssa.Call:
			if name, ok := isGetter(x); ok {
				out[name] = true
				return
			}
			for _, a := range x.Common().Args {
				getters(a, depth+1, seen, out)
			}
			if x.Common().IsInvoke() {
				getters(x.Common().Value, depth+1, seen, out)
			}
		case *ssa.BinOp:
			getters(x.X, depth+1, seen, out)
			getters(x.Y, depth+1, seen, out)
		case *ssa.UnOp:
			getters(x.X, depth+1, seen, out)
		case *ssa.Phi:
			for _, e := range x.Edges {
				getters(e, depth+1, seen, out)
			}
		case *ssa.Convert:
			getters(x.X, depth+1, seen, out)
		case *ssa.ChangeType:
			getters(x.X, depth+1, seen, out)
		case *ssa.MakeInterface:
			getters(x.X, depth+1, seen, out)
		case *ssa.Extract:
			getters(x.Tuple, depth+1, seen, out)
		case *ssa.Lookup:
			getters(x.X, depth+1, seen, out)
		case *ssa.Index:
			getters(x.X, depth+1, seen, out)
		case *ssa.IndexAddr:
			getters(x.X, depth+1, seen, out)
		case *ssa.Slice:
			getters(x.X, depth+1, seen, out)
		case *ssa.Next:
			getters(x.Iter, depth+1, seen, out)
		case *ssa.Range:
			getters(x.X, depth+1, seen, out)
		case *ssa.Alloc:
			if x.Referrers() != nil {
				for _, ref := range *x.Referrers() {
					if st, ok := ref.(*ssa.Store); ok && st.Addr == ssa.Value(x) {
						getters(st.Val, depth+1, seen, out)
					}
				}
			}
		}
	}
	set := func(v ssa.Value) map[string]bool {
		out := map[string]bool{}
		getters(v, 0, map[ssa.Value]bool{}, out)
		return out
	}
	n := 0
	for g := range ssaClosure(f) {
		instrs(g, func(i ssa.Instruction) {
			st, ok := i.(*ssa.Store)
			if !ok {
				return
			}
			fa, ok := st.Addr.(*ssa.FieldAddr)
			if !ok {
				return
			}
			owner := ownerOf(rootOfFieldAddr(fa).Type())
			if owner == nil || owner.Obj().Pkg() == nil || !strings.HasSuffix(owner.Obj().Pkg().Path(), "/api") || (owner.Obj().Name() != "Pin" && owner.Obj().Name() != "PinOptions") {
				return
			}
			val := set(st.Val)
			if len(val) == 0 {
				return
			}
			n++
			var foreign []string
			for _, gd := range guardsOf(st.Block()) {
				if gd.Derived || gd.If == nil || gd.If.Parent() != g {
					continue
				}
				ib := gd.If.Block()
				// "the loop over another field is over" is no condition
				if inNaturalLoop(ib, ib) && !inNaturalLoop(st.Block(), ib) {
					continue
				}
				// a test whose other outcome aborts the decoding with an
				// error is no condition either: only a skip that still
				// ends in success loses the field
				other := ib.Succs[0]
				if other == st.Block() || other.Dominates(st.Block()) {
					other = ib.Succs[1]
				}
				skips := false
				for _, ret := range returnsOf(g) {
					if len(ret.Results) > 0 && isNilConst(retResult(ret, len(ret.Results)-1)) && (ret.Block() == other || blockReachesAvoiding(other, ret.Block(), st.Block())) {
						skips = true
					}
				}
				if !skips {
					continue
				}
				for name := range set(gd.Cond) {
					if !val[name] {
						foreign = append(foreign, name)
					}
				}
			}
			sort.Strings(foreign)
			fname := fieldOfAddr(fa).Name()
			r.Check(len(foreign) == 0, "decode-independent:"+fname, st.Pos(), fname+" is restored from its own stored value, whatever the other fields hold", fmt.Sprintf("ProtoUnmarshal restores %s (from %v) only under a test on another stored field (%v): a pin read back from the state loses %s whenever that other field is unset", fname, keysOf(val), foreign, fname))
		})
	}
	if n == 0 {
		r.Und("decode-independent", f.Pos(), "no field of the pin is restored from a protobuf getter: shape not recognised")
	}
	// snapshot keys
	if m := c.fn(r, "state/dsstate", "State.Marshal"); m != nil {
		ok := false
		instrsDeep(m, func(i ssa.Instruction) { // also in a helper that encodes the results
			st, isSt := i.(*ssa.Store)
			if !isSt {
				return
			}
			if fl, _ := fieldOfAddrValue(st.Addr); fl == nil || fl.Name() != "Key" {
				return
			}
			if cc, _ := originCall(st.Val); cc != nil && nameMatches(callName(cc.Common()), "go-datastore.Key).BaseNamespace") {
				ok = true
			}
		})
		r.Check(ok, "snapshot-key:relative", m.Pos(), "snapshot entries carry the key without the namespace", "State.Marshal no longer stores the key relative to the namespace (BaseNamespace): Unmarshal re-roots every key under the namespace, so a restored snapshot holds its pins under doubled prefixes where no reader finds them - a replica restored from a snapshot has an empty pinset")
	}
	if u := c.fn(r, "state/dsstate", "State.Unmarshal"); u != nil {
		ok := false
		for _, ci := range findCalls(u, false, "go-datastore.Write).Put", "go-datastore.Datastore).Put", "go-datastore.Batching).Put") {
			args := callArgs(ci.Common())
			if len(args) == 0 {
				continue
			}
			if cc, _ := originCall(args[0]); cc != nil && nameMatches(callName(cc.Common()), "go-datastore.Key).Child") {
				if fl, _ := fieldLoad(cc.Common().Args[0]); fl != nil && fl.Name() == "namespace" {
					ok = true
				}
			}
		}
		r.Check(ok, "snapshot-key:re-rooted", u.Pos(), "restored entries are put under the state's namespace", "State.Unmarshal does not put the restored entries under namespace.Child(key)")
	}
}

func init() {
	register(&Rule{ID: "R02.8", Props: []string{"C02", "C14"}, Floor: 3, Title: "the crdt stores are found where the running peer keeps them and cleaned completely: every block datastore is the datastore wrapped under <namespace>/<blocks namespace> (online and offline agree), and Clean deletes every key under the namespace (a leftover DAG block makes go-ds-crdt skip the delta it belongs to)", Run: r028})
}

func r028(c *Ctx, r *R) {
	sp := c.P.SSAPkg("consensus/crdt")
	if sp == nil {
		r.Und("pkg", token.NoPos, "consensus/crdt missing")
		return
	}
	blocksNs := c.constNamed("consensus/crdt", "blocksNs")
	n := 0
	c.P.RepoFuncs(func(f *ssa.Function) {
		root := f
		for root.Parent() != nil {
			root = root.Parent()
		}
		if root.Pkg != sp {
			return
		}
		for _, ci := range findCalls(f, false, "go-datastore/namespace.Wrap") {
			n++
			args := ci.Common().Args
			ok := false
			if len(args) == 2 {
				if ch, _ := originCall(args[1]); ch != nil && nameMatches(callName(ch.Common()), "go-datastore.Key).ChildString") {
					a := ch.Common().Args
					isBlocksNs := false
					if k, isK := constOf(a[len(a)-1]); isK && k != nil && blocksNs != nil && constant.Compare(k, token.EQL, blocksNs) {
						isBlocksNs = true
					}
					if u, isU := stripLocal(a[len(a)-1]).(*ssa.UnOp); isU && u.Op == token.MUL {
						if gl, isG := u.X.(*ssa.Global); isG && gl.Name() == "blocksNs" {
							isBlocksNs = true // the package-level name of the blocks namespace
						}
					}
					if isBlocksNs {
						// the parent key is the configured namespace
						base, _ := originCall(a[0])
						if base != nil && nameMatches(callName(base.Common()), "go-datastore.NewKey") {
							if fl, _ := fieldLoad(base.Common().Args[0]); fl != nil && fl.Name() == "DatastoreNamespace" {
								ok = true
							}
						}
					}
				}
			}
			r.Check(ok, "blockstore-namespace:"+f.Name(), ci.Pos(), "the DAG blocks live under <namespace>/<blocks namespace>", f.Name()+" wraps the block datastore under a key other than NewKey(DatastoreNamespace).ChildString(blocksNs): the offline state and the running peer then keep the DAG blocks in different places - deltas committed offline (state import) can never be served to other peers, which hold the heads and never merge them")
		}
	})
	if n < 2 {
		r.Und("blockstore-namespace", token.NoPos, "fewer than two block datastores found in consensus/crdt (online setup and OfflineState expected)")
	}
	if cl := c.P.Func("consensus/crdt", "Clean"); cl != nil {
		dels := findCalls(cl, false, "go-datastore.Write).Delete", "go-datastore.Datastore).Delete")
		if len(dels) == 0 {
			r.Und("clean:delete", cl.Pos(), "Clean deletes nothing: shape not recognised")
		}
		for _, d := range dels {
			ok := true
			for _, g := range guardsOf(d.Block()) {
				if g.Derived || g.If == nil {
					continue
				}
				// the loop's own condition and error tests are fine
				if ex, isEx := stripLocal(g.Cond).(*ssa.Extract); isEx {
					if _, isN := ex.Tuple.(*ssa.Next); isN {
						continue
					}
					if _, isSel := ex.Tuple.(*ssa.Select); isSel {
						continue
					}
					if u, isU := ex.Tuple.(*ssa.UnOp); isU && u.Op == token.ARROW {
						continue // v, ok := <-ch
					}
				}
				if _, _, isNil := nilCmp(g.Cond); isNil {
					continue
				}
				ok = false
			}
			r.Check(ok, "clean:everything", d.Pos(), "every key under the namespace is deleted", "Clean keeps some keys of the namespace (a test on the key decides what is deleted): go-ds-crdt treats a DAG block it already has as a delta it already merged, so a peer that is cleaned and rejoins on the same datastore never re-merges the old pins and stays with a partial pinset")
		}
	}
}

func init() {
	register(&Rule{ID: "R15.15", Props: []string{"C15", "C07"}, Floor: 14, Title: "no JSON configuration field carries an envconfig `default` or `required` tag: ApplyEnvVars feeds envconfig the loaded configuration, and envconfig overwrites a populated field with its default whenever the variable is unset", Run: r1515})
	register(&Rule{ID: "R09.11", Props: []string{"C09", "C03", "C08"}, Floor: 2, Title: "what was received is what is stored and sent: Window.Add stores on every path, PublishMetric hands pubsub a buffer that nothing reuses (pubsub does not copy the payload)", Run: r0911})
	register(&Rule{ID: "R05.8", Props: []string{"C05", "C06"}, Floor: 1, Title: "the tracker answers `no operation` for a CID only when its table has none: GetExists decides on the lookup alone (a cancelled, failed operation is still the item's status and what Recover retries)", Run: r058})
	register(&Rule{ID: "R10.9", Props: []string{"C10"}, Floor: 2, Title: "the re-pinning switch the operator saved is the one the peer runs with: disable_repinning is written by the cluster configuration's ToJSON/toConfigJSON and read back by LoadJSON/applyConfigJSON (ApplyEnvVars, run at every start, goes through both)", Run: r109})
	register(&Rule{ID: "R04.8", Props: []string{"C04", "C03", "C08"}, Floor: 3, Title: "replication factors are taken from the request one by one: an unset factor is replaced by the cluster default without touching the other, and the `replication` shorthand of the query form applies to both factors", Run: r048})
}

func r1515(c *Ctx, r *R) {
	n := 0
	for _, cc := range c.componentConfigs(r) {
		J := jsonStructOf(c, cc)
		if J == nil {
			continue
		}
		var walk func(t types.Type, path string, depth int)
		walk = func(t types.Type, path string, depth int) {
			st := structOf(t)
			if st == nil || depth > 3 {
				return
			}
			for i := 0; i < st.NumFields(); i++ {
				tag := reflect.StructTag(st.Tag(i))
				n++
				_, hasD := tag.Lookup("default")
				_, hasR := tag.Lookup("required")
				fld := st.Field(i)
				r.Check(!hasD && !hasR, "envconfig-tag:"+cc.rel+"."+path+fld.Name(), fld.Pos(), "no envconfig default/required tag", fmt.Sprintf("JSON setting %s%s of %s carries an envconfig default/required tag: ApplyEnvVars (run on every daemon start) processes the already loaded configuration, and envconfig replaces the loaded value by the tag's default whenever the environment variable is unset", path, fld.Name(), cc.rel))
				if nt, ok := fld.Type().(*types.Named); ok && nt.Obj().Pkg() == cc.pkg.Types {
					walk(nt, path+fld.Name()+".", depth+1)
				}
			}
		}
		walk(J, "", 0)
	}
	if n == 0 {
		r.Und("envconfig-tag", token.NoPos, "no JSON configuration struct found")
	}
}

func r0911(c *Ctx, r *R) {
	if f := c.fn(r, "monitor/metrics", "Window.Add"); f != nil {
		var store *ssa.Store
		instrs(f, func(i ssa.Instruction) {
			if st, ok := i.(*ssa.Store); ok {
				if fl, _ := fieldOfAddrValue(st.Addr); fl != nil && fl.Name() == "Value" && paramIndex(f, st.Val) == 1 {
					store = st
				}
				if mi, ok := st.Val.(*ssa.MakeInterface); ok && paramIndex(f, mi.X) == 1 {
					if fl, _ := fieldOfAddrValue(st.Addr); fl != nil && fl.Name() == "Value" {
						store = st
					}
				}
			}
		})
		if store == nil {
			r.Und("window-add", f.Pos(), "Window.Add does not store its argument in the ring: shape not recognised")
		} else {
			r.Check(onEveryPath(store), "window-add:unconditional", store.Pos(), "every metric handed to the window becomes its latest entry", "Window.Add drops some metrics (a test or early return in front of the store): a peer's older valid metric stays the latest after it reported an invalid one, and the peer is still ranked and allocated on the stale value")
		}
	}
	if f := c.fn(r, "monitor/pubsubmon", "Monitor.PublishMetric"); f != nil {
		pubs := findCalls(f, false, "go-libp2p-pubsub.Topic).Publish")
		if len(pubs) == 0 {
			r.Und("publish", f.Pos(), "PublishMetric does not publish: shape not recognised")
		}
		for _, ci := range pubs {
			args := callArgs(ci.Common())
			fresh := false
			if len(args) >= 2 {
				if bc, _ := originCall(args[1]); bc != nil && nameMatches(callName(bc.Common()), "(*bytes.Buffer).Bytes") {
					if al, ok := stripLocal(bc.Common().Args[0]).(*ssa.Alloc); ok && al.Parent() == f {
						fresh = true
					}
				} else if bc == nil || !nameMatches(callName(bc.Common()), "(*bytes.Buffer).Bytes") {
					fresh = true // not a shared buffer's bytes (a marshal result, a copy)
				}
			}
			r.Check(fresh, "publish:own-buffer", ci.Pos(), "the published payload is this call's own buffer", "PublishMetric publishes the bytes of a buffer that outlives the call (taken from a pool or a field): pubsub does not copy the payload, so the next metric encoded into the buffer overwrites a message still being delivered - subscribers decode garbage or drop it")
		}
	}
}

func r058(c *Ctx, r *R) {
	if f := c.fn(r, "pintracker/optracker", "OperationTracker.GetExists"); f != nil {
		notFound := func(g Guard) bool {
			l, idx := mapLookupOf(g.Cond)
			return l != nil && idx == 1 && !g.Branch
		}
		for _, lf := range returnLeaves(f, 1) {
			if k, isK := constOf(lf.Val); isK && k != nil && !boolVal(k) {
				r.Check(mustPass(lf.Block, notFound), "getexists:absent-only-when-untracked", lf.Pos, "'no operation' is answered only when none is tracked for the CID", "GetExists answers 'no operation' for a CID it tracks (a test other than the table lookup): failed operations are kept cancelled in the tracker, so Status falls through to the state check and reports a failed unpin as 'unpinned', and Recover finds nothing to retry")
			}
		}
	}
}

func r048(c *Ctx, r *R) {
	// setupReplicationFactor: each default is applied under the test on its
	// own factor
	if f := c.fn(r, "", "Cluster.setupReplicationFactor"); f != nil {
		n := 0
		instrs(f, func(i ssa.Instruction) {
			st, ok := i.(*ssa.Store)
			if !ok {
				return
			}
			fl, _ := fieldOfAddrValue(st.Addr)
			if fl == nil || (fl.Name() != "ReplicationFactorMin" && fl.Name() != "ReplicationFactorMax") {
				return
			}
			var cfgLeaves []RetLeaf
			for _, lf := range valueLeaves(st.Val, st.Block()) {
				if cf, _ := fieldLoad(lf.Val); cf != nil && cf.Name() == fl.Name() && strings.HasSuffix(cf.Pkg().Path(), "ipfs-cluster") {
					cfgLeaves = append(cfgLeaves, lf)
				}
			}
			if len(cfgLeaves) == 0 {
				return
			}
			n++
			own := func(g Guard) bool {
				x, k, tme, isEq := eqConst(g.Cond)
				if !isEq || tme != g.Branch {
					return false
				}
				if iv, ok := constant.Int64Val(k); !ok || iv != 0 {
					return false
				}
				xf, _ := fieldLoad(x)
				return xf != nil && xf.Name() == fl.Name()
			}
			okOwn := true
			for _, lf := range cfgLeaves {
				// the default arrives over an edge taken because this very
				// factor was unset (the store itself may be unconditional)
				if !lf.GuardedBy(own) && !mustPass(st.Block(), own) {
					okOwn = false
				}
			}
			r.Check(okOwn, "default-per-factor:"+fl.Name(), st.Pos(), fl.Name()+" is replaced by the cluster default only when the request left it unset", "setupReplicationFactor replaces "+fl.Name()+" by the cluster default on a path where the request had set it (the test is on the other factor): a requested factor is silently discarded, and a pair that must be refused is validated as the configured pair")
		})
		if n == 0 {
			r.Und("default-per-factor", f.Pos(), "setupReplicationFactor stores no cluster default into the pin: shape not recognised")
		}
	}
	// FromQuery: the shorthand reaches both factors
	if f := c.fn(r, "api", "PinOptions.FromQuery"); f != nil {
		within := ssaClosure(f)
		keysFor := map[string]map[string]bool{}
		for _, ci := range callsIn(f) {
			cal := ci.Common().StaticCallee()
			if cal == nil || !strings.HasPrefix(cal.Name(), "parse") {
				continue
			}
			args := ci.Common().Args
			if len(args) < 3 {
				continue
			}
			fl, _ := fieldOfAddrValue(args[2])
			if fl == nil || !strings.HasPrefix(fl.Name(), "ReplicationFactor") {
				continue
			}
			ks, _ := constStringsReaching(args[1], within)
			m := map[string]bool{}
			for k := range ks {
				m[k] = true
			}
			keysFor[fl.Name()] = m
		}
		sets := map[string]bool{}
		for _, ci := range findCalls(f, false, "(net/url.Values).Set") {
			args := callArgs(ci.Common())
			if k, ok := constString(args[0]); ok {
				sets[k] = true
			}
		}
		mn, mx := keysFor["ReplicationFactorMin"], keysFor["ReplicationFactorMax"]
		if mn == nil || mx == nil {
			r.Und("shorthand", f.Pos(), "FromQuery: the parsing of the replication factors was not recognised")
		} else {
			viaKeys := mn["replication"] && mx["replication"]
			viaSets := sets["replication-min"] && sets["replication-max"]
			lopsided := mn["replication"] != mx["replication"] || sets["replication-min"] != sets["replication-max"]
			r.Check((viaKeys || viaSets) && !lopsided, "shorthand:both-factors", f.Pos(), "`replication=N` sets the minimum and the maximum", "PinOptions.FromQuery applies the `replication` shorthand to one factor only: `replication=3` becomes <cluster default>/3, so a request that must fail for lack of 3 healthy peers succeeds with fewer holders")
		}
	}
}

// sameExpr: a and b denote the same value - the same SSA value, equal
// constants, or the same chain of loads/field selections/conversions over
// the same base (go/ssa does not share common subexpressions).
func sameExpr(a, b ssa.Value, depth int) bool {
	a, b = stripLocal(a), stripLocal(b)
	if a == b {
		return true
	}
	if depth > 8 || a == nil || b == nil {
		return false
	}
	if ka, ok := a.(*ssa.Const); ok {
		kb, ok2 := b.(*ssa.Const)
		if !ok2 || !types.Identical(ka.Type(), kb.Type()) {
			return false
		}
		if ka.Value == nil || kb.Value == nil {
			return ka.Value == nil && kb.Value == nil
		}
		return constant.Compare(ka.Value, token.EQL, kb.Value)
	}
	switch x := a.(type) {
	case *ssa.UnOp:
		y, ok := b.(*ssa.UnOp)
		return ok && x.Op == y.Op && sameExpr(x.X, y.X, depth+1)
	case *ssa.FieldAddr:
		y, ok := b.(*ssa.FieldAddr)
		return ok && x.Field == y.Field && sameExpr(x.X, y.X, depth+1)
	case *ssa.Field:
		y, ok := b.(*ssa.Field)
		return ok && x.Field == y.Field && sameExpr(x.X, y.X, depth+1)
	case *ssa.MakeInterface:
		y, ok := b.(*ssa.MakeInterface)
		return ok && sameExpr(x.X, y.X, depth+1)
	case *ssa.Convert:
		y, ok := b.(*ssa.Convert)
		return ok && types.Identical(x.Type(), y.Type()) && sameExpr(x.X, y.X, depth+1)
	case *ssa.ChangeType:
		y, ok := b.(*ssa.ChangeType)
		return ok && sameExpr(x.X, y.X, depth+1)
	case *ssa.Extract:
		y, ok := b.(*ssa.Extract)
		return ok && x.Index == y.Index && sameExpr(x.Tuple, y.Tuple, depth+1)
	}
	return false
}

// reachesAvoiding: some path from block `from` reaches a block satisfying
// stop without running through a block satisfying avoid.
func reachesAvoiding(from *ssa.BasicBlock, avoid, stop func(*ssa.BasicBlock) bool) bool {
	seen := map[*ssa.BasicBlock]bool{}
	work := []*ssa.BasicBlock{from}
	for len(work) > 0 {
		b := work[len(work)-1]
		work = work[:len(work)-1]
		if seen[b] {
			continue
		}
		seen[b] = true
		if avoid(b) {
			continue
		}
		if stop(b) {
			return true
		}
		work = append(work, b.Succs...)
	}
	return false
}

// guardEdge: the successor taken when the (direct, non-derived) guard holds.
func guardEdge(g Guard) *ssa.BasicBlock {
	if g.If == nil || g.Derived {
		return nil
	}
	cond, br := g.If.Cond, true
	for cond != g.Cond {
		u, ok := cond.(*ssa.UnOp)
		if !ok || u.Op != token.NOT {
			return nil
		}
		cond, br = u.X, !br
	}
	blk := g.If.Block()
	if len(blk.Succs) != 2 {
		return nil
	}
	if g.Branch == br {
		return blk.Succs[0]
	}
	return blk.Succs[1]
}

// onlyLoopGuards: the tests of function g standing above block b are the
// conditions of the loops around it (range over a map, index below length),
// nothing that depends on the element.
func onlyLoopGuards(b *ssa.BasicBlock) bool {
	g := b.Parent()
	for _, gd := range guardsOf(b) {
		if gd.Derived || gd.If == nil || gd.If.Parent() != g {
			continue
		}
		if ex, isEx := stripLocal(gd.Cond).(*ssa.Extract); isEx && ex.Index == 0 {
			if _, isN := ex.Tuple.(*ssa.Next); isN {
				continue
			}
		}
		if bo, isB := gd.Cond.(*ssa.BinOp); isB && bo.Op == token.LSS {
			continue
		}
		return false
	}
	return true
}

func init() {
	register(&Rule{ID: "R11.9", Props: []string{"C11"}, Floor: 6, Title: "the request's argument reaches the operation whichever way it is served: a route that answers from this peer (`local=true`) and from the cluster passes the same parsed value to both operations; the load-balancing client moves to the next peer only when no server answered (error code 0), every answer of a server is returned as it is", Run: r119})
	register(&Rule{ID: "R12.6", Props: []string{"C12", "C13", "C11"}, Floor: 1, Title: "the add helper reports the import's own outcome: once FromMultipart ran, the error AddMultipartHTTPHandler returns is FromMultipart's (writing the error document must not overwrite it - the proxy and the REST API decide on it whether the add succeeded)", Run: r126})
	register(&Rule{ID: "R13.11", Props: []string{"C13"}, Floor: 2, Title: "blocks are stored under the CID they were built with: BlockPut asks for format v0 exactly when the CID's version is 0, for the codec's own name otherwise (a CIDv1 dag-pb block put as v0 is stored under a CIDv0 and the pin of the v1 root never finds it)", Run: r1311})
	register(&Rule{ID: "R14.8", Props: []string{"C14"}, Floor: 2, Title: "import replaces: each state manager's ImportState cleans the existing state before it opens the offline state it imports into (raft's offline state is read from the newest snapshot: opened first, the old pinset is merged with the imported one)", Run: r148})
	register(&Rule{ID: "R15.16", Props: []string{"C15"}, Floor: 2, Title: "environment overrides reach every component and hidden settings of any type are masked: Manager.ApplyEnvVars calls each registered component without a test, DisplayJSON replaces every field tagged hidden (no second condition on the field's type)", Run: r1516})
	register(&Rule{ID: "R16.8", Props: []string{"C16", "C08"}, Floor: 4, Title: "pin depth to pin mode: ToPinMode answers direct for depth 0 only; -1 and every other depth are recursive (a depth-limited pin handed to the daemon as direct holds only the root block)", Run: r168})
}

func r119(c *Ctx, r *R) {
	routes, _ := c.restRoutes(r)
	n := 0
	for _, rt := range routes {
		if rt.handler == nil {
			continue
		}
		f := c.P.SSA.FuncValue(rt.handler)
		if f == nil {
			continue
		}
		by := map[string]rpcUse{}
		var keys []string
		withAnon(f, func(g *ssa.Function) {
			for _, u := range c.rpcUsesIn(g) {
				k := u.Svc + "." + u.Method
				if _, dup := by[k]; !dup {
					keys = append(keys, k)
				}
				by[k] = u
			}
		})
		sort.Strings(keys)
		for _, k := range keys {
			l, ok := by[k+"Local"]
			if !ok {
				continue
			}
			u := by[k]
			n++
			if u.Arg == nil || l.Arg == nil {
				r.Und("local-global:"+rt.name, rt.pos, "the argument of %s or %sLocal is not a value of the handler", k, k)
				continue
			}
			r.Check(sameExpr(u.Arg, l.Arg, 0), "local-global:"+rt.name+":"+k, l.Call.Pos(), k+" and "+k+"Local receive the same parsed argument", fmt.Sprintf("route %s passes %sLocal a different argument than %s: with local=true the request's value (CID, filter) is replaced by something else and the answer is for another request", rt.name, k, k))
		}
	}
	if n == 0 {
		r.Und("local-global", token.NoPos, "no route serves both X and XLocal: shape not recognised")
	}
	// load-balancing client
	if f := c.fn(r, "api/rest/client", "loadBalancingClient.retry"); f != nil {
		var rec []ssa.CallInstruction
		for _, ci := range callsIn(f) {
			if ci.Common().StaticCallee() == f {
				rec = append(rec, ci)
			}
		}
		// a loop form: the back edge stands for the recursive call
		codeZero := func(g Guard) bool {
			x, k, tme, isEq := eqConst(g.Cond)
			if !isEq || tme != g.Branch {
				return false
			}
			if iv, ok := constant.Int64Val(k); !ok || iv != 0 {
				return false
			}
			fl, _ := fieldLoad(x)
			return fl != nil && fl.Name() == "Code"
		}
		if len(rec) == 0 {
			r.Und("lbclient-retry", f.Pos(), "retry does not call itself: shape not recognised")
		}
		for _, ci := range rec {
			r.Check(mustPass(ci.Block(), codeZero), "lbclient-retry:only-when-unreachable", ci.Pos(), "the next peer is tried only when no server answered (Code == 0)", "the load-balancing client retries on another peer after a server answered (an error with a non-zero code reaches the retry): the caller gets another peer's answer - or a repeated pin/add - instead of what the server it reached said")
		}
	}
}

func r126(c *Ctx, r *R) {
	srv := c.fn(r, "adder/adderutils", "AddMultipartHTTPHandler")
	if srv == nil {
		return
	}
	n := 0
	for _, dc := range findCallsDeep(srv, "adder.Adder).FromMultipart") {
		call, isCall := dc.Inner.(*ssa.Call)
		if !isCall {
			continue
		}
		g := call.Parent()
		errIdx := g.Signature.Results().Len() - 1
		if errIdx < 0 || !isErrorType(g.Signature.Results().At(errIdx).Type()) {
			r.Und("import-error", call.Pos(), "%s calls FromMultipart but returns no error", g.Name())
			continue
		}
		for _, lf := range returnLeaves(g, errIdx) {
			if lf.Ret == nil || !(call.Block().Dominates(lf.Ret.Block())) {
				continue
			}
			n++
			oc, idx := originCallLocal(lf.Val)
			fromImport := oc == call && idx == 1
			if !fromImport && oc != nil {
				// wrapped: fmt.Errorf("...%w", err)
				for _, a := range callArgs(oc.Common()) {
					for _, e := range append(variadicElems(a), a) {
						if o2, i2 := originCallLocal(e); o2 == call && i2 == 1 {
							fromImport = true
						}
					}
				}
			}
			if isNilConst(lf.Val) {
				fromImport = lf.GuardedBy(func(gd Guard) bool {
					return gNil(gd, false, func(v ssa.Value) bool { o, i := originCallLocal(v); return o == call && i == 1 })
				})
			}
			r.Check(fromImport, "import-error:returned", lf.Pos, "after the import ran, the error returned is the import's", g.Name()+" returns, after FromMultipart ran, an error that is not FromMultipart's (the variable was reused for writing the response): a failed add is reported as success to the REST API and the proxy, which then answer 200 and pin nothing")
		}
	}
	if n == 0 {
		r.Und("import-error", srv.Pos(), "no return after FromMultipart: shape not recognised")
	}
}

func r1311(c *Ctx, r *R) {
	f := c.fn(r, "ipfsconn/ipfshttp", "Connector.BlockPut")
	if f == nil {
		return
	}
	isVersion := func(x ssa.Value) bool {
		if fl, _ := fieldLoad(x); fl != nil && fl.Name() == "Version" {
			return true
		}
		if oc, _ := originCallLocal(x); oc != nil && nameMatches(callName(oc.Common()), "(github.com/ipfs/go-cid.Cid).Version") {
			return true
		}
		return false
	}
	v0 := func(want bool) func(Guard) bool {
		return func(g Guard) bool {
			x, k, tme, isEq := eqConst(g.Cond)
			if !isEq || (tme == g.Branch) != want {
				return false
			}
			if iv, ok := constant.Int64Val(constant.ToInt(k)); !ok || iv != 0 {
				return false
			}
			return isVersion(x)
		}
	}
	n := 0
	for _, dc := range findCallsDeep(f, "(net/url.Values).Set") {
		ci := dc.Inner
		args := callArgs(ci.Common())
		if k, ok := constString(args[0]); !ok || k != "format" {
			continue
		}
		for _, lf := range valueLeaves(args[1], ci.Block()) {
			n++
			s, isK := constString(lf.Val)
			if isK && s == "v0" {
				r.Check(lf.GuardedBy(v0(true)) || mustPass(ci.Block(), v0(true)), "blockput-format:v0-only-for-cidv0", ci.Pos(), "format v0 is requested only for CIDv0 blocks", "BlockPut requests format=v0 on a test other than the CID's version being 0: a CIDv1 dag-pb/sha2-256 block is stored by the daemon under its CIDv0, the DAG added with cid-version=1 is never complete under its own root and the final pin hangs or fails")
			} else {
				r.Check(lf.GuardedBy(v0(false)) || mustPass(ci.Block(), v0(false)), "blockput-format:codec-for-cidv1", ci.Pos(), "the codec's name is requested for every other CID", "BlockPut requests the codec's name as format for a CIDv0 block (the test is not the CID's version): the daemon stores it under a CIDv1 and the CIDv0 root is never found")
			}
		}
	}
	if n == 0 {
		r.Und("blockput-format", f.Pos(), "BlockPut sets no `format`: shape not recognised")
	}
}

func r148(c *Ctx, r *R) {
	n := 0
	for _, name := range []string{"raftStateManager.ImportState", "crdtStateManager.ImportState"} {
		f := c.fn(r, "cmdutils", name)
		if f == nil {
			continue
		}
		cleans := findCallsDeep(f, ".Clean", ".CleanupRaft")
		opens := findCallsDeep(f, ".GetOfflineState", ".OfflineState")
		if len(cleans) == 0 || len(opens) == 0 {
			r.Und("import-replaces:"+name, f.Pos(), "ImportState: the clean or the opening of the offline state was not found")
			continue
		}
		for _, op := range opens {
			n++
			ok := false
			for _, cl := range cleans {
				if dominatesInstr(cl.Outer, op.Outer) && cl.Outer != op.Outer {
					ok = true
				}
				if cl.Outer == op.Outer && cl.Inner.Parent() == op.Inner.Parent() && dominatesInstr(cl.Inner, op.Inner) {
					ok = true
				}
			}
			r.Check(ok, "import-replaces:"+name, op.Inner.Pos(), "the old state is cleaned before the offline state is opened", name+" opens the offline state before (or without) cleaning the old one: the offline state is opened on the existing data (raft reads the newest snapshot, crdt the stored heads and blocks), so the import adds to the old pinset instead of replacing it")
		}
	}
	if n == 0 {
		r.Und("import-replaces", token.NoPos, "no ImportState found")
	}
}

func r1516(c *Ctx, r *R) {
	if f := c.fn(r, "config", "Manager.ApplyEnvVars"); f != nil {
		n := 0
		for _, dc := range findCallsDeep(f, "ComponentConfig).ApplyEnvVars") {
			ci := dc.Inner
			inLoop := false
			for _, gd := range guardsOf(ci.Block()) {
				if ex, isEx := stripLocal(gd.Cond).(*ssa.Extract); isEx && ex.Index == 0 {
					if _, isN := ex.Tuple.(*ssa.Next); isN && gd.Branch {
						inLoop = true
					}
				}
			}
			if !inLoop {
				continue // the cluster section, handled on its own under a nil test
			}
			n++
			r.Check(onlyLoopGuards(ci.Block()), "applyenv:every-component", ci.Pos(), "every registered component gets its environment overrides", "Manager.ApplyEnvVars skips some components (a test inside the loop): a component that is missing from service.json runs on its defaults and its CLUSTER_<COMPONENT>_* variables - the documented way to configure it - are ignored")
		}
		if n == 0 {
			r.Und("applyenv", f.Pos(), "Manager.ApplyEnvVars: no loop over the components was recognised")
		}
	}
	if df := c.fn(r, "config", "DisplayJSON"); df != nil {
		isHidden := func(g Guard) bool {
			x, k, tme, ok := eqConst(g.Cond)
			if !ok || k.Kind() != constant.String || constant.StringVal(k) != "true" || tme != g.Branch {
				return false
			}
			call, _ := originCall(x)
			if call == nil || !nameMatches(callName(call.Common()), "(reflect.StructTag).Get") {
				return false
			}
			args := callArgs(call.Common())
			key, _ := constString(args[len(args)-1])
			return key == "hidden"
		}
		n := 0
		var fns []*ssa.Function
		for g := range ssaClosure(df) {
			fns = append(fns, g)
		}
		sort.Slice(fns, func(i, j int) bool { return fns[i].Pos() < fns[j].Pos() })
		for _, g := range fns {
			isStore := func(b *ssa.BasicBlock) bool {
				for _, i := range b.Instrs {
					st, ok := i.(*ssa.Store)
					if !ok {
						continue
					}
					fa, ok := st.Addr.(*ssa.FieldAddr)
					if !ok || fieldOfAddr(fa) == nil || fieldOfAddr(fa).Name() != "Type" || !strings.HasSuffix(fieldOfAddr(fa).Pkg().Path(), "reflect") {
						continue
					}
					return true
				}
				return false
			}
			keeps := func(b *ssa.BasicBlock) bool {
				for _, i := range b.Instrs {
					if ci, ok := i.(ssa.CallInstruction); ok && callName(ci.Common()) == "builtin.append" && strings.HasSuffix(ci.Common().Args[0].Type().String(), "reflect.StructField") {
						return true
					}
				}
				return false
			}
			for _, b := range g.Blocks {
				if !isStore(b) {
					continue
				}
				for _, gd := range guardsOf(b) {
					if !isHidden(gd) {
						continue
					}
					from := guardEdge(gd)
					if from == nil {
						continue
					}
					n++
					r.Check(!reachesAvoiding(from, isStore, keeps), "displayjson:every-hidden-field", b.Instrs[0].Pos(), "every field tagged hidden gets the placeholder before it is kept", "DisplayJSON keeps some fields tagged hidden:\"true\" with their own type (a second test stands between the tag and the replacement): a hidden setting that is not a string - a struct or map holding credentials - is printed in clear by `config show` and the logs")
				}
			}
		}
		if n == 0 {
			r.Und("displayjson:every-hidden-field", df.Pos(), "the replacement of hidden fields was not recognised")
		}
	}
}

func r168(c *Ctx, r *R) {
	f := c.fn(r, "api", "PinDepth.ToPinMode")
	pm := c.namedType(r, "api", "PinMode")
	if f == nil || pm == nil {
		return
	}
	var direct, recursive constant.Value
	for _, k := range declaredConsts(pm) {
		switch k.Name() {
		case "PinModeDirect":
			direct = k.Val()
		case "PinModeRecursive":
			recursive = k.Val()
		}
	}
	if direct == nil || recursive == nil {
		r.Und("topinmode", f.Pos(), "PinModeDirect/PinModeRecursive not found")
		return
	}
	for _, d := range []int64{-1, 0, 1, 7} {
		_, got, ok := ssaEval(f, bindParams(f, map[int]constant.Value{0: constant.MakeInt64(d)}))
		key := fmt.Sprintf("topinmode:%d", d)
		if !ok || got == nil {
			r.Und(key, f.Pos(), "ToPinMode(%d) could not be evaluated", d)
			continue
		}
		want := recursive
		if d == 0 {
			want = direct
		}
		r.Check(constant.Compare(got, token.EQL, want), key, f.Pos(), fmt.Sprintf("ToPinMode(%d) = %s", d, got), fmt.Sprintf("ToPinMode(%d) = %s, expected %s: a pin of that depth is handed to the daemon in the wrong mode (a depth-limited pin taken as direct holds only the root block; the tracker then compares the daemon's answer with the wrong mode)", d, got, want))
	}
}

func r109(c *Ctx, r *R) {
	n := 0
	for _, cc := range c.componentConfigs(r) {
		if cc.rel != "" || cc.name != "Config" {
			continue
		}
		J := jsonStructOf(c, cc)
		if J == nil {
			continue
		}
		jf := fieldByName(J, "DisableRepinning")
		saveRoot, _ := c.P.FuncDecl(cc.rel, cc.name+".ToJSON")
		loadRoot, _ := c.P.FuncDecl(cc.rel, cc.name+".LoadJSON")
		if jf == nil || saveRoot == nil || loadRoot == nil {
			continue
		}
		save := mentions(cc.pkg, funcsCalledFrom(c.P, cc.pkg, saveRoot))
		load := mentions(cc.pkg, funcsCalledFrom(c.P, cc.pkg, loadRoot))
		n++
		r.Check(save[jf], "repinning-switch:saved", jf.Pos(), "disable_repinning is written when the configuration is turned into JSON", "the cluster configuration's JSON form never receives DisableRepinning: ApplyEnvVars (run at every daemon start) converts the loaded configuration to JSON and back, so `disable_repinning: true` comes back false and pins of a failed or removed peer are re-allocated although the operator disabled it")
		r.Check(load[jf], "repinning-switch:loaded", jf.Pos(), "disable_repinning is read when the JSON is applied", "the cluster configuration never reads disable_repinning from its JSON form: the peer re-allocates pins of failed or removed peers although the operator disabled it")
	}
	if n == 0 {
		r.Und("repinning-switch", token.NoPos, "the cluster configuration's JSON form (or its DisableRepinning setting) was not found")
	}
}
