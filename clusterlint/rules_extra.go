package main

import (
	"go/ast"
	"go/token"
	"go/types"
	"sort"
	"strings"

	"golang.org/x/tools/go/ssa"
)

func init() {
	register(
		&Rule{ID: "R17.5", Props: []string{"C17", "C01"}, Floor: 20, Title: "every field of the raft consensus structures that is read is also initialised somewhere (no forgotten field in a constructor); raft is configured not to shut itself down on removal", Run: r175},
		&Rule{ID: "R10.7", Props: []string{"C10"}, Floor: 2, Title: "the re-pin sweeps visit every pin: no exit from the loop depends on the outcome of one re-pin", Run: r107},
	)
}

// fieldWritesReads collects, for the structs of one package, which fields
// are written (stores, composite-literal keys) and read anywhere in the
// repository.
func (c *Ctx) fieldWritesReads(rel string) (writes, reads map[*types.Var]token.Pos) {
	writes, reads = map[*types.Var]token.Pos{}, map[*types.Var]token.Pos{}
	for _, pkg := range c.P.Repo {
		if strings.HasPrefix(pkg.PkgPath, ModPath+"/test") {
			continue
		}
		for _, f := range pkg.Syntax {
			rd, wr := fieldsUsed(pkg, f)
			for v, p := range rd {
				reads[v] = p
			}
			for v, p := range wr {
				writes[v] = p
			}
			// positional composite literals write every field
			ast.Inspect(f, func(n ast.Node) bool {
				cl, ok := n.(*ast.CompositeLit)
				if !ok || len(cl.Elts) == 0 {
					return true
				}
				if _, keyed := cl.Elts[0].(*ast.KeyValueExpr); keyed {
					return true
				}
				if st := structOf(pkg.TypesInfo.TypeOf(cl)); st != nil && st.NumFields() == len(cl.Elts) {
					for i := 0; i < st.NumFields(); i++ {
						writes[st.Field(i)] = cl.Pos()
					}
				}
				return true
			})
		}
	}
	return
}

func r175(c *Ctx, r *R) {
	writes, reads := c.fieldWritesReads("consensus/raft")
	for _, tn := range []string{"raftWrapper", "Consensus", "LogOp"} {
		nt := c.namedType(r, "consensus/raft", tn)
		if nt == nil {
			continue
		}
		st := nt.Underlying().(*types.Struct)
		for i := 0; i < st.NumFields(); i++ {
			f := st.Field(i)
			_, rd := reads[f]
			_, wr := writes[f]
			if !rd {
				r.OK("field:"+tn+"."+f.Name(), f.Pos(), "not read")
				continue
			}
			// zero-value-is-fine fields: sync primitives and plain flags start at zero
			ts := f.Type().String()
			zeroOK := strings.HasPrefix(ts, "sync.") || ts == "bool" && (f.Name() == "shutdown")
			r.Check(wr || zeroOK, "field:"+tn+"."+f.Name(), f.Pos(), "read and initialised", "raft."+tn+"."+f.Name()+" is read but never assigned: the constructor forgot it, so it is always the zero value (e.g. a joining peer is not treated as staging and bootstraps its own one-peer cluster)")
		}
	}
	// ShutdownOnRemove forced off
	d := c.fn(r, "consensus/raft", "Config.Default")
	if d != nil {
		ok := false
		instrs(d, func(i ssa.Instruction) {
			st, isSt := i.(*ssa.Store)
			if !isSt {
				return
			}
			if fl, _ := fieldOfAddrValue(st.Addr); fl != nil && fl.Name() == "ShutdownOnRemove" {
				if k, isK := constOf(st.Val); isK && (k == nil || !boolVal(k)) && len(guardsOf(st.Block())) == 0 {
					ok = true
				}
			}
		})
		r.Check(ok, "raftconfig:ShutdownOnRemove", d.Pos(), "raft is configured not to shut itself down when removed (cluster does it, after cleaning up)", "raft Config.Default no longer forces ShutdownOnRemove=false: a removed leader's raft stops underneath the component, Peers() errors or hangs and the peer never notices its removal nor discards its data")
	}
}

func r107(c *Ctx, r *R) {
	rp := c.fn(r, "", "Cluster.repinFromPeer")
	if rp == nil {
		return
	}
	sites, _ := c.callSitesOf(rp)
	for _, s := range sites {
		f := s.Parent()
		b := s.Block()
		// innermost loop header: a block that dominates b and is reachable from b
		var header *ssa.BasicBlock
		for d := b.Idom(); d != nil; d = d.Idom() {
			if blockReaches(b, d) {
				header = d // outermost enclosing loop header found so far
			}
		}
		if header == nil {
			r.Und("sweep:"+f.Name(), s.Pos(), "the re-pin call in %s is not inside a loop", f.Name())
			continue
		}
		// a return reachable from the call without going back to the header
		bad := false
		seen := map[*ssa.BasicBlock]bool{}
		var walk func(x *ssa.BasicBlock)
		walk = func(x *ssa.BasicBlock) {
			if seen[x] || x == header {
				return
			}
			seen[x] = true
			if _, ok := x.Instrs[len(x.Instrs)-1].(*ssa.Return); ok && x != f.Recover {
				bad = true
			}
			for _, n := range x.Succs {
				walk(n)
			}
		}
		for _, n := range b.Succs {
			walk(n)
		}
		if _, ok := b.Instrs[len(b.Instrs)-1].(*ssa.Return); ok {
			bad = true
		}
		r.Check(!bad, "sweep:"+f.Name(), s.Pos(), "after re-pinning one pin the sweep always continues with the next", f.Name()+" can stop the sweep after one re-pin (a return inside the loop): one pin that cannot be re-allocated leaves all later pins on the failed/removed peer")
	}
	sort.Strings(nil)
}
