package main

func main() {}
