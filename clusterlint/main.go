// clusterlint decides structural clauses of the ipfs-cluster properties in
// /verif/properties.jsonl by static analysis of /repo's current sources.
package main

import (
	"crypto/sha256"
	"encoding/hex"
	"encoding/json"
	"flag"
	"fmt"
	"io"
	"io/fs"
	"os"
	"path/filepath"
	"sort"
	"strconv"
	"strings"
	"syscall"
	"time"
)

// Result is the complete outcome of one analysis of one tree.
type Result struct {
	Digest     string             `json:"digest"`
	Tier       string             `json:"tier"`
	Repo       string             `json:"repo"`
	Packages   int                `json:"packages"`
	AllPkgs    int                `json:"all_packages"`
	RepoFuncs  int                `json:"repo_functions"`
	CGNodes    int                `json:"callgraph_nodes"`
	CGEdges    int                `json:"callgraph_edges"`
	DepErrors  []string           `json:"dependency_type_errors"`
	Renames    []string           `json:"renamed_identifiers_normalised,omitempty"`
	Timings    map[string]float64 `json:"timings"`
	AnalysisS  float64            `json:"analysis_wall_s"`
	Rules      []RuleResult       `json:"rules"`
	RPCSites   int                `json:"rpc_call_sites"`
	Controls   []string           `json:"positive_controls"`
	Mutants    *MutantReport      `json:"mutants,omitempty"`
	FromCache  bool               `json:"-"`
	TestsNotes []string           `json:"tests_notes,omitempty"`
}

var (
	verifDir string
)

func main() {
	var (
		prop     = flag.String("property", "", "property id (C01..C18) or 'all'")
		tier     = flag.String("tier", "", "quick|thorough (default: $VERIF_TIER or quick)")
		repo     = flag.String("repo", "/repo", "repository root")
		replay   = flag.String("replay", "", "replay file: re-run the rule of that obligation and print its diagnosis")
		noCache  = flag.Bool("no-cache", false, "do not read the result cache")
		noEv     = flag.Bool("no-evidence", false, "do not write evidence files (used for mutants / scratch copies)")
		dump     = flag.Bool("dump", false, "print every obligation")
		listR    = flag.Bool("rules", false, "list rules and exit")
		controls = flag.Bool("controls-only", false, "run only the positive controls")
		genRef   = flag.String("gen-reference", "", "write the reference table of unexported identifiers of -repo to this file and exit (see rename.go)")
	)
	flag.Parse()
	exe, _ := os.Executable()
	verifDir = filepath.Dir(filepath.Dir(exe))
	if v := os.Getenv("VERIF_DIR"); v != "" {
		verifDir = v
	}
	if *tier == "" {
		*tier = os.Getenv("VERIF_TIER")
	}
	if *tier != "thorough" {
		*tier = "quick"
	}
	abs, err := filepath.Abs(*repo)
	if err != nil {
		brokenf("%v", err)
	}
	repoRoot = abs
	if *listR {
		for _, r := range allRules {
			fmt.Printf("%-7s %-12s floor=%-3d %s %s\n", r.ID, strings.Join(r.Props, ","), r.Floor, r.Tier, r.Title)
		}
		return
	}
	if *controls {
		msgs := runControls()
		for _, m := range msgs {
			fmt.Println(m)
		}
		return
	}
	if *genRef != "" {
		os.Setenv("CLUSTERLINT_NO_RENAME", "1")
		p := Load(abs, false, false)
		if err := genReference(p, *genRef); err != nil {
			brokenf("%v", err)
		}
		fmt.Printf("reference table of %d packages written to %s\n", len(p.Repo), *genRef)
		return
	}
	if *replay != "" {
		doReplay(*replay, *noCache)
		return
	}
	if *prop == "" {
		fmt.Fprintln(os.Stderr, "usage: clusterlint -property Cxx|all [-tier quick|thorough]")
		os.Exit(2)
	}
	start := time.Now()
	// the analysis of the tree is the same in both tiers (one cache entry);
	// the thorough tier adds the property's own sensitivity suite
	res := obtain(abs, "quick", *noCache)
	kf := loadKnown()

	props := []string{*prop}
	if *prop == "all" {
		props = props[:0]
		for i := 1; i <= 18; i++ {
			id := fmt.Sprintf("C%02d", i)
			for _, rr := range res.Rules {
				if hasProp(rr.Props, id) {
					props = append(props, id)
					break
				}
			}
		}
	}
	exit := 0
	for _, id := range props {
		res.Mutants = nil
		if *tier == "thorough" {
			res.Mutants = obtainMutants(abs, id, *noCache)
		}
		if verdict(res, kf, id, *tier, *dump, !*noEv, time.Since(start).Seconds()) {
			exit = 1
		}
	}
	os.Exit(exit)
}

// digestTree hashes every analysed input: all .go files, go.mod and go.sum
// under the repository, the analyser binary and the known-findings file.
func digestTree(root, tier string) string {
	h := sha256.New()
	var files []string
	filepath.WalkDir(root, func(path string, d fs.DirEntry, err error) error {
		if err != nil {
			return nil
		}
		if d.IsDir() {
			n := d.Name()
			if path != root && (n == ".git" || n == "node_modules" || n == "sharness") {
				return filepath.SkipDir
			}
			return nil
		}
		if strings.HasSuffix(path, ".go") || d.Name() == "go.mod" || d.Name() == "go.sum" {
			files = append(files, path)
		}
		return nil
	})
	sort.Strings(files)
	for _, f := range files {
		b, err := os.ReadFile(f)
		if err != nil {
			continue
		}
		fmt.Fprintf(h, "%s %d\n", strings.TrimPrefix(f, root), len(b))
		h.Write(b)
	}
	if exe, err := os.Executable(); err == nil {
		if f, err := os.Open(exe); err == nil {
			io.Copy(h, f)
			f.Close()
		}
	}
	fmt.Fprintf(h, "tier=%s root=%s\n", tier, root)
	if strings.HasPrefix(tier, "mutants:") {
		// the sensitivity suite of one property is an input of its
		// thorough tier
		ms, _ := filepath.Glob(filepath.Join(verifDir, "mutants", strings.TrimPrefix(tier, "mutants:")+"-*.patch"))
		sort.Strings(ms)
		for _, m := range ms {
			b, _ := os.ReadFile(m)
			fmt.Fprintf(h, "%s %d\n", filepath.Base(m), len(b))
			h.Write(b)
		}
	}
	return hex.EncodeToString(h.Sum(nil))[:32]
}

// obtainMutants runs (or reads from the cache) the sensitivity suite of one
// property: every /verif/mutants/<id>-*.patch applied to a scratch copy of
// the current tree must be reported by the analyser.
func obtainMutants(root, id string, noCache bool) *MutantReport {
	if noCache {
		return runMutants(root, id)
	}
	cacheDir := filepath.Join(verifDir, ".cache")
	os.MkdirAll(cacheDir, 0o755)
	lock, err := os.OpenFile(filepath.Join(cacheDir, "lock-mutants"), os.O_CREATE|os.O_RDWR, 0o644)
	if err == nil {
		syscall.Flock(int(lock.Fd()), syscall.LOCK_EX)
		defer func() {
			syscall.Flock(int(lock.Fd()), syscall.LOCK_UN)
			lock.Close()
		}()
	}
	dg := digestTree(root, "mutants:"+id)
	cf := filepath.Join(cacheDir, dg+".mutants.json")
	if b, err := os.ReadFile(cf); err == nil {
		var r MutantReport
		if json.Unmarshal(b, &r) == nil {
			return &r
		}
	}
	rep := runMutants(root, id)
	if b, err := json.Marshal(rep); err == nil {
		tmp := cf + ".tmp" + strconv.Itoa(os.Getpid())
		if os.WriteFile(tmp, b, 0o644) == nil {
			os.Rename(tmp, cf)
		}
	}
	return rep
}

// obtain returns the analysis result for the current tree, from the cache
// when an identical tree (same digest) was analysed by the same binary.
func obtain(root, tier string, noCache bool) *Result {
	if noCache {
		// scratch copies / mutants: no cache, no lock (the parent of a
		// sensitivity run holds the lock while its children run)
		res := analyse(root, tier)
		res.Digest = "uncached"
		return res
	}
	cacheDir := filepath.Join(verifDir, ".cache")
	os.MkdirAll(cacheDir, 0o755)
	// serialise concurrent invocations so that 18 checks started together
	// pay for one analysis
	lock, err := os.OpenFile(filepath.Join(cacheDir, "lock"), os.O_CREATE|os.O_RDWR, 0o644)
	if err == nil {
		syscall.Flock(int(lock.Fd()), syscall.LOCK_EX)
		defer func() {
			syscall.Flock(int(lock.Fd()), syscall.LOCK_UN)
			lock.Close()
		}()
	}
	dg := digestTree(root, tier)
	cf := filepath.Join(cacheDir, dg+".json")
	if !noCache {
		if b, err := os.ReadFile(cf); err == nil {
			var r Result
			if json.Unmarshal(b, &r) == nil && r.Digest == dg {
				r.FromCache = true
				return &r
			}
		}
	}
	res := analyse(root, tier)
	res.Digest = dg
	if b, err := json.Marshal(res); err == nil {
		tmp := cf + ".tmp" + strconv.Itoa(os.Getpid())
		if os.WriteFile(tmp, b, 0o644) == nil {
			os.Rename(tmp, cf)
		}
	}
	// keep the cache small
	if ents, err := os.ReadDir(cacheDir); err == nil && len(ents) > 40 {
		type fe struct {
			n string
			t time.Time
		}
		var fes []fe
		for _, e := range ents {
			if i, err := e.Info(); err == nil && strings.HasSuffix(e.Name(), ".json") {
				fes = append(fes, fe{e.Name(), i.ModTime()})
			}
		}
		sort.Slice(fes, func(i, j int) bool { return fes[i].t.Before(fes[j].t) })
		for i := 0; i < len(fes)-30; i++ {
			os.Remove(filepath.Join(cacheDir, fes[i].n))
		}
	}
	return res
}

func analyse(root, tier string) *Result {
	t0 := time.Now()
	ctl := runControls()
	p := Load(root, false, true)
	debugDump(p)
	c := newCtx(p)
	if os.Getenv("CLUSTERLINT_LOCKTABLE") != "" {
		for _, l := range c.buildLockWorld().inferGuards() {
			fmt.Println(l)
		}
	}
	res := &Result{Tier: tier, Repo: root, Packages: len(p.Repo), AllPkgs: len(p.All), RepoFuncs: p.NumFuncs,
		DepErrors: p.DepErrs, Timings: p.Timings, Controls: ctl}
	for _, rn := range p.Renames {
		res.Renames = append(res.Renames, rn.String())
	}
	if p.RenameNote != "" {
		res.Renames = append(res.Renames, p.RenameNote)
	}
	if p.CG != nil {
		res.CGNodes = len(p.CG.Nodes)
		for _, n := range p.CG.Nodes {
			res.CGEdges += len(n.Out)
		}
	}
	t1 := time.Now()
	c.prepare()
	res.RPCSites = len(c.RPC)
	for _, rule := range allRules {
		if rule.Tier == "thorough" && tier != "thorough" {
			continue
		}
		res.Rules = append(res.Rules, runRule(c, rule))
	}
	p.Timings["rules_s"] = time.Since(t1).Seconds()
	res.AnalysisS = time.Since(t0).Seconds()
	return res
}
