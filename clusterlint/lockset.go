package main

import (
	"fmt"
	"go/token"
	"go/types"
	"sort"
	"strings"

	"golang.org/x/tools/go/ssa"
)

// Lockset analysis (P7): a forward must-analysis over SSA blocks. A lock is
// identified by the mutex's struct field (or, for non-field mutexes, by the
// value); instances are not distinguished. Deferred unlocks keep the lock
// held to the function's exit.

type lockID interface{} // *types.Var (mutex field) or ssa.Value

type lockSet map[lockID]int // 1 = read-held, 2 = write-held

func (ls lockSet) clone() lockSet {
	o := lockSet{}
	for k, v := range ls {
		o[k] = v
	}
	return o
}

func meet(a, b lockSet) lockSet {
	o := lockSet{}
	for k, v := range a {
		if w, ok := b[k]; ok {
			if w < v {
				v = w
			}
			o[k] = v
		}
	}
	return o
}

func sameLS(a, b lockSet) bool {
	if len(a) != len(b) {
		return false
	}
	for k, v := range a {
		if b[k] != v {
			return false
		}
	}
	return true
}

func lockName(id lockID) string {
	switch x := id.(type) {
	case *types.Var:
		return x.Name()
	case ssa.Value:
		return x.Name()
	}
	return "?"
}

// lockOp classifies a call as a lock operation.
// kind: "lock", "rlock", "unlock", "runlock" or "".
func lockOp(cc *ssa.CallCommon) (kind string, id lockID) {
	if cc.IsInvoke() {
		// sync.Locker interface
		switch cc.Method.Name() {
		case "Lock":
			return "lock", cc.Value
		case "Unlock":
			return "unlock", cc.Value
		}
		return "", nil
	}
	n := callName(cc)
	switch n {
	case "(*sync.Mutex).Lock", "(*sync.RWMutex).Lock":
		kind = "lock"
	case "(*sync.RWMutex).RLock":
		kind = "rlock"
	case "(*sync.Mutex).Unlock", "(*sync.RWMutex).Unlock":
		kind = "unlock"
	case "(*sync.RWMutex).RUnlock":
		kind = "runlock"
	default:
		return "", nil
	}
	if len(cc.Args) == 0 {
		return "", nil
	}
	a := cc.Args[0]
	// embedded mutex: &x.Mutex via FieldAddr chain
	if fa, ok := a.(*ssa.FieldAddr); ok {
		return kind, fieldOfAddr(fa)
	}
	return kind, a
}

// LockInfo is the per-function result.
type LockInfo struct {
	fn       *ssa.Function
	in       map[*ssa.BasicBlock]lockSet
	deferred map[lockID]bool
	entry    lockSet
	acquires []ssa.CallInstruction
}

func (c *Ctx) lockInfo(f *ssa.Function, entry lockSet) *LockInfo {
	li := &LockInfo{fn: f, in: map[*ssa.BasicBlock]lockSet{}, deferred: map[lockID]bool{}, entry: entry}
	if len(f.Blocks) == 0 {
		return li
	}
	instrs(f, func(i ssa.Instruction) {
		if d, ok := i.(*ssa.Defer); ok {
			if k, id := lockOp(d.Common()); k == "unlock" || k == "runlock" {
				li.deferred[id] = true
			}
		}
		if ci, ok := i.(*ssa.Call); ok {
			if k, _ := lockOp(ci.Common()); k == "lock" || k == "rlock" {
				li.acquires = append(li.acquires, ci)
			}
		}
	})
	li.in[f.Blocks[0]] = entry.clone()
	work := []*ssa.BasicBlock{f.Blocks[0]}
	for len(work) > 0 {
		b := work[0]
		work = work[1:]
		out := li.transferBlock(b, nil)
		for _, s := range b.Succs {
			prev, seen := li.in[s]
			var nw lockSet
			if !seen {
				nw = out.clone()
			} else {
				nw = meet(prev, out)
			}
			if !seen || !sameLS(prev, nw) {
				li.in[s] = nw
				work = append(work, s)
			}
		}
	}
	return li
}

func (li *LockInfo) transferBlock(b *ssa.BasicBlock, visit func(i ssa.Instruction, held lockSet)) lockSet {
	cur := li.in[b].clone()
	for _, i := range b.Instrs {
		if visit != nil {
			visit(i, cur)
		}
		ci, ok := i.(*ssa.Call)
		if !ok {
			continue
		}
		k, id := lockOp(ci.Common())
		switch k {
		case "lock":
			cur[id] = 2
		case "rlock":
			if cur[id] < 1 {
				cur[id] = 1
			}
		case "unlock", "runlock":
			delete(cur, id)
		}
	}
	return cur
}

// Visit calls fn for every instruction with the locks held before it.
func (li *LockInfo) Visit(fn func(i ssa.Instruction, held lockSet)) {
	for _, b := range li.fn.Blocks {
		if _, ok := li.in[b]; !ok {
			continue // unreachable
		}
		li.transferBlock(b, fn)
	}
}

// heldAt returns the locks held just before instruction at.
func (li *LockInfo) heldAt(at ssa.Instruction) lockSet {
	var res lockSet
	b := at.Block()
	if _, ok := li.in[b]; !ok {
		return lockSet{}
	}
	li.transferBlock(b, func(i ssa.Instruction, held lockSet) {
		if i == at {
			res = held.clone()
		}
	})
	if res == nil {
		res = lockSet{}
	}
	return res
}

// lockWorld computes entry locksets for unexported functions and methods
// whose every caller (in the repository) holds a lock at the call site.
type lockWorld struct {
	c     *Ctx
	infos map[*ssa.Function]*LockInfo
	funcs []*ssa.Function
}

func (c *Ctx) buildLockWorld() *lockWorld {
	w := &lockWorld{c: c, infos: map[*ssa.Function]*LockInfo{}}
	c.P.RepoFuncs(func(f *ssa.Function) {
		if isTestSupportFn(f) {
			return
		}
		w.funcs = append(w.funcs, f)
	})
	for _, f := range w.funcs {
		w.infos[f] = c.lockInfo(f, lockSet{})
	}
	// callers
	type site struct {
		caller *ssa.Function
		call   ssa.CallInstruction
	}
	callers := map[*ssa.Function][]site{}
	escapes := map[*ssa.Function]bool{}
	for _, f := range w.funcs {
		instrs(f, func(i ssa.Instruction) {
			if ci, ok := i.(ssa.CallInstruction); ok {
				if cal := ci.Common().StaticCallee(); cal != nil {
					if _, isGo := i.(*ssa.Go); isGo {
						escapes[cal] = true // runs without the caller's locks
					} else if _, isDefer := i.(*ssa.Defer); isDefer {
						escapes[cal] = true
					} else {
						callers[cal] = append(callers[cal], site{f, ci})
					}
				}
				for _, a := range ci.Common().Args {
					if fn := fnOfValue(a); fn != nil {
						escapes[fn] = true
					}
				}
				return
			}
			for _, op := range i.Operands(nil) {
				if op != nil && *op != nil {
					if fn, ok := (*op).(*ssa.Function); ok {
						escapes[fn] = true
					}
					if mc, ok := (*op).(*ssa.MakeClosure); ok {
						if fn, ok := mc.Fn.(*ssa.Function); ok {
							escapes[fn] = true
						}
					}
				}
			}
		})
	}
	for round := 0; round < 3; round++ {
		changed := false
		for _, f := range w.funcs {
			if escapes[f] || len(callers[f]) == 0 {
				continue
			}
			if f.Object() != nil && f.Object().Exported() && f.Signature.Recv() == nil {
				continue
			}
			if f.Object() != nil && f.Object().Exported() {
				continue // may be called from outside the repository
			}
			var entry lockSet
			for i, s := range callers[f] {
				li := w.infos[s.caller]
				if li == nil {
					entry = lockSet{}
					break
				}
				held := li.heldAt(s.call)
				// deferred unlocks keep the lock held; nothing to add
				if i == 0 {
					entry = held
				} else {
					entry = meet(entry, held)
				}
			}
			if entry == nil {
				entry = lockSet{}
			}
			if !sameLS(entry, w.infos[f].entry) {
				w.infos[f] = w.c.lockInfo(f, entry)
				changed = true
			}
		}
		if !changed {
			break
		}
	}
	return w
}

// fieldAccess describes one access to a struct field.
type fieldAccess struct {
	fn    *ssa.Function
	instr ssa.Instruction
	field *types.Var
	write bool
	held  lockSet
	fresh bool            // the struct was allocated in this function (constructor)
	at    ssa.Instruction // where the shared memory is touched when that is not the field access itself (element of a loaded slice/map)
}

// Pos: where the access happens.
func (a fieldAccess) Pos() token.Pos {
	if a.at != nil {
		return a.at.Pos()
	}
	return a.instr.Pos()
}

// accesses lists every access to fields of the named struct types.
func (w *lockWorld) accesses(want func(owner *types.Named, f *types.Var) bool) []fieldAccess {
	var out []fieldAccess
	for _, f := range w.funcs {
		li := w.infos[f]
		li.Visit(func(i ssa.Instruction, held lockSet) {
			// element access through a loaded slice/map value of a field:
			// `s := x.f` under the lock and `s[i]` / `range s` after the
			// unlock still read the shared backing store
			var viaLoad ssa.Value
			switch x := i.(type) {
			case *ssa.IndexAddr:
				viaLoad = x.X
			case *ssa.Lookup:
				viaLoad = x.X
			case *ssa.Range:
				viaLoad = x.X
			}
			if u, ok := viaLoad.(*ssa.UnOp); ok && u.Op == token.MUL {
				if fa2, ok := u.X.(*ssa.FieldAddr); ok {
					if fld := fieldOfAddr(fa2); fld != nil {
						if owner := ownerOf(fa2.X.Type()); owner != nil && want(owner, fld) {
							_, isAlloc := fa2.X.(*ssa.Alloc)
							// an inner map or slice taken out of the field's
							// map (`m := x.f[k]`) and written (`m[j] = v`,
							// `delete(m, j)`) is a write to what the field
							// guards, not a read
							wr := false
							if lk, isLk := i.(*ssa.Lookup); isLk && lk.Referrers() != nil {
								inner := []ssa.Value{lk}
								for _, ref := range *lk.Referrers() {
									if ex, isEx := ref.(*ssa.Extract); isEx && ex.Index == 0 {
										inner = append(inner, ex)
									}
								}
								for _, iv := range inner {
									if iv.Referrers() == nil {
										continue
									}
									for _, ref := range *iv.Referrers() {
										switch y := ref.(type) {
										case *ssa.MapUpdate:
											if y.Map == iv {
												wr = true
											}
										case *ssa.Call:
											if callName(y.Common()) == "builtin.delete" && y.Common().Args[0] == iv {
												wr = true
											}
										case *ssa.IndexAddr:
											if y.X == iv && y.Referrers() != nil {
												for _, r3 := range *y.Referrers() {
													if st, isSt := r3.(*ssa.Store); isSt && st.Addr == ssa.Value(y) {
														wr = true
													}
												}
											}
										}
									}
								}
							}
							out = append(out, fieldAccess{fn: f, instr: fa2, at: i, field: fld, write: wr, held: held.clone(), fresh: isAlloc})
						}
					}
				}
				return
			}
			fa, ok := i.(*ssa.FieldAddr)
			if !ok {
				return
			}
			fld := fieldOfAddr(fa)
			if fld == nil {
				return
			}
			owner := ownerOf(fa.X.Type())
			if owner == nil || !want(owner, fld) {
				return
			}
			write := false
			if fa.Referrers() != nil {
				for _, ref := range *fa.Referrers() {
					switch x := ref.(type) {
					case *ssa.Store:
						if x.Addr == ssa.Value(fa) {
							write = true
						}
					case *ssa.MapUpdate:
						write = true
					}
				}
			}
			// writes through the loaded map/slice value: m[k] = v, delete(m, k), append
			if !write && fa.Referrers() != nil {
				for _, ref := range *fa.Referrers() {
					if u, ok := ref.(*ssa.UnOp); ok && u.Op == token.MUL && u.Referrers() != nil {
						for _, r2 := range *u.Referrers() {
							switch y := r2.(type) {
							case *ssa.MapUpdate:
								if y.Map == ssa.Value(u) {
									write = true
								}
							case *ssa.Call:
								if callName(y.Common()) == "builtin.delete" && y.Common().Args[0] == ssa.Value(u) {
									write = true
								}
							}
						}
					}
				}
			}
			fresh := false
			switch base := fa.X.(type) {
			case *ssa.Alloc:
				fresh = true
				_ = base
			}
			out = append(out, fieldAccess{fn: f, instr: i, field: fld, write: write, held: held.clone(), fresh: fresh})
		})
	}
	return out
}

func ownerOf(t types.Type) *types.Named {
	if p, ok := t.(*types.Pointer); ok {
		t = p.Elem()
	}
	nt, _ := t.(*types.Named)
	return nt
}

// inferGuards proposes a guarded-by table: for every struct with mutex
// fields, each field and the share of its accesses made under each mutex.
func (w *lockWorld) inferGuards() []string {
	type key struct {
		owner string
		field string
	}
	total := map[key]int{}
	under := map[key]map[string]int{}
	acc := w.accesses(func(owner *types.Named, f *types.Var) bool {
		if !isRepoPath(pkgPathOf(owner)) {
			return false
		}
		st, ok := owner.Underlying().(*types.Struct)
		if !ok {
			return false
		}
		for i := 0; i < st.NumFields(); i++ {
			ts := st.Field(i).Type().String()
			if ts == "sync.Mutex" || ts == "sync.RWMutex" {
				return !strings.HasPrefix(f.Type().String(), "sync.")
			}
		}
		return false
	})
	for _, a := range acc {
		if a.fresh {
			continue
		}
		o := ownerOf(a.instr.(*ssa.FieldAddr).X.Type())
		k := key{shortType(o), a.field.Name()}
		total[k]++
		if under[k] == nil {
			under[k] = map[string]int{}
		}
		for id := range a.held {
			under[k][lockName(id)]++
		}
	}
	var out []string
	for k, n := range total {
		best, bn := "", 0
		for m, c := range under[k] {
			if c > bn {
				best, bn = m, c
			}
		}
		out = append(out, fmt.Sprintf("%-40s %-22s %d/%d under %s", k.owner, k.field, bn, n, best))
	}
	sort.Strings(out)
	return out
}
