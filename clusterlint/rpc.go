package main

import (
	"fmt"
	"go/constant"
	"go/token"
	"go/types"
	"sort"
	"strings"

	"golang.org/x/tools/go/ssa"
)

// gorpc dispatches by (service, method) strings. This file resolves every
// client call site in the repository to the RPCAPI method(s) it reaches, so
// that reachability rules can follow RPC like an ordinary call.

// RPCSite is one resolved gorpc client call.
type RPCSite struct {
	Call     ssa.CallInstruction
	Fn       *ssa.Function // enclosing function
	Kind     string        // Call, CallContext, Go, GoContext, MultiCall, MultiGo
	Targets  []RPCTarget
	Local    bool // destination is the constant "" (gorpc: no authorisation)
	Resolved bool
	Why      string
}

// RPCTarget is one (service, method) pair a site may dispatch to.
type RPCTarget struct {
	Svc, Method string
	Via         string // how the strings were resolved
}

const gorpcClient = "(*github.com/libp2p/go-libp2p-gorpc.Client)."

// argument index (receiver excluded) of dest and service for each client method
var rpcArgPos = map[string][2]int{
	"Call": {0, 1}, "CallContext": {1, 2}, "Go": {0, 1}, "GoContext": {1, 2}, "MultiCall": {1, 2}, "MultiGo": {1, 2},
}

// serviceTypes maps a service name to its RPCAPI type. The source of truth
// is the registration: every `server.RegisterName(name, rcvr)` outside the
// test support package, with name a constant or the result of a repository
// function evaluated for the receiver's dynamic type (RPCServiceID, however
// it is written: type switch, assertion chain, ...).
func (c *Ctx) serviceTypes() map[string]*types.Named {
	if c.svcTypes != nil {
		return c.svcTypes
	}
	out := map[string]*types.Named{}
	c.svcTypes = out
	dynType := func(v ssa.Value) types.Type {
		if mi, ok := v.(*ssa.MakeInterface); ok {
			return mi.X.Type()
		}
		if t := stripLocal(v).Type(); !types.IsInterface(t) {
			return t
		}
		return nil
	}
	c.P.RepoFuncs(func(f *ssa.Function) {
		if isTestSupportFn(f) {
			return
		}
		for _, ci := range callsIn(f) {
			cc := ci.Common()
			if !nameMatches(callName(cc), "go-libp2p-gorpc.Server).RegisterName") {
				continue
			}
			args := callArgs(cc)
			if len(args) < 2 {
				continue
			}
			rt := dynType(args[len(args)-1])
			pt, _ := rt.(*types.Pointer)
			if pt == nil {
				continue
			}
			nt, _ := pt.Elem().(*types.Named)
			if nt == nil {
				continue
			}
			nameV := args[len(args)-2]
			if s, ok := constString(nameV); ok {
				out[s] = nt
				continue
			}
			call, _ := originCallLocal(nameV)
			if call == nil {
				continue
			}
			g := call.Common().StaticCallee()
			if g == nil || len(g.Blocks) == 0 || len(call.Common().Args) != 1 || len(g.Params) != 1 {
				continue
			}
			at := dynType(call.Common().Args[0])
			if at == nil {
				continue
			}
			ssaEvalHook = func(v ssa.Value, _ func(ssa.Value) (constant.Value, bool)) (constant.Value, bool) {
				// a package-level table keyed by reflect.TypeOf(x), looked
				// up with reflect.TypeOf(parameter)
				if lk, isLk := v.(*ssa.Lookup); isLk && !lk.CommaOk {
					if s, ok := typeKeyedLookup(lk, g.Params[0], at); ok {
						return constant.MakeString(s), true
					}
					return nil, false
				}
				ex, ok := v.(*ssa.Extract)
				if !ok || ex.Index != 1 {
					return nil, false
				}
				ta, ok := ex.Tuple.(*ssa.TypeAssert)
				if !ok || !ta.CommaOk || stripLocal(ta.X) != ssa.Value(g.Params[0]) {
					return nil, false
				}
				if it, isI := ta.AssertedType.Underlying().(*types.Interface); isI {
					return constant.MakeBool(types.Implements(at, it)), true
				}
				return constant.MakeBool(types.Identical(ta.AssertedType, at)), true
			}
			_, val, ok := ssaEval(g, func(ssa.Value) (constant.Value, bool) { return nil, false })
			ssaEvalHook = nil
			if ok && val != nil && val.Kind() == constant.String && constant.StringVal(val) != "" {
				out[constant.StringVal(val)] = nt
			}
		}
	})
	return out
}

// rpcMethod finds the RPCAPI method for (svc, method).
func (c *Ctx) rpcMethod(svc, method string) *ssa.Function {
	st := c.serviceTypes()
	nt := st[svc]
	if nt == nil {
		return nil
	}
	return c.P.Func("", nt.Obj().Name()+"."+method)
}

type strPair struct{ a, b string }

// resolvePair resolves two string-typed values jointly to constant pairs,
// following parameters to the static call sites of the enclosing function.
func (c *Ctx) resolvePair(fn *ssa.Function, a, b ssa.Value, depth int) (pairs []strPair, via string, ok bool) {
	sa, oka := constString(a)
	sb, okb := constString(b)
	if oka && okb {
		return []strPair{{sa, sb}}, "constants", true
	}
	if depth <= 0 {
		return nil, "", false
	}
	// a parameter, or a string field of a struct-typed parameter (the
	// method name travelling in a small descriptor struct)
	pa, fa, isPa := paramOrField(a)
	pb, fb, isPb := paramOrField(b)
	if (!oka && !isPa) || (!okb && !isPb) {
		return nil, "", false
	}
	// strip() follows the parameters of single-caller helpers to their
	// caller's arguments: the values may then live in that caller's frame
	for _, q := range []*ssa.Parameter{pa, pb} {
		if q != nil && q.Parent() != nil && q.Parent() != fn {
			fn = q.Parent()
		}
	}
	idx := func(p *ssa.Parameter) int {
		for i, q := range fn.Params {
			if q == p {
				return i
			}
		}
		return -1
	}
	// all static call sites of fn; fn must not escape as a value
	sites, escapes := c.callSitesOf(fn)
	if escapes || len(sites) == 0 {
		return nil, "", false
	}
	for _, s := range sites {
		args := s.Common().Args
		var va, vb ssa.Value
		if isPa {
			i := idx(pa)
			if i < 0 || i >= len(args) {
				return nil, "", false
			}
			va = args[i]
			if fa >= 0 {
				k, ok := fieldConstOf(va, fa)
				if !ok {
					return nil, "", false
				}
				va = k
			}
		} else {
			va = a
		}
		if isPb {
			i := idx(pb)
			if i < 0 || i >= len(args) {
				return nil, "", false
			}
			vb = args[i]
			if fb >= 0 {
				k, ok := fieldConstOf(vb, fb)
				if !ok {
					return nil, "", false
				}
				vb = k
			}
		} else {
			vb = b
		}
		sub, _, ok := c.resolvePair(s.Parent(), va, vb, depth-1)
		if !ok {
			return nil, "", false
		}
		pairs = append(pairs, sub...)
	}
	return pairs, "parameters of " + fn.Name() + " resolved at its call sites", true
}

// resolvePairAt resolves (a, b) of fn for the single caller site s.
func (c *Ctx) resolvePairAt(fn *ssa.Function, s ssa.CallInstruction, a, b ssa.Value) ([]strPair, string, bool) {
	sub := func(v ssa.Value) ssa.Value {
		if p, ok := strip(v).(*ssa.Parameter); ok {
			for i, q := range fn.Params {
				if q == p && i < len(s.Common().Args) {
					return s.Common().Args[i]
				}
			}
		}
		return v
	}
	return c.resolvePair(s.Parent(), sub(a), sub(b), 2)
}

// callSitesOf lists static call sites of fn in repository code and reports
// whether fn is also used as a value (then the list is incomplete).
func (c *Ctx) callSitesOf(fn *ssa.Function) (sites []ssa.CallInstruction, escapes bool) {
	c.P.RepoFuncs(func(g *ssa.Function) {
		instrs(g, func(i ssa.Instruction) {
			if ci, ok := i.(ssa.CallInstruction); ok {
				if ci.Common().StaticCallee() == fn {
					sites = append(sites, ci)
				}
				for _, a := range ci.Common().Args {
					if a == ssa.Value(fn) {
						escapes = true
					}
				}
				return
			}
			for _, op := range i.Operands(nil) {
				if op != nil && *op == ssa.Value(fn) {
					escapes = true
				}
			}
		})
	})
	return
}

func (c *Ctx) resolveRPC() {
	c.P.RepoFuncs(func(f *ssa.Function) {
		if strings.HasPrefix(f.Pkg.Pkg.Path(), ModPath+"/test") {
			return
		}
		for _, ci := range callsIn(f) {
			name := callName(ci.Common())
			if !strings.HasPrefix(name, gorpcClient) {
				continue
			}
			kind := strings.TrimPrefix(name, gorpcClient)
			pos, ok := rpcArgPos[kind]
			if !ok {
				continue
			}
			args := callArgs(ci.Common())
			site := &RPCSite{Call: ci, Fn: f, Kind: kind}
			if pos[1]+1 >= len(args) {
				site.Why = "unexpected argument list"
				c.RPC = append(c.RPC, site)
				continue
			}
			if s, ok := constString(args[pos[0]]); ok && s == "" && !strings.HasPrefix(kind, "Multi") {
				site.Local = true
			}
			pairs, via, ok := c.resolvePair(f, args[pos[1]], args[pos[1]+1], 5)
			if ok && via != "constants" {
				c.rpcParam[ci] = true
				c.ctxFns[f] = true
				sites, _ := c.callSitesOf(f)
				for _, cs := range sites {
					c.ctxFns[cs.Parent()] = true
				}
			}
			if ok {
				site.Resolved = true
				seen := map[strPair]bool{}
				for _, p := range pairs {
					if seen[p] {
						continue
					}
					seen[p] = true
					site.Targets = append(site.Targets, RPCTarget{Svc: p.a, Method: p.b, Via: via})
				}
				sort.Slice(site.Targets, func(i, j int) bool {
					return site.Targets[i].Svc+"."+site.Targets[i].Method < site.Targets[j].Svc+"."+site.Targets[j].Method
				})
				for _, t := range site.Targets {
					if m := c.rpcMethod(t.Svc, t.Method); m != nil {
						c.rpcTargets[ci] = append(c.rpcTargets[ci], m)
					} else {
						site.Resolved = false
						site.Why = fmt.Sprintf("no RPCAPI method for %s.%s", t.Svc, t.Method)
					}
				}
			} else {
				site.Why = "service/method strings are not constants (after 3 levels of parameter propagation)"
			}
			c.RPC = append(c.RPC, site)
		}
	})
	sort.SliceStable(c.RPC, func(i, j int) bool { return c.RPC[i].Call.Pos() < c.RPC[j].Call.Pos() })
}

// rpcMethods lists all gorpc-suitable methods of the registered services:
// exported, signature (context.Context, T, *U) error.
func (c *Ctx) rpcMethods() map[string]*types.Func {
	out := map[string]*types.Func{}
	for svc, nt := range c.serviceTypes() {
		ms := types.NewMethodSet(types.NewPointer(nt))
		for i := 0; i < ms.Len(); i++ {
			fn, ok := ms.At(i).Obj().(*types.Func)
			if !ok || !fn.Exported() {
				continue
			}
			sig := fn.Type().(*types.Signature)
			if sig.Params().Len() != 3 || sig.Results().Len() != 1 {
				continue
			}
			if sig.Params().At(0).Type().String() != "context.Context" {
				continue
			}
			if _, ok := sig.Params().At(2).Type().(*types.Pointer); !ok {
				continue
			}
			if sig.Results().At(0).Type().String() != "error" {
				continue
			}
			out[svc+"."+fn.Name()] = fn
		}
	}
	return out
}

// ---------------------------------------------------------------------
// reachability over VTA edges + RPC stitching (P4)

// Reach options.
type reachOpt struct {
	noGo    bool                           // ignore `go` edges
	stopAt  func(f *ssa.Function) bool     // do not expand these functions
	skipSit func(ssa.CallInstruction) bool // ignore these call sites
}

// succs returns the callees of f: VTA edges plus stitched RPC targets.
func (c *Ctx) succs(f *ssa.Function, opt reachOpt, chain ...ssa.CallInstruction) []calleeEdge {
	var out []calleeEdge
	n := c.P.CG.Nodes[f]
	if n != nil {
		for _, e := range n.Out {
			if e.Site == nil {
				continue
			}
			if opt.noGo {
				if _, isGo := e.Site.(*ssa.Go); isGo {
					continue
				}
			}
			if opt.skipSit != nil && opt.skipSit(e.Site) {
				continue
			}
			out = append(out, calleeEdge{e.Site, e.Callee.Func})
		}
	}
	for _, ci := range callsIn(f) {
		if ts, ok := c.rpcTargets[ci]; ok {
			if opt.skipSit != nil && opt.skipSit(ci) {
				continue
			}
			if c.rpcParam[ci] && len(chain) > 0 {
				if cts := c.rpcTargetsIn(f, ci, chain); cts != nil {
					ts = cts
				}
			}
			for _, t := range ts {
				out = append(out, calleeEdge{ci, t})
			}
		}
	}
	return out
}

// rpcTargetsIn resolves a parameter-dependent RPC site for the call chain
// through which its function was entered (innermost site first).
func (c *Ctx) rpcTargetsIn(f *ssa.Function, ci ssa.CallInstruction, chain []ssa.CallInstruction) []*ssa.Function {
	kind := strings.TrimPrefix(callName(ci.Common()), gorpcClient)
	pos := rpcArgPos[kind]
	args := callArgs(ci.Common())
	a, b := args[pos[1]], args[pos[1]+1]
	fn := f
	for _, s := range chain {
		_, oka := constString(a)
		_, okb := constString(b)
		if oka && okb {
			break
		}
		if s == nil || s.Common().StaticCallee() != fn {
			return nil // chain does not explain how fn was entered
		}
		sub := func(v ssa.Value) ssa.Value {
			if p, ok := strip(v).(*ssa.Parameter); ok {
				for i, q := range fn.Params {
					if q == p && i < len(s.Common().Args) {
						return s.Common().Args[i]
					}
				}
			}
			return v
		}
		a, b = sub(a), sub(b)
		fn = s.Parent()
	}
	sa, oka := constString(a)
	sb, okb := constString(b)
	if !oka || !okb {
		pairs, _, ok := c.resolvePair(fn, a, b, 2)
		if !ok {
			return nil
		}
		var out []*ssa.Function
		for _, p := range pairs {
			if m := c.rpcMethod(p.a, p.b); m != nil {
				out = append(out, m)
			}
		}
		return out
	}
	if m := c.rpcMethod(sa, sb); m != nil {
		return []*ssa.Function{m}
	}
	return nil
}

// depBudget bounds how many consecutive dependency frames a path may cross
// before re-entering repository code (call-backs such as sort.Slice, mux
// handlers, sync.Once). VTA merges function values of one type inside
// dependency plumbing, so unbounded traversal yields spurious paths.
const depBudget = 3

type calleeEdge struct {
	Site   ssa.CallInstruction
	Callee *ssa.Function
}

// pathTo searches a path from `from` to any function satisfying isSink and
// returns it as a list of function names (nil if unreachable). Only
// repository functions are expanded: a dependency calling back into the
// repository is covered by VTA edges from the dependency function, so
// dependency functions are expanded too but bounded by the visited set.
func (c *Ctx) pathTo(from *ssa.Function, isSink func(f *ssa.Function, site ssa.CallInstruction) bool, opt reachOpt) []string {
	type item struct {
		f    *ssa.Function
		prev *item
		site ssa.CallInstruction
		dep  int // consecutive dependency frames
	}
	type key struct {
		f *ssa.Function
		s ssa.CallInstruction
	}
	mk := func(f *ssa.Function, s ssa.CallInstruction) key {
		if c.ctxFns[f] {
			return key{f, s}
		}
		return key{f, nil}
	}
	seen := map[key]bool{mk(from, nil): true}
	work := []*item{{f: from}}
	for len(work) > 0 {
		cur := work[0]
		work = work[1:]
		if opt.stopAt != nil && cur.prev != nil && opt.stopAt(cur.f) {
			continue
		}
		if cur.dep > depBudget {
			continue
		}
		var chain []ssa.CallInstruction
		for it := cur; it != nil && len(chain) < 3; it = it.prev {
			chain = append(chain, it.site)
		}
		for _, e := range c.succs(cur.f, opt, chain...) {
			if isSink(e.Callee, e.Site) {
				var path []string
				path = append(path, e.Callee.String())
				for it := cur; it != nil; it = it.prev {
					path = append(path, it.f.String())
				}
				// reverse
				for i, j := 0, len(path)-1; i < j; i, j = i+1, j-1 {
					path[i], path[j] = path[j], path[i]
				}
				return path
			}
			k := mk(e.Callee, e.Site)
			if seen[k] {
				continue
			}
			seen[k] = true
			dep := 0
			if !isRepoFn(e.Callee) && e.Callee.Synthetic == "" {
				dep = cur.dep + 1
			} else if !isRepoFn(e.Callee) {
				dep = cur.dep
			}
			work = append(work, &item{f: e.Callee, prev: cur, site: e.Site, dep: dep})
		}
	}
	return nil
}

// invokeSink builds a sink predicate for interface-method or concrete-method
// names: a call edge whose site names one of the patterns, or whose callee
// does.
func sinkNamed(pats ...string) func(f *ssa.Function, site ssa.CallInstruction) bool {
	return func(f *ssa.Function, site ssa.CallInstruction) bool {
		if site != nil && nameMatches(callName(site.Common()), pats...) {
			return true
		}
		return nameMatches(f.String(), pats...)
	}
}

func posOf(ci ssa.CallInstruction) token.Pos {
	if ci == nil {
		return token.NoPos
	}
	return ci.Pos()
}

// rpcUse is one RPC a function performs, either at a gorpc call site of its
// own or through a one-level wrapper of the repository whose service/method
// strings (and argument) are the wrapper's parameters.
type rpcUse struct {
	Svc, Method string
	Call        ssa.CallInstruction // the call in the function itself (the gorpc call, or the call of the wrapper)
	Arg         ssa.Value           // the RPC argument as a value of the function's own frame (nil if not expressible)
	Local       bool
	Wrapper     *ssa.Function
}

func (c *Ctx) rpcUsesIn(g *ssa.Function) []rpcUse {
	var out []rpcUse
	for _, rs := range c.RPC {
		if rs.Fn != g || !rs.Resolved {
			continue
		}
		pos := rpcArgPos[rs.Kind]
		a := callArgs(rs.Call.Common())
		for _, t := range rs.Targets {
			u := rpcUse{Svc: t.Svc, Method: t.Method, Call: rs.Call, Local: rs.Local}
			if pos[1]+2 < len(a) {
				u.Arg = a[pos[1]+2]
			}
			out = append(out, u)
		}
	}
	// through a wrapper
	for _, ci := range callsIn(g) {
		h := ci.Common().StaticCallee()
		if h == nil || h.Blocks == nil || h == g {
			continue
		}
		for _, rs := range c.RPC {
			if rs.Fn != h {
				continue
			}
			pos, ok := rpcArgPos[rs.Kind]
			if !ok {
				continue
			}
			a := callArgs(rs.Call.Common())
			if pos[1]+2 >= len(a) {
				continue
			}
			// each of dest / service / method: a constant in the wrapper
			// or a parameter bound to a constant at this call
			resolve := func(v ssa.Value) (string, bool) {
				if s, ok := constString(stripLocal(v)); ok {
					return s, true
				}
				if k := paramIndexLocal(h, v); k >= 0 && k < len(ci.Common().Args) {
					return constString(ci.Common().Args[k])
				}
				// a field of a descriptor struct handed to the wrapper
				if q, fld, ok := paramOrField(v); ok && fld >= 0 {
					for k, hp := range h.Params {
						if hp == q && k < len(ci.Common().Args) {
							if kv, ok := fieldConstOf(ci.Common().Args[k], fld); ok {
								return constString(kv)
							}
						}
					}
				}
				return "", false
			}
			dest, okD := resolve(a[pos[0]])
			svc, okS := resolve(a[pos[1]])
			method, okM := resolve(a[pos[1]+1])
			if !okS || !okM {
				continue
			}
			u := rpcUse{Svc: svc, Method: method, Call: ci, Local: okD && dest == "", Wrapper: h}
			arg := a[pos[1]+2]
			if mi, ok := arg.(*ssa.MakeInterface); ok {
				arg = mi.X
			}
			if k := paramIndexLocal(h, arg); k >= 0 && k < len(ci.Common().Args) {
				u.Arg = ci.Common().Args[k]
			}
			out = append(out, u)
		}
	}
	return out
}

// paramIndexLocal: v is parameter i of f itself (no helper aliasing).
func paramIndexLocal(f *ssa.Function, v ssa.Value) int {
	v = stripLocal(v)
	for i, p := range f.Params {
		if ssa.Value(p) == v {
			return i
		}
	}
	return -1
}

// paramOrField: v is a parameter (field -1), or field `field` of a
// struct-typed parameter read through go/ssa's local copy of it.
func paramOrField(v ssa.Value) (p *ssa.Parameter, field int, ok bool) {
	v = strip(v)
	if q, isP := v.(*ssa.Parameter); isP {
		return q, -1, true
	}
	base := func(x ssa.Value) *ssa.Parameter {
		switch y := x.(type) {
		case *ssa.Parameter:
			return y
		case *ssa.Alloc: // `t0 = local T (p); *t0 = p`
			if y.Referrers() == nil {
				return nil
			}
			var found *ssa.Parameter
			n := 0
			for _, ref := range *y.Referrers() {
				if st, isSt := ref.(*ssa.Store); isSt && st.Addr == ssa.Value(y) {
					n++
					found, _ = st.Val.(*ssa.Parameter)
				}
			}
			if n == 1 {
				return found
			}
		}
		return nil
	}
	switch x := v.(type) {
	case *ssa.Field:
		if q := base(x.X); q != nil {
			return q, x.Field, true
		}
		if u, isU := x.X.(*ssa.UnOp); isU && u.Op == token.MUL {
			if q := base(u.X); q != nil {
				return q, x.Field, true
			}
		}
	case *ssa.UnOp:
		if fa, isFA := x.X.(*ssa.FieldAddr); isFA && x.Op == token.MUL {
			if q := base(fa.X); q != nil {
				return q, fa.Field, true
			}
		}
	}
	return nil, -1, false
}

// fieldConstOf: the constant string that field `field` of the struct value v
// holds: v is loaded from a package-level variable or a local whose field is
// written exactly once, with a constant (a composite literal).
func fieldConstOf(v ssa.Value, field int) (ssa.Value, bool) {
	u, ok := stripLocal(v).(*ssa.UnOp)
	if !ok || u.Op != token.MUL {
		return nil, false
	}
	var fns []*ssa.Function
	switch base := u.X.(type) {
	case *ssa.Global:
		if base.Pkg == nil {
			return nil, false
		}
		for _, m := range base.Pkg.Members {
			if f, isF := m.(*ssa.Function); isF {
				fns = append(fns, f)
				fns = append(fns, f.AnonFuncs...)
			}
		}
		for _, m := range base.Pkg.Members {
			if t, isT := m.(*ssa.Type); isT {
				for _, ptr := range []types.Type{t.Type(), types.NewPointer(t.Type())} {
					ms := base.Pkg.Prog.MethodSets.MethodSet(ptr)
					for i := 0; i < ms.Len(); i++ {
						if f := base.Pkg.Prog.MethodValue(ms.At(i)); f != nil && f.Pkg == base.Pkg {
							fns = append(fns, f)
						}
					}
				}
			}
		}
	case *ssa.Alloc:
		fns = []*ssa.Function{base.Parent()}
	default:
		return nil, false
	}
	var val ssa.Value
	n := 0
	seen := map[*ssa.Function]bool{}
	for _, f := range fns {
		if f == nil || seen[f] {
			continue
		}
		seen[f] = true
		instrs(f, func(i ssa.Instruction) {
			st, isSt := i.(*ssa.Store)
			if !isSt {
				return
			}
			if st.Addr == u.X { // the whole value replaced
				n += 2
				return
			}
			if fa, isFA := st.Addr.(*ssa.FieldAddr); isFA && fa.X == u.X && fa.Field == field {
				n++
				val = st.Val
			}
		})
	}
	if n != 1 {
		return nil, false
	}
	if _, isK := constString(val); !isK {
		return nil, false
	}
	return val, true
}

// typeKeyedLookup evaluates `table[reflect.TypeOf(p)]` for a parameter p
// whose dynamic type is at: table is a package-level map built once, in the
// package initialiser, with keys reflect.TypeOf(v) and constant string
// values. A type that is not a key gives "" (the zero value), as at run time.
func typeKeyedLookup(lk *ssa.Lookup, p *ssa.Parameter, at types.Type) (string, bool) {
	kc, _ := originCallLocal(lk.Index)
	if kc == nil || !nameMatches(callName(kc.Common()), "=reflect.TypeOf") || stripLocal(kc.Common().Args[0]) != ssa.Value(p) {
		return "", false
	}
	u, ok := lk.X.(*ssa.UnOp)
	if !ok || u.Op != token.MUL {
		return "", false
	}
	gl, ok := u.X.(*ssa.Global)
	if !ok || gl.Pkg == nil || gl.Pkg.Func("init") == nil {
		return "", false
	}
	var mk *ssa.MakeMap
	for _, b := range gl.Pkg.Func("init").Blocks {
		for _, in := range b.Instrs {
			if st, ok := in.(*ssa.Store); ok && st.Addr == ssa.Value(gl) {
				m, ok := st.Val.(*ssa.MakeMap)
				if !ok || mk != nil {
					return "", false
				}
				mk = m
			}
		}
	}
	if mk == nil || mk.Referrers() == nil {
		return "", false
	}
	// no other writer of the table in the package
	writers := 0
	for _, mem := range gl.Pkg.Members {
		f, isF := mem.(*ssa.Function)
		if !isF {
			continue
		}
		for _, fn := range append([]*ssa.Function{f}, f.AnonFuncs...) {
			instrs(fn, func(i ssa.Instruction) {
				switch x := i.(type) {
				case *ssa.Store:
					if x.Addr == ssa.Value(gl) {
						writers++
					}
				case *ssa.MapUpdate:
					if l, ok := x.Map.(*ssa.UnOp); ok && l.X == ssa.Value(gl) {
						writers += 2
					}
				}
			})
		}
	}
	if writers != 1 {
		return "", false
	}
	res := ""
	for _, ref := range *mk.Referrers() {
		mu, ok := ref.(*ssa.MapUpdate)
		if !ok {
			continue
		}
		tc, _ := originCallLocal(mu.Key)
		val, isS := constString(mu.Value)
		if tc == nil || !nameMatches(callName(tc.Common()), "=reflect.TypeOf") || !isS {
			return "", false
		}
		if types.Identical(strip(tc.Common().Args[0]).Type(), at) {
			res = val
		}
	}
	return res, true
}
