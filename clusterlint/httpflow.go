package main

import (
	"fmt"
	"go/ast"
	"go/constant"
	"go/token"
	"go/types"
	"sort"
	"strings"

	"golang.org/x/tools/go/packages"
)

// Response typestate for HTTP handlers (R11.1, R12.1), on the syntactic CFG.
//
// state bits: 0-1 number of response heads written (0, 1, 2 = more),
//             2   an error response was written,
//             3,4 "variable slot k holds the zero value" for up to two
//                 variables bound to the result of a parse-or-respond helper,
//             5   (summaries only) the function returned the zero value.

const (
	hR1, hR2 = 1, 2
	hE       = 4
	hN0, hN1 = 8, 16
	hZ       = 32
)

func hR(s int) int { return s & 3 }
func hAddR(s int) int {
	r := hR(s) + 1
	if r > 2 {
		r = 2
	}
	return s&^3 | r
}

type httpViolation struct {
	kind string
	pos  token.Pos
	msg  string
}

type httpAnalysis struct {
	c       *Ctx
	pkg     *packages.Package
	decls   map[*types.Func]*ast.FuncDecl
	summary map[*types.Func]StateSet // exit states from (R=0,E=0); nil = being computed
	viol    map[*types.Func][]httpViolation
	ops     map[*types.Func]int // operate events seen
	resp    map[*types.Func]int // respond events seen
	// extraOperate lets the positive controls name an operate event
	extraOperate func(name string) bool
}

func newHTTPAnalysis(c *Ctx, rel string) *httpAnalysis {
	pkg := c.P.Pkg(rel)
	if pkg == nil {
		return nil
	}
	h := &httpAnalysis{c: c, pkg: pkg, decls: map[*types.Func]*ast.FuncDecl{}, summary: map[*types.Func]StateSet{}, viol: map[*types.Func][]httpViolation{}, ops: map[*types.Func]int{}, resp: map[*types.Func]int{}}
	for _, f := range pkg.Syntax {
		for _, d := range f.Decls {
			if fd, ok := d.(*ast.FuncDecl); ok && fd.Body != nil {
				if o, ok := pkg.TypesInfo.Defs[fd.Name].(*types.Func); ok {
					h.decls[o] = fd
				}
			}
		}
	}
	return h
}

func isRespWriter(t types.Type) bool {
	return t != nil && t.String() == "net/http.ResponseWriter"
}

func (h *httpAnalysis) hasWriterArg(call *ast.CallExpr) bool {
	for _, a := range call.Args {
		if isRespWriter(h.pkg.TypesInfo.TypeOf(a)) {
			return true
		}
	}
	return false
}

// takesWriter: the function has a ResponseWriter parameter.
func takesWriter(fn *types.Func) bool {
	sig := fn.Type().(*types.Signature)
	for i := 0; i < sig.Params().Len(); i++ {
		if isRespWriter(sig.Params().At(i).Type()) {
			return true
		}
	}
	return false
}

func isRPCClientCall(name string) bool {
	if !strings.HasPrefix(name, "(*github.com/libp2p/go-libp2p-gorpc.Client).") {
		return false
	}
	_, ok := rpcArgPos[strings.TrimPrefix(name, "(*github.com/libp2p/go-libp2p-gorpc.Client).")]
	return ok
}

// event classifies a call.
// kinds: "" none, "err", "ok", "either" (a response of that kind),
// "operate", "add" (operate + respond), "delegate".
func (h *httpAnalysis) event(call *ast.CallExpr) (string, *types.Func) {
	name := funcFullName(h.pkg, call)
	fn := calleeObj(h.pkg, call)
	switch {
	case isRPCClientCall(name):
		return "operate", nil
	case h.extraOperate != nil && h.extraOperate(name):
		return "operate", nil
	case strings.HasSuffix(name, "adder/adderutils.AddMultipartHTTPHandler"):
		return "add", nil
	case name == "net/http.Error":
		return "err", nil
	case strings.HasSuffix(name, "api/ipfsproxy.ipfsErrorResponder"):
		return "err", nil
	case name == "(net/http.ResponseWriter).WriteHeader":
		if len(call.Args) == 1 {
			if v := constVal(h.pkg, call.Args[0]); v != nil {
				if iv, ok := constant.Int64Val(v); ok && iv >= 400 {
					return "err", nil
				}
				return "ok", nil
			}
		}
		return "either", nil
	case strings.HasSuffix(name, "api/rest.API).sendResponse"):
		if len(call.Args) == 4 {
			if v := constVal(h.pkg, call.Args[1]); v != nil {
				if iv, ok := constant.Int64Val(v); ok && iv >= 400 {
					return "err", nil
				}
			}
			if id, ok := ast.Unparen(call.Args[2]).(*ast.Ident); ok && id.Name == "nil" {
				return "ok", nil
			}
		}
		return "either", nil
	}
	if fn != nil && h.decls[fn] != nil && takesWriter(fn) && h.hasWriterArg(call) {
		return "delegate", fn
	}
	if fn == nil && h.hasWriterArg(call) {
		// dynamic call of a handler value
		if _, isConv := h.pkg.TypesInfo.Types[call.Fun]; isConv && h.pkg.TypesInfo.Types[call.Fun].IsType() {
			return "", nil
		}
		return "either", nil
	}
	return "", nil
}

// analyse computes the exit states of a function body and records
// violations. body may be a FuncDecl's or a FuncLit's.
func (h *httpAnalysis) analyse(key *types.Func, body *ast.BlockStmt, results *types.Tuple, record bool) (exits StateSet, viol []httpViolation, nOps, nResp int) {
	slots := map[types.Object]int{}
	bind := func(o types.Object) int {
		if s, ok := slots[o]; ok {
			return s
		}
		if len(slots) >= 2 {
			return -1
		}
		s := len(slots)
		slots[o] = s
		return s
	}
	var report func(kind string, pos token.Pos, msg string)
	step := func(n ast.Node, s int) StateSet {
		cur := one(s)
		applyResp := func(kind string, pos token.Pos) {
			var next StateSet
			for _, st := range statesOf(cur) {
				if hR(st) >= 1 && report != nil {
					report("second-response", pos, "a second response is written on a path that already responded")
				}
				st2 := hAddR(st)
				switch kind {
				case "err":
					next |= one(st2 | hE)
				case "ok":
					next |= one(st2)
				default:
					next |= one(st2) | one(st2|hE)
				}
			}
			cur = next
		}
		applyOp := func(pos token.Pos, what string) {
			for _, st := range statesOf(cur) {
				if st&hE != 0 && report != nil {
					report("operate-after-error", pos, "a cluster operation ("+what+") is performed on a path that already answered with an error")
				}
			}
		}
		// zero-ness binding: `v := helper(w, r)`
		var bindCall *ast.CallExpr
		var bindObj types.Object
		// (or `v, ok := helper(w, r)`: the trailing bool is the indicator)
		if as, ok := n.(*ast.AssignStmt); ok && len(as.Lhs) >= 1 && len(as.Rhs) == 1 {
			if call, ok := as.Rhs[0].(*ast.CallExpr); ok {
				ind := as.Lhs[0]
				if len(as.Lhs) > 1 {
					ind = nil
					last := as.Lhs[len(as.Lhs)-1]
					if t := h.pkg.TypesInfo.TypeOf(last); t != nil {
						if b, isB := t.Underlying().(*types.Basic); isB && b.Kind() == types.Bool {
							ind = last
						}
					}
				}
				if id, ok := ind.(*ast.Ident); ok && id.Name != "_" {
					bindCall, bindObj = call, h.pkg.TypesInfo.ObjectOf(id)
				}
			}
		}
		for _, call := range callsInNode(n) {
			kind, fn := h.event(call)
			switch kind {
			case "operate":
				nOps++
				applyOp(call.Pos(), types.ExprString(call.Fun))
			case "add":
				nOps++
				nResp++
				applyOp(call.Pos(), "add")
				applyResp("either", call.Pos())
				// `root, err := AddMultipartHTTPHandler(...)`: an error
				// response implies err != nil
				if as, ok := n.(*ast.AssignStmt); ok && len(as.Lhs) == 2 && len(as.Rhs) == 1 && as.Rhs[0] == ast.Expr(call) {
					if id, ok := as.Lhs[1].(*ast.Ident); ok && id.Name != "_" {
						if slot := bind(h.pkg.TypesInfo.ObjectOf(id)); slot >= 0 {
							bit := hN0 << uint(slot)
							var next StateSet
							for _, st := range statesOf(cur) {
								if st&hE != 0 {
									next |= one(st &^ bit) // err != nil
								} else {
									next |= one(st|bit) | one(st&^bit)
								}
							}
							cur = next
						}
					}
				}
			case "err", "ok", "either":
				nResp++
				applyResp(kind, call.Pos())
			case "delegate":
				sum := h.summarise(fn)
				var next StateSet
				for _, st := range statesOf(cur) {
					for _, ex := range statesOf(sum) {
						if hR(ex) > 0 && hR(st) > 0 && report != nil {
							report("second-response", call.Pos(), "a second response is written (through "+fn.Name()+") on a path that already responded")
						}
						if st&hE != 0 && h.ops[fn] > 0 && report != nil {
							report("operate-after-error", call.Pos(), "a cluster operation (through "+fn.Name()+") is performed after an error response")
						}
						r := hR(st) + hR(ex)
						if r > 2 {
							r = 2
						}
						ns := st&^3 | r | ex&hE
						if call == bindCall && bindObj != nil {
							if slot := bind(bindObj); slot >= 0 {
								bit := hN0 << uint(slot)
								ns &^= bit
								if ex&hZ != 0 {
									ns |= bit
								}
							}
						}
						next |= one(ns)
					}
				}
				if fnHasOps := h.ops[fn]; fnHasOps > 0 {
					nOps++
				}
				if sumResponds(sum) {
					nResp++
				}
				cur = next
			}
		}
		if ret, ok := n.(*ast.ReturnStmt); ok && results != nil && indicatorResult(results) >= 0 && len(ret.Results) == results.Len() {
			zero := false
			e := ast.Unparen(ret.Results[indicatorResult(results)])
			if id, ok := e.(*ast.Ident); ok && id.Name == "nil" {
				zero = true
			}
			if v := constVal(h.pkg, e); v != nil {
				switch v.Kind() {
				case constant.String:
					zero = constant.StringVal(v) == ""
				case constant.Int:
					zero = constant.Sign(v) == 0
				case constant.Bool:
					zero = !constant.BoolVal(v)
				}
			}
			var next StateSet
			for _, st := range statesOf(cur) {
				if zero {
					next |= one(st | hZ)
				} else {
					next |= one(st &^ hZ)
				}
			}
			cur = next
		}
		return cur
	}
	fl := &Flow{Pkg: h.pkg, Body: body, Init: one(0)}
	fl.Node = step
	fl.Cond = func(cond ast.Expr, branch bool, s int) StateSet {
		// a bound bool indicator tested as `ok` (condDeep strips the `!`)
		if id, isID := ast.Unparen(cond).(*ast.Ident); isID {
			if slot, bound := slots[h.pkg.TypesInfo.ObjectOf(id)]; bound {
				bit := hN0 << uint(slot)
				if (s&bit != 0) != !branch {
					return 0
				}
			}
			return one(s)
		}
		be, ok := ast.Unparen(cond).(*ast.BinaryExpr)
		if !ok || (be.Op != token.EQL && be.Op != token.NEQ) {
			return one(s)
		}
		id, ok := ast.Unparen(be.X).(*ast.Ident)
		if !ok {
			return one(s)
		}
		slot, bound := slots[h.pkg.TypesInfo.ObjectOf(id)]
		if !bound {
			return one(s)
		}
		isZeroLit := false
		if y, ok := ast.Unparen(be.Y).(*ast.Ident); ok && y.Name == "nil" {
			isZeroLit = true
		}
		if v := constVal(h.pkg, be.Y); v != nil && v.Kind() == constant.String && constant.StringVal(v) == "" {
			isZeroLit = true
		}
		if !isZeroLit {
			return one(s)
		}
		wantZero := (be.Op == token.EQL) == branch
		bit := hN0 << uint(slot)
		if (s&bit != 0) != wantZero {
			return 0
		}
		return one(s)
	}
	fl.Run()
	seen := map[string]bool{}
	report = func(kind string, pos token.Pos, msg string) {
		k := fmt.Sprintf("%s@%d", kind, pos)
		if seen[k] {
			return
		}
		seen[k] = true
		viol = append(viol, httpViolation{kind, pos, msg})
	}
	nOps, nResp = 0, 0
	fl.Visit(func(n ast.Node, before StateSet) {
		for _, s := range statesOf(before) {
			step(n, s)
		}
	}, func(pos token.Pos, ss StateSet, ret *ast.ReturnStmt) {
		exits |= ss
	})
	report = nil
	sort.Slice(viol, func(i, j int) bool { return viol[i].pos < viol[j].pos })
	return
}

// indicatorResult: the result of a parse-or-respond helper whose zero value
// says "an error response was sent": the only result, or a trailing bool.
func indicatorResult(results *types.Tuple) int {
	switch {
	case results == nil || results.Len() == 0:
		return -1
	case results.Len() == 1:
		return 0
	}
	if b, ok := results.At(results.Len() - 1).Type().Underlying().(*types.Basic); ok && b.Kind() == types.Bool {
		return results.Len() - 1
	}
	return -1
}

func sumResponds(ss StateSet) bool {
	for _, s := range statesOf(ss) {
		if hR(s) > 0 {
			return true
		}
	}
	return false
}

func (h *httpAnalysis) summarise(fn *types.Func) StateSet {
	if s, ok := h.summary[fn]; ok {
		return s
	}
	h.summary[fn] = one(0) // recursion guard: assume no effect
	fd := h.decls[fn]
	ex, viol, nOps, nResp := h.analyse(fn, fd.Body, fn.Type().(*types.Signature).Results(), true)
	// drop the variable slots from the summary
	var clean StateSet
	for _, s := range statesOf(ex) {
		clean |= one(s &^ (hN0 | hN1))
	}
	h.summary[fn] = clean
	h.viol[fn] = viol
	h.ops[fn] = nOps
	h.resp[fn] = nResp
	return clean
}

// describe renders a state set.
func describeHTTP(ss StateSet) string {
	var parts []string
	for _, s := range statesOf(ss) {
		parts = append(parts, fmt.Sprintf("{responses:%d error:%v zero-result:%v}", hR(s), s&hE != 0, s&hZ != 0))
	}
	return strings.Join(parts, " ")
}
