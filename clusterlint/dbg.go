package main

import (
	"fmt"
	"os"

	"golang.org/x/tools/go/ssa"
)

// debugDump prints the SSA of one function (CLUSTERLINT_DUMP=rel:name).
func debugDump(p *Program) {
	spec := os.Getenv("CLUSTERLINT_DUMP")
	if spec == "" {
		return
	}
	var rel, name string
	for i := 0; i < len(spec); i++ {
		if spec[i] == ':' {
			rel, name = spec[:i], spec[i+1:]
		}
	}
	f := p.Func(rel, name)
	if f == nil {
		fmt.Println("no such function", spec)
		return
	}
	withAnon(f, func(g *ssa.Function) { g.WriteTo(os.Stdout) })
}
