package main

import (
	"fmt"
	"go/token"
	"go/types"
	"sort"
	"strings"

	"golang.org/x/tools/go/ssa"
)

func init() {
	register(
		&Rule{ID: "R18.1", Props: []string{"C18"}, Floor: 60, Title: "guarded-by: every access to a field of the confirmed guard table happens with its mutex held (writes with the write lock)", Run: r181},
		&Rule{ID: "R18.2", Props: []string{"C18"}, Floor: 8, Title: "state written by a component's Shutdown and read by its other methods is accessed under a common lock everywhere", Run: r182},
		&Rule{ID: "R18.3", Props: []string{"C18"}, Floor: 6, Title: "no wait-for cycle: a goroutine counted by a WaitGroup never reaches Wait on it nor needs a mutex held across that Wait; no mutex is re-acquired while held", Run: r183},
		&Rule{ID: "R18.4", Props: []string{"C18"}, Floor: 50, Title: "every Lock/RLock is released on every path (explicitly or by defer) with the matching unlock", Run: r184},
		&Rule{ID: "R18.5", Props: []string{"C18"}, Floor: 6, Title: "each rpcReady channel is closed in one place, under the shutdown lock and behind the shutdown flag", Run: r185},
		&Rule{ID: "R18.6", Props: []string{"C18", "C09"}, Floor: 4, Title: "check-then-act sections are atomic: functions that test and then update guarded state do so in one critical section", Run: r186},
	)
}

// guardTable: struct (short type) . field -> mutex field. Inferred from the
// code's own majority behaviour (CLUSTERLINT_LOCKTABLE=1 prints the counts),
// then confirmed by reading; one reason per line.
var guardTable = map[string]string{
	"ipfs-cluster.Cluster.alerts":           "alertsMux",         // 7/7; appended by alertsHandler, copied by Alerts
	"ipfs-cluster.Cluster.readyB":           "shutdownLock",      // 4/4; set by ready(), read by Shutdown
	"ipfs-cluster.Cluster.removed":          "shutdownLock",      // 4/4; set by watchPeers/Shutdown
	"ipfs-cluster.Cluster.shutdownB":        "shutdownLock",      // 2/2
	"crdt.Consensus.shutdown":               "shutdownLock",      // 2/2
	"raft.Consensus.shutdown":               "shutdownLock",      // 4/4; Clean refuses unless shutdown
	"ipfshttp.Connector.shutdown":           "shutdownLock",      // 2/2
	"ipfshttp.Connector.updateMetricCount":  "updateMetricMutex", // 4/4
	"ipfsproxy.Server.shutdown":             "shutdownLock",      // 2/2
	"ipfsproxy.Server.listeners":            "shutdownLock",      // 3/3 (run/Shutdown)
	"pubsubmon.Monitor.shutdown":            "shutdownLock",      // 2/2
	"rest.API.shutdown":                     "shutdownLock",      // 2/2
	"stateless.Tracker.shutdown":            "shutdownMu",        // 2/2
	"metrics.Checker.failedPeers":           "failedPeersMu",     // 5/5
	"metrics.Store.byName":                  "mux",               // 12/12
	"metrics.Window.window":                 "wMu",               // 5/6; All() relies on the caller holding Store.mux ("we always lock the outer map")
	"optracker.Operation.error":             "mu",                // 2/2
	"optracker.Operation.phase":             "mu",                // 3/3
	"optracker.Operation.ts":                "mu",                // 3/3
	"optracker.OperationTracker.operations": "mu",                // 15/15
	"disk.Informer.rpcClient":               "mu",                // 3/3 (after the informer fix)
	"numpin.Informer.rpcClient":             "mu",                // 3/3
}

func r181(c *Ctx, r *R) {
	w := c.buildLockWorld()
	c.lw = w
	acc := w.accesses(func(owner *types.Named, f *types.Var) bool {
		_, ok := guardTable[shortType(owner)+"."+f.Name()]
		return ok
	})
	seenField := map[string]int{}
	for _, a := range acc {
		fa := a.instr.(*ssa.FieldAddr)
		owner := ownerOf(fa.X.Type())
		key := shortType(owner) + "." + a.field.Name()
		mu := guardTable[key]
		if a.fresh {
			continue // constructor: the object is not shared yet
		}
		seenField[key]++
		mode := 0
		for id, m := range a.held {
			if lockName(id) == mu {
				mode = m
			}
		}
		okey := fmt.Sprintf("%s@%s", key, a.fn.Name())
		what := "reads"
		if a.write {
			what = "writes"
		}
		switch {
		case mode == 0 && key == "metrics.Window.window":
			// externally locked: every repository caller of this method
			// (transitively through other Window methods) holds Store.mux
			var extLocked func(fn *ssa.Function, d int) bool
			extLocked = func(fn *ssa.Function, d int) bool {
				if d > 3 {
					return false
				}
				sites, _ := c.callSitesOf(fn)
				if len(sites) == 0 {
					return false
				}
				for _, s := range sites {
					li := w.infos[s.Parent()]
					held := false
					if li != nil {
						for id := range li.heldAt(s) {
							if lockName(id) == "mux" {
								held = true
							}
						}
					}
					if !held {
						pr := s.Parent()
						if pr.Signature.Recv() != nil && ownerOf(pr.Signature.Recv().Type()) == owner && extLocked(pr, d+1) {
							continue
						}
						return false
					}
				}
				return true
			}
			ext := extLocked(a.fn, 0)
			r.Check(ext, okey, a.Pos(), a.fn.Name()+" touches the ring outside wMu but every caller holds Store.mux", fmt.Sprintf("%s %s %s without wMu and not every caller holds Store.mux", a.fn.Name(), what, key))
		case mode == 0:
			r.Bad(okey, a.Pos(), "%s %s %s without holding %s (held: %s): a concurrent writer makes this a data race / torn result", a.fn.String(), what, key, mu, heldNames(a.held))
		case a.write && mode < 2:
			r.Bad(okey, a.Pos(), "%s writes %s holding only the read lock of %s: concurrent readers race with the write", a.fn.String(), key, mu)
		default:
			r.OK(okey, a.Pos(), "%s %s under %s", what, key, mu)
		}
	}
	var missing []string
	for k := range guardTable {
		if seenField[k] == 0 {
			missing = append(missing, k)
		}
	}
	sort.Strings(missing)
	for _, k := range missing {
		r.Und("table:"+k, token.NoPos, "guarded field %s is no longer accessed anywhere (renamed or removed): the guard table is stale", k)
	}
}

func heldNames(ls lockSet) string {
	var n []string
	for id := range ls {
		n = append(n, lockName(id))
	}
	sort.Strings(n)
	if len(n) == 0 {
		return "none"
	}
	return strings.Join(n, ",")
}

func (c *Ctx) lockWorld() *lockWorld {
	if c.lw == nil {
		c.lw = c.buildLockWorld()
	}
	return c.lw
}

func r182(c *Ctx, r *R) {
	w := c.lockWorld()
	// component shape: SetClient + Shutdown
	for _, pkg := range c.P.Repo {
		if strings.HasPrefix(pkg.PkgPath, ModPath+"/test") {
			continue
		}
		for _, n := range pkg.Types.Scope().Names() {
			tn, ok := pkg.Types.Scope().Lookup(n).(*types.TypeName)
			if !ok {
				continue
			}
			nt, ok := tn.Type().(*types.Named)
			if !ok {
				continue
			}
			if _, isS := nt.Underlying().(*types.Struct); !isS {
				continue
			}
			if !hasMethods(nt, "SetClient", "Shutdown") {
				continue
			}
			rel := strings.TrimPrefix(strings.TrimPrefix(pkg.PkgPath, ModPath), "/")
			sh := c.P.Func(rel, n+".Shutdown")
			if sh == nil || sh.Blocks == nil {
				continue
			}
			written := map[*types.Var]bool{}
			instrs(sh, func(i ssa.Instruction) {
				if st, ok := i.(*ssa.Store); ok {
					if fa, ok := st.Addr.(*ssa.FieldAddr); ok && ownerOf(fa.X.Type()) == nt {
						written[fieldOfAddr(fa)] = true
					}
				}
			})
			if len(written) == 0 {
				r.OK("component:"+shortType(nt), sh.Pos(), "Shutdown writes no field")
				continue
			}
			acc := w.accesses(func(owner *types.Named, f *types.Var) bool { return owner == nt && written[f] })
			byField := map[*types.Var][]fieldAccess{}
			for _, a := range acc {
				if !a.fresh {
					byField[a.field] = append(byField[a.field], a)
				}
			}
			for f, as := range byField {
				ts := f.Type().String()
				if strings.HasPrefix(ts, "sync.") || strings.HasPrefix(ts, "chan ") || strings.HasPrefix(ts, "<-chan") {
					continue
				}
				readElsewhere := false
				for _, a := range as {
					if a.fn != sh {
						readElsewhere = true
					}
				}
				key := "component:" + shortType(nt) + "." + f.Name()
				if !readElsewhere {
					r.OK(key, f.Pos(), "written by Shutdown only")
					continue
				}
				// common lock
				var common lockSet
				for i, a := range as {
					if i == 0 {
						common = a.held.clone()
					} else {
						common = meet(common, a.held)
					}
				}
				if len(common) > 0 {
					r.OK(key, f.Pos(), "all %d accesses hold %s", len(as), heldNames(common))
				} else {
					var where []string
					for _, a := range as {
						if len(a.held) == 0 {
							where = append(where, a.fn.Name())
						}
					}
					sort.Strings(where)
					r.Bad(key, f.Pos(), "%s.%s is assigned by Shutdown and used by other methods without a common lock (unlocked in: %s): shutting the component down while it is in use is a data race (nil dereference for client/handle fields)", shortType(nt), f.Name(), strings.Join(where, ", "))
				}
			}
		}
	}
}

// wgUse describes goroutines counted by a WaitGroup field.
type wgGoroutine struct {
	wg    *types.Var
	fn    *ssa.Function // goroutine body
	spawn *ssa.Go
}

func wgField(v ssa.Value) *types.Var {
	if fa, ok := v.(*ssa.FieldAddr); ok && strings.HasSuffix(fa.Type().String(), "sync.WaitGroup") {
		return fieldOfAddr(fa)
	}
	return nil
}

func r183(c *Ctx, r *R) {
	w := c.lockWorld()
	var gor []wgGoroutine
	type waitSite struct {
		wg   *types.Var
		fn   *ssa.Function
		call ssa.CallInstruction
		held lockSet
	}
	var waits []waitSite
	for _, f := range w.funcs {
		instrs(f, func(i ssa.Instruction) {
			switch x := i.(type) {
			case *ssa.Go:
				body := x.Common().StaticCallee()
				if body == nil {
					body = fnOfValue(x.Common().Value)
				}
				if body == nil || body.Blocks == nil {
					return
				}
				// `defer wg.Done()` inside the body
				instrs(body, func(j ssa.Instruction) {
					if d, ok := j.(*ssa.Defer); ok && callName(d.Common()) == "(*sync.WaitGroup).Done" {
						v := d.Common().Args[0]
						// the WaitGroup is reached through a captured variable in closures
						if fld := wgFieldDeep(v); fld != nil {
							gor = append(gor, wgGoroutine{fld, body, x})
						}
					}
				})
			case *ssa.Call:
				if callName(x.Common()) == "(*sync.WaitGroup).Wait" {
					if fld := wgFieldDeep(x.Common().Args[0]); fld != nil {
						waits = append(waits, waitSite{fld, f, x, w.infos[f].heldAt(x)})
					}
				}
			}
		})
	}
	if len(gor) < 10 {
		r.Und("goroutines", token.NoPos, "only %d WaitGroup-counted goroutines recognised", len(gor))
	}
	waitOn := func(wg *types.Var) func(f *ssa.Function, site ssa.CallInstruction) bool {
		return func(f *ssa.Function, site ssa.CallInstruction) bool {
			if site == nil || callName(site.Common()) != "(*sync.WaitGroup).Wait" {
				return false
			}
			return wgFieldDeep(site.Common().Args[0]) == wg
		}
	}
	// (a) counted goroutine reaches Wait on its own group
	seenA := map[string]bool{}
	for _, g := range gor {
		path := c.pathTo(g.fn, waitOn(g.wg), reachOpt{noGo: true})
		key := fmt.Sprintf("self-wait:%s.%s:%s", ownerName(g.wg), g.wg.Name(), g.fn.Name())
		if seenA[key] {
			continue
		}
		seenA[key] = true
		if path != nil {
			r.Bad(selfWaitKey(g, path), g.spawn.Pos(), "goroutine %s is counted by %s and can synchronously reach %s.Wait(): it waits for itself (%s)", g.fn.Name(), g.wg.Name(), g.wg.Name(), strings.Join(shortPath(path), " -> "))
		} else {
			r.OK(key, g.spawn.Pos(), "counted goroutine never reaches Wait on its own group")
		}
	}
	// (b) mutex held across Wait while a counted goroutine needs it
	for _, ws := range waits {
		for id := range ws.held {
			fld, ok := id.(*types.Var)
			if !ok {
				continue
			}
			var need []string
			for _, g := range gor {
				if g.wg != ws.wg {
					continue
				}
				path := c.pathTo(g.fn, func(f *ssa.Function, site ssa.CallInstruction) bool {
					if site == nil {
						return false
					}
					k, lid := lockOp(site.Common())
					return (k == "lock" || k == "rlock") && lid == lockID(fld)
				}, reachOpt{noGo: true})
				if path != nil {
					need = append(need, path[len(path)-2][strings.LastIndex(path[len(path)-2], ".")+1:])
				}
			}
			sort.Strings(need)
			need = uniq(need)
			key := fmt.Sprintf("held-across-wait:%s.%s×%s", ownerName(fld), fld.Name(), ws.wg.Name())
			if len(need) > 0 {
				r.Bad(key+":{"+strings.Join(need, ",")+"}", ws.call.Pos(), "%s holds %s while waiting on %s, and goroutines counted by %s acquire %s (in %s): if one of them reaches that point during the wait, both block forever", ws.fn.Name(), fld.Name(), ws.wg.Name(), ws.wg.Name(), fld.Name(), strings.Join(need, ", "))
			} else {
				r.OK(key, ws.call.Pos(), "no goroutine counted by %s takes %s", ws.wg.Name(), fld.Name())
			}
		}
	}
	// (c) re-acquisition of a held mutex through a call
	for _, f := range w.funcs {
		li := w.infos[f]
		li.Visit(func(i ssa.Instruction, held lockSet) {
			ci, ok := i.(*ssa.Call)
			if !ok || len(held) == 0 {
				return
			}
			if k, id := lockOp(ci.Common()); k != "" {
				if (k == "lock" || k == "rlock") && held[id] > 0 {
					if _, isField := id.(*types.Var); isField {
						r.Bad("relock:"+f.Name()+":"+lockName(id), ci.Pos(), "%s acquires %s while already holding it", f.String(), lockName(id))
					}
				}
				return
			}
			cal := ci.Common().StaticCallee()
			if cal == nil || !isRepoFn(cal) || cal.Blocks == nil {
				return
			}
			for id := range held {
				fld, isField := id.(*types.Var)
				if !isField {
					continue
				}
				// the callee must operate on the same object for this to be a
				// real re-acquisition: require a method of the mutex's owner type
				if cal.Signature.Recv() == nil || ownerOf(cal.Signature.Recv().Type()) == nil || ownerName(fld) != shortType(ownerOf(cal.Signature.Recv().Type())) {
					continue
				}
				path := c.pathTo2(cal, func(g *ssa.Function, site ssa.CallInstruction) bool {
					if site == nil {
						return false
					}
					k, lid := lockOp(site.Common())
					return (k == "lock" || k == "rlock") && lid == lockID(fld)
				}, fld)
				key := "relock:" + f.Name() + "->" + cal.Name() + ":" + fld.Name()
				if path != nil {
					r.Bad(key, ci.Pos(), "%s calls %s while holding %s, and %s acquires %s again (%s): a recursive (read) lock deadlocks as soon as a writer queues between the two acquisitions", f.String(), cal.Name(), fld.Name(), cal.Name(), fld.Name(), strings.Join(shortPath(path), " -> "))
				} else {
					r.OK(key, ci.Pos(), "callee does not take %s again", fld.Name())
				}
			}
		})
	}
}

// pathTo2: path from f (inclusive) restricted to methods of the same
// receiver type as the mutex owner, synchronous edges only.
func (c *Ctx) pathTo2(f *ssa.Function, isSink func(*ssa.Function, ssa.CallInstruction) bool, mu *types.Var) []string {
	// check f's own instructions first
	for _, ci := range callsIn(f) {
		if _, isGo := ci.(*ssa.Go); isGo {
			continue
		}
		if isSink(f, ci) {
			return []string{f.String(), callName(ci.Common())}
		}
	}
	owner := ownerName(mu)
	stop := func(g *ssa.Function) bool {
		if g.Signature.Recv() == nil {
			return true
		}
		o := ownerOf(g.Signature.Recv().Type())
		return o == nil || shortType(o) != owner
	}
	return c.pathTo(f, func(g *ssa.Function, site ssa.CallInstruction) bool {
		if site == nil {
			return false
		}
		if _, isGo := site.(*ssa.Go); isGo {
			return false
		}
		return isSink(g, site)
	}, reachOpt{noGo: true, stopAt: stop})
}

func wgFieldDeep(v ssa.Value) *types.Var {
	for d := 0; d < 4 && v != nil; d++ {
		if f := wgField(v); f != nil {
			return f
		}
		switch x := v.(type) {
		case *ssa.UnOp:
			v = x.X
		case *ssa.FieldAddr:
			if strings.HasSuffix(x.Type().String(), "sync.WaitGroup") {
				return fieldOfAddr(x)
			}
			v = x.X
		default:
			return nil
		}
	}
	return nil
}

func ownerName(f *types.Var) string {
	// find the struct that declares this field
	if f.Pkg() == nil {
		return "?"
	}
	for _, n := range f.Pkg().Scope().Names() {
		if tn, ok := f.Pkg().Scope().Lookup(n).(*types.TypeName); ok {
			if st, ok := tn.Type().Underlying().(*types.Struct); ok {
				for i := 0; i < st.NumFields(); i++ {
					if st.Field(i) == f {
						if nt, ok := tn.Type().(*types.Named); ok {
							return shortType(nt)
						}
					}
				}
			}
		}
	}
	return "?"
}

func selfWaitKey(g wgGoroutine, path []string) string {
	sp := shortPath(path)
	// key by the goroutine's first callee and the function that waits
	via := ""
	if len(sp) >= 2 {
		via = sp[1]
	}
	return fmt.Sprintf("self-wait:%s.%s:%s→%s", ownerName(g.wg), g.wg.Name(), via, sp[len(sp)-1])
}

func shortPath(path []string) []string {
	var out []string
	for _, p := range path {
		p = strings.ReplaceAll(p, ModPath+"/", "")
		p = strings.ReplaceAll(p, ModPath+".", "")
		out = append(out, p)
	}
	return out
}

func uniq(s []string) []string {
	var out []string
	for i, x := range s {
		if i == 0 || x != s[i-1] {
			out = append(out, x)
		}
	}
	return out
}

func r184(c *Ctx, r *R) {
	w := c.lockWorld()
	for _, f := range w.funcs {
		li := w.infos[f]
		if len(li.acquires) == 0 {
			continue
		}
		// recompute with an empty entry set so that only this function's own
		// acquisitions are judged
		own := c.lockInfo(f, lockSet{})
		leaked := map[lockID]token.Pos{}
		for _, b := range f.Blocks {
			if _, ok := own.in[b]; !ok || b == f.Recover {
				continue
			}
			last := b.Instrs[len(b.Instrs)-1]
			if _, isRet := last.(*ssa.Return); !isRet {
				continue
			}
			out := own.transferBlock(b, nil)
			for id := range out {
				if !own.deferred[id] {
					leaked[id] = last.Pos()
				}
			}
		}
		for _, a := range own.acquires {
			k, id := lockOp(a.Common())
			key := fmt.Sprintf("pair:%s:%s", f.String(), lockName(id))
			if pos, bad := leaked[id]; bad {
				r.Bad(key, a.Pos(), "%s takes %s (%s) and can return at %s without releasing it: the next caller blocks forever", f.String(), lockName(id), k, c.P.Pos(pos))
				continue
			}
			// matching kind: RLock pairs with RUnlock
			okKind := true
			instrs(f, func(i ssa.Instruction) {
				var cc *ssa.CallCommon
				switch x := i.(type) {
				case *ssa.Call:
					cc = x.Common()
				case *ssa.Defer:
					cc = x.Common()
				}
				if cc == nil {
					return
				}
				k2, id2 := lockOp(cc)
				if id2 != id {
					return
				}
				if k == "rlock" && k2 == "unlock" && !hasLockKind(f, id, "lock") {
					okKind = false
				}
				if k == "lock" && k2 == "runlock" && !hasLockKind(f, id, "rlock") {
					okKind = false
				}
			})
			r.Check(okKind, key, a.Pos(), "released on every path with the matching unlock", f.String()+" releases "+lockName(id)+" with the wrong kind of unlock (RLock/Unlock or Lock/RUnlock mismatch)")
		}
	}
}

func hasLockKind(f *ssa.Function, id lockID, kind string) bool {
	found := false
	instrs(f, func(i ssa.Instruction) {
		if ci, ok := i.(*ssa.Call); ok {
			if k, id2 := lockOp(ci.Common()); k == kind && id2 == id {
				found = true
			}
		}
	})
	return found
}

func r185(c *Ctx, r *R) {
	w := c.lockWorld()
	closes := map[string][]string{}
	for _, f := range w.funcs {
		li := w.infos[f]
		li.Visit(func(i ssa.Instruction, held lockSet) {
			ci, ok := i.(*ssa.Call)
			if !ok || callName(ci.Common()) != "builtin.close" {
				return
			}
			fl, base := fieldLoad(ci.Common().Args[0])
			if fl == nil || fl.Name() != "rpcReady" {
				return
			}
			owner := ownerOf(base.Type())
			if owner == nil {
				return
			}
			key := shortType(owner)
			closes[key] = append(closes[key], f.Name())
			locked := false
			for id, m := range held {
				if strings.HasPrefix(strings.ToLower(lockName(id)), "shutdown") && m == 2 {
					locked = true
				}
			}
			flag := guardedBy(ci.Block(), func(g Guard) bool { return gField(g, "shutdown", false) })
			r.Check(locked && flag, "close:"+key, ci.Pos(), "rpcReady is closed under the shutdown lock and only when not yet shut down", fmt.Sprintf("%s closes rpcReady without (shutdown lock held: %v, shutdown flag tested: %v): a second Shutdown panics on double close", f.String(), locked, flag))
		})
	}
	for k, fs := range closes {
		r.Check(len(fs) == 1, "close-once:"+k, token.NoPos, "rpcReady of "+k+" is closed in one place", fmt.Sprintf("rpcReady of %s is closed in %v", k, fs))
	}
	if len(closes) < 5 {
		r.Und("close-sites", token.NoPos, "only %d components close rpcReady", len(closes))
	}
}

// r186: functions that both test and update guarded state of one mutex must
// not release the mutex in between (one critical section per mutex).
func r186(c *Ctx, r *R) {
	w := c.lockWorld()
	targets := [][2]string{{"monitor/metrics", "Checker.alert"}, {"pintracker/optracker", "OperationTracker.TrackNewOperation"}, {"pintracker/optracker", "OperationTracker.Clean"}, {"monitor/metrics", "Store.Add"}, {"", "Cluster.alertsHandler"}, {"pintracker/optracker", "Operation.SetError"}}
	for _, t := range targets {
		f := c.fn(r, t[0], t[1])
		if f == nil {
			continue
		}
		li := w.infos[f]
		if li == nil {
			continue
		}
		count := map[lockID]int{}
		// the function and the pieces of it that live in single-caller
		// helpers (a critical section moved into a helper is still one)
		pieces := []*ssa.Function{f}
		for i := 0; i < len(pieces) && i < 8; i++ {
			for _, ci := range callsIn(pieces[i]) {
				if h := ci.Common().StaticCallee(); h != nil && h.Blocks != nil && singleCallSite[h] == ci {
					pieces = append(pieces, h)
				}
			}
		}
		for _, g := range pieces {
			gi := w.infos[g]
			if gi == nil {
				continue
			}
			for _, a := range gi.acquires {
				_, id := lockOp(a.Common())
				count[id]++
			}
		}
		_ = li
		// a callee that takes one of these locks itself is one more
		// critical section of it (`op.SetPhase(...)` followed by the
		// function's own Lock)
		for _, g := range pieces {
			for _, ci := range callsIn(g) {
				h := ci.Common().StaticCallee()
				if h == nil || h.Blocks == nil || singleCallSite[h] == ci {
					continue
				}
				hi := w.infos[h]
				if hi == nil {
					continue
				}
				seen := map[lockID]bool{}
				for _, a := range hi.acquires {
					_, id := lockOp(a.Common())
					if count[id] > 0 && !seen[id] && sameReceiver(ci, g) {
						seen[id] = true
						count[id]++
					}
				}
			}
		}
		for id, n := range count {
			r.Check(n == 1, "atomic:"+t[1]+":"+lockName(id), f.Pos(), t[1]+" reads and updates its guarded state in a single critical section of "+lockName(id),
				fmt.Sprintf("%s acquires %s %d times: the state it tested in the first critical section may have changed when it acts in the next one (two concurrent callers both pass the test: duplicate alerts / lost operations)", t[1], lockName(id), n))
		}
		if len(count) == 0 {
			r.Bad("atomic:"+t[1], f.Pos(), "%s no longer takes a lock around its check-then-act sequence", t[1])
		}
	}
}

// sameReceiver: the call is a method call on the enclosing method's own
// receiver (so a lock field of the callee's receiver is the caller's).
func sameReceiver(ci ssa.CallInstruction, g *ssa.Function) bool {
	if g.Signature.Recv() == nil || len(g.Params) == 0 || ci.Common().IsInvoke() {
		return false
	}
	h := ci.Common().StaticCallee()
	if h == nil || h.Signature.Recv() == nil || len(ci.Common().Args) == 0 {
		return false
	}
	return stripLocal(ci.Common().Args[0]) == ssa.Value(g.Params[0])
}
