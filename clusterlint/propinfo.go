package main

// PropInfo is the per-property text that goes into the evidence: which
// structural clauses the rules decide and which parts of the behavioural
// statement they do not.
type PropInfo struct {
	Decides    string
	NotDecided string
	Exhaustive string
}

var propInfo = map[string]PropInfo{
	"C01": {
		Decides:    "Decides necessary structural clauses of the Raft property: the apply function stores and forwards the same pin value on each branch and fails when the state call fails; the reused LogOp is cleared before the tracker goroutine starts; no wire enum constant is zero; commit/AddPeer/RmPeer return nil only on a committed or redirected path; snapshot restore deletes the namespace before writing; snapshot precedes raft shutdown precedes store close. Also (shared rules): each snapshot entry is decoded into a fresh record (R14.2), the protobuf writer stores every pin field it later restores (R08.3).",
		NotDecided: "that hashicorp/raft delivers one sequence, value-level msgpack round trips, crash points inside BoltDB, that Track eventually runs.",
	},
	"C02": {
		Decides:    "Decides: LogPin/LogUnpin return nil only after enqueueing or after the direct state call, and the full-queue arm returns an error without touching the state; exactly one batch worker goroutine and one receiver on the queue (FIFO); the worker applies Add for pins and Rm for unpins on the received item; Put/Delete hooks reach PinTracker.Track/Untrack; the batching timer is armed whenever the batch is non-empty. Also: BatchingState.Commit returns the datastore batch's own error (R02.7); the pubsub validator tests the signer, and gossipsub verifies signatures strictly (R07.6, R07.9).",
		NotDecided: "convergence of replicas under all delivery orders (go-ds-crdt), thresholds as numbers, datastore behaviour on partial batch failure.",
	},
	"C03": {
		Decides:    "Decides: every metric entering the current/candidate/priority sets passed the exclusion-list test; candidates come only from the monitor's latest valid metrics; allocation is preceded by replication-factor validation; the -1 (everywhere) case returns an empty list without allocating; both allocators put priority peers first, sort with one direction each (opposite between them), and the sorter skips discarded and non-numeric metrics. Also: preset allocations are cleared under the everywhere test evaluated after the configured defaults replaced unset factors; the option comparison that decides whether allocation is skipped (PinOptions.Equals, R04.2/R04.6) reads every field of both operands. Also: what is compared with needed/wanted in obtainAllocations counts new peers only (R03.6); informers mark a metric valid only when their query succeeded and give it the configured TTL (R09.8).",
		NotDecided: "the needed/wanted arithmetic, truncation to max, min <= |result| <= max (numeric over runtime map sizes).",
	},
	"C04": {
		Decides:    "Decides: every cluster-level entry point that can reach Consensus.LogPin/LogUnpin does so only behind the follower-mode guard; PinOptions.Equals / Pin.Equals compare every field, map and slice fields symmetrically; LogPin in pin() is preceded by successful setupPin (factor validity, expiry, type and mode checks); Unpin's type switch is exhaustive and only data/meta arms log an unpin; PinUpdate never reaches LogUnpin and logs the stored source pin with only cid/update/name/expiry replaced; the same-options shortcut requires an existing pin, equal options and an empty exclusion list. Also: the membership flags of the nested element comparisons in Equals are per element (not carried across iterations). Also: unpinning sharded content unpins its cluster-DAG and shard entries first, from a list computed without error, sweeping every element (R04.7); invalid factors are refused by every test of isReplicationFactorValid (R03.3).",
		NotDecided: "the allocation attached to the stored pin (C03), histories of calls, what consensus does with the logged pin.",
	},
	"C05": {
		Decides:    "Decides: every re-issued pin operation carries the pin object received from Track or read from the shared state (never a default pin built from the bare CID); a full queue sets the error, cancels and returns an error; the worker sets in-progress before the IPFS call, error+cancel on failure, done+cancel+clean on success; Track ignores meta pins, unpins remote pins, enqueues the given pin otherwise; TrackNewOperation dedupes only same-type unfinished operations and cancels the one it replaces, under the tracker lock. Also: no exit of enqueue precedes the recording of the request in the operation tracker; each queue channel reaches the send only on paths where the operation type is the matching one. Also: the connector's pin/unpin requests run under a context derived from the caller's (the operation's) context (R16.6). Also (R05.7, R05.3, R05.5): the listing the recover round works from is either recursive-only or compared with each pin's mode; the only ways around SetError are a successful call and a cancelled operation; the ongoing operation that is kept is not cancelled.",
		NotDecided: "quiescence, interleavings of completions, the daemon's actual state.",
	},
	"C06": {
		Decides:    "Decides: every entry returned by StatusAll passed Match(filter); the filter shortcut masks in localStatus cover every status the guarded regions can produce; Operation.ToTrackerStatus is total over (type, phase) with each pair mapped to the status class the property names; Status and StatusAll put the unexpectedly-unpinned case in the same class and decide meta before remote before IPFS; tracker-status string table covers every constant and the composite filters equal the OR of their members; GlobalPinInfo is keyed by peer. Also: StatusAll overlays the complete list of tracked operations onto the local listing unconditionally (as Status does per CID); a full queue leaves an error entry, never a stale queued one (R05.2). Also: Status decides meta before remote as the listing does; the per-CID IPFS query depends on the recorded pin's mode (R06.9). Also (R05.7): a listing wider than the recursive pins is compared with each pin's mode.",
		NotDecided: "truth with respect to the daemon's actual pin set; quiescence; cluster-wide aggregation over runtime peer sets.",
	},
	"C07": {
		Decides:    "Decides: every RPC method of the five registered services has a policy entry and vice versa; the authorisation closure returns true only for open endpoints, the trust predicate's answer for trusted ones and false otherwise, and is installed on both server constructions; no open endpoint can reach pinset writes, tracker or IPFS-driving calls; no endpoint is more permissive than the reviewed table and new endpoints are closed (or trusted with a remote caller); the trust predicates, Trust/Distrust and the pubsub validator have the required shape and validator registration is fail-closed. Also: the reset TrustAll = false dominates every successful exit of the JSON loader (the default is trust-all). Also: argument and reply types at every gorpc call site are the endpoint's (R07.8); gossipsub signs and strictly verifies, Trust/Distrust reach the trusted set on every successful path (R07.9).",
		NotDecided: "libp2p's authentication of the remote peer id, gorpc's own dispatch, pubsub signature checking.",
		Exhaustive: "the RPC policy table and the RPC method sets of the five services (finite tables enumerated completely)",
	},
	"C08": {
		Decides:    "Decides type- and table-level necessary conditions: no record type crossing a json/msgpack boundary contains a non-empty interface without custom (un)marshalers; codec/json keys are unique per struct after embedding; protobuf writer and reader touch the same fields and every api.Pin field is restored; query-string writer keys are a subset of reader keys; enum string tables are mutually inverse on the declared constants; decoder functions do not panic, use unchecked type assertions or drop callee errors. Also: slices sized beforehand and filled by index in a decoder get their element on every path that continues the loop (no nil hole). Also: decode targets inside loops are per iteration, repo-wide (R08.7); indexed fills of nil-like elements are complete repo-wide. Also: the pin-type conversion terminates for the zero type (evaluated).",
		NotDecided: "value equality after decode(encode(x)), sub-second expiry, behaviour of the codec/protobuf/multiaddr/cid libraries on arbitrary bytes.",
	},
	"C09": {
		Decides:    "Decides: LatestValid appends at most one metric per peer and only when it is valid and unexpired; LatestMetrics returns unfiltered metrics only when no peerset is known; the failure checker reports failure only when there is no metric or the latest expired; after the alert threshold the peer's metrics are forgotten and no alert is sent; ping TTL is a multiple >1 of the ping interval and informer metrics are re-published at a fraction <1 of their TTL. Also: Discard is evaluated on all four (Valid, Expired) combinations; one effective timer re-arm per publishing round, and TTL/k_ok + TTL/k_err < TTL so that one failed publish is retried before expiry. Also: one alert decision per (metric name, peer) and round (R09.7); informer siblings agree on Valid and TTL (R09.8). Also (R09.9): a peer's whole alert record is dropped only when it holds no metric name any more; Store.Add appends on every path (no early return in front of it).",
		NotDecided: "arrival histories, window wrap-around, 'alerts once' across check rounds.",
	},
	"C10": {
		Decides:    "Decides: every repin is behind the re-pinning-enabled test (and, for alerts, behind non-follower, ping-metric, was-allocated and closest-peer tests); repin passes the failed peer as exclusion and the listed pin itself with allocations cleared; the repin paths cannot reach LogUnpin; PeerRemove vacates before removing; the expiry sweep unpins only expired pins for which this peer is closest and not in follower mode. Also: neither a return nor a break after one re-pin can end a re-pin sweep. Also (R03.6): the allocator is consulted exactly when fewer healthy holders than the minimum remain (needed > 0).",
		NotDecided: "that exactly one peer is closest (hash arithmetic, peerset agreement), re-allocation counts (C03).",
	},
	"C11": {
		Decides:    "Decides: on every path of every REST handler exactly one response is written and no cluster operation follows an error response; parse helpers return the zero value iff they responded; the parsed pin is not modified after option parsing; the server's handler chain passes through basic auth before CORS and the router, for both listeners; the auth closure serves only with matching credentials and returns after 401; each client-library call matches exactly the server route of the same name (first match in registration order) with query keys the handler reads; GET routes reach no mutating RPC. Also: the client decodes each response into the type every answer of the handler has (R11.5 body); the stream-error trailer is announced, set on failure, read after the body and turned into an error (R11.7); RPC argument/reply types match the endpoint (R07.8). Also: every field of the REST configuration survives the save/load round trip the daemon performs at start (R15.1); asserted error types are produced in that form (R16.7).",
		NotDecided: "the precise 4xx code, mux's matching of arbitrary bytes, TLS, timing-safe comparison.",
		Exhaustive: "the REST route table and the client library's request sites (finite tables)",
	},
	"C12": {
		Decides:    "Decides: hijack handlers write at most one response head and perform no cluster operation after an error response; requests built by the proxy towards the daemon are OPTIONS or the header-extraction path only and hijack handlers never reach the reverse proxy; the hijacked route set, methods and prefix are as specified with the catch-all registered last; mutating routes reach the replacing cluster operation and read-only routes reach no mutating RPC; slash handlers delegate with the path argument. Also: RPC argument/reply types match the endpoint at every call site of the proxy (R07.8). Also (R12.5): each hijack handler reads the IPFS API's own option names (reviewed table).",
		NotDecided: "byte-identical relay (httputil.ReverseProxy), semantics of add options.",
	},
	"C13": {
		Decides:    "Decides the pinning discipline only: Finalize is not reached after an add error, iterator error or cancellation; only the finalisers/shard flush pin through the adder; the root pin's allocations are the allocations the blocks were sent to; sharded pins are built with the type/depth/reference shape the pin validator requires. Also: every pin of the sharding finaliser and of the shard flush is dominated by the successful delivery of the DAG it pins and no block is sent after a pin; a block counts as delivered only if some destination took it. Also: adder.Pin keeps the block destinations unless the factor is below zero and submits the pin it was given; no test inside makeDAG's leaf loop is made constant by the loop bound (R13.9).",
		NotDecided: "DAG closure, byte identity, root equality with the IPFS importer, shard size arithmetic, partial block-put failures.",
	},
	"C14": {
		Decides:    "Decides: import cleans the state before importing in both consensus back ends and snapshot restore replaces the namespace; export and import use the same JSON type; snapshot save and offline read use the same codec and namespace and cancel/close the sink correctly; an unparsable peerstore line is never used; peerstore save keeps slice order and sorts by priority. Also: the backup rotation lists a contiguous run, vacates the oldest slot recursively, moves the live folder last (R17.6). Also (R14.7): the peerstore import continues past an address that cannot be imported; raft data is removed outright only when it was read without error and holds no snapshot.",
		NotDecided: "backup rotation arithmetic, file-system effects, snapshot store behaviour.",
	},
	"C15": {
		Decides:    "Decides: every field of every component's JSON struct is both saved and loaded; every loader returns through Validate; the section dispatcher covers all section types; JSON fields derived from secrets are tagged hidden and every ToDisplayJSON goes through DisplayJSON, which replaces exactly the hidden fields. Also: config.SetIfNotDefault skips exactly the zero value; no JSON setting is read only under a condition on a different setting; pointer-typed settings are assigned directly under a nil test. Also: settings are not crossed between save and load (R15.9); list settings are reset before appending (R15.10); environment overrides start from the current configuration (R15.11); no loader discards a parser's outcome (R15.12). Also (R15.13): every mergo.Merge on the load side passes WithOverride.",
		NotDecided: "that defaults pass Validate, value-level round trip of durations/multiaddresses, envconfig parsing.",
		Exhaustive: "the ComponentConfig implementations and their JSON struct fields (finite tables)",
	},
	"C16": {
		Decides:    "Decides: Pin returns nil only after an is-pinned answer, or as the result of pin-update or of the progress loop; the progress loop returns nil only on EOF with a live context after checkResponse; pin-update is attempted only when the source is pinned recursively and its request carries unpin=false; Unpin tolerates only the not-pinned errors and refuses early when unpinning is disabled; non-200 responses and transport errors always become errors. Also: request contexts derive from the caller's context (R16.6); pin_timeout/unpin_timeout are not crossed when saved or loaded (R15.9). Also (R16.7): the connector's error type is asserted in the form in which it is wrapped (value vs pointer).",
		NotDecided: "the daemon's behaviour, stalls, partial progress streams.",
	},
	"C17": {
		Decides:    "Decides: AddVoter only for absent peers, RemoveServer only for present peers and never the last one, and these are the only membership calls; ready is signalled only after WaitForSync (leader, voter, updates in order); AddPeer/RmPeer return nil only when committed or redirected; a removed peer sets removed before shutting down and cleans consensus data only after consensus shutdown succeeded. Also: the backup rotation vacates the oldest slot recursively before renaming, the live folder is moved as the last step, every exit of CleanupRaft is dominated by removal or backup, and no flat os.Remove is used in consensus/raft. Also (R17.1): after AddVoter/RemoveServer the wrappers return that change's own error; isVoter requires the server's own entry with voter suffrage.",
		NotDecided: "agreement of all members (Raft), staging to voter promotion, joiner catch-up.",
	},
	"C18": {
		Decides:    "Decides: every access to a field in the confirmed guarded-by table happens with its mutex held; fields written by a component's Shutdown and read elsewhere are lock-guarded; no goroutine counted by a WaitGroup can reach Wait on it or need a mutex held across that Wait; every Lock/RLock is released on all paths; rpcReady channels are closed once under the shutdown lock. Also: a write through an inner map taken out of a guarded map counts as a write to the guarded field.",
		NotDecided: "races on memory outside the guard table, dependency internals, panics from values; the race detector is a runtime tool and is not used.",
	},
}
