package main

// Rules written for seeding round 7 (one change per property, all functions
// of rounds 1-6 excluded).

import (
	"fmt"
	"go/constant"
	"go/token"
	"go/types"
	"sort"
	"strings"

	"golang.org/x/tools/go/ssa"
)

func init() {
	register(&Rule{ID: "R01.8", Props: []string{"C01", "C14", "C17"}, Floor: 1, Title: "a restarting raft peer restores its newest snapshot: nothing sets hashicorp/raft's NoSnapshotRestoreOnStart (the datastore handed to raft is empty at start; with the option set the entries covered by the snapshot are never applied again)", Run: r018})
	register(&Rule{ID: "R03.7", Props: []string{"C03", "C13"}, Floor: 1, Title: "no in-place filtering of a slice the function was handed: an append onto `x.f[:0]` or `param[:0]` writes into storage that others hold (BlockAdder's destinations are the very slice that becomes the pin's allocations)", Run: r037})
	register(&Rule{ID: "R04.9", Props: []string{"C04"}, Floor: 2, Title: "expanding a sharded pin fails when any part of it cannot be read: cidsFromMetaPin and unpinClusterDag return no nil error on a path where a callee's error was tested non-nil (a partial list unpins the root and orphans the shards)", Run: r049})
	register(&Rule{ID: "R05.9", Props: []string{"C05", "C06"}, Floor: 1, Title: "a recover round looks at every listed item: RecoverAll hands each entry of the listing to recoverWithPinInfo under the loop's own condition only (which statuses need action is decided there, where `unexpectedly_unpinned` counts)", Run: r059})
	register(&Rule{ID: "R06.11", Props: []string{"C06", "C05", "C18"}, Floor: 1, Title: "a loop that collects pointers collects distinct ones: no append inside a loop takes the address of a variable that lives outside the loop (every entry would describe the last element)", Run: r0611})
	register(&Rule{ID: "R09.12", Props: []string{"C09", "C10"}, Floor: 1, Title: "CheckAll asks FailedMetric about every latest metric: the healthy answer is what re-arms the alert for that peer, so a test in front of it loses the second failure of a peer that recovered in between", Run: r0912})
	register(&Rule{ID: "R10.10", Props: []string{"C10", "C04", "C03"}, Floor: 2, Title: "only meta pins bypass allocation: in Cluster.pin every LogPin is reached over the allocation step (allocate() or preset allocations) or over the `Type == MetaType` edge", Run: r1010})
	register(&Rule{ID: "R12.7", Props: []string{"C12"}, Floor: 1, Title: "the proxy names the object the client named: no hijack handler obtains a CID from path.SplitAbsPath while dropping the rest of the path", Run: r127})
	register(&Rule{ID: "R13.12", Props: []string{"C13", "C11"}, Floor: 10, Title: "the client sends every add parameter: each Set in AddParams.ToQueryString stands under no test (the receiving side fills absent keys with defaults that depend on other keys, e.g. raw-leaves on cid-version)", Run: r1312})
	register(&Rule{ID: "R14.9", Props: []string{"C14", "C01", "C17"}, Floor: 1, Title: "the shutdown snapshot is attempted even when waiting for updates timed out: in snapshotOnShutdown no return is reached from the WaitForUpdates error edge without a Snapshot call", Run: r149})
	register(&Rule{ID: "R15.17", Props: []string{"C15", "C07"}, Floor: 1, Title: "crdt toJSONConfig writes the trust-all marker `*` only for TrustAll: an empty trusted_peers list (trust nobody) is saved as an empty list", Run: r1517})
	register(&Rule{ID: "R16.9", Props: []string{"C16", "C13"}, Floor: 3, Title: "pin depth to pin/add arguments: pinArgs traced for depths -1, 0 and 2 gives recursive=true, recursive=false, recursive=true&max-depth=2", Run: r169})
	register(&Rule{ID: "R17.9", Props: []string{"C17", "C14"}, Floor: 3, Title: "a component that reports a clean shutdown is marked shut down: every Shutdown method of a type with a `shutdown` flag sets it on every path that returns nil (Clean refuses to run on a component that is not shut down: a removed peer would keep its raft data)", Run: r179})
}

// ---------------------------------------------------------------------

func r018(c *Ctx, r *R) {
	n := 0
	c.P.RepoFuncs(func(f *ssa.Function) {
		if f.Pkg == nil || !strings.HasSuffix(f.Pkg.Pkg.Path(), "consensus/raft") {
			return
		}
		instrs(f, func(i ssa.Instruction) {
			st, ok := i.(*ssa.Store)
			if !ok {
				return
			}
			fl, _ := fieldOfAddrValue(st.Addr)
			if fl == nil || fl.Pkg() == nil || !strings.HasSuffix(fl.Pkg().Path(), "hashicorp/raft") {
				return
			}
			n++
			if fl.Name() != "NoSnapshotRestoreOnStart" {
				return
			}
			k, isK := constOf(st.Val)
			r.Check(isK && k != nil && !boolVal(k), "snapshot-restore-on-start:"+f.Name(), st.Pos(), "snapshot restore on start is left enabled", f.Name()+" sets hashicorp/raft's NoSnapshotRestoreOnStart: the datastore given to raft is a fresh one at every start, raft skips fsm.Restore but takes the snapshot's index as applied, so a restarted peer serves an empty pinset plus whatever is committed afterwards")
		})
	})
	if n == 0 {
		r.Und("snapshot-restore-on-start", token.NoPos, "consensus/raft writes no hashicorp/raft option: shape not recognised")
	} else {
		r.OK("snapshot-restore-on-start", token.NoPos, "%d writes of hashicorp/raft options examined, none disables the restore", n)
	}
}

// inPlaceFilterAppends: appends in f whose destination derives from a
// zero-length re-slice (`x[:0]`) of a slice loaded from a struct field or
// received as a parameter.
func inPlaceFilterAppends(f *ssa.Function) []ssa.CallInstruction {
	var out []ssa.CallInstruction
	for _, ci := range callsIn(f) {
		if callName(ci.Common()) != "builtin.append" {
			continue
		}
		seen := map[ssa.Value]bool{}
		var shared func(v ssa.Value, depth int) bool
		shared = func(v ssa.Value, depth int) bool {
			if v == nil || seen[v] || depth > 10 {
				return false
			}
			seen[v] = true
			switch x := v.(type) {
			case *ssa.Phi:
				for _, e := range x.Edges {
					if shared(e, depth+1) {
						return true
					}
				}
			case *ssa.Call:
				if callName(x.Common()) == "builtin.append" {
					return shared(x.Common().Args[0], depth+1)
				}
			case *ssa.Slice:
				if x.Low != nil {
					if k, ok := constInt(x.Low); !ok || k != 0 {
						return false
					}
				}
				if k, ok := constInt(x.High); x.High == nil || !ok || k != 0 {
					return false
				}
				base := x.X
				if _, isP := base.(*ssa.Parameter); isP {
					return true
				}
				if fl, _ := fieldLoad(base); fl != nil {
					return true
				}
			}
			return false
		}
		if shared(ci.Common().Args[0], 0) {
			out = append(out, ci)
		}
	}
	return out
}

func r037(c *Ctx, r *R) {
	if f := c.fn(r, "adder", "BlockAdder.Add"); f != nil {
		n := 0
		for _, ci := range callsIn(f) {
			if callName(ci.Common()) == "builtin.append" {
				n++
			}
		}
		if n == 0 {
			r.Und("inplace-filter:BlockAdder.Add", f.Pos(), "BlockAdder.Add builds no list of successful destinations: shape not recognised")
		} else {
			r.Check(len(inPlaceFilterAppends(f)) == 0, "inplace-filter:BlockAdder.Add", f.Pos(), "the successful destinations are collected in a list of their own", "BlockAdder.Add filters its destinations in place (append onto dests[:0]): the slice is the one BlockAllocate returned and the DAG service later submits as the pin's allocations, so after one failed destination the pin lists a peer twice and drops another")
		}
	}
	c.P.RepoFuncs(func(f *ssa.Function) {
		if f.Pkg == nil || strings.HasPrefix(f.Pkg.Pkg.Path(), ModPath+"/test") || f.Name() == "Add" && strings.HasSuffix(f.Pkg.Pkg.Path(), "/adder") {
			return
		}
		for _, ci := range inPlaceFilterAppends(f) {
			r.Bad("inplace-filter:"+f.String(), ci.Pos(), "%s appends onto a zero-length re-slice of a slice it was handed (a field or a parameter): the elements are overwritten for every other holder of that slice", f.Name())
		}
	})
}

// nilUnderTestedError: the leaves of f's error result that are a literal
// nil although a callee's error was tested non-nil on the way.
func nilUnderTestedError(f *ssa.Function) (bad []RetLeaf, n int) {
	idx := f.Signature.Results().Len() - 1
	if idx < 0 || !isErrorType(f.Signature.Results().At(idx).Type()) {
		return nil, 0
	}
	isCallErr := func(v ssa.Value) bool {
		call, _ := originCallLocal(v)
		return call != nil && isErrorType(v.Type())
	}
	for _, lf := range returnLeaves(f, idx) {
		n++
		if !isNilConst(lf.Val) {
			continue
		}
		if lf.GuardedBy(func(g Guard) bool { return !g.Derived && gNil(g, true, isCallErr) }) {
			// the end of a stream is not a failure: the error was found
			// to be io.EOF on this path
			if lf.GuardedBy(func(g Guard) bool {
				b, ok := g.Cond.(*ssa.BinOp)
				if !ok || (b.Op == token.EQL) != g.Branch || (b.Op != token.EQL && b.Op != token.NEQ) {
					return false
				}
				return isGlobalLoad(b.Y, "EOF") || isGlobalLoad(b.X, "EOF")
			}) {
				continue
			}
			bad = append(bad, lf)
		}
	}
	return bad, n
}

func r049(c *Ctx, r *R) {
	for _, name := range []string{"Cluster.cidsFromMetaPin", "Cluster.unpinClusterDag"} {
		f := c.fn(r, "", name)
		if f == nil {
			continue
		}
		bad, n := nilUnderTestedError(f)
		if n == 0 {
			r.Und("expand-fails:"+name, f.Pos(), "%s returns no error", name)
			continue
		}
		pos := f.Pos()
		if len(bad) > 0 {
			pos = bad[0].Pos
		}
		r.Check(len(bad) == 0, "expand-fails:"+name, pos, "an unreadable part of the sharded pin is an error", name+" returns a nil error where a callee's error was tested non-nil: Unpin of sharded content goes on with a partial list, removes the root and the cluster DAG and leaves every shard pinned with nothing left to unpin them through")
	}
}

func r059(c *Ctx, r *R) {
	f := c.fn(r, "pintracker/stateless", "Tracker.RecoverAll")
	if f == nil {
		return
	}
	n := 0
	for _, dc := range findCallsDeep(f, "stateless.Tracker).recoverWithPinInfo") {
		if loopHeaderOf(dc.Outer.Block()) == nil {
			continue
		}
		n++
		r.Check(onlyLoopGuards(dc.Outer.Block()) && (dc.Inner == dc.Outer || onlyLoopGuards(dc.Inner.Block())), "recoverall:every-item", dc.Inner.Pos(), "every listed item is handed to recoverWithPinInfo", "RecoverAll skips some listed items (a test inside the loop): an item that should be pinned here and is not is listed as unexpectedly_unpinned, which is not one of the *_error statuses, and is never pinned again by a recover round")
	}
	if n == 0 {
		r.Und("recoverall", f.Pos(), "RecoverAll: no loop calling recoverWithPinInfo")
	}
}

func loopHeaderOf(b *ssa.BasicBlock) *ssa.BasicBlock {
	for d := b; d != nil; d = d.Idom() {
		if inNaturalLoop(b, d) {
			return d
		}
	}
	return nil
}

// loopAliasAppends: appends inside a loop whose appended element is the
// address of a local; bad are those whose local is allocated outside the
// loop.
func loopAliasAppends(f *ssa.Function) (bad, all []ssa.CallInstruction) {
	for _, ci := range callsIn(f) {
		if callName(ci.Common()) != "builtin.append" || len(ci.Common().Args) < 2 {
			continue
		}
		h := loopHeaderOf(ci.Block())
		if h == nil {
			continue
		}
		for _, e := range variadicElems(ci.Common().Args[1]) {
			al, ok := e.(*ssa.Alloc)
			if !ok || !al.Heap {
				continue
			}
			all = append(all, ci)
			if al.Block() != h && !inNaturalLoop(al.Block(), h) {
				// written inside the loop, allocated once outside it
				written := false
				for _, st := range storesTo(al) {
					if st.Block() == h || inNaturalLoop(st.Block(), h) {
						written = true
					}
				}
				if written {
					bad = append(bad, ci)
				}
			}
		}
	}
	return bad, all
}

func r0611(c *Ctx, r *R) {
	n := 0
	var fns []*ssa.Function
	c.P.RepoFuncs(func(f *ssa.Function) {
		if f.Pkg != nil && !strings.HasPrefix(f.Pkg.Pkg.Path(), ModPath+"/test") {
			fns = append(fns, f)
		}
	})
	sort.Slice(fns, func(i, j int) bool { return fns[i].Pos() < fns[j].Pos() })
	for _, f := range fns {
		bad, all := loopAliasAppends(f)
		n += len(all)
		isBad := map[ssa.CallInstruction]bool{}
		for _, b := range bad {
			isBad[b] = true
		}
		for _, ci := range all {
			r.Check(!isBad[ci], "distinct-pointers:"+f.String(), ci.Pos(), "the collected pointer is to a variable of the iteration", f.Name()+" appends, in a loop, the address of a variable declared outside the loop: every collected entry points to the same variable and shows the last element (a listing with N operations reports one of them N times)")
		}
	}
	if n == 0 {
		r.Und("distinct-pointers", token.NoPos, "no loop in the repository collects addresses of locals: shape not recognised")
	}
}

func r0912(c *Ctx, r *R) {
	f := c.fn(r, "monitor/metrics", "Checker.CheckAll")
	if f == nil {
		return
	}
	n := 0
	for _, ci := range callsIn(f) {
		if loopHeaderOf(ci.Block()) == nil {
			continue
		}
		direct := nameMatches(callName(ci.Common()), "metrics.Checker).FailedMetric")
		via := false
		if h := ci.Common().StaticCallee(); !direct && h != nil && h.Blocks != nil && h.Pkg == f.Pkg {
			// a helper that asks on every path through it
			for _, in := range findCalls(h, false, "metrics.Checker).FailedMetric") {
				if onEveryPath(in) {
					via = true
				}
			}
		}
		if !direct && !via {
			continue
		}
		n++
		r.Check(onlyLoopGuards(ci.Block()), "checkall:asks-about-every-metric", ci.Pos(), "FailedMetric is asked about every latest metric", "CheckAll asks FailedMetric only about some metrics (a test inside the loop): the healthy answer is what clears the `already alerted` memory, so a peer that failed, recovered and fails again is never reported the second time and its pins are not re-allocated")
	}
	if n == 0 {
		r.Und("checkall", f.Pos(), "CheckAll: no loop asking FailedMetric")
	}
}

func r1010(c *Ctx, r *R) {
	f := c.fn(r, "", "Cluster.pin")
	if f == nil {
		return
	}
	meta := c.constNamed("api", "MetaType")
	isMeta := func(g Guard) bool {
		x, k, tme, isEq := eqConst(g.Cond)
		if !isEq || meta == nil || !constant.Compare(k, token.EQL, meta) || tme != g.Branch {
			return false
		}
		fl, _ := fieldLoad(x)
		return fl != nil && fl.Name() == "Type"
	}
	preset := func(g Guard) bool {
		// len(pin.Allocations) != 0
		x, op, k, ok := cmpIntConst(g.Cond)
		if !ok || k != 0 {
			return false
		}
		lc, _ := originCallLocal(x)
		if lc == nil || callName(lc.Common()) != "builtin.len" {
			return false
		}
		fl, _ := fieldLoad(lc.Common().Args[0])
		if fl == nil || fl.Name() != "Allocations" {
			return false
		}
		switch op {
		case token.EQL, token.LEQ:
			return !g.Branch
		case token.NEQ, token.GTR:
			return g.Branch
		}
		return false
	}
	// the allocation step: a call of allocate(), or of a helper of the
	// package that performs it (which then also holds the preset test)
	var reaches func(h *ssa.Function, depth int) bool
	reaches = func(h *ssa.Function, depth int) bool {
		if h == nil || h.Blocks == nil || depth > 2 || h.Pkg != f.Pkg {
			return false
		}
		for _, ci := range callsIn(h) {
			if nameMatches(callName(ci.Common()), ModPath+".Cluster).allocate") || reaches(ci.Common().StaticCallee(), depth+1) {
				return true
			}
		}
		return false
	}
	allocates := func(b *ssa.BasicBlock) bool {
		for _, i := range b.Instrs {
			if ci, ok := i.(ssa.CallInstruction); ok {
				if nameMatches(callName(ci.Common()), ModPath+".Cluster).allocate") || reaches(ci.Common().StaticCallee(), 0) {
					return true
				}
			}
		}
		return false
	}
	n := 0
	for _, dc := range findCallsDeep(f, "consensus.Component).LogPin", "Consensus).LogPin") {
		if dc.Outer != dc.Inner {
			continue
		}
		n++
		b := dc.Inner.Block()
		ok := mustPass(b, isMeta) || mustPassX(b, preset, allocates)
		r.Check(ok, "logpin:allocated-or-meta", dc.Inner.Pos(), "the pin is committed after the allocation step, or is a meta pin", "Cluster.pin commits a pin without the allocation step on a test other than `Type == MetaType`: shard and cluster-DAG pins re-submitted by repinFromPeer with their allocations cleared are stored with no allocations (pinned everywhere or nowhere) instead of being re-homed")
	}
	if n < 2 {
		r.Und("logpin", f.Pos(), "Cluster.pin: %d LogPin calls found, expected the meta short-cut and the final one", n)
	}
}

func r127(c *Ctx, r *R) {
	sp := c.P.SSAPkg("api/ipfsproxy")
	if sp == nil {
		return
	}
	decodes, n := 0, 0
	c.P.RepoFuncs(func(f *ssa.Function) {
		root := f
		for root.Parent() != nil {
			root = root.Parent()
		}
		if root.Pkg != sp {
			return
		}
		for _, ci := range callsIn(f) {
			name := callName(ci.Common())
			if nameMatches(name, "go-cid.Decode") {
				decodes++
			}
			if !nameMatches(name, "go-path.SplitAbsPath") {
				continue
			}
			n++
			call, _ := ci.(*ssa.Call)
			used := false
			if call != nil {
				for _, ref := range *call.Referrers() {
					if ex, ok := ref.(*ssa.Extract); ok && ex.Index == 1 && len(*ex.Referrers()) > 0 {
						used = true
					}
				}
			}
			r.Check(used, "path-remainder:"+f.Name(), ci.Pos(), "the rest of the path is looked at", f.Name()+" takes the CID out of a path with SplitAbsPath and drops the rest: `pin/ls?arg=/ipfs/<cid>/a/b` is answered for <cid>, an object the client did not name")
		}
	})
	if decodes == 0 && n == 0 {
		r.Und("path-remainder", token.NoPos, "the proxy decodes no CID argument: shape not recognised")
	} else if n == 0 {
		r.OK("path-remainder", token.NoPos, "%d CID arguments decoded with cid.Decode, no path splitting in the proxy", decodes)
	}
}

func r1312(c *Ctx, r *R) {
	f := c.fn(r, "api", "AddParams.ToQueryString")
	if f == nil {
		return
	}
	isErr := func(v ssa.Value) bool { return isErrorType(v.Type()) }
	n := 0
	for _, dc := range findCallsDeep(f, "(net/url.Values).Set") {
		ci := dc.Inner
		args := callArgs(ci.Common())
		var keys []string
		if key, ok := constString(args[0]); ok {
			keys = []string{key}
		} else if ks, _ := constStringsReaching(args[0], ssaClosure(f)); len(ks) > 0 {
			// a loop over a table of (key, value) rows
			for k := range ks {
				keys = append(keys, k)
			}
			sort.Strings(keys)
		}
		uncond := true
		for _, g := range guardsOf(ci.Block()) {
			if g.Derived || gNil(g, false, isErr) {
				continue
			}
			if ex, isEx := stripLocal(g.Cond).(*ssa.Extract); isEx && ex.Index == 0 {
				if _, isN := ex.Tuple.(*ssa.Next); isN {
					continue
				}
			}
			if bo, isB := g.Cond.(*ssa.BinOp); isB && bo.Op == token.LSS && loopHeaderOf(ci.Block()) != nil {
				continue
			}
			uncond = false
		}
		for _, key := range keys {
			n++
			r.Check(uncond, "toquery-always:"+key, ci.Pos(), "`"+key+"` is always sent", "AddParams.ToQueryString sends `"+key+"` only under a test: AddParamsFromQuery fills an absent key with a default that may depend on other keys (raw-leaves follows cid-version), so the value the caller set is replaced on the receiving peer and the content is imported with other parameters than asked")
		}
	}
	if n == 0 {
		r.Und("toquery-always", f.Pos(), "ToQueryString sets no key")
	}
}

func r149(c *Ctx, r *R) {
	f := c.fn(r, "consensus/raft", "raftWrapper.snapshotOnShutdown")
	if f == nil {
		return
	}
	snaps := func(b *ssa.BasicBlock) bool {
		for _, i := range b.Instrs {
			if ci, ok := i.(ssa.CallInstruction); ok && nameMatches(callName(ci.Common()), "raft.raftWrapper).Snapshot") {
				return true
			}
		}
		return false
	}
	isRet := func(b *ssa.BasicBlock) bool {
		_, ok := b.Instrs[len(b.Instrs)-1].(*ssa.Return)
		return ok
	}
	n := 0
	for _, b := range f.Blocks {
		iff, ok := b.Instrs[len(b.Instrs)-1].(*ssa.If)
		if !ok {
			continue
		}
		for _, br := range []bool{true, false} {
			g := Guard{Cond: iff.Cond, Branch: br, If: iff}
			for {
				u, isU := g.Cond.(*ssa.UnOp)
				if !isU || u.Op != token.NOT {
					break
				}
				g.Cond, g.Branch = u.X, !g.Branch
			}
			// directly, or through a boolean helper (`!rw.caughtUp()`)
			waitFailed := func(x Guard) bool {
				return gNil(x, true, func(v ssa.Value) bool {
					call, _ := originCallLocal(v)
					return call != nil && callMatches(call.Common(), "raft.raftWrapper).WaitForUpdates")
				})
			}
			if !establishesX(g, waitFailed, nil) {
				continue
			}
			from := guardEdge(g)
			if from == nil {
				continue
			}
			n++
			r.Check(!reachesAvoiding(from, snaps, isRet), "shutdown-snapshot:after-timeout", iff.Pos(), "a snapshot is attempted although waiting for updates failed", "snapshotOnShutdown gives up without a snapshot when WaitForUpdates times out (an entry past the applied index that cannot commit): the peer stops without saving its applied pinset, the offline state and export are stale, and CleanupRaft finds no snapshot and removes the data without a backup")
		}
	}
	if n == 0 {
		r.Und("shutdown-snapshot", f.Pos(), "snapshotOnShutdown: the test of WaitForUpdates' error was not found")
	}
}

func r1517(c *Ctx, r *R) {
	f := c.fn(r, "consensus/crdt", "Config.toJSONConfig")
	if f == nil {
		return
	}
	trustAll := func(g Guard) bool { return !g.Derived && gField(g, "TrustAll", true) }
	n := 0
	instrsDeep(f, func(i ssa.Instruction) {
		st, ok := i.(*ssa.Store)
		if !ok {
			return
		}
		if s, isK := constString(st.Val); !isK || s != "*" {
			return
		}
		n++
		r.Check(mustPass(st.Block(), trustAll), "trustall-marker:only-for-trustall", st.Pos(), "`*` is written only when TrustAll is set", "crdt toJSONConfig writes `*` into trusted_peers on a path where TrustAll is not set: a configuration that trusts nobody (empty list) is saved, displayed and - through ApplyEnvVars at every start - reloaded as trust-all")
	})
	if n == 0 {
		r.Und("trustall-marker", f.Pos(), "toJSONConfig never writes the `*` marker: shape not recognised")
	}
}

// ssaTrace runs ssaEval over f and reports the blocks it went through
// together with the evaluator (the returned value need not be evaluable).
func ssaTrace(f *ssa.Function, bind func(ssa.Value) (constant.Value, bool), visit func(b *ssa.BasicBlock, eval func(ssa.Value) (constant.Value, bool))) {
	saved := ssaEvalVisit
	ssaEvalVisit = func(g *ssa.Function, b *ssa.BasicBlock, eval func(ssa.Value) (constant.Value, bool)) {
		if g == f {
			visit(b, eval)
		}
	}
	defer func() { ssaEvalVisit = saved }()
	ssaEval(f, bind)
}

func r169(c *Ctx, r *R) {
	f := c.fn(r, "ipfsconn/ipfshttp", "pinArgs")
	if f == nil {
		return
	}
	want := map[int64]map[string]string{
		-1: {"recursive": "true"},
		0:  {"recursive": "false"},
		2:  {"recursive": "true", "max-depth": "2"},
	}
	for _, d := range []int64{-1, 0, 2} {
		got := map[string]string{}
		known := true
		ssaTrace(f, bindParams(f, map[int]constant.Value{0: constant.MakeInt64(d)}), func(b *ssa.BasicBlock, eval func(ssa.Value) (constant.Value, bool)) {
			for _, in := range b.Instrs {
				ci, ok := in.(ssa.CallInstruction)
				if !ok || !nameMatches(callName(ci.Common()), "(net/url.Values).Set", "(net/url.Values).Add") {
					continue
				}
				args := callArgs(ci.Common())
				key, ok := constString(args[0])
				if !ok {
					known = false
					continue
				}
				val, ok := constString(args[1])
				if !ok {
					if call, _ := originCallLocal(args[1]); call != nil {
						switch {
						case nameMatches(callName(call.Common()), "strconv.FormatBool"):
							if k, ok2 := eval(call.Common().Args[0]); ok2 && k.Kind() == constant.Bool {
								val, ok = fmt.Sprint(constant.BoolVal(k)), true
							}
						case nameMatches(callName(call.Common()), "strconv.Itoa", "strconv.FormatInt"):
							if k, ok2 := eval(call.Common().Args[0]); ok2 && k.Kind() == constant.Int {
								val, ok = k.ExactString(), true
							}
						}
					}
				}
				if !ok {
					known = false
					continue
				}
				got[key] = val
			}
		})
		key := fmt.Sprintf("pinargs:%d", d)
		if !known || len(got) == 0 {
			r.Und(key, f.Pos(), "pinArgs(%d): the query could not be traced", d)
			continue
		}
		r.Check(fmt.Sprint(got) == fmt.Sprint(want[d]), key, f.Pos(), fmt.Sprintf("pinArgs(%d) = %v", d, got), fmt.Sprintf("pinArgs(%d) asks the daemon for %v, expected %v: the daemon pins in another mode than the one the pin asks for and answers 200 - Pin reports success, and every later Pin finds the CID `not pinned as asked` and pins again", d, got, want[d]))
	}
}

func r179(c *Ctx, r *R) {
	n := 0
	var fns []*ssa.Function
	c.P.RepoFuncs(func(f *ssa.Function) {
		if f.Name() != "Shutdown" || f.Signature.Recv() == nil || f.Pkg == nil || strings.HasPrefix(f.Pkg.Pkg.Path(), ModPath+"/test") {
			return
		}
		fns = append(fns, f)
	})
	sort.Slice(fns, func(i, j int) bool { return fns[i].Pos() < fns[j].Pos() })
	for _, f := range fns {
		recv := f.Signature.Recv().Type()
		if p, ok := recv.(*types.Pointer); ok {
			recv = p.Elem()
		}
		var flag *types.Var
		for _, name := range []string{"shutdown", "shutdownB"} {
			if fl := fieldByName(recv, name); fl != nil {
				if b, ok := fl.Type().Underlying().(*types.Basic); ok && b.Kind() == types.Bool {
					flag = fl
				}
			}
		}
		idx := f.Signature.Results().Len() - 1
		if flag == nil || idx < 0 || !isErrorType(f.Signature.Results().At(idx).Type()) {
			continue
		}
		sets := func(b *ssa.BasicBlock) bool {
			for _, i := range b.Instrs {
				st, ok := i.(*ssa.Store)
				if !ok {
					continue
				}
				if fl, _ := fieldOfAddrValue(st.Addr); fl == flag {
					if k, isK := constOf(st.Val); isK && k != nil && boolVal(k) {
						return true
					}
				}
			}
			return false
		}
		already := func(g Guard) bool { return !g.Derived && gField(g, flag.Name(), true) }
		ok, nNil := true, 0
		var pos token.Pos = f.Pos()
		for _, lf := range returnLeaves(f, idx) {
			if !isNilConst(lf.Val) || lf.Ret == nil {
				continue
			}
			nNil++
			rb := lf.Ret.Block()
			if sets(rb) || mustPassX(rb, already, sets) {
				continue
			}
			ok = false
			pos = lf.Pos
		}
		if nNil == 0 {
			continue
		}
		n++
		name := strings.TrimPrefix(strings.TrimPrefix(f.String(), "(*"+ModPath+"/"), "(*"+ModPath+".")
		r.Check(ok, "shutdown-marks:"+name, pos, "a nil return follows the store that marks the component shut down", f.String()+" can return nil without setting its `"+flag.Name()+"` flag: the component counts as running, a second Shutdown repeats the work and - for raft - Clean refuses (`not shutdown`), so a removed peer keeps its raft data and pinset")
	}
	if n == 0 {
		r.Und("shutdown-marks", token.NoPos, "no Shutdown method with a shutdown flag found")
	}
}

func init() {
	register(&Rule{ID: "R13.13", Props: []string{"C13", "C08", "C01"}, Floor: 1, Title: "a shard pin refers to the previous shard only when there is one: shard.Flush stores Reference under a test that the previous CID is defined (the address of an undefined CID encodes as an empty string that no decoder accepts: the raft log entry of shard 0 cannot be applied)", Run: r1313})
	register(&Rule{ID: "R01.9", Props: []string{"C01", "C14", "C08"}, Floor: 2, Title: "dsstate.Unmarshal refuses what is not a serialized state before it changes anything: the first Decode precedes every Delete, and every Put is reached only past a test of the entry's key (go-libp2p-raft hands undecodable log entries to Unmarshal as would-be rollbacks)", Run: r019})
}

func r1313(c *Ctx, r *R) {
	f := c.fn(r, "adder/sharding", "shard.Flush")
	if f == nil {
		return
	}
	defined := func(g Guard) bool {
		if gCall(g, true, "go-cid.Cid).Defined") {
			return true
		}
		// prev != cid.Undef / !prev.Equals(cid.Undef)
		return gCall(g, false, "go-cid.Cid).Equals")
	}
	n := 0
	instrsDeep(f, func(i ssa.Instruction) {
		st, ok := i.(*ssa.Store)
		if !ok {
			return
		}
		fl, _ := fieldOfAddrValue(st.Addr)
		if fl == nil || fl.Name() != "Reference" {
			return
		}
		n++
		// a reference built from the `previous shard` parameter
		r.Check(isNilConst(st.Val) || guardedBy(st.Block(), defined), "shard-reference:defined-only", st.Pos(), "the reference to the previous shard is set only when that CID is defined", "shard.Flush stores a reference to the previous shard without testing that there is one: for shard 0 the pin carries the address of cid.Undef, which is encoded as an empty string and cannot be decoded again - in Raft mode the committed log entry is undecodable on every replica and the shard is in no pinset although LogPin succeeded")
	})
	if n == 0 {
		r.Und("shard-reference", f.Pos(), "shard.Flush sets no Reference: shape not recognised")
	}
}

func r019(c *Ctx, r *R) {
	f := c.fn(r, "state/dsstate", "State.Unmarshal")
	if f == nil {
		return
	}
	decs := findCallsDeep(f, "codec.Decoder).Decode")
	for _, ci := range callsIn(f) {
		// a helper of the package that decodes one entry
		if h := ci.Common().StaticCallee(); h != nil && h.Blocks != nil && h.Pkg == f.Pkg && len(findCalls(h, false, "codec.Decoder).Decode")) > 0 {
			decs = append(decs, deepCall{Outer: ci, Inner: ci})
		}
	}
	dels := findCallsDeep(f, "go-datastore.Write).Delete")
	puts := findCallsDeep(f, "go-datastore.Write).Put")
	if len(decs) == 0 || len(dels) == 0 || len(puts) == 0 {
		r.Und("unmarshal", f.Pos(), "Unmarshal: decode, delete or put not found")
		return
	}
	// (i) some Decode precedes every Delete
	okFirst := true
	for _, d := range dels {
		some := false
		for _, dc := range decs {
			if dc.Outer.Parent() == d.Outer.Parent() && dc.Outer != d.Outer && dominatesInstr(dc.Outer, d.Outer) {
				some = true
			}
		}
		if !some {
			okFirst = false
		}
	}
	r.Check(okFirst, "unmarshal:decodes-before-deleting", dels[0].Inner.Pos(), "nothing is deleted before the input was looked at", "dsstate.Unmarshal deletes the existing pins before it has decoded anything: a log entry that go-libp2p-raft tries as a rollback (any entry it cannot decode as an operation) wipes the pinset of every replica")
	// (ii) every Put stands behind a test of the entry's key
	keyTested := func(g Guard) bool {
		x, k, _, isEq := eqConst(g.Cond)
		if isEq && k.Kind() == constant.String && constant.StringVal(k) == "" {
			fl, _ := fieldLoad(x)
			return fl != nil && fl.Name() == "Key"
		}
		if y, _, kv, isCmp := cmpIntConst(g.Cond); isCmp && kv == 0 {
			if lc, _ := originCallLocal(y); lc != nil && callName(lc.Common()) == "builtin.len" {
				fl, _ := fieldLoad(lc.Common().Args[0])
				return fl != nil && fl.Name() == "Key"
			}
		}
		return false
	}
	// ... directly, or inside the helper that decodes an entry: the Put
	// runs only where that helper's error was tested nil, and the helper
	// answers nil only past the test
	viaHelper := func(b *ssa.BasicBlock) bool {
		return guardedBy(b, func(g Guard) bool {
			if g.Derived {
				return false
			}
			return gNil(g, false, func(v ssa.Value) bool {
				leaves := phiLeaves(v)
				if len(leaves) == 0 {
					return false
				}
				for _, lf := range leaves {
					call, idx := originCallLocal(lf)
					if call == nil {
						return false
					}
					h := call.Common().StaticCallee()
					if h == nil || h.Blocks == nil || h.Pkg != f.Pkg || idx != h.Signature.Results().Len()-1 {
						return false
					}
					if len(findCalls(h, false, "codec.Decoder).Decode")) == 0 {
						return false
					}
					for _, rl := range returnLeaves(h, idx) {
						if isNilConst(rl.Val) && !rl.GuardedBy(keyTested) && !mustPass(rl.Block, keyTested) {
							return false
						}
					}
				}
				return true
			})
		})
	}
	for _, p := range puts {
		r.Check(mustPass(p.Outer.Block(), keyTested) || viaHelper(p.Outer.Block()), "unmarshal:key-tested", p.Inner.Pos(), "an entry is stored only after its key was tested", "dsstate.Unmarshal stores entries without testing that they have a key: any msgpack map decodes into an entry with an empty key, so input that is no snapshot is accepted and an empty value lands on the namespace key itself (PinGet(cid.Undef) then finds a pin of type 0)")
	}
}

// ---------------------------------------------------------------------
// error discipline, one rule per group of packages (each listed under the
// properties whose code lives there): no function returns a literal nil
// error on a path where a callee's error was tested non-nil, except the
// reviewed sites below (confirmed by reading; one line of reason each).

var swallowReviewed = map[string]string{
	"(*" + ModPath + "/ipfsconn/ipfshttp.Connector).PinLsCid":            "an IPFS error answer to pin/ls means `not pinned`; transport failures (no body) are returned (R16.5)",
	"(*" + ModPath + "/ipfsconn/ipfshttp.Connector).RepoGC":              "io.EOF ends the streamed answer",
	"(*" + ModPath + "/ipfsconn/ipfshttp.Connector).Unpin":               "`not pinned` from the daemon is success for an unpin (R16.4)",
	"(*" + ModPath + "/ipfsconn/ipfshttp.Connector).pinProgress":         "io.EOF ends the progress stream (R16.2)",
	"(*" + ModPath + "/pintracker/stateless.Tracker).Track":              "a failed remote-unpin is recorded on the operation (SetError) and retried by recover",
	"(*" + ModPath + "/pintracker/stateless.Tracker).recoverWithPinInfo": "an item that left the pinset has nothing to re-pin: its status is returned",
	"(*" + ModPath + "/state/dsstate.State).Unmarshal":                   "io.EOF ends the serialized state",
}

type swallowGroup struct {
	id    string
	props []string
	pkgs  []string // package paths relative to the module ("" = root), prefix match with "/..."
	what  string
}

var swallowGroups = []swallowGroup{
	{"R04.10", []string{"C04", "C10"}, []string{""}, "the cluster component"},
	{"R16.10", []string{"C16"}, []string{"ipfsconn/..."}, "the IPFS connector"},
	{"R05.10", []string{"C05", "C06"}, []string{"pintracker/..."}, "the pin tracker"},
	{"R14.10", []string{"C14", "C01", "C17"}, []string{"state/...", "consensus/raft", "cmdutils", "pstoremgr"}, "state, raft, import/export and the peerstore"},
	{"R02.9", []string{"C02"}, []string{"consensus/crdt"}, "the crdt component"},
	{"R13.14", []string{"C13"}, []string{"adder/..."}, "the adders"},
	{"R11.10", []string{"C11"}, []string{"api/rest/..."}, "the REST API and its client"},
	{"R12.8", []string{"C12"}, []string{"api/ipfsproxy"}, "the proxy"},
	{"R09.13", []string{"C09"}, []string{"monitor/..."}, "the monitor"},
}

func init() {
	for _, g := range swallowGroups {
		g := g
		register(&Rule{ID: g.id, Props: g.props, Floor: 1, Title: "error discipline in " + g.what + ": no function answers a nil error on a path where it tested a callee's error non-nil, apart from the reviewed sites (end of a stream, `not pinned` on unpin, an item that left the pinset)", Run: func(c *Ctx, r *R) { rSwallow(c, r, g) }})
	}
}

func rSwallow(c *Ctx, r *R, g swallowGroup) {
	in := func(path string) bool {
		rel := strings.TrimPrefix(strings.TrimPrefix(path, ModPath), "/")
		for _, p := range g.pkgs {
			if strings.HasSuffix(p, "/...") {
				base := strings.TrimSuffix(p, "/...")
				if rel == base || strings.HasPrefix(rel, base+"/") {
					return true
				}
			} else if rel == p {
				return true
			}
		}
		return false
	}
	n := 0
	var fns []*ssa.Function
	c.P.RepoFuncs(func(f *ssa.Function) {
		if f.Pkg != nil && in(f.Pkg.Pkg.Path()) {
			fns = append(fns, f)
		}
	})
	sort.Slice(fns, func(i, j int) bool { return fns[i].Pos() < fns[j].Pos() })
	for _, f := range fns {
		bad, cnt := nilUnderTestedError(f)
		if cnt == 0 {
			continue
		}
		n++
		if len(bad) == 0 {
			continue
		}
		name := f.String()
		// a piece of a reviewed function (a helper with that one caller)
		// is covered by the same review
		for h, depth := f, 0; depth < 3; depth++ {
			if _, ok := swallowReviewed[name]; ok {
				break
			}
			site := singleCallSite[h]
			if site == nil {
				break
			}
			h = site.Parent()
			for h.Parent() != nil {
				h = h.Parent()
			}
			if _, ok := swallowReviewed[h.String()]; ok {
				name = h.String()
			}
		}
		if why, ok := swallowReviewed[name]; ok {
			r.OK("no-swallowed-error:"+name, bad[0].Pos, "reviewed: %s", why)
			continue
		}
		r.Bad("no-swallowed-error:"+name, bad[0].Pos, "%s returns a nil error on a path where it tested a callee's error non-nil: the failure is reported as success to the caller (not one of the reviewed end-of-stream / already-in-that-state cases)", f.Name())
	}
	if n == 0 {
		r.Und("no-swallowed-error", token.NoPos, "no function returning an error found in %v", g.pkgs)
	} else {
		r.OK("no-swallowed-error", token.NoPos, "%d functions returning an error examined", n)
	}
}

// ---------------------------------------------------------------------
// round 8

func init() {
	register(&Rule{ID: "R01.10", Props: []string{"C01", "C02", "C14"}, Floor: 1, Title: "a pin is stored under its whole CID: the datastore key is built from the CID's bytes (version, codec and hash), never from the multihash alone - two CIDs over one hash are two pins", Run: r0110})
	register(&Rule{ID: "R08.9", Props: []string{"C08", "C10", "C14"}, Floor: 2, Title: "slices are built soundly (repository-wide): a loop that accumulates with append appends onto its own accumulator, and nothing appends onto a slice made with a non-zero length (the result would start with that many zero entries)", Run: r089})
	register(&Rule{ID: "R08.10", Props: []string{"C08", "C11"}, Floor: 1, Title: "a callback that decodes records decodes each into a record of its own: no decode call inside a function literal targets a variable of the enclosing function (every invocation would overwrite the previous record, and fields a record omits keep the last one's values)", Run: r0810})
}

func r0110(c *Ctx, r *R) {
	f := c.fn(r, "state/dsstate", "State.key")
	if f == nil {
		return
	}
	bytesCalls, hashCalls := 0, 0
	for g := range ssaClosure(f) {
		for _, ci := range callsIn(g) {
			switch {
			case nameMatches(callName(ci.Common()), "go-cid.Cid).Bytes", "go-cid.Cid).KeyString", "go-cid.Cid).String"):
				bytesCalls++
			case nameMatches(callName(ci.Common()), "go-cid.Cid).Hash"):
				hashCalls++
			}
		}
	}
	r.Check(bytesCalls > 0 && hashCalls == 0, "state-key:whole-cid", f.Pos(), "the state's key is built from the whole CID", "the state's datastore key is built from the CID's multihash (or not from its bytes): a CIDv0 and the CIDv1 over the same hash, or dag-pb and raw over one hash, share one slot - pinning the second overwrites the first and unpinning one removes the other")
}

func r089(c *Ctx, r *R) {
	nAcc, nMake := 0, 0
	var fns []*ssa.Function
	c.P.RepoFuncs(func(f *ssa.Function) {
		if f.Pkg != nil && !strings.HasPrefix(f.Pkg.Pkg.Path(), ModPath+"/test") {
			fns = append(fns, f)
		}
	})
	sort.Slice(fns, func(i, j int) bool { return fns[i].Pos() < fns[j].Pos() })
	for _, f := range fns {
		for _, ci := range callsIn(f) {
			call, ok := ci.(*ssa.Call)
			if !ok || callName(call.Common()) != "builtin.append" {
				continue
			}
			base := call.Common().Args[0]
			// (a) the accumulator of a loop: the append's result flows
			// into a phi of the loop header over the back edge
			if h := loopHeaderOf(call.Block()); h != nil {
				for _, in := range h.Instrs {
					phi, ok := in.(*ssa.Phi)
					if !ok {
						break
					}
					fromBody := false
					for i, e := range phi.Edges {
						if e == ssa.Value(call) && (h.Preds[i] == call.Block() || inNaturalLoop(h.Preds[i], h)) {
							fromBody = true
						}
					}
					if !fromBody {
						continue
					}
					nAcc++
					own := false
					seen := map[ssa.Value]bool{}
					var walk func(v ssa.Value, d int)
					walk = func(v ssa.Value, d int) {
						if v == nil || seen[v] || d > 6 {
							return
						}
						seen[v] = true
						if v == ssa.Value(phi) {
							own = true
							return
						}
						switch x := v.(type) {
						case *ssa.Phi:
							for _, e := range x.Edges {
								walk(e, d+1)
							}
						case *ssa.Slice:
							walk(x.X, d+1)
						case *ssa.Call:
							if callName(x.Common()) == "builtin.append" {
								walk(x.Common().Args[0], d+1)
							}
						}
					}
					walk(base, 0)
					if !own && len(call.Common().Args) == 2 {
						// prepending: append([]T{x}, acc...)
						walk(call.Common().Args[1], 0)
					}
					r.Check(own, "append-own-accumulator:"+f.String(), call.Pos(), "the loop appends onto its own accumulator", f.Name()+" assigns, in a loop, the result of an append onto another slice to its accumulator: every iteration starts again from that other slice and only the last element survives")
				}
			}
			// (b) onto a slice made with a non-zero length
			seen := map[ssa.Value]bool{}
			var mk *ssa.MakeSlice
			var find func(v ssa.Value, d int)
			find = func(v ssa.Value, d int) {
				if v == nil || seen[v] || d > 6 || mk != nil {
					return
				}
				seen[v] = true
				switch x := v.(type) {
				case *ssa.MakeSlice:
					mk = x
				case *ssa.Phi:
					for _, e := range x.Edges {
						find(e, d+1)
					}
				case *ssa.Call:
					if callName(x.Common()) == "builtin.append" {
						// an earlier append: the length question was
						// that call's
						return
					}
				}
			}
			find(base, 0)
			if mk != nil {
				nMake++
				k, isK := constInt(mk.Len)
				if !(isK && k == 0) {
					// reserved slots that are filled by index
					// (`nodes := make([]T, 1, n); ...append...; nodes[0] = x`)
					filled := false
					instrs(f, func(i ssa.Instruction) {
						ia, ok := i.(*ssa.IndexAddr)
						if !ok || ia.Referrers() == nil {
							return
						}
						stored := false
						for _, ref := range *ia.Referrers() {
							if st, ok := ref.(*ssa.Store); ok && st.Addr == ssa.Value(ia) {
								stored = true
							}
						}
						if !stored {
							return
						}
						seen2 := map[ssa.Value]bool{}
						var from func(v ssa.Value, d int) bool
						from = func(v ssa.Value, d int) bool {
							if v == nil || seen2[v] || d > 8 {
								return false
							}
							seen2[v] = true
							switch x := v.(type) {
							case *ssa.MakeSlice:
								return x == mk
							case *ssa.Phi:
								for _, e := range x.Edges {
									if from(e, d+1) {
										return true
									}
								}
							case *ssa.Call:
								if callName(x.Common()) == "builtin.append" {
									return from(x.Common().Args[0], d+1)
								}
							case *ssa.Slice:
								return from(x.X, d+1)
							}
							return false
						}
						if from(ia.X, 0) {
							filled = true
						}
					})
					if filled {
						r.OK("append-onto-empty:"+f.String(), call.Pos(), "the made slice's leading slots are filled by index")
						continue
					}
				}
				r.Check(isK && k == 0, "append-onto-empty:"+f.String(), call.Pos(), "appends start from an empty slice (make with length 0)", f.Name()+" appends onto a slice it made with a non-zero length: the result begins with that many zero entries (empty byte strings, nil pointers) in front of the appended ones")
			}
		}
	}
	if nAcc == 0 || nMake == 0 {
		r.Und("append-soundness", token.NoPos, "found %d loop accumulators and %d appends onto made slices: shape not recognised", nAcc, nMake)
	}
}

func r0810(c *Ctx, r *R) {
	decoders := []string{"encoding/json.Decoder).Decode", "codec.Decoder).Decode", "=encoding/json.Unmarshal", "msgpack.Decoder).Decode"}
	n := 0
	var fns []*ssa.Function
	c.P.RepoFuncs(func(f *ssa.Function) {
		if f.Parent() != nil && f.Pkg != nil && !strings.HasPrefix(f.Pkg.Pkg.Path(), ModPath+"/test") {
			fns = append(fns, f)
		}
	})
	sort.Slice(fns, func(i, j int) bool { return fns[i].Pos() < fns[j].Pos() })
	for _, f := range fns {
		for _, ci := range findCalls(f, false, decoders...) {
			args := ci.Common().Args
			var target ssa.Value
			for i := len(args) - 1; i >= 0; i-- {
				a := args[i]
				if mi, ok := a.(*ssa.MakeInterface); ok {
					a = mi.X
				}
				if _, ok := a.Type().Underlying().(*types.Pointer); ok {
					target = a
					break
				}
			}
			if target == nil {
				continue
			}
			n++
			_, captured := target.(*ssa.FreeVar)
			// a closure that runs once (called in place, or handed to a
			// function that is not a per-record callback) may fill a
			// result variable of its parent: only closures used as the
			// handler of a stream are this rule's business
			streaming := false
			if captured {
				for _, ref := range *f.Referrers() {
					_ = ref
				}
				streaming = closureIsStreamHandler(f)
			}
			r.Check(!(captured && streaming), "callback-decodes-fresh:"+f.String(), ci.Pos(), "the callback decodes into a record of its own (or runs once)", f.Name()+" is called once per record of a stream and decodes each into a variable of the enclosing function: every record overwrites the one before, fields a record omits keep the previous record's values, and a consumer that keeps the pointers sees the last record N times")
		}
	}
	if n == 0 {
		r.Und("callback-decodes-fresh", token.NoPos, "no function literal decodes anything: shape not recognised")
	}
}

// closureIsStreamHandler: the function literal is handed (as a value) to a
// call whose callee - directly, or after passing it on - invokes that
// parameter inside a loop.
func closureIsStreamHandler(f *ssa.Function) bool {
	parent := f.Parent()
	if parent == nil {
		return false
	}
	// prmCalledInLoop: parameter prm of h is invoked in a loop of h, or
	// handed on to a function that does
	var prmCalledInLoop func(h *ssa.Function, prm *ssa.Parameter, depth int) bool
	prmCalledInLoop = func(h *ssa.Function, prm *ssa.Parameter, depth int) bool {
		if h == nil || h.Blocks == nil || depth > 3 {
			return false
		}
		for _, cc := range callsIn(h) {
			if cc.Common().Value == ssa.Value(prm) && !cc.Common().IsInvoke() && loopHeaderOf(cc.Block()) != nil {
				return true
			}
			if g := cc.Common().StaticCallee(); g != nil && g != h {
				for ai, a := range cc.Common().Args {
					if a == ssa.Value(prm) && ai < len(g.Params) && prmCalledInLoop(g, g.Params[ai], depth+1) {
						return true
					}
				}
			}
		}
		return false
	}
	handler := false
	instrs(parent, func(i ssa.Instruction) {
		mc, ok := i.(*ssa.MakeClosure)
		if !ok || mc.Fn != ssa.Value(f) {
			return
		}
		// the closure value, also converted to a named function type
		vals := []ssa.Value{mc}
		for _, ref := range *mc.Referrers() {
			if ct, ok := ref.(*ssa.ChangeType); ok {
				vals = append(vals, ct)
			}
		}
		for _, v := range vals {
			for _, ref := range *v.Referrers() {
				ci, ok := ref.(ssa.CallInstruction)
				if !ok {
					continue
				}
				h := ci.Common().StaticCallee()
				if h == nil || h.Blocks == nil {
					continue
				}
				for ai, a := range ci.Common().Args {
					if a == v && ai < len(h.Params) && prmCalledInLoop(h, h.Params[ai], 0) {
						handler = true
					}
				}
			}
		}
	})
	return handler
}
