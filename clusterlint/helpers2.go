package main

import (
	"go/constant"
	"go/token"
	"go/types"
	"strings"

	"golang.org/x/tools/go/ssa"
)

// eqConst: cond is `x == K` / `x != K` with K a non-nil constant. Returns x,
// K and whether the TRUE branch means equality.
func eqConst(cond ssa.Value) (x ssa.Value, k constant.Value, trueMeansEq bool, ok bool) {
	b, isb := cond.(*ssa.BinOp)
	if !isb || (b.Op != token.EQL && b.Op != token.NEQ) {
		return nil, nil, false, false
	}
	if kv, isk := constOf(b.Y); isk && kv != nil {
		return b.X, kv, b.Op == token.EQL, true
	}
	if kv, isk := constOf(b.X); isk && kv != nil {
		return b.Y, kv, b.Op == token.EQL, true
	}
	return nil, nil, false, false
}

// gEq: the guard establishes sel(x) == k (want=true) or != k (want=false).
func gEq(g Guard, k constant.Value, want bool, sel func(ssa.Value) bool) bool {
	x, kv, tme, ok := eqConst(g.Cond)
	if !ok || !constant.Compare(kv, token.EQL, k) {
		return false
	}
	if (tme == g.Branch) != want {
		return false
	}
	return sel == nil || sel(x)
}

// variadicElems returns the values stored into the backing array of a
// variadic argument slice built at the call site.
func variadicElems(v ssa.Value) []ssa.Value {
	sl, ok := v.(*ssa.Slice)
	if !ok {
		return nil
	}
	al, ok := sl.X.(*ssa.Alloc)
	if !ok || al.Referrers() == nil {
		return nil
	}
	var out []ssa.Value
	for _, ref := range *al.Referrers() {
		ia, ok := ref.(*ssa.IndexAddr)
		if !ok || ia.Referrers() == nil {
			continue
		}
		for _, r2 := range *ia.Referrers() {
			if st, ok := r2.(*ssa.Store); ok && st.Addr == ia {
				out = append(out, st.Val)
			}
		}
	}
	return out
}

// isRepoFn reports whether f is declared in the repository (closures and
// synthetic wrappers are attributed to their parent / object).
func isRepoFn(f *ssa.Function) bool {
	for f.Parent() != nil {
		f = f.Parent()
	}
	if f.Pkg != nil {
		return isRepoPath(f.Pkg.Pkg.Path())
	}
	if o := f.Object(); o != nil && o.Pkg() != nil {
		return isRepoPath(o.Pkg().Path())
	}
	return false
}

func isTestSupportFn(f *ssa.Function) bool {
	for f.Parent() != nil {
		f = f.Parent()
	}
	return f.Pkg != nil && (f.Pkg.Pkg.Path() == ModPath+"/test" || strings.HasPrefix(f.Pkg.Pkg.Path(), ModPath+"/test/"))
}

// constOfNamed looks up a declared constant by name in a repository package.
func (c *Ctx) constNamed(rel, name string) constant.Value {
	pkg := c.P.Pkg(rel)
	if pkg == nil {
		return nil
	}
	if k, ok := pkg.Types.Scope().Lookup(name).(*types.Const); ok {
		return k.Val()
	}
	return nil
}

// mapLookupOf: v is `m[k]` (either the 1- or 2-result form, possibly through
// Extract); returns the Lookup instruction and result index.
func mapLookupOf(v ssa.Value) (*ssa.Lookup, int) {
	switch x := strip(v).(type) {
	case *ssa.Lookup:
		return x, 0
	case *ssa.Extract:
		if l, ok := x.Tuple.(*ssa.Lookup); ok {
			return l, x.Index
		}
	}
	return nil, -1
}

// paramIndex returns the index of v among f's parameters, or -1. For a
// closure free variables are not parameters.
func paramIndex(f *ssa.Function, v ssa.Value) int {
	// v is parameter i of f, directly or as the argument a single-caller
	// helper's parameter stands for (see paramAlias)
	cur := v
	for n := 0; n < 64; n++ {
		cur = stripLocal(cur)
		for i, p := range f.Params {
			if ssa.Value(p) == cur {
				return i
			}
		}
		pp, ok := cur.(*ssa.Parameter)
		if !ok {
			return -1
		}
		a, ok := paramAlias[pp]
		if !ok {
			return -1
		}
		cur = a
	}
	return -1
}

// closuresIn returns the MakeClosure / function values created in f.
func closureFns(f *ssa.Function) []*ssa.Function { return f.AnonFuncs }

// fnOfValue resolves a function-typed value to a function when it is a
// closure, a named function or a bound method.
func fnOfValue(v ssa.Value) *ssa.Function {
	unbound := func(f *ssa.Function) *ssa.Function {
		// a method value (x.m used as a function) is a synthetic $bound
		// wrapper around the method: the method is what matters
		if f.Synthetic != "" && strings.HasSuffix(f.Name(), "$bound") {
			for _, ci := range callsIn(f) {
				if cal := ci.Common().StaticCallee(); cal != nil {
					return cal
				}
			}
		}
		return f
	}
	switch x := strip(v).(type) {
	case *ssa.MakeClosure:
		if f, ok := x.Fn.(*ssa.Function); ok {
			return unbound(f)
		}
	case *ssa.Function:
		return unbound(x)
	}
	return nil
}

// recvOf returns the receiver value of a method call (nil for functions).
func recvOf(cc *ssa.CallCommon) ssa.Value {
	if cc.IsInvoke() {
		return cc.Value
	}
	if f := cc.StaticCallee(); f != nil && f.Signature.Recv() != nil && len(cc.Args) > 0 {
		return cc.Args[0]
	}
	return nil
}

// cmpIntConst: cond compares a value with an integer constant; returned with
// the constant on the right (`0 >= x` is `x <= 0`).
func cmpIntConst(cond ssa.Value) (x ssa.Value, op token.Token, k int64, ok bool) {
	b, isB := cond.(*ssa.BinOp)
	if !isB {
		return nil, 0, 0, false
	}
	switch b.Op {
	case token.EQL, token.NEQ, token.LSS, token.LEQ, token.GTR, token.GEQ:
	default:
		return nil, 0, 0, false
	}
	if kv, isK := constInt(b.Y); isK {
		return b.X, b.Op, kv, true
	}
	if kv, isK := constInt(b.X); isK {
		flip := map[token.Token]token.Token{token.EQL: token.EQL, token.NEQ: token.NEQ, token.LSS: token.GTR, token.LEQ: token.GEQ, token.GTR: token.LSS, token.GEQ: token.LEQ}
		return b.Y, flip[b.Op], kv, true
	}
	return nil, 0, 0, false
}

// signOf: what the guard says about x compared with zero, for an integer x
// that is never negative or for a plain sign test: +1 = x > 0, 0 = x <= 0,
// -1 = nothing recognised.
func signOf(g Guard, isX func(ssa.Value) bool) int {
	x, op, k, ok := cmpIntConst(g.Cond)
	if !ok || !isX(x) {
		return -1
	}
	var posOnTrue bool
	switch {
	case op == token.GTR && k == 0, op == token.GEQ && k == 1:
		posOnTrue = true
	case op == token.LEQ && k == 0, op == token.LSS && k == 1:
		posOnTrue = false
	default:
		return -1
	}
	if posOnTrue == g.Branch {
		return 1
	}
	return 0
}

func isErrorType(t types.Type) bool {
	return types.Identical(t, types.Universe.Lookup("error").Type())
}
