package main

import (
	"fmt"
	"go/constant"
	"go/token"
	"strings"

	"golang.org/x/tools/go/ssa"
)

func init() {
	register(
		&Rule{ID: "R10.1", Props: []string{"C10"}, Floor: 6, Title: "re-pinning happens only when enabled; on alerts only for non-followers, ping alerts, pins allocated to the failed peer, and on the closest peer", Run: r101},
		&Rule{ID: "R10.2", Props: []string{"C10"}, Floor: 3, Title: "repinFromPeer excludes exactly the failed peer and re-pins the listed pin object itself (options preserved) with allocations cleared", Run: r102},
		&Rule{ID: "R10.3", Props: []string{"C10"}, Floor: 3, Title: "the re-pinning paths can never remove a pin", Run: r103},
		&Rule{ID: "R10.4", Props: []string{"C10", "C17"}, Floor: 1, Title: "PeerRemove re-homes the peer's pins before removing it from consensus", Run: r104},
		&Rule{ID: "R10.5", Props: []string{"C10"}, Floor: 4, Title: "expiry sweep: only expired pins, only on the closest peer, never in follower mode; zero expiry never expires", Run: r105},
		&Rule{ID: "R10.6", Props: []string{"C10"}, Floor: 3, Title: "closest-peer test: loses only on a strictly larger distance, against trusted peers other than self and the failed peer", Run: r106},
	)
}

func r101(c *Ctx, r *R) {
	rp := c.fn(r, "", "Cluster.repinFromPeer")
	if rp == nil {
		return
	}
	sites, esc := c.callSitesOf(rp)
	if esc {
		r.Und("repinFromPeer:escapes", rp.Pos(), "repinFromPeer is used as a value")
	}
	for _, s := range sites {
		fn := s.Parent().Name()
		b := s.Block()
		enabled := guardedBy(b, func(g Guard) bool { return gField(g, "DisableRepinning", false) })
		r.Check(enabled, "enabled:"+fn, s.Pos(), "re-pin only when repinning is not disabled", fn+" re-pins although repinning is disabled")
		alloc := guardedBy(b, func(g Guard) bool {
			call, _ := originCall(g.Cond)
			if call == nil || !g.Branch || !nameMatches(callName(call.Common()), ModPath+".containsPeer") {
				return false
			}
			fl, _ := fieldLoad(call.Common().Args[0])
			return fl != nil && fl.Name() == "Allocations"
		})
		r.Check(alloc, "held-by-peer:"+fn, s.Pos(), "only pins allocated to the failed/removed peer are re-pinned", fn+" re-pins pins that the peer did not hold")
		if fn == "alertsHandler" {
			r.Check(guardedBy(b, func(g Guard) bool { return gField(g, "FollowerMode", false) }), "alerts:not-follower", s.Pos(), "followers do not re-pin", "a follower re-pins on alerts")
			ping := guardedBy(b, func(g Guard) bool {
				bo, ok := g.Cond.(*ssa.BinOp)
				if !ok {
					return false
				}
				fl, _ := fieldLoad(bo.X)
				if fl == nil || fl.Name() != "Name" {
					return false
				}
				eq := (bo.Op == token.EQL) == g.Branch
				// compared with the ping metric name
				if eq && isGlobalLoad(bo.Y, "pingMetricName") {
					return true
				}
				ks, isS := constString(bo.Y)
				want := c.constNamed("", "pingMetricName")
				return eq && isS && want != nil && ks == constant.StringVal(want)
			})
			r.Check(ping, "alerts:ping-only", s.Pos(), "only ping alerts trigger re-pinning", "alerts for other metrics trigger re-pinning")
			r.Check(guardedBy(b, func(g Guard) bool { return gCall(g, true, ModPath+".distanceChecker).isClosest") }), "alerts:closest-only", s.Pos(), "only the closest surviving peer re-pins", "every surviving peer re-pins (no closest-peer test): the pin is re-allocated several times")
			// the failed peer is excluded from the distance computation
			for _, d := range findCalls(s.Parent(), false, ModPath+".Cluster).distances") {
				fl, _ := fieldLoad(callArgs(d.Common())[1])
				r.Check(fl != nil && fl.Name() == "Peer", "alerts:distance-excludes-failed", d.Pos(), "the failed peer is excluded from the closest-peer computation", "the failed peer takes part in the closest-peer computation (it may be 'closest' and nobody re-pins)")
			}
		}
	}
	if len(sites) < 2 {
		r.Bad("repin-sites", rp.Pos(), "repinFromPeer has %d call sites (alerts and peer removal expected)", len(sites))
	}
}

func isGlobalLoad(v ssa.Value, name string) bool {
	if u, ok := v.(*ssa.UnOp); ok && u.Op == token.MUL {
		if g, ok := u.X.(*ssa.Global); ok {
			return g.Name() == name
		}
	}
	return false
}

func r102(c *Ctx, r *R) {
	f := c.fn(r, "", "Cluster.repinFromPeer")
	if f == nil {
		return
	}
	ps := findCalls(f, false, ModPath+".Cluster).pin")
	if len(ps) != 1 {
		r.Bad("pin-call", f.Pos(), "repinFromPeer has %d pin() calls", len(ps))
		return
	}
	a := callArgs(ps[0].Common())
	r.Check(paramIndex(f, a[1]) == 3, "same-pin-object", ps[0].Pos(), "the listed pin object itself is re-pinned (all options preserved)", "repinFromPeer re-pins a rebuilt pin, not the stored one: options (name, mode, expiry, metadata, factors) are lost")
	els := variadicElems(a[2])
	r.Check(len(els) == 1 && paramIndex(f, els[0]) == 2, "excludes-failed-peer", ps[0].Pos(), "the exclusion list is exactly the failed peer", "the exclusion list passed to pin() is not [failed peer]: the pin can be re-allocated to the failed peer")
	// allocations cleared before, nothing else written
	var written []string
	cleared := false
	instrs(f, func(i ssa.Instruction) {
		st, ok := i.(*ssa.Store)
		if !ok {
			return
		}
		fa, ok := st.Addr.(*ssa.FieldAddr)
		if !ok {
			return
		}
		root := fa.X
		for {
			if in, ok := root.(*ssa.FieldAddr); ok {
				root = in.X
				continue
			}
			break
		}
		if paramIndex(f, root) != 3 {
			return
		}
		n := fieldOfAddr(fa).Name()
		written = append(written, n)
		if n == "Allocations" && isNilConst(st.Val) && dominatesInstr(st, ps[0]) {
			cleared = true
		}
	})
	r.Check(cleared && len(written) == 1, "allocations-cleared-only", f.Pos(), "only the allocations are reset before re-pinning", fmt.Sprintf("repinFromPeer must reset exactly the allocations (writes: %v, cleared before pin: %v): otherwise nothing is re-allocated or options change", written, cleared))
}

func r103(c *Ctx, r *R) {
	for _, n := range []string{"Cluster.repinFromPeer", "Cluster.vacatePeer", "Cluster.alertsHandler"} {
		f := c.fn(r, "", n)
		if f == nil {
			continue
		}
		path := c.pathTo(f, sinkNamed(ModPath+".Consensus).LogUnpin"), reachOpt{stopAt: isConsensusImpl})
		r.Check(path == nil, "no-unpin:"+n, f.Pos(), n+" cannot reach LogUnpin", n+" can remove a pin: "+strings.Join(path, " -> "))
	}
}

func isConsensusImpl(f *ssa.Function) bool {
	for f.Parent() != nil {
		f = f.Parent()
	}
	if f.Pkg == nil {
		return false
	}
	p := f.Pkg.Pkg.Path()
	return strings.HasPrefix(p, ModPath+"/consensus/")
}

func r104(c *Ctx, r *R) {
	f := c.fn(r, "", "Cluster.PeerRemove")
	if f == nil {
		return
	}
	v := findCalls(f, false, ModPath+".Cluster).vacatePeer")
	rm := findCalls(f, false, ModPath+".Consensus).RmPeer")
	if len(v) != 1 || len(rm) != 1 {
		r.Bad("PeerRemove:calls", f.Pos(), "PeerRemove has %d vacatePeer and %d RmPeer calls", len(v), len(rm))
		return
	}
	samePeer := paramIndex(f, callArgs(v[0].Common())[1]) == 2 && paramIndex(f, callArgs(rm[0].Common())[1]) == 2
	r.Check(dominatesInstr(v[0], rm[0]) && samePeer, "vacate-before-remove", rm[0].Pos(), "the peer's pins are re-homed before it leaves the peerset", "the peer is removed from consensus before its pins are re-homed (a removed follower could no longer submit them)")
}

func r105(c *Ctx, r *R) {
	f := c.fn(r, "", "Cluster.StateSync")
	if f == nil {
		return
	}
	// in StateSync or in a helper extracted from it (whose call-site
	// guards count: see guardsOf)
	var un []ssa.CallInstruction
	for _, dc := range findCallsDeep(f, ModPath+".Cluster).Unpin") {
		un = append(un, dc.Inner)
	}
	if len(un) != 1 {
		r.Bad("sweep:unpin", f.Pos(), "StateSync has %d Unpin calls", len(un))
		return
	}
	b := un[0].Block()
	r.Check(guardedBy(b, func(g Guard) bool { return gCall(g, true, "api.Pin).ExpiredAt") }), "sweep:expired-only", un[0].Pos(), "only expired pins are unpinned", "StateSync unpins pins that are not expired")
	r.Check(guardedBy(b, func(g Guard) bool { return gCall(g, true, ModPath+".distanceChecker).isClosest") }), "sweep:closest-only", un[0].Pos(), "only the closest peer unpins an expired pin", "every peer unpins expired pins (no closest-peer test)")
	r.Check(guardedBy(b, func(g Guard) bool { return gField(g, "FollowerMode", false) }), "sweep:not-follower", un[0].Pos(), "followers skip the sweep", "followers take part in the expiry sweep")
	// unpin the pin under test
	fl, _ := fieldLoad(callArgs(un[0].Common())[1])
	r.Check(fl != nil && fl.Name() == "Cid", "sweep:same-pin", un[0].Pos(), "the expired pin's CID is what is unpinned", "the sweep unpins a CID other than the expired pin's")
	// ExpiredAt
	e := c.fn(r, "api", "Pin.ExpiredAt")
	if e != nil {
		okZero := false
		okBefore := false
		for _, lf := range returnLeaves(e, 0) {
			if k, isK := constOf(lf.Val); isK && (k == nil || !boolVal(k)) {
				okZero = true
			}
			if call, _ := originCall(lf.Val); call != nil && nameMatches(callName(call.Common()), "(time.Time).Before") {
				// ExpireAt.Before(t): receiver is the ExpireAt field, arg the parameter
				a := call.Common().Args
				recvOK := false
				if fl, _ := fieldLoad(a[0]); fl != nil && fl.Name() == "ExpireAt" {
					recvOK = true
				}
				okBefore = recvOK && paramIndex(e, a[1]) == 1
				nz := lf.GuardedBy(func(g Guard) bool { return gCall(g, false, "(time.Time).IsZero") })
				r.Check(nz, "expiredAt:zero-never-expires", lf.Pos, "an unset expiry never expires", "ExpiredAt evaluates Before() for the zero time: every pin without expiry counts as expired and is unpinned")
			}
		}
		r.Check(okZero && okBefore, "expiredAt:shape", e.Pos(), "ExpiredAt = ExpireAt.Before(t) for set expiries, false otherwise", "ExpiredAt is no longer `ExpireAt.Before(t)` (operands swapped?)")
	}
}

func boolVal(k interface{ String() string }) bool { return k.String() == "true" }

func r106(c *Ctx, r *R) {
	f := c.fn(r, "", "distanceChecker.isClosest")
	if f != nil {
		for _, lf := range returnLeaves(f, 0) {
			k, isK := constOf(lf.Val)
			if !isK {
				r.Und("isClosest:return", lf.Pos, "non-constant return")
				continue
			}
			if k != nil && boolVal(k) {
				continue
			}
			ok := lf.GuardedBy(func(g Guard) bool {
				// "my distance is strictly larger than the other peer's", with
				// the operands of bytes.Compare in either order and the
				// comparison with 0/±1 in any spelling
				x, op, kk, isCmp := cmpIntConst(g.Cond)
				if !isCmp {
					return false
				}
				call, _ := originCall(x)
				if call == nil || !nameMatches(callName(call.Common()), "=bytes.Compare") {
					return false
				}
				a := call.Common().Args
				mine0, mine1 := flowsFromField(a[0], "local"), flowsFromField(a[1], "local")
				if mine0 == mine1 {
					return false
				}
				// the result is positive (mine first) / negative (mine second)
				var holdsOnTrue, known bool
				switch {
				case op == token.GTR && kk == 0, op == token.GEQ && kk == 1:
					holdsOnTrue, known = true, true // result > 0
				case op == token.LEQ && kk == 0, op == token.LSS && kk == 1:
					holdsOnTrue, known = false, true // result > 0 on the false edge
				}
				if mine0 && known {
					return holdsOnTrue == g.Branch
				}
				known = false
				switch {
				case op == token.LSS && kk == 0, op == token.LEQ && kk == -1:
					holdsOnTrue, known = true, true // result < 0
				case op == token.GEQ && kk == 0, op == token.GTR && kk == -1:
					holdsOnTrue, known = false, true
				}
				if mine1 && known {
					return holdsOnTrue == g.Branch
				}
				return false
			})
			r.Check(ok, "isClosest:strict", lf.Pos, "a peer loses only when its distance is strictly larger", "isClosest returns false on a non-strict comparison: with equal distances nobody is closest (or the comparison is inverted)")
		}
	}
	// the peers the distance checker compares against: built in distances()
	// or in a helper extracted from it (getTrustedPeers)
	g := c.fn(r, "", "Cluster.distances")
	if g != nil {
		n := 0
		for _, dc := range findCallsDeep(g, "=builtin.append") {
			ci := dc.Inner
			n++
			b := ci.Block()
			notSelf, notExcl, trusted := false, false, false
			for _, gd := range guardsOf(b) {
				if bo, ok := gd.Cond.(*ssa.BinOp); ok && (bo.Op == token.EQL || bo.Op == token.NEQ) {
					neq := (bo.Op == token.NEQ) == gd.Branch
					if !neq {
						continue
					}
					for _, side := range []ssa.Value{bo.X, bo.Y} {
						if fl, _ := fieldLoad(side); fl != nil && fl.Name() == "id" {
							notSelf = true
						}
						// the excluded peer is distances' own parameter,
						// directly or forwarded to the helper
						if paramIndex(g, side) == 2 {
							notExcl = true
						}
					}
				}
				if gCall(gd, true, ModPath+".Consensus).IsTrustedPeer") {
					// ... of the very peer that is appended (not of self or
					// of some other value)
					tc, _ := originCall(gd.Cond)
					app := callArgs(ci.Common())
					if tc != nil && len(app) >= 2 {
						targ := tc.Common().Args[len(tc.Common().Args)-1]
						same := false
						// appended element(s): a varargs slice holding the element
						for _, lf := range valueLeaves(app[1], b) {
							if sl, ok := lf.Val.(*ssa.Slice); ok {
								if al, ok := sl.X.(*ssa.Alloc); ok {
									for _, ref := range *al.Referrers() {
										if ia, ok := ref.(*ssa.IndexAddr); ok {
											for _, r2 := range *ia.Referrers() {
												if st, ok := r2.(*ssa.Store); ok && strip(st.Val) == strip(targ) {
													same = true
												}
											}
										}
									}
								}
							}
						}
						trusted = same
					}
				}
			}
			r.Check(notSelf && trusted, "getTrustedPeers:filter", ci.Pos(), "others = trusted members except self",
				fmt.Sprintf("the distance checker's peer list keeps a peer without requiring != self (%v), trusted (%v)", notSelf, trusted))
			r.Check(notExcl, "distances:exclude-forwarded", ci.Pos(), "the excluded (failed) peer passed to distances() is left out of the list", "the peer excluded by the caller of distances() is not left out of the distance checker's peer list")
		}
		if n == 0 {
			r.Und("getTrustedPeers:append", g.Pos(), "the construction of the distance checker's peer list was not recognised")
		}
	}
}
