package main

import (
	"fmt"
	"go/token"
	"runtime/debug"
	"sort"
	"strings"
)

// Status of an obligation.
const (
	Discharged = "discharged"
	Violated   = "violated"
	Undecided  = "undecided"
)

// Obligation is one decided (or undecidable) instance of a rule.
type Obligation struct {
	Rule   string `json:"rule"`
	Key    string `json:"key"` // rule|resolved construct, never a line number
	Pos    string `json:"pos"`
	Status string `json:"status"`
	Detail string `json:"detail"`
}

// Rule is a structural clause of one or more properties.
type Rule struct {
	ID    string
	Props []string
	Title string // the clause decided, in words
	Floor int    // instances confirmed by hand on the pinned tree; fewer => fail
	Tier  string // "" = quick and thorough, "thorough" = thorough only
	Run   func(c *Ctx, r *R)
}

// R collects the obligations of one rule run.
type R struct {
	c    *Ctx
	rule *Rule
	Obs  []Obligation
	seen map[string]int
}

func (r *R) add(status, key string, pos token.Pos, detail string) {
	k := r.rule.ID + "|" + key
	if r.seen == nil {
		r.seen = map[string]int{}
	}
	r.seen[k]++
	if n := r.seen[k]; n > 1 {
		k = fmt.Sprintf("%s#%d", k, n)
	}
	r.Obs = append(r.Obs, Obligation{Rule: r.rule.ID, Key: k, Pos: r.c.P.Pos(pos), Status: status, Detail: detail})
}

// OK records a discharged obligation.
func (r *R) OK(key string, pos token.Pos, format string, a ...interface{}) {
	r.add(Discharged, key, pos, fmt.Sprintf(format, a...))
}

// Bad records a violated obligation.
func (r *R) Bad(key string, pos token.Pos, format string, a ...interface{}) {
	r.add(Violated, key, pos, fmt.Sprintf(format, a...))
}

// Und records an obligation the rule could not decide (fails the check).
func (r *R) Und(key string, pos token.Pos, format string, a ...interface{}) {
	r.add(Undecided, key, pos, fmt.Sprintf(format, a...))
}

// Check records discharged or violated depending on cond.
func (r *R) Check(cond bool, key string, pos token.Pos, okMsg, badMsg string) bool {
	if cond {
		r.OK(key, pos, "%s", okMsg)
	} else {
		r.Bad(key, pos, "%s", badMsg)
	}
	return cond
}

// RuleResult is what a rule produced on one tree.
type RuleResult struct {
	ID          string       `json:"id"`
	Props       []string     `json:"props"`
	Title       string       `json:"title"`
	Floor       int          `json:"floor"`
	Instances   int          `json:"instances"`
	Obligations []Obligation `json:"obligations"`
}

func runRule(c *Ctx, rule *Rule) (res RuleResult) {
	r := &R{c: c, rule: rule}
	func() {
		defer func() {
			if e := recover(); e != nil {
				st := string(debug.Stack())
				// keep the frames of the rule itself
				lines := strings.Split(st, "\n")
				if len(lines) > 24 {
					lines = lines[:24]
				}
				r.Und("rule-panic", token.NoPos, "rule panicked: %v\n%s", e, strings.Join(lines, "\n"))
			}
		}()
		rule.Run(c, r)
	}()
	res = RuleResult{ID: rule.ID, Props: rule.Props, Title: rule.Title, Floor: rule.Floor, Obligations: r.Obs}
	for _, o := range r.Obs {
		if o.Status != Undecided {
			res.Instances++
		}
	}
	if res.Instances < rule.Floor {
		res.Obligations = append(res.Obligations, Obligation{
			Rule: rule.ID, Key: rule.ID + "|instance-floor", Pos: "-", Status: Undecided,
			Detail: fmt.Sprintf("rule matched %d instances < floor %d confirmed on the pinned tree: the rule no longer recognises the constructs it is anchored on", res.Instances, rule.Floor),
		})
	}
	sort.SliceStable(res.Obligations, func(i, j int) bool { return res.Obligations[i].Key < res.Obligations[j].Key })
	return res
}

var allRules []*Rule

func register(rs ...*Rule) { allRules = append(allRules, rs...) }
