package main

import (
	"fmt"
	"go/constant"
	"go/token"
	"sort"

	"golang.org/x/tools/go/ssa"
)

func init() {
	register(
		&Rule{ID: "R09.1", Props: []string{"C09", "C03"}, Floor: 4, Title: "LatestValid reports at most one metric per peer, the window's latest, and only if it is valid and unexpired; Discard = !Valid || Expired; LogMetric stores every metric", Run: r091},
		&Rule{ID: "R09.2", Props: []string{"C09", "C03", "C10"}, Floor: 3, Title: "LatestMetrics returns unfiltered metrics only without a peerset provider; otherwise the peerset-filtered list or nothing; the filter keeps members only", Run: r092},
		&Rule{ID: "R09.3", Props: []string{"C09"}, Floor: 3, Title: "the failure checker reports failure only when there is no metric or the latest metric expired", Run: r093},
		&Rule{ID: "R09.4", Props: []string{"C09"}, Floor: 4, Title: "alert(): after the threshold the stale metric and its counter are forgotten and nothing is sent; otherwise the counter is incremented before sending; all under the checker's lock", Run: r094},
		&Rule{ID: "R09.5", Props: []string{"C09"}, Floor: 4, Title: "publish cadence: ping TTL is a multiple > 1 of the ping interval on which the loop ticks; informer metrics are re-published at TTL divided by a constant > 1 on success and on error", Run: r095},
	)
}

func r091(c *Ctx, r *R) {
	f := c.fn(r, "monitor/metrics", "Store.LatestValid")
	if f != nil {
		n := 0
		for _, ci := range callsInDeep(f) { // also in a helper extracted from LatestValid
			if callName(ci.Common()) != "builtin.append" {
				continue
			}
			n++
			b := ci.Block()
			noErr := guardedBy(b, func(g Guard) bool { return gCallErrNil(g, "metrics.Window).Latest") })
			notDisc := guardedBy(b, func(g Guard) bool { return gCall(g, false, "api.Metric).Discard") })
			r.Check(noErr && notDisc, "latestvalid:guard", ci.Pos(), "a metric is reported only when the window has one and it is not discarded",
				fmt.Sprintf("LatestValid reports metrics without requiring Latest() ok (%v) and !Discard() (%v): invalid or expired metrics are handed to the allocator", noErr, notDisc))
			// appended value is the Latest() result
			els := variadicElems(ci.Common().Args[1])
			isLatest := false
			for _, e := range els {
				if call, idx := originCall(e); call != nil && idx == 0 && nameMatches(callName(call.Common()), "metrics.Window).Latest") {
					isLatest = true
				}
			}
			r.Check(isLatest, "latestvalid:value", ci.Pos(), "what is reported is the window's latest metric", "LatestValid reports something other than Window.Latest()")
			// one append per map entry: the append is in a range over byPeer, not nested in another loop
			loops := 0
			instrsDeep(f, func(in ssa.Instruction) {
				if _, ok := in.(*ssa.Range); ok {
					loops++
				}
			})
			r.Check(loops == 1, "latestvalid:one-per-peer", ci.Pos(), "one pass over the per-peer map: at most one metric per peer", "LatestValid iterates more than the per-peer map (a peer may be reported more than once)")
		}
		if n != 1 {
			r.Bad("latestvalid:append", f.Pos(), "LatestValid has %d append sites (expected 1)", n)
		}
	}
	// Discard = !Valid || Expired()
	d := c.fn(r, "api", "Metric.Discard")
	if d != nil {
		// truth table, evaluated on the SSA whatever way it is written:
		// the Valid field load and the Expired() call are the two inputs
		okTable, why := true, ""
		for _, valid := range []bool{false, true} {
			for _, expired := range []bool{false, true} {
				_, v, ok := ssaEval(d, func(v ssa.Value) (constant.Value, bool) {
					if u, ok := v.(*ssa.UnOp); ok && u.Op == token.MUL {
						if fa, ok := u.X.(*ssa.FieldAddr); ok && fieldOfAddr(fa).Name() == "Valid" {
							return constant.MakeBool(valid), true
						}
					}
					if ci, ok := v.(*ssa.Call); ok && nameMatches(callName(ci.Common()), "api.Metric).Expired") {
						return constant.MakeBool(expired), true
					}
					return nil, false
				})
				want := !valid || expired
				if !ok || v.Kind() != constant.Bool || constant.BoolVal(v) != want {
					okTable = false
					why += fmt.Sprintf(" [Valid=%v Expired()=%v: want %v, evaluated=%v]", valid, expired, want, ok)
				}
			}
		}
		r.Check(okTable, "discard:definition", d.Pos(), "Discard() = !Valid || Expired() on all four input combinations (evaluated on the SSA)", "Metric.Discard no longer is !Valid || Expired():"+why)
	}
	// Expired compares now with the Expire field
	e := c.fn(r, "api", "Metric.Expired")
	if e != nil {
		// now.After(expiry) or expiry.Before(now), with expiry =
		// time.Unix(0, m.Expire) written in place or in a helper method of
		// the same metric
		var isExpiry func(v ssa.Value, fn *ssa.Function, depth int) bool
		isExpiry = func(v ssa.Value, fn *ssa.Function, depth int) bool {
			call, _ := originCall(v)
			if call == nil {
				return false
			}
			if nameMatches(callName(call.Common()), "=time.Unix") {
				fl, base := fieldLoad(call.Common().Args[1])
				sec, isK := constInt(call.Common().Args[0])
				return fl != nil && fl.Name() == "Expire" && isK && sec == 0 && paramIndex(fn, base) == 0
			}
			h := call.Common().StaticCallee()
			if h == nil || depth > 1 || len(h.Blocks) == 0 || !isRepoFn(h) || len(call.Common().Args) == 0 || paramIndex(fn, call.Common().Args[0]) != 0 {
				return false
			}
			n := 0
			for _, lf := range returnLeaves(h, 0) {
				n++
				if !isExpiry(lf.Val, h, depth+1) {
					return false
				}
			}
			return n > 0
		}
		isNow := func(v ssa.Value) bool {
			call, _ := originCall(v)
			return call != nil && nameMatches(callName(call.Common()), "=time.Now")
		}
		ok := false
		for _, lf := range returnLeaves(e, 0) {
			call, _ := originCall(lf.Val)
			if call == nil {
				continue
			}
			x := call.Common().Args
			switch {
			case nameMatches(callName(call.Common()), "(time.Time).After") && isNow(x[0]) && isExpiry(x[1], e, 0):
				ok = true
			case nameMatches(callName(call.Common()), "(time.Time).Before") && isExpiry(x[0], e, 0) && isNow(x[1]):
				ok = true
			}
		}
		r.Check(ok, "expired:definition", e.Pos(), "Expired() = now is after the Expire instant", "Metric.Expired is no longer time.Now().After(time.Unix(0, Expire))")
	}
	// LogMetric stores unconditionally
	lm := c.fn(r, "monitor/pubsubmon", "Monitor.LogMetric")
	if lm != nil {
		adds := findCalls(lm, false, "metrics.Store).Add")
		ok := len(adds) == 1 && onEveryPath(adds[0]) && paramIndex(lm, callArgs(adds[0].Common())[0]) == 2
		r.Check(ok, "logmetric:unconditional", lm.Pos(), "every received metric is stored (an invalid one supersedes an older valid one)", "LogMetric drops some metrics: a peer's older valid metric stays the latest after it reported an invalid one")
	}
	// Store.Add appends to the peer's window for the metric's name
	sa := c.fn(r, "monitor/metrics", "Store.Add")
	if sa != nil {
		adds := findCalls(sa, false, "metrics.Window).Add")
		r.Check(len(adds) == 1 && onEveryPath(adds[0]), "store-add:unconditional", sa.Pos(), "Store.Add always appends to the peer's window", "Store.Add does not always append the metric to the window")
	}
}

func r092(c *Ctx, r *R) {
	f := c.fn(r, "monitor/pubsubmon", "Monitor.LatestMetrics")
	if f == nil {
		return
	}
	for _, lf := range returnLeaves(f, 0) {
		call, _ := originCall(lf.Val)
		switch {
		case call != nil && nameMatches(callName(call.Common()), "metrics.Store).LatestValid"):
			ok := lf.GuardedBy(func(g Guard) bool {
				return gNil(g, false, func(v ssa.Value) bool { fl, _ := fieldLoad(v); return fl != nil && fl.Name() == "peers" })
			})
			r.Check(ok, "latestmetrics:unfiltered", lf.Pos, "unfiltered metrics only when no peerset provider is configured", "LatestMetrics returns unfiltered metrics although a peerset is known: metrics of non-members are used")
			r.Check(paramIndex(f, callArgs(call.Common())[0]) == 2, "latestmetrics:name", call.Pos(), "metrics of the requested name", "LatestMetrics reads metrics of another name")
		case call != nil && nameMatches(callName(call.Common()), "metrics.PeersetFilter"):
			a := call.Common().Args
			lv, _ := originCall(a[0])
			pc, _ := originCall(a[1])
			r.Check(lv != nil && nameMatches(callName(lv.Common()), "metrics.Store).LatestValid") && pc != nil, "latestmetrics:filtered", lf.Pos, "otherwise the latest valid metrics filtered by the current peerset", "PeersetFilter is not applied to (LatestValid, current peers)")
		default:
			// empty slice on peerset error
			if _, ok := lf.Val.(*ssa.Slice); ok {
				r.OK("latestmetrics:empty-on-error", lf.Pos, "no metrics when the peerset cannot be obtained")
				continue
			}
			if _, ok := lf.Val.(*ssa.MakeSlice); ok {
				r.OK("latestmetrics:empty-on-error", lf.Pos, "no metrics when the peerset cannot be obtained")
				continue
			}
			r.Bad("latestmetrics:other", lf.Pos, "LatestMetrics returns %s", lf.Val)
		}
	}
	pf := c.fn(r, "monitor/metrics", "PeersetFilter")
	if pf != nil {
		n := 0
		for _, ci := range callsIn(pf) {
			if callName(ci.Common()) != "builtin.append" {
				continue
			}
			n++
			ok := guardedBy(ci.Block(), func(g Guard) bool {
				l, idx := mapLookupOf(g.Cond)
				if l == nil || idx != 1 || !g.Branch {
					return false
				}
				fl, _ := fieldLoad(l.Index)
				return fl != nil && fl.Name() == "Peer"
			})
			r.Check(ok, "peersetfilter:members-only", ci.Pos(), "a metric is kept only if its peer is in the peerset", "PeersetFilter keeps metrics of peers outside the peerset")
		}
		if n == 0 {
			r.Und("peersetfilter", pf.Pos(), "PeersetFilter shape not recognised")
		}
	}
}

func r093(c *Ctx, r *R) {
	f := c.fn(r, "monitor/metrics", "Checker.failed")
	if f == nil {
		return
	}
	n := 0
	for _, ret := range returnsOf(f) {
		if len(ret.Results) != 4 {
			continue
		}
		v := retResult(ret, 3)
		if k, isK := constOf(v); isK && (k == nil || !boolVal(k)) {
			continue // not failed
		}
		n++
		gs := guardsOf(ret.Block())
		noMetric, expired := false, false
		for _, g := range gs {
			if gNil(g, false, func(x ssa.Value) bool {
				call, _ := originCall(x)
				return call != nil && nameMatches(callName(call.Common()), "metrics.Store).PeerLatest")
			}) {
				noMetric = true
			}
			if gCall(g, true, "api.Metric).Expired") {
				expired = true
			}
		}
		r.Check(noMetric || expired, fmt.Sprintf("failed:only-when-expired#%d", n), ret.Pos(), "failure is reported only without a metric or with an expired latest metric",
			"the checker can report a peer as failed while its latest metric is unexpired (accrual consulted before expiry)")
	}
	if n == 0 {
		r.Und("failed", f.Pos(), "no failure return recognised in Checker.failed")
	}
}

func r094(c *Ctx, r *R) {
	f := c.fn(r, "monitor/metrics", "Checker.alert")
	if f == nil {
		return
	}
	// threshold branch
	var thrIf *ssa.If
	for _, b := range f.Blocks {
		iff, ok := b.Instrs[len(b.Instrs)-1].(*ssa.If)
		if !ok {
			continue
		}
		bo, ok := iff.Cond.(*ssa.BinOp)
		if !ok || (bo.Op != token.GEQ && bo.Op != token.GTR) {
			continue
		}
		if isGlobalLoad(bo.Y, "MaxAlertThreshold") {
			thrIf = iff
		} else if k := c.constNamed("monitor/metrics", "MaxAlertThreshold"); k != nil && isConst(bo.Y, k) {
			thrIf = iff
		}
	}
	if thrIf == nil {
		r.Und("alert:threshold", f.Pos(), "comparison with MaxAlertThreshold not found")
		return
	}
	over, under := thrIf.Block().Succs[0], thrIf.Block().Succs[1]
	callsFrom := func(from *ssa.BasicBlock, stop *ssa.BasicBlock) (names []string, sends bool) {
		seen := map[*ssa.BasicBlock]bool{}
		var walk func(b *ssa.BasicBlock)
		walk = func(b *ssa.BasicBlock) {
			if seen[b] || b == stop {
				return
			}
			seen[b] = true
			for _, i := range b.Instrs {
				switch x := i.(type) {
				case ssa.CallInstruction:
					names = append(names, callName(x.Common()))
				case *ssa.Select:
					for _, st := range x.States {
						if fl, _ := fieldLoad(st.Chan); fl != nil && fl.Name() == "alertCh" {
							sends = true
						}
					}
				case *ssa.Send:
					sends = true
				}
			}
			for _, s := range b.Succs {
				walk(s)
			}
		}
		walk(from)
		return
	}
	names, sends := callsFrom(over, nil)
	hasRemove, hasDelete := false, false
	for _, n := range names {
		if nameMatches(n, "metrics.Store).RemovePeerMetrics") {
			hasRemove = true
		}
	}
	// the counter that was compared is the one deleted
	var ctrMap, ctrKey ssa.Value
	if bo, ok := thrIf.Cond.(*ssa.BinOp); ok {
		if l, _ := mapLookupOf(bo.X); l != nil {
			ctrMap, ctrKey = l.X, l.Index
		}
	}
	{
		seen := map[*ssa.BasicBlock]bool{}
		var walk func(b *ssa.BasicBlock)
		walk = func(b *ssa.BasicBlock) {
			if seen[b] {
				return
			}
			seen[b] = true
			for _, i := range b.Instrs {
				ci, ok := i.(ssa.CallInstruction)
				if !ok {
					continue
				}
				if callName(ci.Common()) == "builtin.delete" {
					a := ci.Common().Args
					if ctrMap != nil && a[0] == ctrMap && a[1] == ctrKey {
						hasDelete = true
					}
					if isCounterDelete(f, ci, func(v ssa.Value) ssa.Value { return v }) {
						hasDelete = true
					}
					continue
				}
				// a helper of the package that does it for the same peer
				// and metric name
				if h := ci.Common().StaticCallee(); h != nil && h.Blocks != nil && h.Pkg == f.Pkg {
					bind := func(v ssa.Value) ssa.Value {
						if k := paramIndexLocal(h, v); k >= 0 && k < len(ci.Common().Args) {
							return ci.Common().Args[k]
						}
						return v
					}
					for _, hc := range callsIn(h) {
						if callName(hc.Common()) == "builtin.delete" && isCounterDelete(f, hc, bind) {
							hasDelete = true
						}
					}
				}
			}
			for _, s := range b.Succs {
				walk(s)
			}
		}
		walk(over)
	}
	r.Check(hasRemove, "alert:forget-metric", thrIf.Pos(), "after the threshold the stale metric is removed", "after the alert threshold the stale metric is not forgotten: the peer is reported again and again")
	r.Check(hasDelete, "alert:reset-counter", thrIf.Pos(), "after the threshold the alert counter is reset", "the alert counter is not reset when the stale metric is forgotten: a later failure of the same peer is never reported")
	r.Check(!sends, "alert:no-send-after-threshold", thrIf.Pos(), "nothing is sent after the threshold", "an alert is sent although the threshold was reached")
	// under threshold: counter incremented before the send
	var inc *ssa.MapUpdate
	var sel ssa.Instruction
	seen := map[*ssa.BasicBlock]bool{}
	var walk func(b *ssa.BasicBlock)
	walk = func(b *ssa.BasicBlock) {
		if seen[b] {
			return
		}
		seen[b] = true
		for _, i := range b.Instrs {
			switch x := i.(type) {
			case *ssa.MapUpdate:
				if bo, ok := x.Value.(*ssa.BinOp); ok && bo.Op == token.ADD {
					inc = x
				}
			case *ssa.Select:
				sel = x
			}
		}
		for _, s := range b.Succs {
			walk(s)
		}
	}
	walk(under)
	r.Check(inc != nil && sel != nil && dominatesInstr(inc, sel), "alert:count-then-send", thrIf.Pos(), "the failure is counted before the alert is sent", "alerts are sent without counting them: the threshold is never reached and the peer is reported forever")
	if sel != nil {
		r.Check(lockHeldAt(sel, "failedPeersMu"), "alert:under-lock", sel.Pos(), "counting and sending happen under failedPeersMu", "alert() manipulates failedPeers without failedPeersMu")
	}
}

func r095(c *Ctx, r *R) {
	// ping TTL
	for _, n := range []string{"Cluster.sendPingMetric", "Cluster.logPingMetric"} {
		f := c.fn(r, "", n)
		if f == nil {
			continue
		}
		// in the function or in a constructor of the ping metric shared by
		// the two (same package, static call)
		var st []ssa.CallInstruction
		var cl []*ssa.Function
		for g := range ssaClosure(f) {
			cl = append(cl, g)
		}
		sort.Slice(cl, func(i, j int) bool { return cl[i].Pos() < cl[j].Pos() })
		for _, g := range cl {
			st = append(st, findCalls(g, false, "api.Metric).SetTTL")...)
		}
		if len(st) != 1 {
			r.Bad("ping-ttl:"+n, f.Pos(), "%s has %d SetTTL calls", n, len(st))
			continue
		}
		arg := callArgs(st[0].Common())[0]
		ok := false
		detail := "ping TTL is not MonitorPingInterval * k"
		if bo, isB := arg.(*ssa.BinOp); isB && bo.Op == token.MUL {
			for _, pr := range [][2]ssa.Value{{bo.X, bo.Y}, {bo.Y, bo.X}} {
				fl, _ := fieldLoad(pr[0])
				k, isK := constInt(pr[1])
				if fl != nil && fl.Name() == "MonitorPingInterval" && isK {
					if k > 1 {
						ok = true
					}
					detail = fmt.Sprintf("ping TTL = MonitorPingInterval * %d", k)
				}
			}
		}
		r.Check(ok, "ping-ttl:"+n, st[0].Pos(), detail+" (> 1 interval)", detail+": with a factor <= 1 every ping expires before the next one is published and a healthy peer looks failed")
	}
	if f := c.fn(r, "", "Cluster.pushPingMetrics"); f != nil {
		ok := false
		for _, ci := range findCalls(f, false, "time.NewTicker") {
			if fl, _ := fieldLoad(ci.Common().Args[0]); fl != nil && fl.Name() == "MonitorPingInterval" {
				ok = true
			}
		}
		r.Check(ok, "ping-ticker", f.Pos(), "pings are published every MonitorPingInterval", "the ping loop does not tick on MonitorPingInterval")
		sp := findCalls(f, false, ModPath+".Cluster).sendPingMetric")
		r.Check(len(sp) == 1 && blockReaches(sp[0].Block(), sp[0].Block()), "ping-loop", f.Pos(), "a ping is sent on every tick", "sendPingMetric is not called on every iteration")
	}
	// informer metrics
	f := c.fn(r, "", "Cluster.pushInformerMetrics")
	if f == nil {
		return
	}
	send := findCalls(f, false, ModPath+".Cluster).sendInformerMetric")
	if len(send) != 1 {
		r.Und("informer:send", f.Pos(), "%d sendInformerMetric calls", len(send))
		return
	}
	sendV := send[0].(ssa.Value)
	nOK, nErr := 0, 0
	var kOK, kErr int64
	for _, ci := range findCalls(f, false, "(*time.Timer).Reset") {
		arg := callArgs(ci.Common())[0]
		bo, isB := arg.(*ssa.BinOp)
		if !isB || bo.Op != token.QUO {
			// timer := NewTimer(0) is not a Reset; any other Reset is unrecognised
			r.Und("informer:reset-shape", ci.Pos(), "timer re-armed with something other than TTL / constant")
			continue
		}
		ttl, _ := originCall(bo.X)
		if ttl == nil || !nameMatches(callName(ttl.Common()), "api.Metric).GetTTL") {
			r.Und("informer:reset-shape", ci.Pos(), "timer re-armed with something other than metric.GetTTL() / constant")
			continue
		}
		isErr := func(g Guard) bool {
			return gNil(g, true, func(v ssa.Value) bool { cc, _ := originCall(v); return ssa.Value(cc) == sendV })
		}
		// the divisor may be chosen per path (one Reset, `4` after an
		// error and `2` otherwise): each constant with the guards of the
		// path it arrives on
		for _, lf := range valueLeaves(bo.Y, ci.Block()) {
			k, isK := constInt(lf.Val)
			if !isK {
				r.Und("informer:reset-shape", ci.Pos(), "timer re-armed with something other than metric.GetTTL() / constant")
				continue
			}
			onErr := guardedBy(ci.Block(), isErr) || lf.GuardedBy(isErr)
			which := "success"
			if onErr {
				which = "error"
				nErr++
				kErr = k
			} else {
				nOK++
				kOK = k
			}
			r.Check(k > 1, "informer:rearm-"+which, ci.Pos(), fmt.Sprintf("after %s the metric is re-published at TTL/%d", which, k), fmt.Sprintf("after %s the informer metric is re-published at TTL/%d: not before the previous one expires", which, k))
		}
	}
	// one effective re-arm per round: after a Reset no other Reset is
	// reachable before the loop waits on the timer again (a later Reset
	// overrides the earlier one: an error path falling through to the
	// success re-arm retries too late)
	var waitBlock *ssa.BasicBlock
	instrs(f, func(i ssa.Instruction) {
		if s, ok := i.(*ssa.Select); ok {
			waitBlock = s.Block()
		}
	})
	if waitBlock == nil {
		r.Und("informer:wait", f.Pos(), "the select waiting on the timer was not found")
		return
	}
	resets := findCalls(f, false, "(*time.Timer).Reset")
	for _, r1 := range resets {
		over := ""
		for _, r2 := range resets {
			if r1 == r2 {
				continue
			}
			if r1.Block() == r2.Block() {
				if dominatesInstr(r1, r2) {
					over = c.P.Pos(r2.Pos())
				}
			} else if blockReachesAvoiding(r1.Block(), r2.Block(), waitBlock) {
				over = c.P.Pos(r2.Pos())
			}
		}
		r.Check(over == "", "informer:single-rearm", r1.Pos(), "this re-arm is the effective one on its path (no later Reset before the next wait)", "this re-arm is overridden by the Reset at "+over+" before the loop waits again: the interval chosen for this path (e.g. the shorter retry after an error) never takes effect")
	}
	if kOK > 0 && kErr > 0 {
		// the success re-arm fires TTL/kOK after a publish; if that attempt
		// fails, the retry comes TTL/kErr later: before expiry iff
		// 1/kOK + 1/kErr < 1
		r.Check(kOK*kErr > kOK+kErr, "informer:retry-before-expiry", f.Pos(), fmt.Sprintf("TTL/%d + TTL/%d < TTL: one failed attempt is retried before the previous metric expires", kOK, kErr), fmt.Sprintf("TTL/%d + TTL/%d >= TTL: after one failed publish the retry arrives only when the previous metric has expired", kOK, kErr))
	}
	r.Check(nOK >= 1 && nErr >= 1, "informer:both-paths", f.Pos(), "the timer is re-armed on success and on error", fmt.Sprintf("the informer timer is not re-armed on both paths (success: %d, error: %d): publishing stops", nOK, nErr))
}

func init() {
	register(&Rule{ID: "R09.6", Props: []string{"C09"}, Floor: 5, Title: "the metric window's writer and reader agree on the ring cursor (Add writes then advances, Latest reads the previous slot); the store files a metric under its own name and peer", Run: r096})
}

func r096(c *Ctx, r *R) {
	add := c.fn(r, "monitor/metrics", "Window.Add")
	lat := c.fn(r, "monitor/metrics", "Window.Latest")
	isWindowLoad := func(v ssa.Value) bool {
		fl, _ := fieldLoad(v)
		return fl != nil && fl.Name() == "window"
	}
	if add != nil {
		var valStore, curStore *ssa.Store
		instrs(add, func(i ssa.Instruction) {
			st, ok := i.(*ssa.Store)
			if !ok {
				return
			}
			fl, base := fieldOfAddrValue(st.Addr)
			if fl == nil {
				return
			}
			if fl.Name() == "Value" && isWindowLoad(base) {
				valStore = st
			}
			if fl.Name() == "window" {
				if call, _ := originCall(st.Val); call != nil && nameMatches(callName(call.Common()), "(*container/ring.Ring).Next") && isWindowLoad(call.Common().Args[0]) {
					curStore = st
				}
			}
		})
		okParam := valStore != nil && paramIndex(add, strip(valStore.Val)) == 1
		r.Check(valStore != nil && curStore != nil && dominatesInstr(valStore, curStore) && okParam, "window:add-writes-then-advances", add.Pos(), "Add stores the metric in the current slot and then advances the cursor by one", "Window.Add no longer writes the given metric into the current slot and then advances the cursor by Next()")
		r.Check(lockHeldAt(curStore, "wMu") && lockHeldAt(valStore, "wMu"), "window:add-locked", add.Pos(), "both steps happen under wMu", "Window.Add updates the ring outside wMu")
	}
	if lat != nil {
		ok := false
		instrs(lat, func(i ssa.Instruction) {
			fa, isFA := i.(*ssa.FieldAddr)
			if !isFA || fieldOfAddr(fa).Name() != "Value" {
				return
			}
			if call, _ := originCall(fa.X); call != nil && nameMatches(callName(call.Common()), "(*container/ring.Ring).Prev") && isWindowLoad(call.Common().Args[0]) {
				ok = true
			}
		})
		r.Check(ok, "window:latest-reads-previous", lat.Pos(), "Latest reads the slot before the cursor (the last one written)", "Window.Latest does not read window.Prev().Value: it returns the oldest or an empty slot instead of the most recent metric")
	}
	sa := c.fn(r, "monitor/metrics", "Store.Add")
	if sa != nil {
		byNameKey, byPeerKey := false, false
		instrs(sa, func(i ssa.Instruction) {
			var key ssa.Value
			switch x := i.(type) {
			case *ssa.Lookup:
				key = x.Index
			case *ssa.MapUpdate:
				key = x.Key
			default:
				return
			}
			fl, base := fieldLoad(key)
			if fl == nil || paramIndex(sa, base) != 1 {
				return
			}
			if fl.Name() == "Name" {
				byNameKey = true
			}
			if fl.Name() == "Peer" {
				byPeerKey = true
			}
		})
		r.Check(byNameKey && byPeerKey, "store:keys", sa.Pos(), "a metric is filed under its own name and its own peer", "Store.Add does not index by the metric's own Name and Peer")
		wa := findCalls(sa, false, "metrics.Window).Add")
		r.Check(len(wa) == 1 && paramIndex(sa, wa[0].Common().Args[1]) == 1, "store:adds-given-metric", sa.Pos(), "the given metric is what is added to the window", "Store.Add adds something other than the given metric")
	}
}

// isCounterDelete: the delete removes the entry of alert's metric-name
// parameter from the per-peer counter map failedPeers[<alert's pid
// parameter>]. resolve maps a value of the frame the delete lives in to a
// value of alert's frame (identity inside alert, parameter binding inside a
// helper).
func isCounterDelete(alert *ssa.Function, del ssa.CallInstruction, resolve func(ssa.Value) ssa.Value) bool {
	a := del.Common().Args
	if len(a) != 2 {
		return false
	}
	// key: alert's metricName (parameter 2 of (mc, pid, metricName))
	if paramIndex(alert, resolve(a[1])) != 2 {
		return false
	}
	// map: failedPeers[pid]
	m := a[0]
	var lk *ssa.Lookup
	switch x := m.(type) {
	case *ssa.Lookup:
		lk = x
	case *ssa.Extract:
		lk, _ = x.Tuple.(*ssa.Lookup)
	case *ssa.Phi:
		// `m, ok := failedPeers[pid]; if !ok { m = make(...); failedPeers[pid] = m }`
		for _, e := range x.Edges {
			switch y := e.(type) {
			case *ssa.Lookup:
				lk = y
			case *ssa.Extract:
				if l2, ok := y.Tuple.(*ssa.Lookup); ok {
					lk = l2
				}
			}
		}
	}
	if lk == nil {
		return false
	}
	fl, _ := fieldLoad(lk.X)
	return fl != nil && fl.Name() == "failedPeers" && paramIndex(alert, resolve(lk.Index)) == 1
}
