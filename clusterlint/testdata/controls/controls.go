// Package controls holds deliberate violations: one per analysis primitive.
// clusterlint analyses this package on every run and refuses to report
// anything if a primitive does not flag its control ("rule found nothing"
// must not be confused with "rule is blind").
package controls

import (
	"errors"
	"net/http"
	"os"
	"sync"
)

type Box struct {
	mu    sync.Mutex
	rw    sync.RWMutex
	items []int
	n     int
	wg    sync.WaitGroup
}

// lockset control: n is read without mu.
func (b *Box) Unlocked() int { return b.n }

// lockset control (negative): n is read under mu.
func (b *Box) Locked() int {
	b.mu.Lock()
	defer b.mu.Unlock()
	return b.n
}

// pairing control: returns with mu held on the early path.
func (b *Box) Leaks(x int) int {
	b.mu.Lock()
	if x > 0 {
		return x
	}
	b.mu.Unlock()
	return 0
}

// relock control: RLock taken again through a callee.
func (b *Box) Outer() int {
	b.rw.RLock()
	defer b.rw.RUnlock()
	return b.inner()
}

func (b *Box) inner() int {
	b.rw.RLock()
	defer b.rw.RUnlock()
	return b.n
}

// self-wait control: a counted goroutine waits on its own group.
func (b *Box) Spawn() {
	b.wg.Add(1)
	go func() {
		defer b.wg.Done()
		b.stop()
	}()
}

func (b *Box) stop() { b.wg.Wait() }

func validate(x int) error {
	if x < 0 {
		return errors.New("negative")
	}
	return nil
}

func sink(x int) {}

// guard control: sink reached without validate succeeding.
func Unguarded(x int) {
	validate(x)
	sink(x)
}

// guard control (negative).
func Guarded(x int) error {
	if err := validate(x); err != nil {
		return err
	}
	sink(x)
	return nil
}

func commit(x int) error { return validate(x) }

// return-provenance control: nil although commit failed.
func Swallows(x int) error {
	if err := commit(x); err != nil {
		return nil
	}
	return nil
}

func operate() error { return nil }

// response-typestate control: operation after an error response, and a
// second response.
func BadHandler(w http.ResponseWriter, r *http.Request) {
	if r.URL.Query().Get("x") == "" {
		http.Error(w, "missing x", http.StatusBadRequest)
	}
	operate()
	w.WriteHeader(http.StatusOK)
}

// response-typestate control (negative).
func GoodHandler(w http.ResponseWriter, r *http.Request) {
	if r.URL.Query().Get("x") == "" {
		http.Error(w, "missing x", http.StatusBadRequest)
		return
	}
	operate()
	w.WriteHeader(http.StatusOK)
}

// who-may-call control: a flat remove of a directory (fails on a non-empty
// one) next to the recursive form.
func RemovesFlat(dir string) { os.Remove(dir) }

// who-may-call control (negative).
func RemovesTree(dir string) { os.RemoveAll(dir) }
