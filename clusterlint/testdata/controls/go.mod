module controls

go 1.21
