#!/usr/bin/env python3
"""Confirms the seeded changes produced by the independent sub-agents and
files them under /verif/seeded/<id>/.

For every /tmp/seed-out/Cxx/k/ (patch.diff, demo_test.go, README.md):
  1. scratch worktree of /repo (outside /repo and /verif), removed afterwards
  2. demo passes on the unchanged tree
  3. patch applies, touched packages build, their existing tests pass
  4. demo fails with the patch
  5. clusterlint run on the patched tree: which obligations fire
and writes patch.diff, demo_test.go, meta.json.
"""
import json, os, re, shutil, subprocess, sys, tempfile
from concurrent.futures import ThreadPoolExecutor

ENV = dict(os.environ, GOFLAGS='-mod=mod', GOPROXY='off', GOSUMDB='off', GOTOOLCHAIN='local', GOWORK='off')
SEEDS = os.environ.get('SEEDS_DIR', '/tmp/seed-out')
OFFSET = int(os.environ.get('ID_OFFSET', '0'))
OUT = '/verif/seeded'
# private copy of the checker so that rebuilding /verif/bin during a long
# confirmation run does not change the verdicts half-way
BIN = f'/verif/bin/clusterlint-confirm-{os.getpid()}'  # beside the real one: the fixture path is relative to it
STATIC_ONLY = os.environ.get('STATIC_ONLY') == '1'
# revision of /repo the seeds were written against (a later fix: commit may touch the same lines)
BASE_REV = os.environ.get('BASE_REV', 'HEAD')
NOBUILD = ('cluster.go', 'allocate.go', 'rpc_api.go', 'util.go', 'cluster_config.go', 'api/rest/', 'cmdutils/', 'cmd/ipfs-cluster-service', 'cmd/ipfs-cluster-follow')


def run(cmd, cwd, timeout=1500):
    p = subprocess.run(cmd, cwd=cwd, env=ENV, shell=True, stdout=subprocess.PIPE, stderr=subprocess.STDOUT, timeout=timeout)
    return p.returncode, p.stdout.decode(errors='replace')


def find_demo_cmd(demo):
    """(-run pattern, package path) from the `go test` line in the demo's header."""
    text = re.sub(r'\\\s*\n\s*(//)?\s*', ' ', demo)
    for line in text.splitlines():
        if 'go test' not in line or '-run' not in line:
            continue
        mm = re.search(r"-run[ =]+'?\"?([^'\"\s]+)", line)
        if not mm:
            continue
        pkg = None
        for tok in line.split():
            tok = tok.strip('`\'"')
            if tok == '.' or re.fullmatch(r'\./[\w\-/\.]*', tok):
                pkg = tok
        if pkg is None:
            pm = re.search(r'^package (\w+)', demo, re.M)
            if pm and pm.group(1) in ('ipfscluster', 'ipfscluster_test'):
                pkg = '.'
        if pkg:
            return mm.group(1), pkg
    return None


def mk_overlay(wt, ovd):
    """Build overlay dropping the quic-transport import lines (the only reason the
    root package, api/rest and cmdutils do not build on this toolchain). Must be
    regenerated after the patch is applied: the overlay replaces the files."""
    for src_f, dst_f in (('clusterhost.go', 'clusterhost.go'), ('api/rest/restapi.go', 'restapi.go')):
        with open(os.path.join(wt, src_f)) as fi, open(os.path.join(ovd, dst_f), 'w') as fo:
            fo.writelines(l for l in fi if 'libp2pquic' not in l)
    json.dump({'Replace': {f'{wt}/clusterhost.go': f'{ovd}/clusterhost.go', f'{wt}/api/rest/restapi.go': f'{ovd}/restapi.go'}}, open(f'{ovd}/overlay.json', 'w'))
    return f'-overlay {ovd}/overlay.json '


def static_verdict(wt, meta, ran):
    rc, o = run(f'{BIN} -repo {wt} -property all -no-evidence -no-cache', '/verif', timeout=900)
    meta['type_checks'] = 'BROKEN' not in o
    det = sorted(set(re.findall(r'^(?:VIOLATED|UNDECIDED) (\S+)', o, re.M)))
    props = sorted(set(re.findall(r'^VIOLATION property=(C\d+)', o, re.M)))
    meta['clusterlint_detects'] = det
    meta['clusterlint_properties_alarmed'] = props
    ran.append('patched: clusterlint -property all -> ' + (', '.join(det) if det else 'NO DETECTION'))


def confirm(prop, k):
    src = f'{SEEDS}/{prop}/{k}'
    sid = f'{prop}-{int(k) + OFFSET}'
    if not os.path.exists(f'{src}/patch.diff'):
        return sid, None
    patch = open(f'{src}/patch.diff').read()
    touched = sorted(set(re.findall(r'^\+\+\+ b/(\S+)', patch, re.M)))
    demo = open(f'{src}/demo_test.go').read() if os.path.exists(f'{src}/demo_test.go') else ''
    meta = {'seed': sid, 'property': prop, 'touched_files': touched, 'origin': 'independent sub-agent given only the property text and a scratch worktree'}
    readme = open(f'{src}/README.md').read() if os.path.exists(f'{src}/README.md') else ''
    meta['needs_to_manifest'] = extract_needs(readme)
    if BASE_REV != 'HEAD':
        meta['base_revision'] = BASE_REV + ' (the patch was written against this revision of /repo; a later fix: commit touches the same lines)'
    wt = tempfile.mkdtemp(prefix=f'cf-{sid}-', dir='/tmp')
    os.rmdir(wt)
    ovd = tempfile.mkdtemp(prefix='ov-', dir='/tmp')
    try:
        rc, out = run(f'git -C /repo worktree add -q --detach {wt} {BASE_REV}', '/')
        if rc != 0:
            meta['error'] = 'worktree: ' + out
            return sid, meta
        if STATIC_ONLY and os.path.exists(f'{OUT}/{sid}/meta.json'):
            meta = json.load(open(f'{OUT}/{sid}/meta.json'))
            ran = [l for l in meta.get('what_was_run', []) if 'clusterlint' not in l]
            rc, o = run(f'git apply {src}/patch.diff', wt)
            static_verdict(wt, meta, ran)
            meta['what_was_run'] = ran
            return sid, meta
        ran = []
        cmd = find_demo_cmd(demo)
        if cmd:
            pat, pkg = cmd
            needs_ov = True  # harmless for packages that build anyway
            overlay = mk_overlay(wt, ovd) if needs_ov else ''
            if needs_ov:
                meta['note'] = 'built and tested through a build overlay that drops the quic-transport import lines of clusterhost.go and api/rest/restapi.go (the only reason the root package, api/rest and cmdutils do not build on this toolchain); the overlay is regenerated after the patch is applied'
            pkgdir = os.path.join(wt, pkg.lstrip('./')) if pkg not in ('.', './') else wt
            demofile = os.path.join(pkgdir, 'zz_seed_demo_test.go')
            shutil.copy(f'{src}/demo_test.go', demofile)
            rc0, o0 = run(f"go test {overlay}-vet=off -count=1 -timeout 1200s -run '{pat}' {pkg}", wt)
            ran.append(f"clean tree: go test -run '{pat}' {pkg} -> {'PASS' if rc0 == 0 else 'FAIL'}")
            meta['demo_passes_without_change'] = rc0 == 0
            if rc0 != 0:
                meta['clean_failure_excerpt'] = o0[-800:]
            os.remove(demofile)
            rc, o = run(f'git apply {src}/patch.diff', wt)
            meta['patch_applies'] = rc == 0
            if rc != 0:
                meta['error'] = 'apply: ' + o[-500:]
                return sid, meta
            if needs_ov:
                overlay = mk_overlay(wt, ovd)
            pkgs = sorted(set(('./' + os.path.dirname(t) + '/') if '/' in t else '.' for t in touched))
            rcb, ob = run(f'go build {overlay}' + ' '.join(pkgs), wt)
            meta['compiles'] = rcb == 0
            ran.append(f"patched: go build {' '.join(pkgs)} -> {'ok' if rcb == 0 else 'FAIL'}")
            rct, ot = run(f'go test {overlay}-vet=off -count=1 -timeout 1500s ' + ' '.join(pkgs), wt, timeout=1800)
            flaky = 'TestWindow_Distribution' in ot and ot.count('--- FAIL') <= 2
            meta['existing_tests_pass_with_change'] = rct == 0 or flaky
            if rct != 0 and not flaky:
                meta['existing_tests_failure_excerpt'] = [l for l in ot.splitlines() if '--- FAIL' in l or l.startswith('FAIL')][:8]
            ran.append(f"patched: go test {' '.join(pkgs)} -> {'PASS' if rct == 0 else ('PASS (known-flaky TestWindow_Distribution only)' if flaky else 'FAIL')}")
            shutil.copy(f'{src}/demo_test.go', demofile)
            rc1, o1 = run(f"go test {overlay}-vet=off -count=1 -timeout 1200s -run '{pat}' {pkg}", wt)
            meta['demo_fails_with_change'] = rc1 != 0
            fail_lines = [l for l in o1.splitlines() if '--- FAIL' in l or 'panic:' in l or l.strip().startswith(os.path.basename(demofile))][:6]
            ran.append(f"patched: go test -run '{pat}' {pkg} -> {'FAIL (as required)' if rc1 != 0 else 'PASS (demo does not detect!)'}")
            meta['demo_failure_excerpt'] = fail_lines
            os.remove(demofile)
            meta['confirmed'] = bool(meta['demo_passes_without_change'] and meta['compiles'] and meta['existing_tests_pass_with_change'] and meta['demo_fails_with_change'])
        else:
            rc, o = run(f'git apply {src}/patch.diff', wt)
            meta['patch_applies'] = rc == 0
            meta['confirmed'] = False
            meta['note'] = 'no runnable `go test -run` command found in the demonstration header'
        static_verdict(wt, meta, ran)
        meta['what_was_run'] = ran
        return sid, meta
    finally:
        subprocess.run(f'git -C /repo worktree remove --force {wt}', shell=True, stdout=subprocess.DEVNULL, stderr=subprocess.DEVNULL)
        shutil.rmtree(wt, ignore_errors=True)
        shutil.rmtree(ovd, ignore_errors=True)


def extract_needs(readme):
    # the paragraph mentioning what is needed to manifest
    for para in re.split(r'\n\s*\n', readme):
        if re.search(r'manifest|trigger|needs|requires', para, re.I):
            return ' '.join(para.split())[:700]
    return ' '.join(readme.split())[:400]


def main():
    only = sys.argv[1:]
    shutil.copy('/verif/bin/clusterlint', BIN)
    os.chmod(BIN, 0o755)
    jobs = []
    for prop in sorted(os.listdir(SEEDS)):
        if not re.fullmatch(r'C\d\d', prop):
            continue
        for k in ('1', '2'):
            if only and f'{prop}-{int(k) + OFFSET}' not in only and prop not in only:
                continue
            jobs.append((prop, k))
    with ThreadPoolExecutor(max_workers=int(os.environ.get('SEED_WORKERS', '3'))) as ex:
        for sid, meta in ex.map(lambda a: confirm(*a), jobs):
            if meta is None:
                continue
            d = f'{OUT}/{sid}'
            os.makedirs(d, exist_ok=True)
            prop, k = sid.split('-')
            k = str(int(k) - OFFSET)
            shutil.copy(f'{SEEDS}/{prop}/{k}/patch.diff', f'{d}/patch.diff')
            if os.path.exists(f'{SEEDS}/{prop}/{k}/demo_test.go'):
                shutil.copy(f'{SEEDS}/{prop}/{k}/demo_test.go', f'{d}/demo_test.go')
            if os.path.exists(f'{SEEDS}/{prop}/{k}/README.md'):
                shutil.copy(f'{SEEDS}/{prop}/{k}/README.md', f'{d}/README.md')
            json.dump(meta, open(f'{d}/meta.json', 'w'), indent=1)
            print(sid, 'confirmed' if meta.get('confirmed') else 'NOT-CONFIRMED', meta.get('clusterlint_detects'), meta.get('error', ''), flush=True)
    os.remove(BIN)


if __name__ == '__main__':
    main()
