#!/usr/bin/env python3
"""Confirms the seeded changes produced by the independent sub-agents and
files them under /verif/seeded/<id>/.

For every /tmp/seed-out/Cxx/k/ (patch.diff, demo_test.go, README.md):
  1. scratch worktree of /repo (outside /repo and /verif), removed afterwards
  2. demo passes on the unchanged tree
  3. patch applies, touched packages build, their existing tests pass
  4. demo fails with the patch
  5. clusterlint run on the patched tree: which obligations fire
and writes patch.diff, demo_test.go, meta.json.
"""
import json, os, re, shutil, subprocess, sys, tempfile
from concurrent.futures import ThreadPoolExecutor

ENV = dict(os.environ, GOFLAGS='-mod=mod', GOPROXY='off', GOSUMDB='off', GOTOOLCHAIN='local', GOWORK='off')
SEEDS = os.environ.get('SEEDS_DIR', '/tmp/seed-out')
OFFSET = int(os.environ.get('ID_OFFSET', '0'))
OUT = '/verif/seeded'
# private copy of the checker so that rebuilding /verif/bin during a long
# confirmation run does not change the verdicts half-way
BIN = f'/tmp/clusterlint-confirm-{os.getpid()}'
NOBUILD = ('cluster.go', 'allocate.go', 'rpc_api.go', 'util.go', 'cluster_config.go', 'api/rest/', 'cmdutils/', 'cmd/ipfs-cluster-service', 'cmd/ipfs-cluster-follow')


def run(cmd, cwd, timeout=1500):
    p = subprocess.run(cmd, cwd=cwd, env=ENV, shell=True, stdout=subprocess.PIPE, stderr=subprocess.STDOUT, timeout=timeout)
    return p.returncode, p.stdout.decode(errors='replace')


def confirm(prop, k):
    src = f'{SEEDS}/{prop}/{k}'
    sid = f'{prop}-{int(k) + OFFSET}'
    if not os.path.exists(f'{src}/patch.diff'):
        return sid, None
    patch = open(f'{src}/patch.diff').read()
    touched = sorted(set(re.findall(r'^\+\+\+ b/(\S+)', patch, re.M)))
    demo = open(f'{src}/demo_test.go').read() if os.path.exists(f'{src}/demo_test.go') else ''
    m = re.search(r"go test[^\n]*-run\s+'?([^'\s]+)'?[^\n]*?\s(\./[\w/\-\.]*)", demo)
    meta = {'seed': sid, 'property': prop, 'touched_files': touched, 'origin': 'independent sub-agent given only the property text and a scratch worktree'}
    readme = open(f'{src}/README.md').read() if os.path.exists(f'{src}/README.md') else ''
    meta['needs_to_manifest'] = extract_needs(readme)
    wt = tempfile.mkdtemp(prefix=f'cf-{sid}-', dir='/tmp')
    os.rmdir(wt)
    try:
        rc, out = run(f'git -C /repo worktree add -q --detach {wt} HEAD', '/')
        if rc != 0:
            meta['error'] = 'worktree: ' + out
            return sid, meta
        ran = []
        nobuild = any(t.startswith(n) or t == n for t in touched for n in NOBUILD)
        overlay = ''
        rootseed = nobuild and all('/' not in t for t in touched)
        if rootseed:
            # the root package builds once the quic transport import lines
            # are dropped through a build overlay (found by the C10 seeding
            # agent); nothing in the worktree is modified
            ovd = tempfile.mkdtemp(prefix='ov-', dir='/tmp')
            for src_f, dst_f in (('clusterhost.go', 'clusterhost.go'), ('api/rest/restapi.go', 'restapi.go')):
                with open(os.path.join(wt, src_f)) as fi, open(os.path.join(ovd, dst_f), 'w') as fo:
                    fo.writelines(l for l in fi if 'libp2pquic' not in l)
            json.dump({'Replace': {f'{wt}/clusterhost.go': f'{ovd}/clusterhost.go', f'{wt}/api/rest/restapi.go': f'{ovd}/restapi.go'}}, open(f'{ovd}/overlay.json', 'w'))
            overlay = f'-overlay {ovd}/overlay.json '
            mm = re.search(r"-run\s+'?([^'\s]+)'?", demo)
            m = None
            if mm:
                class M:  # minimal match-like object
                    def __init__(s, a, b): s.a, s.b = a, b
                    def group(s, i): return (None, s.a, s.b)[i]
                m = M(mm.group(1), '.')
            meta['note'] = 'root package: built and tested through a build overlay that drops the quic-transport import lines of clusterhost.go and api/rest/restapi.go (the only reason it does not build on this toolchain)'
        if m and (not nobuild or rootseed):
            pat, pkg = m.group(1), m.group(2)
            pkgdir = os.path.join(wt, pkg.lstrip('./')) if pkg != '.' else wt
            demofile = os.path.join(pkgdir, 'zz_seed_demo_test.go')
            shutil.copy(f'{src}/demo_test.go', demofile)
            rc0, o0 = run(f"go test {overlay}-vet=off -count=1 -timeout 1200s -run '{pat}' {pkg}", wt)
            ran.append(f"clean tree: go test -run '{pat}' {pkg} -> {'PASS' if rc0 == 0 else 'FAIL'}")
            meta['demo_passes_without_change'] = rc0 == 0
            os.remove(demofile)
            rc, o = run(f'git apply {src}/patch.diff', wt)
            meta['patch_applies'] = rc == 0
            if rc != 0:
                meta['error'] = 'apply: ' + o[-500:]
                return sid, meta
            pkgs = sorted(set(('./' + os.path.dirname(t) + '/') if '/' in t else '.' for t in touched))
            rcb, ob = run(f'go build {overlay}' + ' '.join(pkgs), wt)
            meta['compiles'] = rcb == 0
            ran.append(f"patched: go build {' '.join(pkgs)} -> {'ok' if rcb == 0 else 'FAIL'}")
            rct, ot = run(f'go test {overlay}-vet=off -count=1 -timeout 1500s ' + ' '.join(pkgs), wt, timeout=1800)
            flaky = 'TestWindow_Distribution' in ot and ot.count('--- FAIL') <= 2
            meta['existing_tests_pass_with_change'] = rct == 0 or flaky
            ran.append(f"patched: go test {' '.join(pkgs)} -> {'PASS' if rct == 0 else ('PASS (known-flaky TestWindow_Distribution only)' if flaky else 'FAIL')}")
            shutil.copy(f'{src}/demo_test.go', demofile)
            rc1, o1 = run(f"go test {overlay}-vet=off -count=1 -timeout 1200s -run '{pat}' {pkg}", wt)
            meta['demo_fails_with_change'] = rc1 != 0
            fail_lines = [l for l in o1.splitlines() if '--- FAIL' in l or 'panic:' in l or l.strip().startswith(os.path.basename(demofile))][:6]
            ran.append(f"patched: go test -run '{pat}' {pkg} -> {'FAIL (as required)' if rc1 != 0 else 'PASS (demo does not detect!)'}")
            meta['demo_failure_excerpt'] = fail_lines
            os.remove(demofile)
            meta['confirmed'] = bool(meta['demo_passes_without_change'] and meta['compiles'] and meta['existing_tests_pass_with_change'] and meta['demo_fails_with_change'])
        else:
            rc, o = run(f'git apply {src}/patch.diff', wt)
            meta['patch_applies'] = rc == 0
            meta['confirmed'] = False
            meta['note'] = 'touches a package that does not build with this toolchain (root / api/rest / cmdutils): compile and tests not run here; confirmed by type-checking (clusterlint loader) and by reading'
        # static verdict
        rc, o = run(f'{BIN} -repo {wt} -property all -no-evidence -no-cache', '/verif', timeout=900)
        meta['type_checks'] = 'BROKEN' not in o
        det = sorted(set(re.findall(r'^(?:VIOLATED|UNDECIDED) (\S+)', o, re.M)))
        props = sorted(set(re.findall(r'^VIOLATION property=(C\d+)', o, re.M)))
        meta['clusterlint_detects'] = det
        meta['clusterlint_properties_alarmed'] = props
        ran.append('patched: clusterlint -property all -> ' + (', '.join(det) if det else 'NO DETECTION'))
        meta['what_was_run'] = ran
        return sid, meta
    finally:
        subprocess.run(f'git -C /repo worktree remove --force {wt}', shell=True, stdout=subprocess.DEVNULL, stderr=subprocess.DEVNULL)
        shutil.rmtree(wt, ignore_errors=True)


def extract_needs(readme):
    # the paragraph mentioning what is needed to manifest
    for para in re.split(r'\n\s*\n', readme):
        if re.search(r'manifest|trigger|needs|requires', para, re.I):
            return ' '.join(para.split())[:700]
    return ' '.join(readme.split())[:400]


def main():
    only = sys.argv[1:]
    shutil.copy('/verif/bin/clusterlint', BIN)
    os.chmod(BIN, 0o755)
    jobs = []
    for prop in sorted(os.listdir(SEEDS)):
        if not re.fullmatch(r'C\d\d', prop):
            continue
        for k in ('1', '2'):
            if only and f'{prop}-{int(k) + OFFSET}' not in only and prop not in only:
                continue
            jobs.append((prop, k))
    with ThreadPoolExecutor(max_workers=int(os.environ.get('SEED_WORKERS', '3'))) as ex:
        for sid, meta in ex.map(lambda a: confirm(*a), jobs):
            if meta is None:
                continue
            d = f'{OUT}/{sid}'
            os.makedirs(d, exist_ok=True)
            prop, k = sid.split('-')
            k = str(int(k) - OFFSET)
            shutil.copy(f'{SEEDS}/{prop}/{k}/patch.diff', f'{d}/patch.diff')
            if os.path.exists(f'{SEEDS}/{prop}/{k}/demo_test.go'):
                shutil.copy(f'{SEEDS}/{prop}/{k}/demo_test.go', f'{d}/demo_test.go')
            if os.path.exists(f'{SEEDS}/{prop}/{k}/README.md'):
                shutil.copy(f'{SEEDS}/{prop}/{k}/README.md', f'{d}/README.md')
            json.dump(meta, open(f'{d}/meta.json', 'w'), indent=1)
            print(sid, 'confirmed' if meta.get('confirmed') else 'NOT-CONFIRMED', meta.get('clusterlint_detects'), meta.get('error', ''), flush=True)
    os.remove(BIN)


if __name__ == '__main__':
    main()
