#!/usr/bin/env python3
"""Generates hand-written sensitivity mutants (one still-compiling break per
rule class) as unified diffs under /verif/mutants/. Each entry is
(name, file, old, new); `old` must occur exactly once in the file at /repo's
HEAD. Run after a change of /repo to refresh the patches."""
import difflib, os, sys

REPO = '/repo'
OUT = '/verif/mutants'

M = [
 # C01
 ('C01-hand-tracker-gets-bare-cid', 'consensus/raft/log_op.go',
  '''			"PinTracker",
			"Track",
			pin,''', '''			"PinTracker",
			"Track",
			api.PinCid(pin.Cid),'''),
 ('C01-hand-logop-zero-type', 'consensus/raft/log_op.go', '	LogOpPin = iota + 1', '	LogOpPin = iota'),
 ('C01-hand-commit-swallows-error', 'consensus/raft/consensus.go',
  '''		time.Sleep(cc.config.CommitRetryDelay)
	}
	return finalErr
}

// LogPin submits''', '''		time.Sleep(cc.config.CommitRetryDelay)
	}
	return nil
}

// LogPin submits'''),
 ('C01-hand-snapshot-after-raft-shutdown', 'consensus/raft/raft.go',
  '''	err := rw.snapshotOnShutdown()
	if err != nil {
		errMsgs += err.Error() + ".\\n"
	}

	future := rw.raft.Shutdown()
	err = future.Error()
	if err != nil {
		errMsgs += "could not shutdown raft: " + err.Error() + ".\\n"
	}
''', '''	future := rw.raft.Shutdown()
	err := future.Error()
	if err != nil {
		errMsgs += "could not shutdown raft: " + err.Error() + ".\\n"
	}

	err = rw.snapshotOnShutdown()
	if err != nil {
		errMsgs += err.Error() + ".\\n"
	}
'''),
 # C02
 ('C02-hand-full-queue-returns-nil', 'consensus/crdt/consensus.go',
  '			return fmt.Errorf("error pinning: %w", ErrMaxQueueSizeReached)', '			return nil'),
 ('C02-hand-worker-swaps-add-rm', 'consensus/crdt/consensus.go',
  '			if batchItem.isPin {\n				err = css.batchingState.Add', '			if !batchItem.isPin {\n				err = css.batchingState.Add'),
 ('C02-hand-delete-hook-skips-untrack', 'consensus/crdt/consensus.go',
  '''		pin := api.PinCid(c)

		err = css.rpcClient.CallContext(''', '''		pin := api.PinCid(c)
		if css.config.TrustAll {
			return
		}

		err = css.rpcClient.CallContext('''),
 # C03
 ('C03-hand-exclusion-after-current', 'allocate.go',
  '''		case containsPeer(blacklist, m.Peer):
			// discard blacklisted peers
			continue
		case containsPeer(currentAllocs, m.Peer):
			currentMetrics[m.Peer] = m''', '''		case containsPeer(currentAllocs, m.Peer):
			currentMetrics[m.Peer] = m
		case containsPeer(blacklist, m.Peer):
			// discard blacklisted peers
			continue'''),
 ('C03-hand-blockallocate-skips-setuppin', 'rpc_api.go',
  '''	err = rpcapi.c.setupPin(ctx, in, existing)
	if err != nil {
		return err
	}

	// Return the current peer list.''', '''	// Return the current peer list.'''),
 ('C03-hand-sorter-keeps-discarded', 'allocator/util/metricsorter.go',
  '''		if v.Discard() {
			continue
		}
''', ''),
 ('C03-hand-less-ignores-reverse', 'allocator/util/metricsorter.go',
  '''	if s.reverse {
		return x > y
	}
	return x < y''', '''	if s.reverse {
		return x < y
	}
	return x < y'''),
 # C04
 ('C11-hand-rpc-arg-type-mismatch', 'api/rest/restapi.go',
  '''			"Cluster",
			"Unpin",
			pin,
			&pinObj,''', '''			"Cluster",
			"Unpin",
			pin.Cid,
			&pinObj,'''),
 ('C11-hand-rpc-reply-type-mismatch', 'api/rest/restapi.go',
  '''			var pinInfo types.GlobalPinInfo
			err := api.rpcClient.CallContext(
				r.Context(),
				"",
				"Cluster",
				"Recover",''', '''			var pinInfo types.PinInfo
			err := api.rpcClient.CallContext(
				r.Context(),
				"",
				"Cluster",
				"Recover",'''),
 ('C15-hand-envvars-from-empty-json', 'monitor/pubsubmon/config.go',
  '''func (cfg *Config) ApplyEnvVars() error {
	jcfg := cfg.toJSONConfig()
''', '''func (cfg *Config) ApplyEnvVars() error {
	jcfg := &jsonConfig{}
'''),
 ('C11-hand-status-local-sends-pininfo', 'api/rest/restapi.go',
  '''				"StatusLocal",
				pin.Cid,
				&pinInfo,
			)
			api.sendResponse(w, autoStatus, err, pinInfo.ToGlobal())''', '''				"StatusLocal",
				pin.Cid,
				&pinInfo,
			)
			api.sendResponse(w, autoStatus, err, pinInfo)'''),
 ('C09-hand-disk-valid-despite-error', 'informer/disk/disk.go',
  '''	if err != nil {
		logger.Error(err)
		valid = false
	} else {''', '''	if err != nil {
		logger.Error(err)
	} else {'''),
 ('C09-hand-numpin-no-ttl', 'informer/numpin/numpin.go',
  '''	m.SetTTL(npi.config.MetricTTL)
	return m''', '''	return m'''),
 ('C04-hand-shortcut-ignores-blacklist', 'cluster.go',
  '''	if existing != nil &&
		pin.PinOptions.Equals(&existing.PinOptions) &&
		len(blacklist) == 0 {
		pin = existing
	}''', '''	if existing != nil &&
		pin.PinOptions.Equals(&existing.PinOptions) {
		pin = existing
	}'''),
 ('C04-hand-unpindag-breaks-on-error', 'cluster.go',
  '''		err = c.consensus.LogUnpin(ctx, api.PinCid(ci))
		if err != nil {
			return err
		}
	}
	return nil
}''', '''		err = c.consensus.LogUnpin(ctx, api.PinCid(ci))
		if err != nil {
			logger.Warn(err)
			break
		}
	}
	return nil
}'''),
 ('C04-hand-meta-unpin-ignores-dag-error', 'cluster.go',
  '''		err := c.unpinClusterDag(pin)
		if err != nil {
			return pin, err
		}
		return pin, c.consensus.LogUnpin(ctx, pin)''', '''		if err := c.unpinClusterDag(pin); err != nil {
			logger.Warn(err)
		}
		return pin, c.consensus.LogUnpin(ctx, pin)'''),
 ('C04-hand-metapin-list-without-links', 'cluster.go',
  '''	for _, l := range clusterDagNode.Links() {
		list = append([]cid.Cid{l.Cid}, list...)
	}
''', '''	logger.Debugf("cluster DAG %s has %d links", clusterDagPin.Cid, len(clusterDagNode.Links()))
'''),
 ('C04-hand-unpin-no-follower-guard', 'cluster.go',
  '''	ctx = trace.NewContext(c.ctx, span)

	if c.config.FollowerMode {
		return nil, errFollowerMode
	}

	logger.Info("IPFS cluster unpinning:", h)''', '''	ctx = trace.NewContext(c.ctx, span)

	logger.Info("IPFS cluster unpinning:", h)'''),
 ('C04-hand-equals-ignores-mode', 'api/types.go',
  '''	if po.Mode != po2.Mode {
		return false
	}

''', ''),
 ('C04-hand-setuppin-error-ignored', 'cluster.go',
  '''	err = c.setupPin(ctx, pin, existing)
	if err != nil {
		return pin, false, err
	}
	if pin.Type == api.MetaType {''', '''	err = c.setupPin(ctx, pin, existing)
	if err != nil {
		logger.Warn(err)
	}
	if pin.Type == api.MetaType {'''),
 ('C04-hand-shard-arm-unpins', 'cluster.go',
  '''	case api.ShardType:
		err := "cannot unpin a shard directly. Unpin content root CID instead"
		return pin, errors.New(err)''', '''	case api.ShardType:
		return pin, c.consensus.LogUnpin(ctx, pin)'''),
 ('C04-hand-pinupdate-unpins-source', 'cluster.go',
  '	return existing, c.consensus.LogPin(ctx, existing)\n}', '''	err = c.consensus.LogPin(ctx, existing)
	if err == nil {
		c.consensus.LogUnpin(ctx, api.PinCid(from))
	}
	return existing, err
}'''),
 # C05
 ('C05-hand-track-enqueues-bare-cid', 'pintracker/stateless/stateless.go',
  '	return spt.enqueue(ctx, c, optracker.OperationPin)', '	return spt.enqueue(ctx, api.PinCid(c.Cid), optracker.OperationPin)'),
 ('C05-hand-worker-drops-seterror', 'pintracker/stateless/stateless.go',
  '		op.SetError(err)\n		op.Cancel()\n		return true', '		op.Cancel()\n		return true'),
 ('C05-hand-meta-pins-enqueued', 'pintracker/stateless/stateless.go',
  '''	if c.Type == api.MetaType {
		return nil
	}
''', ''),
 # C06
 ('C06-hand-final-filter-removed', 'pintracker/stateless/stateless.go',
  '''		if pi.Status.Match(filter) {
			pis = append(pis, pi)
		}''', '''		pis = append(pis, pi)'''),
 ('C06-hand-queued-maps-to-pinning', 'pintracker/optracker/operation.go',
  '			return api.TrackerStatusPinQueued', '			return api.TrackerStatusPinned'),
 ('C06-hand-status-says-unpinned', 'pintracker/stateless/stateless.go',
  '		pinInfo.Status = api.TrackerStatusPinError\n		pinInfo.Error = errUnexpectedlyUnpinned.Error()', '		pinInfo.Status = api.TrackerStatusUnpinned\n		pinInfo.Error = errUnexpectedlyUnpinned.Error()'),
 # C07
 ('C07-hand-cluster-pin-trusted', 'rpc_policy.go', '	"Cluster.Pin":                  RPCClosed,', '	"Cluster.Pin":                  RPCTrusted,'),
 ('C07-hand-track-open', 'rpc_policy.go', '	"PinTracker.Track":      RPCClosed,', '	"PinTracker.Track":      RPCOpen,'),
 ('C07-hand-missing-entry-allowed', 'rpc_api.go',
  '''		if !ok {
			return false
		}

		switch endpointType {''', '''		if !ok {
			return true
		}

		switch endpointType {'''),
 ('C07-hand-trusted-branch-true', 'rpc_api.go', '			return c.consensus.IsTrustedPeer(c.ctx, pid)', '			return true'),
 ('C07-hand-validator-returns-true', 'consensus/crdt/consensus.go', '			return trusted\n		},', '			return true\n		},'),
 ('C07-hand-istrusted-default-true', 'consensus/crdt/consensus.go',
  '	_, ok := css.trustedPeers.Load(pid)\n	return ok\n}', '	css.trustedPeers.Load(pid)\n	return true\n}'),
 ('C07-hand-distrust-noop', 'consensus/crdt/consensus.go', '	css.trustedPeers.Delete(pid)\n	return nil', '	return nil'),
 ('C07-hand-new-rpc-method-without-policy', 'rpc_api.go',
  '''// RepoGC performs garbage collection sweep on all peers' repos.''', '''// PinsRaw is a new endpoint without a policy entry.
func (rpcapi *ClusterRPCAPI) PinsRaw(ctx context.Context, in struct{}, out *[]*api.Pin) error {
	return nil
}

// RepoGC performs garbage collection sweep on all peers' repos.'''),
 # C08
 ('C08-hand-allocations-retagged', 'api/types.go',
  '	Allocations []peer.ID `json:"allocations" codec:"a,omitempty"`', '	Allocations []peer.ID `json:"allocations" codec:"n,omitempty"`'),
 ('C08-hand-shardsize-not-restored', 'api/types.go', '	pin.ShardSize = opts.GetShardSize()\n', ''),
 ('C08-hand-direct-field-on-pb', 'api/types.go', '	pin.Name = opts.GetName()', '	pin.Name = opts.Name'),
 ('C08-hand-query-key-renamed', 'api/types.go', '	if v := q.Get("shard-size"); v != "" {', '	if v := q.Get("shardsize"); v != "" {'),
 ('C08-hand-enum-text-renamed', 'api/types.go', '	case "shard-pin":\n		return ShardType', '	case "shardpin":\n		return ShardType'),
 # C09
 ('C09-hand-peerset-error-unfiltered', 'monitor/pubsubmon/pubsubmon.go',
  '	if err != nil {\n		return []*api.Metric{}\n	}\n\n	return metrics.PeersetFilter', '	if err != nil {\n		return latest\n	}\n\n	return metrics.PeersetFilter'),
 ('C09-hand-accrual-before-expiry', 'monitor/metrics/checker.go',
  '''	if !latest.Expired() {
		// Seen healthy: an alert sent for an earlier failure no
		// longer counts, a later failure is a new one.
		mc.resetAlerts(pid, metric)
		return 0.0, nil, 0.0, false
	}
''', ''),
 ('C09-hand-ping-ttl-one-interval', 'cluster.go',
  '	metric.SetTTL(c.config.MonitorPingInterval * 2)\n	return metric, c.monitor.PublishMetric', '	metric.SetTTL(c.config.MonitorPingInterval * 1)\n	return metric, c.monitor.PublishMetric'),
 ('C09-hand-informer-rearm-too-late', 'cluster.go', '		timer.Reset(metric.GetTTL() / 2)', '		timer.Reset(metric.GetTTL() * 2)'),
 # C10
 ('C10-hand-vacate-ignores-disable', 'cluster.go',
  '''	if c.config.DisableRepinning {
		logger.Warnf("repinning is disabled. Will not re-allocate cids from %s", p.Pretty())
		return
	}
''', ''),
 ('C10-hand-empty-exclusion-list', 'cluster.go', '	_, ok, err := c.pin(ctx, pin, []peer.ID{p})', '	_, ok, err := c.pin(ctx, pin, []peer.ID{})'),
 ('C10-hand-rmpeer-before-vacate', 'cluster.go',
  '''	c.vacatePeer(ctx, pid)

	err := c.consensus.RmPeer(ctx, pid)
	if err != nil {
		logger.Error(err)
		return err
	}''', '''	err := c.consensus.RmPeer(ctx, pid)
	if err != nil {
		logger.Error(err)
		return err
	}
	c.vacatePeer(ctx, pid)'''),
 ('C10-hand-sweep-without-closest', 'cluster.go', '		if p.ExpiredAt(timeNow) && distance.isClosest(p.Cid) {', '		if p.ExpiredAt(timeNow) && distance != nil {'),
 # C11
 ('C11-hand-server-without-auth', 'api/rest/restapi.go',
  '''	handler := basicAuthHandler(
		cfg.BasicAuthCredentials,
		cors.New(*cfg.corsOptions()).Handler(router),
	)''', '''	var handler http.Handler = cors.New(*cfg.corsOptions()).Handler(router)
	_ = basicAuthHandler'''),
 ('C11-hand-authorized-on-user-only', 'api/rest/restapi.go', '			if u == username && p == password {', '			if u == username || p == password {'),
 ('C11-hand-client-path-renamed', 'api/rest/client/methods.go', 'fmt.Sprintf("/pins/%s/recover?local=%t", ci.String(), local)', 'fmt.Sprintf("/pin/%s/recover?local=%t", ci.String(), local)'),
 ('C11-hand-no-return-after-400', 'api/rest/restapi.go',
  '''	pid, err := peer.Decode(addInfo.PeerID)
	if err != nil {
		api.sendResponse(w, http.StatusBadRequest, errors.New("error decoding peer_id"), nil)
		return
	}''', '''	pid, err := peer.Decode(addInfo.PeerID)
	if err != nil {
		api.sendResponse(w, http.StatusBadRequest, errors.New("error decoding peer_id"), nil)
	}'''),
 # C12
 ('C12-hand-pinls-reaches-unpin', 'api/ipfsproxy/ipfsproxy.go',
  '''		Path("/pin/ls").
		HandlerFunc(proxy.pinLsHandler).''', '''		Path("/pin/ls").
		HandlerFunc(proxy.unpinHandler).'''),
 ('C12-hand-catchall-removed', 'api/ipfsproxy/ipfsproxy.go', '	router.PathPrefix("/").Handler(reverseProxy)\n', '	_ = reverseProxy\n'),
 ('C12-hand-hijack-continues-after-error', 'api/ipfsproxy/ipfsproxy.go',
  '''	p, err := path.ParsePath(arg)
	if err != nil {
		ipfsErrorResponder(w, "Error parsing IPFS Path: "+err.Error(), -1)
		return
	}''', '''	p, err := path.ParsePath(arg)
	if err != nil {
		ipfsErrorResponder(w, "Error parsing IPFS Path: "+err.Error(), -1)
	}'''),
 # C13
 ('C13-hand-add-error-ignored', 'adder/adder.go',
  '''			if err != nil {
				logger.Error("error adding to cluster: ", err)
				return cid.Undef, err
			}''', '''			if err != nil {
				logger.Error("error adding to cluster: ", err)
			}'''),
 ('C13-hand-finalize-without-allocations', 'adder/single/dag_service.go', '	rootPin.Allocations = dgs.dests\n', ''),
 # C14
 ('C14-hand-import-without-clean', 'cmdutils/state.go',
  '''func (crdtsm *crdtStateManager) ImportState(r io.Reader) error {
	err := crdtsm.Clean()
	if err != nil {
		return err
	}
''', '''func (crdtsm *crdtStateManager) ImportState(r io.Reader) error {
'''),
 ('C14-hand-offline-state-other-namespace', 'consensus/raft/consensus.go',
  '	st, err := dsstate.New(store, cfg.DatastoreNamespace, dsstate.DefaultHandle())\n	if err != nil {\n		return nil, err\n	}\n	if !snapExists {', '	st, err := dsstate.New(store, "/offline", dsstate.DefaultHandle())\n	if err != nil {\n		return nil, err\n	}\n	if !snapExists {'),
 # C15
 ('C15-hand-setting-not-saved', 'pintracker/stateless/config.go', '		ConcurrentPins: cfg.ConcurrentPins,\n', ''),
 ('C15-hand-loadjson-without-validate', 'informer/disk/config.go', '	return cfg.Validate()\n}\n\n// ToJSON', '	return nil\n}\n\n// ToJSON'),
 ('C15-hand-section-arm-removed', 'config/config.go', '	case Informer:\n		return &jcfg.Informer\n', ''),
 ('C15-hand-hidden-tag-removed', 'cluster_config.go', '`json:"secret" hidden:"true"`', '`json:"secret"`'),
 ('C15-hand-display-returns-tojson', 'api/rest/config.go', '	return config.DisplayJSON(jcfg)', '	return config.DefaultJSONMarshal(jcfg)'),
 # C16
 ('C16-hand-eof-before-ctx', 'ipfsconn/ipfshttp/ipfshttp.go',
  '''			select {
			case <-ctx.Done():
				return ctx.Err()
			default:
				if err == io.EOF {
					return nil // clean exit. Pinned!
				}
				return err // error decoding
			}''', '''			if err == io.EOF {
				return nil // clean exit. Pinned!
			}
			return err // error decoding'''),
 ('C16-hand-update-unpins', 'ipfsconn/ipfshttp/ipfshttp.go', 'pin/update?arg=%s&arg=%s&unpin=false', 'pin/update?arg=%s&arg=%s&unpin=true'),
 ('C16-hand-update-without-ispinned', 'ipfsconn/ipfshttp/ipfshttp.go', '		if pinStatus.IsPinned(-1) { // pinned recursively.', '		if pinStatus != api.IPFSPinStatusError { // pinned recursively.'),
 ('C16-hand-non200-without-body-accepted', 'ipfsconn/ipfshttp/ipfshttp.go',
  '''	// No error response with useful message from ipfs
	return nil, fmt.Errorf(
		"IPFS request unsuccessful (%s). Code %d. Body: %s",
		path,
		res.StatusCode,
		string(body))''', '''	// No error response with useful message from ipfs
	logger.Warnf("IPFS request unsuccessful (%s). Code %d. Body: %s", path, res.StatusCode, string(body))
	return nil, nil'''),
 # C17
 ('C17-hand-single-peer-guard-removed', 'consensus/raft/raft.go',
  '''	if len(peers) == 1 && peers[0] == peer {
		return errors.New("cannot remove ourselves from a 1-peer cluster")
	}

''', ''),
 ('C17-hand-ready-before-sync', 'consensus/raft/consensus.go',
  '''	err = cc.WaitForSync(cc.ctx)
	if err != nil {
		return
	}
	logger.Debug("Raft state is now up to date")''', '''	go cc.WaitForSync(cc.ctx)
	logger.Debug("Raft state is now up to date")'''),
 ('C17-hand-waitforvoter-skipped', 'consensus/raft/consensus.go',
  '''	err = cc.raft.WaitForVoter(ctx)
	if err != nil {
		return errors.New("error waiting to become a Voter: " + err.Error())
	}

''', ''),
 ('C17-hand-clean-before-consensus-shutdown', 'cluster.go',
  '''	if con := c.consensus; con != nil {
		if err := con.Shutdown(ctx); err != nil {
			logger.Errorf("error stopping consensus: %s", err)
			return err
		}
	}

	// We left the cluster or were removed. Remove any consensus-specific
	// state.
	if c.removed && c.readyB {
		err := c.consensus.Clean(ctx)
		if err != nil {
			logger.Error("cleaning consensus: ", err)
		}
	}
''', '''	// We left the cluster or were removed. Remove any consensus-specific
	// state.
	if c.removed && c.readyB {
		err := c.consensus.Clean(ctx)
		if err != nil {
			logger.Error("cleaning consensus: ", err)
		}
	}

	if con := c.consensus; con != nil {
		if err := con.Shutdown(ctx); err != nil {
			logger.Errorf("error stopping consensus: %s", err)
			return err
		}
	}
'''),
 ('C04-hand-pinupdate-drops-allocations', 'cluster.go',
  '''	existing.Cid = to
	existing.PinUpdate = from''', '''	existing.Cid = to
	existing.Allocations = nil
	existing.PinUpdate = from'''),
 ('C04-hand-pinupdate-copies-target', 'cluster.go',
  '''	existing, err := c.PinGet(ctx, from)
	if err != nil { // including when the existing pin is not found''', '''	existing, err := c.PinGet(ctx, to)
	if err != nil { // including when the existing pin is not found'''),
 ('C05-hand-replaced-op-not-cancelled', 'pintracker/optracker/operationtracker.go',
  '''		op.Cancel() // cancel ongoing operation and replace it
''', ''),
 ('C05-hand-dedupe-ignores-failed-phase', 'pintracker/optracker/operationtracker.go',
  '''op.Type() == typ && op.Phase() != PhaseError && op.Phase() != PhaseDone''', '''op.Type() == typ && op.Phase() != PhaseDone'''),
 ('C09-hand-expired-inverted', 'api/types.go', '''	return time.Now().After(expDate)''', '''	return expDate.After(time.Now())'''),
 ('C16-hand-ispinned-depth0-wants-recursive', 'api/types.go', '''	case maxDepth == 0:
		return ips == IPFSPinStatusDirect''', '''	case maxDepth == 0:
		return ips == IPFSPinStatusRecursive'''),
 ('C10-hand-isclosest-nonstrict', 'util.go', '''bytes.Compare(myDistance[:], distance[:]) > 0''', '''bytes.Compare(myDistance[:], distance[:]) >= 0'''),
 ('C10-hand-isclosest-inverted', 'util.go', '''bytes.Compare(myDistance[:], distance[:]) > 0''', '''bytes.Compare(distance[:], myDistance[:]) > 0'''),
 ('C04-hand-logunpin-forwards-as-logpin', 'consensus/raft/consensus.go', '''	err := cc.commit(ctx, op, "LogUnpin", pin)''', '''	err := cc.commit(ctx, op, "LogPin", pin)'''),
 ('C15-hand-display-reads-other-tag', 'config/util.go', '''f.Tag.Get("hidden") == "true"''', '''f.Tag.Get("hide") == "true"'''),
 # C18
 ('C18-hand-store-add-under-rlock', 'monitor/metrics/store.go', None, None),
 ('C18-hand-unlock-removed-on-one-path', 'pintracker/optracker/operationtracker.go',
  '''	opt.mu.Lock()
	defer opt.mu.Unlock()
	op2, ok := opt.operations[op.Cid()]''', '''	opt.mu.Lock()
	op2, ok := opt.operations[op.Cid()]'''),
 # round-6 rules, second clause each
 ('C14-hand-crdt-import-cleans-last', 'cmdutils/state.go',
  '''	err := crdtsm.Clean()
	if err != nil {
		return err
	}

	store, err := crdtsm.GetStore()
	if err != nil {
		return err
	}
	defer store.Close()
	st, err := crdtsm.GetOfflineState(store)
	if err != nil {
		return err
	}
''', '''	store, err := crdtsm.GetStore()
	if err != nil {
		return err
	}
	defer store.Close()
	st, err := crdtsm.GetOfflineState(store)
	if err != nil {
		return err
	}
	err = crdtsm.Clean()
	if err != nil {
		return err
	}
'''),
 ('C11-hand-status-local-undef-cid', 'api/rest/restapi.go',
  '''				"StatusLocal",
				pin.Cid,''', '''				"StatusLocal",
				cid.Undef,'''),
 ('C10-hand-apply-drops-repinning', 'cluster_config.go',
  '	cfg.DisableRepinning = jcfg.DisableRepinning\n', ''),
 ('C12-hand-stream-add-returns-nil', 'adder/adderutils/adderutils.go',
  '''		w.Header().Set("X-Stream-Error", err.Error())
	}
	wg.Wait()
	return root, err''', '''		w.Header().Set("X-Stream-Error", err.Error())
	}
	wg.Wait()
	return root, nil'''),
 # round-7 rules, second instance each
 ('C17-hand-crdt-shutdown-unmarked', 'consensus/crdt/consensus.go',
  '''	css.shutdown = true
	close(css.rpcReady)
	return nil''', '''	close(css.rpcReady)
	return nil'''),
 ('C04-hand-unpinclusterdag-skips-failed-unpin', 'cluster.go',
  '''		err = c.consensus.LogUnpin(ctx, api.PinCid(ci))
		if err != nil {
			return err
		}
	}
	return nil
}

// PinUpdate pins''', '''		err = c.consensus.LogUnpin(ctx, api.PinCid(ci))
		if err != nil {
			logger.Warn(err)
			return nil
		}
	}
	return nil
}

// PinUpdate pins'''),
 ('C16-hand-pinargs-depth0-recursive', 'ipfsconn/ipfshttp/ipfshttp.go',
  '''	case maxDepth == 0:
		q.Set("recursive", "false")''', '''	case maxDepth == 0:
		q.Set("recursive", "true")'''),
 ('C13-hand-toquery-cidversion-only-nonzero', 'api/add.go',
  '''	query.Set("cid-version", fmt.Sprintf("%d", p.CidVersion))''', '''	if p.CidVersion != 0 {
		query.Set("cid-version", fmt.Sprintf("%d", p.CidVersion))
	}'''),
 ('C09-hand-checkall-skips-when-alerted', 'monitor/metrics/checker.go',
  '''	for _, metric := range mc.metrics.AllMetrics() {
		if mc.FailedMetric(metric.Name, metric.Peer) {''', '''	for _, metric := range mc.metrics.AllMetrics() {
		if metric.Discard() {
			continue
		}
		if mc.FailedMetric(metric.Name, metric.Peer) {'''),
]


def main():
    os.makedirs(OUT, exist_ok=True)
    n = 0
    for name, f, old, new in M:
        if old is None:
            continue
        path = os.path.join(REPO, f)
        s = open(path).read()
        if s.count(old) != 1:
            print('SKIP (anchor not unique: %d)' % s.count(old), name)
            continue
        t = s.replace(old, new)
        d = ''.join(difflib.unified_diff(s.splitlines(True), t.splitlines(True), 'a/' + f, 'b/' + f))
        open(os.path.join(OUT, name + '.patch'), 'w').write(d)
        n += 1
    print('wrote', n, 'patches')


if __name__ == '__main__':
    main()
