#!/usr/bin/env python3
"""Generates behaviour-preserving edits as patches under /verif/benign/.
None of them may raise an alarm (tools/trymutant.sh <patch> all)."""
import difflib, os
REPO='/repo'; OUT='/verif/benign'
B=[
 ('B06-batchworker-size-lt-one','consensus/crdt/consensus.go','			if batchCurSize == 0 {\n				batchTimer.Reset(maxAge)','			if batchCurSize < 1 {\n				batchTimer.Reset(maxAge)'),
 ('B07-applyto-if-chain','consensus/raft/log_op.go',
  '''	switch op.Type {
	case LogOpPin:
		err = state.Add(ctx, pin)''','''	switch t := op.Type; t {
	case LogOpPin:
		err = state.Add(ctx, pin)'''),
 ('B10-tracknew-nested-ifs','pintracker/optracker/operationtracker.go',
  '''		if op.Type() == typ && op.Phase() != PhaseError && op.Phase() != PhaseDone {
			return nil // an ongoing operation of the same sign exists
		}''','''		if op.Type() == typ {
			if ph := op.Phase(); ph != PhaseError && ph != PhaseDone {
				return nil // an ongoing operation of the same sign exists
			}
		}'''),
 ('B15-latestvalid-split-conditions','monitor/metrics/store.go',
  '''		if err != nil || m.Discard() {
			continue
		}
		metrics = append(metrics, m)''','''		if err != nil {
			continue
		}
		if m.Discard() {
			continue
		}
		metrics = append(metrics, m)'''),
 ('B16-totrackerstatus-if-form','pintracker/optracker/operation.go',
  '''	case OperationRemote:
		return api.TrackerStatusRemote
	case OperationShard:
		return api.TrackerStatusSharded
	default:
		return api.TrackerStatusUndefined
	}
''','''	}
	if typ == OperationRemote {
		return api.TrackerStatusRemote
	}
	if typ == OperationShard {
		return api.TrackerStatusSharded
	}
	return api.TrackerStatusUndefined
'''),
 ('B17-commit-renamed-local','consensus/raft/consensus.go',None,None),
 ('B18-unpin-switch-reordered','cluster.go',
  '''	switch pin.Type {
	case api.DataType:
		return pin, c.consensus.LogUnpin(ctx, pin)
	case api.ShardType:''','''	if pin.Type == api.DataType {
		return pin, c.consensus.LogUnpin(ctx, pin)
	}
	switch pin.Type {
	case api.ShardType:'''),
 ('B19-allocate-if-chain','allocate.go',
  '''		switch {
		case containsPeer(blacklist, m.Peer):
			// discard blacklisted peers
			continue
		case containsPeer(currentAllocs, m.Peer):
			currentMetrics[m.Peer] = m
		case containsPeer(prioritylist, m.Peer):
			priorityMetrics[m.Peer] = m
		default:
			candidatesMetrics[m.Peer] = m
		}''','''		if containsPeer(blacklist, m.Peer) {
			// discard blacklisted peers
			continue
		}
		if containsPeer(currentAllocs, m.Peer) {
			currentMetrics[m.Peer] = m
		} else if containsPeer(prioritylist, m.Peer) {
			priorityMetrics[m.Peer] = m
		} else {
			candidatesMetrics[m.Peer] = m
		}'''),
 ('B20-authf-if-form','rpc_api.go',
  '''		switch endpointType {
		case RPCTrusted:
			return c.consensus.IsTrustedPeer(c.ctx, pid)
		case RPCOpen:
			return true
		default:
			return false
		}''','''		if endpointType == RPCOpen {
			return true
		}
		if endpointType == RPCTrusted {
			return c.consensus.IsTrustedPeer(c.ctx, pid)
		}
		return false'''),
 ('B24-logpin-enqueue-helper','consensus/crdt/consensus.go',
  '''	if css.config.batchingEnabled() {
		select {
		case css.batchItemCh <- batchItem{
			ctx:   ctx,
			isPin: true,
			pin:   pin,
		}:
			return nil
		default:
			return fmt.Errorf("error pinning: %w", ErrMaxQueueSizeReached)
		}
	}

	return css.state.Add(ctx, pin)''','''	if css.config.batchingEnabled() {
		item := batchItem{ctx: ctx, isPin: true, pin: pin}
		select {
		case css.batchItemCh <- item:
		default:
			return fmt.Errorf("error pinning: %w", ErrMaxQueueSizeReached)
		}
		return nil
	}

	return css.state.Add(ctx, pin)'''),
 ('B29-discard-operands-swapped','api/types.go','	return !m.Valid || m.Expired()','	if m.Expired() {\n		return true\n	}\n	return !m.Valid'),
 ('B30-track-switch-form','pintracker/stateless/stateless.go',
  '''	if c.Type == api.MetaType {
		return nil
	}

	// Trigger unpin whenever something remote is tracked
	// Note, IPFSConn checks with pin/ls before triggering
	// pin/rm.
	if c.IsRemotePin(spt.peerID) {''','''	switch c.Type {
	case api.MetaType:
		return nil
	}

	// Trigger unpin whenever something remote is tracked
	// Note, IPFSConn checks with pin/ls before triggering
	// pin/rm.
	if remote := c.IsRemotePin(spt.peerID); remote {'''),
 ('B31-failed-reordered','monitor/metrics/checker.go',
  '''	if !latest.Expired() {
		// Seen healthy: an alert sent for an earlier failure no
		// longer counts, a later failure is a new one.
		mc.resetAlerts(pid, metric)
		return 0.0, nil, 0.0, false
	}
	// The latest metric has expired
''','''	if expired := latest.Expired(); !expired {
		mc.resetAlerts(pid, metric)
		return 0, nil, 0, false
	}
	// The latest metric has expired
'''),
 ('B32-unpin-error-branches-split','ipfsconn/ipfshttp/ipfshttp.go',
  '''		ipfsErr, ok := err.(ipfsError)
		if !ok ||
			(ipfsErr.Message != dspinner.ErrNotPinned.Error() &&
				ipfsErr.Message != ipldpinner.ErrNotPinned.Error()) {
			return err
		}
		logger.Debug("IPFS object is already unpinned: ", hash)
		return nil''','''		ipfsErr, ok := err.(ipfsError)
		if !ok {
			return err
		}
		switch ipfsErr.Message {
		case dspinner.ErrNotPinned.Error(), ipldpinner.ErrNotPinned.Error():
			logger.Debug("IPFS object is already unpinned: ", hash)
			return nil
		}
		return err'''),
 ('B33-window-latest-defer-unlock','monitor/metrics/window.go',
  '''	prevRing := mw.window.Prev()
	mw.wMu.RUnlock()

	last, ok = prevRing.Value.(*api.Metric)''','''	prevRing := mw.window.Prev()
	v := prevRing.Value
	mw.wMu.RUnlock()

	last, ok = v.(*api.Metric)'''),
 ('B34-pinhandler-early-return','api/rest/restapi.go',
  '''	if pin := api.parseCidOrError(w, r); pin != nil {
		logger.Debugf("rest api pinHandler: %s", pin.Cid)
		// span.AddAttributes(trace.StringAttribute("cid", pin.Cid))
		var pinObj types.Pin
		err := api.rpcClient.CallContext(
			r.Context(),
			"",
			"Cluster",
			"Pin",
			pin,
			&pinObj,
		)
		api.sendResponse(w, autoStatus, err, pinObj)
		logger.Debug("rest api pinHandler done")
	}
}''','''	pin := api.parseCidOrError(w, r)
	if pin == nil {
		return
	}
	logger.Debugf("rest api pinHandler: %s", pin.Cid)
	var pinObj types.Pin
	err := api.rpcClient.CallContext(
		r.Context(),
		"",
		"Cluster",
		"Pin",
		pin,
		&pinObj,
	)
	api.sendResponse(w, autoStatus, err, pinObj)
	logger.Debug("rest api pinHandler done")
}'''),
 ('B35-clean-explicit-unlock','pintracker/optracker/operationtracker.go',
  '''	opt.mu.Lock()
	defer opt.mu.Unlock()
	op2, ok := opt.operations[op.Cid()]
	if ok && op == op2 { // same pointer
		delete(opt.operations, op.Cid())
	}
}''','''	opt.mu.Lock()
	op2, ok := opt.operations[op.Cid()]
	if !ok || op != op2 { // not the same pointer
		opt.mu.Unlock()
		return
	}
	delete(opt.operations, op.Cid())
	opt.mu.Unlock()
}'''),
 ('B36-alert-threshold-restructured','monitor/metrics/checker.go',
  '''	if failedMetrics[metricName] >= MaxAlertThreshold {
		mc.metrics.RemovePeerMetrics(pid, metricName)
		delete(failedMetrics, metricName)
		if len(mc.failedPeers[pid]) == 0 {
			delete(mc.failedPeers, pid)
		}
		return nil
	}

	failedMetrics[metricName]++
''','''	if n := failedMetrics[metricName]; n >= MaxAlertThreshold {
		mc.metrics.RemovePeerMetrics(pid, metricName)
		delete(failedMetrics, metricName)
		if len(failedMetrics) == 0 {
			delete(mc.failedPeers, pid)
		}
		return nil
	}

	failedMetrics[metricName] = failedMetrics[metricName] + 1
'''),
 ('B37-statusall-index-loop','pintracker/stateless/stateless.go',
  '''	for _, infop := range spt.optracker.GetAll(ctx) {
		pininfos[infop.Cid] = infop
	}
''','''	ops := spt.optracker.GetAll(ctx)
	for i := range ops {
		pininfos[ops[i].Cid] = ops[i]
	}
'''),
 ('B38-pushinformer-else-form','cluster.go',
  '''			// retry sooner
			timer.Reset(metric.GetTTL() / 4)
			continue
		}

		retries = 0
		// send metric again in TTL/2
		timer.Reset(metric.GetTTL() / 2)
	}''','''			// retry sooner
			timer.Reset(metric.GetTTL() / 4)
		} else {
			retries = 0
			// send metric again in TTL/2
			timer.Reset(metric.GetTTL() / 2)
		}
	}'''),
 ('B39-setuprepl-reordered','cluster.go',
  '''	if rplMin == 0 {
		rplMin = c.config.ReplicationFactorMin
		pin.ReplicationFactorMin = rplMin
	}
	if rplMax == 0 {
		rplMax = c.config.ReplicationFactorMax
		pin.ReplicationFactorMax = rplMax
	}
''','''	if rplMax == 0 {
		rplMax = c.config.ReplicationFactorMax
	}
	if rplMin == 0 {
		rplMin = c.config.ReplicationFactorMin
	}
	pin.ReplicationFactorMin, pin.ReplicationFactorMax = rplMin, rplMax
'''),
 ('B40-applyjson-reset-after-name','consensus/crdt/config.go',
  '''	config.SetIfNotDefault(jcfg.ClusterName, &cfg.ClusterName)

	// Whenever we parse JSON, TrustAll is false unless an '*' peer exists
	cfg.TrustAll = false
	cfg.TrustedPeers = []peer.ID{}
''','''	// Whenever we parse JSON, TrustAll is false unless an '*' peer exists
	cfg.TrustedPeers = []peer.ID{}
	cfg.TrustAll = false
	config.SetIfNotDefault(jcfg.ClusterName, &cfg.ClusterName)
'''),
 ('B41-protounmarshal-append','api/types.go',
  '''	origins := make([]multiaddr.Multiaddr, len(pbOrigins))
	for i, orig := range pbOrigins {
		maOrig, err := multiaddr.NewMultiaddrBytes(orig)
		if err != nil {
			return err
		}
		origins[i] = maOrig
	}''','''	origins := make([]multiaddr.Multiaddr, 0, len(pbOrigins))
	for _, orig := range pbOrigins {
		maOrig, err := multiaddr.NewMultiaddrBytes(orig)
		if err != nil {
			return err
		}
		origins = append(origins, maOrig)
	}'''),
 ('B42-enqueue-queue-helper','pintracker/stateless/stateless.go',
  '''	var ch chan *optracker.Operation

	switch typ {
	case optracker.OperationPin:
		ch = spt.pinCh
	case optracker.OperationUnpin:
		ch = spt.unpinCh
	}

	select {
	case ch <- op:
	default:''','''	ch := spt.pinCh
	if typ == optracker.OperationUnpin {
		ch = spt.unpinCh
	} else if typ != optracker.OperationPin {
		ch = nil
	}

	select {
	case ch <- op:
	default:'''),
 ('B43-unpin-meta-helper','cluster.go',
  '''	case api.MetaType:
		// Unpin cluster dag and referenced shards
		err := c.unpinClusterDag(pin)
		if err != nil {
			return pin, err
		}
		return pin, c.consensus.LogUnpin(ctx, pin)
	case api.ClusterDAGType:''','''	case api.MetaType:
		// Unpin cluster dag and referenced shards
		if err := c.unpinClusterDag(pin); err != nil {
			return pin, err
		}
		err = c.consensus.LogUnpin(ctx, pin)
		return pin, err
	case api.ClusterDAGType:'''),
 ('B44-commit-no-goto','consensus/raft/consensus.go',
  '''		if finalErr != nil {
			goto RETRY
		}

		switch op.Type {
		case LogOpPin:
			logger.Infof("pin committed to global state: %s", op.Cid.Cid)
		case LogOpUnpin:
			logger.Infof("unpin committed to global state: %s", op.Cid.Cid)
		}
		break

	RETRY:
		time.Sleep(cc.config.CommitRetryDelay)
	}
	return finalErr''','''		if finalErr == nil {
			switch op.Type {
			case LogOpPin:
				logger.Infof("pin committed to global state: %s", op.Cid.Cid)
			case LogOpUnpin:
				logger.Infof("unpin committed to global state: %s", op.Cid.Cid)
			}
			return nil
		}
		time.Sleep(cc.config.CommitRetryDelay)
	}
	return finalErr'''),
 ('B45-logpin-plain-return','consensus/raft/consensus.go',
  '''	op := cc.op(ctx, pin, LogOpPin)
	err := cc.commit(ctx, op, "LogPin", pin)
	if err != nil {
		return err
	}
	return nil''','''	return cc.commit(ctx, cc.op(ctx, pin, LogOpPin), "LogPin", pin)'''),
 ('B46-crdt-logunpin-item-var','consensus/crdt/consensus.go',
  '''		select {
		case css.batchItemCh <- batchItem{
			ctx:   ctx,
			isPin: false,
			pin:   pin,
		}:
			return nil
		default:
			return fmt.Errorf("error unpinning: %w", ErrMaxQueueSizeReached)
		}''','''		var item batchItem
		item.ctx = ctx
		item.pin = pin
		select {
		case css.batchItemCh <- item:
			return nil
		default:
		}
		return fmt.Errorf("error unpinning: %w", ErrMaxQueueSizeReached)'''),
 ('B52-trustall-through-local','consensus/crdt/config.go',
  '''	// Whenever we parse JSON, TrustAll is false unless an '*' peer exists
	cfg.TrustAll = false
	cfg.TrustedPeers = []peer.ID{}

	for _, p := range jcfg.TrustedPeers {
		if p == "*" {
			cfg.TrustAll = true
			cfg.TrustedPeers = []peer.ID{}
			break
		}
		pid, err := peer.Decode(p)
		if err != nil {
			return fmt.Errorf("error parsing trusted peers: %s", err)
		}
		cfg.TrustedPeers = append(cfg.TrustedPeers, pid)
	}
''','''	// Whenever we parse JSON, TrustAll is false unless an '*' peer exists
	trustAll := false
	trusted := []peer.ID{}

	for _, p := range jcfg.TrustedPeers {
		if p == "*" {
			trustAll = true
			trusted = []peer.ID{}
			break
		}
		pid, err := peer.Decode(p)
		if err != nil {
			return fmt.Errorf("error parsing trusted peers: %s", err)
		}
		trusted = append(trusted, pid)
	}
	cfg.TrustAll = trustAll
	cfg.TrustedPeers = trusted
'''),
 ('B49-makebackup-checked-removeall','consensus/raft/data_helper.go',
  '''		os.RemoveAll(backups[len(backups)-1])''','''		oldest := backups[len(backups)-1]
		if err := os.RemoveAll(oldest); err != nil {
			return err
		}'''),
 ('B50-unpindag-index-loop','cluster.go',
  '''	for _, ci := range cids {
		err = c.consensus.LogUnpin(ctx, api.PinCid(ci))
		if err != nil {
			return err
		}
	}
	return nil
}''','''	for i := range cids {
		if err := c.consensus.LogUnpin(ctx, api.PinCid(cids[i])); err != nil {
			return err
		}
	}
	return nil
}'''),
 ('B53-client-stream-loop-restructured','api/rest/client/request.go',
  '''	dec := json.NewDecoder(resp.Body)
	for {
		err := handler(dec)
		if err == io.EOF {
			// we need to check trailers
			break
		}
		if err != nil {
			logger.Error(err)
			return err
		}
	}

	errTrailer := resp.Trailer.Get("X-Stream-Error")
	if errTrailer != "" {''','''	dec := json.NewDecoder(resp.Body)
	var err error
	for err == nil {
		err = handler(dec)
	}
	if err != io.EOF {
		logger.Error(err)
		return err
	}

	// the body is drained: trailers are available now
	if errTrailer := resp.Trailer.Get("X-Stream-Error"); errTrailer != "" {'''),
 ('B55-crdt-parsedurations-if-form','consensus/crdt/config.go',
  '''	err := config.ParseDurations(
		"crdt",
		&config.DurationOpt{Duration: jcfg.RebroadcastInterval, Dst: &cfg.RebroadcastInterval, Name: "rebroadcast_interval"},
		&config.DurationOpt{Duration: jcfg.Batching.MaxBatchAge, Dst: &cfg.Batching.MaxBatchAge, Name: "max_batch_age"},
	)
	if err != nil {
		return err
	}
	return cfg.Validate()''','''	if err := config.ParseDurations(
		"crdt",
		&config.DurationOpt{Duration: jcfg.Batching.MaxBatchAge, Dst: &cfg.Batching.MaxBatchAge, Name: "max_batch_age"},
		&config.DurationOpt{Duration: jcfg.RebroadcastInterval, Dst: &cfg.RebroadcastInterval, Name: "rebroadcast_interval"},
	); err != nil {
		return err
	}
	return cfg.Validate()'''),
 ('B56-cleanupraft-checked-removeall','consensus/raft/raft.go',
  '''		logger.Infof("cleaning empty Raft data folder (%s)", dataFolder)
		os.RemoveAll(dataFolder)
		return nil''','''		logger.Infof("cleaning empty Raft data folder (%s)", dataFolder)
		return os.RemoveAll(dataFolder)'''),
 ('B57-checkpeers-latest-form','monitor/metrics/checker.go',
  '''			if len(mc.metrics.PeerMetricAll(name, peer)) == 0 {
				continue
			}
			if mc.FailedMetric(name, peer) {''','''			if mc.metrics.PeerLatest(name, peer) == nil {
				continue
			}
			if failed := mc.FailedMetric(name, peer); failed {'''),
 ('B59-trustedpeers-reset-nil','consensus/crdt/config.go',
  '''	cfg.TrustAll = false
	cfg.TrustedPeers = []peer.ID{}

	for _, p := range jcfg.TrustedPeers {''','''	cfg.TrustAll = false
	cfg.TrustedPeers = make([]peer.ID, 0, len(jcfg.TrustedPeers))

	for _, p := range jcfg.TrustedPeers {'''),
 ('B60-batchingstate-commit-local','state/dsstate/datastore.go',
  '''	defer span.End()
	return bst.batch.Commit()''','''	defer span.End()
	err := bst.batch.Commit()
	return err'''),
]
os.makedirs(OUT,exist_ok=True)
n=0
for name,f,old,new in B:
    if old is None: continue
    s=open(os.path.join(REPO,f)).read()
    if s.count(old)!=1:
        print('SKIP',name,s.count(old)); continue
    t=s.replace(old,new)
    open(os.path.join(OUT,name+'.patch'),'w').write(''.join(difflib.unified_diff(s.splitlines(True),t.splitlines(True),'a/'+f,'b/'+f)))
    n+=1
print('wrote',n)
