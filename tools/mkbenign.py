#!/usr/bin/env python3
"""Generates behaviour-preserving edits as patches under /verif/benign/.
None of them may raise an alarm (tools/trymutant.sh <patch> all)."""
import difflib, os
REPO='/repo'; OUT='/verif/benign'
B=[
 ('B06-batchworker-size-lt-one','consensus/crdt/consensus.go','			if batchCurSize == 0 {\n				batchTimer.Reset(maxAge)','			if batchCurSize < 1 {\n				batchTimer.Reset(maxAge)'),
 ('B07-applyto-if-chain','consensus/raft/log_op.go',
  '''	switch op.Type {
	case LogOpPin:
		err = state.Add(ctx, pin)''','''	switch t := op.Type; t {
	case LogOpPin:
		err = state.Add(ctx, pin)'''),
 ('B10-tracknew-nested-ifs','pintracker/optracker/operationtracker.go',
  '''		if op.Type() == typ && op.Phase() != PhaseError && op.Phase() != PhaseDone {
			return nil // an ongoing operation of the same sign exists
		}''','''		if op.Type() == typ {
			if ph := op.Phase(); ph != PhaseError && ph != PhaseDone {
				return nil // an ongoing operation of the same sign exists
			}
		}'''),
 ('B15-latestvalid-split-conditions','monitor/metrics/store.go',
  '''		if err != nil || m.Discard() {
			continue
		}
		metrics = append(metrics, m)''','''		if err != nil {
			continue
		}
		if m.Discard() {
			continue
		}
		metrics = append(metrics, m)'''),
 ('B16-totrackerstatus-if-form','pintracker/optracker/operation.go',
  '''	case OperationRemote:
		return api.TrackerStatusRemote
	case OperationShard:
		return api.TrackerStatusSharded
	default:
		return api.TrackerStatusUndefined
	}
''','''	}
	if typ == OperationRemote {
		return api.TrackerStatusRemote
	}
	if typ == OperationShard {
		return api.TrackerStatusSharded
	}
	return api.TrackerStatusUndefined
'''),
 ('B17-commit-renamed-local','consensus/raft/consensus.go',None,None),
 ('B18-unpin-switch-reordered','cluster.go',
  '''	switch pin.Type {
	case api.DataType:
		return pin, c.consensus.LogUnpin(ctx, pin)
	case api.ShardType:''','''	if pin.Type == api.DataType {
		return pin, c.consensus.LogUnpin(ctx, pin)
	}
	switch pin.Type {
	case api.ShardType:'''),
 ('B19-allocate-if-chain','allocate.go',
  '''		switch {
		case containsPeer(blacklist, m.Peer):
			// discard blacklisted peers
			continue
		case containsPeer(currentAllocs, m.Peer):
			currentMetrics[m.Peer] = m
		case containsPeer(prioritylist, m.Peer):
			priorityMetrics[m.Peer] = m
		default:
			candidatesMetrics[m.Peer] = m
		}''','''		if containsPeer(blacklist, m.Peer) {
			// discard blacklisted peers
			continue
		}
		if containsPeer(currentAllocs, m.Peer) {
			currentMetrics[m.Peer] = m
		} else if containsPeer(prioritylist, m.Peer) {
			priorityMetrics[m.Peer] = m
		} else {
			candidatesMetrics[m.Peer] = m
		}'''),
 ('B20-authf-if-form','rpc_api.go',
  '''		switch endpointType {
		case RPCTrusted:
			return c.consensus.IsTrustedPeer(c.ctx, pid)
		case RPCOpen:
			return true
		default:
			return false
		}''','''		if endpointType == RPCOpen {
			return true
		}
		if endpointType == RPCTrusted {
			return c.consensus.IsTrustedPeer(c.ctx, pid)
		}
		return false'''),
 ('B24-logpin-enqueue-helper','consensus/crdt/consensus.go',
  '''	if css.config.batchingEnabled() {
		select {
		case css.batchItemCh <- batchItem{
			ctx:   ctx,
			isPin: true,
			pin:   pin,
		}:
			return nil
		default:
			return fmt.Errorf("error pinning: %w", ErrMaxQueueSizeReached)
		}
	}

	return css.state.Add(ctx, pin)''','''	if css.config.batchingEnabled() {
		item := batchItem{ctx: ctx, isPin: true, pin: pin}
		select {
		case css.batchItemCh <- item:
		default:
			return fmt.Errorf("error pinning: %w", ErrMaxQueueSizeReached)
		}
		return nil
	}

	return css.state.Add(ctx, pin)'''),
 ('B29-discard-operands-swapped','api/types.go','	return !m.Valid || m.Expired()','	if m.Expired() {\n		return true\n	}\n	return !m.Valid'),
 ('B30-track-switch-form','pintracker/stateless/stateless.go',
  '''	if c.Type == api.MetaType {
		return nil
	}

	// Trigger unpin whenever something remote is tracked
	// Note, IPFSConn checks with pin/ls before triggering
	// pin/rm.
	if c.IsRemotePin(spt.peerID) {''','''	switch c.Type {
	case api.MetaType:
		return nil
	}

	// Trigger unpin whenever something remote is tracked
	// Note, IPFSConn checks with pin/ls before triggering
	// pin/rm.
	if remote := c.IsRemotePin(spt.peerID); remote {'''),
 ('B31-failed-reordered','monitor/metrics/checker.go',
  '''	if !latest.Expired() {
		return 0.0, nil, 0.0, false
	}
	// The latest metric has expired
''','''	if expired := latest.Expired(); !expired {
		return 0, nil, 0, false
	}
	// The latest metric has expired
'''),
 ('B32-unpin-error-branches-split','ipfsconn/ipfshttp/ipfshttp.go',
  '''		ipfsErr, ok := err.(ipfsError)
		if !ok ||
			(ipfsErr.Message != dspinner.ErrNotPinned.Error() &&
				ipfsErr.Message != ipldpinner.ErrNotPinned.Error()) {
			return err
		}
		logger.Debug("IPFS object is already unpinned: ", hash)
		return nil''','''		ipfsErr, ok := err.(ipfsError)
		if !ok {
			return err
		}
		switch ipfsErr.Message {
		case dspinner.ErrNotPinned.Error(), ipldpinner.ErrNotPinned.Error():
			logger.Debug("IPFS object is already unpinned: ", hash)
			return nil
		}
		return err'''),
 ('B33-window-latest-defer-unlock','monitor/metrics/window.go',
  '''	prevRing := mw.window.Prev()
	mw.wMu.RUnlock()

	last, ok = prevRing.Value.(*api.Metric)''','''	prevRing := mw.window.Prev()
	v := prevRing.Value
	mw.wMu.RUnlock()

	last, ok = v.(*api.Metric)'''),
]
os.makedirs(OUT,exist_ok=True)
n=0
for name,f,old,new in B:
    if old is None: continue
    s=open(os.path.join(REPO,f)).read()
    if s.count(old)!=1:
        print('SKIP',name,s.count(old)); continue
    t=s.replace(old,new)
    open(os.path.join(OUT,name+'.patch'),'w').write(''.join(difflib.unified_diff(s.splitlines(True),t.splitlines(True),'a/'+f,'b/'+f)))
    n+=1
print('wrote',n)
