#!/bin/sh
# Runs every behaviour-preserving patch (benign/*.patch, benign/indep/*.patch)
# through the analyser (a private copy of the binary, so that rebuilding
# /verif/bin meanwhile does not mix results) and prints the patches that
# raise an alarm. usage: tools/runbenign.sh [glob-prefix]
cd /verif
B=/verif/bin/clusterlint-benign-$$
cp bin/clusterlint $B
n=0; bad=0
for b in benign/${1:-}*.patch benign/indep/${1:-}*.patch; do
  [ -f "$b" ] || continue
  n=$((n+1))
  out=$(CLUSTERLINT_BIN=$B tools/trymutant.sh $b all | grep "^VIOLATED\|^UNDECIDED\|^BROKEN\|^PATCH" | cut -c1-220)
  if [ -n "$out" ]; then bad=$((bad+1)); echo "== $b"; echo "$out"; fi
done
rm -f $B
echo "DONE: $bad of $n benign patches raise an alarm"
