#!/bin/sh
# Runs every behaviour-preserving patch (benign/*.patch, benign/indep/*.patch)
# through the analyser (a private copy of the binary, so that rebuilding
# /verif/bin meanwhile does not mix results), JOBS at a time, and prints the
# patches that raise an alarm. usage: tools/runbenign.sh [glob-prefix]
cd /verif
B=/verif/bin/clusterlint-benign-$$
cp bin/clusterlint $B
L=$(mktemp)
ls benign/${1:-}*.patch benign/indep/${1:-}*.patch 2>/dev/null | CLUSTERLINT_BIN=$B xargs -P ${JOBS:-6} -I{} sh -c 'out=$(tools/trymutant.sh {} all | grep "^VIOLATED\|^UNDECIDED\|^BROKEN\|^PATCH" | cut -c1-220); if [ -n "$out" ]; then printf "== %s\n%s\n" "{}" "$out"; else echo "ok {}"; fi' > $L 2>&1
rm -f $B
grep -v "^ok " $L
n=$(grep -c "^ok \|^== " $L); bad=$(grep -c "^== " $L)
rm -f $L
echo "DONE: $bad of $n benign patches raise an alarm"
