#!/bin/sh
# Run before committing a checker change: every property must exit 0 on the
# unchanged tree (no VIOLATION line, 18 passing summaries).
cd /verif && ./setup.sh >/dev/null 2>&1 || { echo "setup failed"; exit 1; }
out=$(./bin/clusterlint -property all -no-evidence 2>&1)
n=$(printf '%s\n' "$out" | grep -c " 0 violations")
if printf '%s\n' "$out" | grep -q "^VIOLATION\|^BROKEN\|^UNDECIDED" || [ "$n" != "18" ]; then
  printf '%s\n' "$out" | grep "^VIOL\|^BROKEN\|^UNDEC" | cut -c1-300
  echo "NOT CLEAN ($n/18)"; exit 1
fi
# the reference table of unexported identifiers (rename.go) must describe
# /repo's HEAD: regenerate after every legitimate change of /repo
t=$(mktemp); ./bin/clusterlint -gen-reference $t >/dev/null 2>&1
if ! cmp -s $t clusterlint/reference_idents.json; then rm -f $t; echo "NOT CLEAN: clusterlint/reference_idents.json is stale (run: bin/clusterlint -gen-reference clusterlint/reference_idents.json && ./setup.sh)"; exit 1; fi
rm -f $t
if printf '%s\n' "$out" | grep -q "^NOTE: .* renamed"; then echo "NOT CLEAN: renames detected on the unchanged tree"; exit 1; fi
echo "clean: 18/18"
