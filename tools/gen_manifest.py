#!/usr/bin/env python3
"""Regenerates /verif/MANIFEST.json. Claimed properties = those for which
clusterlint has rules (bin/clusterlint -rules)."""
import json, subprocess, sys, os
V = '/verif'
props = [json.loads(l) for l in open(f'{V}/properties.jsonl')]
rules = subprocess.check_output([f'{V}/bin/clusterlint', '-rules']).decode().splitlines()
byprop = {}
for line in rules:
    parts = line.split()
    rid, ps = parts[0], parts[1].split(',')
    title = line.split(None, 3)[3] if len(line.split(None, 3)) > 3 else ''
    for p in ps:
        byprop.setdefault(p, []).append((rid, title))
TECH = {
 'C01': 'SSA dataflow identity (same value to state and tracker), dominance guards, return provenance, call ordering by dominance/reachability',
 'C02': 'return provenance with select-arm guards, go/cfg typestate of the batching timer, who-may-call counts, hook value-flow',
 'C03': 'dominance guards on map stores, intra-procedural taint of candidate sets, sibling agreement of allocators (constant tables)',
 'C04': 'interprocedural guard dominance over the stitched RPC call graph, struct field coverage of Equals, switch exhaustiveness, reachability',
 'C05': 'def-use provenance of queued pins, select/typestate structure of enqueue and worker, dominance guards, context value-flow',
 'C06': 'guard dominance, constant-mask evaluation (go/constant), abstract evaluation of nested switches, sibling agreement of the two views',
 'C07': 'finite table enumeration (policy vs method sets), return provenance with path conditions, call-graph reachability with RPC stitching, reference-table monotonicity',
 'C08': 'type-graph walk for wire-serialisability, struct-tag tables, writer/reader field coverage, enum table inversion, decoder hygiene scan',
 'C09': 'dominance guards, return provenance with path conditions, constant factor extraction',
 'C10': 'dominance guards, store provenance, call-graph reachability (no unpin from repin), ordering by dominance',
 'C11': 'go/cfg typestate of HTTP handlers (respond/operate events), value-flow of the handler chain, route-table vs client-table agreement, reachability of mutating RPCs',
 'C12': 'go/cfg typestate of hijack handlers, constant route tables, reachability to the reverse proxy, request-construction constants',
 'C13': 'dominance guards, who-may-call reachability, value-flow identity of allocations',
 'C14': 'dominance guards, check-then-use contradiction rule, codec/namespace agreement, call ordering',
 'C15': 'struct field coverage (save/load) over all ComponentConfig implementations, return provenance (Validate), switch exhaustiveness, taint of secrets to hidden tags',
 'C16': 'return provenance with path conditions, dominance guards, constant request paths',
 'C17': 'dominance guards, who-may-call, call ordering by dominance, return provenance (shared with C01)',
 'C18': 'lockset (must-hold) analysis against a confirmed guarded-by table, lock pairing, wait-for cycle detection over the call graph, shutdown-written field deviance rule',
}
# a property is claimed only once its own rules (Rnn.x) exist, not merely
# because it shares a rule with another property
own = {p for p, rl in byprop.items() if any(r.startswith('R' + p[1:] + '.') for r, _ in rl)}
byprop = {p: rl for p, rl in byprop.items() if p in own}
claimed = sorted(byprop)
checks = []
for p in props:
    pid = p['id']
    if pid not in byprop:
        continue
    rl = byprop[pid]
    checks.append({
        'property_id': pid,
        'quick_cmd': f'./bin/clusterlint -property {pid} -tier quick',
        'thorough_cmd': f'./bin/clusterlint -property {pid} -tier thorough',
        'evidence_file': f'/verif/evidence/{pid}.json',
        'replay_cmd_template': './bin/clusterlint -replay {path}',
        'engine': 'clusterlint',
        'level_claimed': {
            'category': 'other',
            'text': 'Static analysis of the current sources decides structural clauses that are necessary conditions of the property (rules ' + ', '.join(r for r, _ in rl) + '): if one is broken the behaviour is broken for some input/schedule. It does not decide the behaviour as a whole; the undecided clauses are listed in the evidence explanation and DESIGN.md. Every rule has an instance floor and fails when it no longer recognises its anchors.',
            'design_ref': f'DESIGN.md section 4, {pid}',
        },
        'level_note': 'Trusted base: go/types, go/ssa and VTA call graph (x/tools v0.29.0); gorpc string dispatch stitched from constants; guard/reference tables frozen in the checker with one reason per entry; facts about dependencies read by hand (gorpc local-call bypass, libp2p-raft decode-on-top). One tolerated type error outside the repository (quic-go qtls).',
        'technique': 'static analysis: ' + TECH.get(pid, ''),
    })
na = []
NA_REASON = {}
for p in props:
    if p['id'] not in byprop:
        na.append({'property_id': p['id'], 'reason': NA_REASON.get(p['id'], 'check not built yet: static-analysis rules for this property are designed (DESIGN.md section 4) and are being implemented; nothing is claimed until they run')})
m = {
 'version': 1,
 'setup_cmd': './setup.sh',
 'hooks': {
   'guard': 'verif',
   'enable': 'none needed: static analysis reads /repo sources as they are; no instrumentation or hook exists in /repo',
   'baseline_off_cmd': 'cd /repo && GOFLAGS=-mod=mod GOPROXY=off GOSUMDB=off go test -json -vet=off -count=1 -timeout 25m ./...',
   'source_commits': [],
   'add_only': True,
 },
 'engines': [{'name': 'clusterlint', 'path': 'clusterlint/', 'serves_properties': claimed,
              'kind_free_text': 'repository-specific static analyser: go/packages type-checked syntax + go/ssa + VTA call graph + go/cfg typestate; one pass decides all properties, results cached by a digest of every analysed input'}],
 'checks': checks,
 'notes': 'All checks are the same analyser restricted to one property. exit 2 + "BROKEN:" = the machinery itself failed (load/type errors inside the repository, panics). Genuine defects found and repaired are recorded in known_findings.json (status fixed) with demonstrations under fixes/; open findings print KNOWN-FINDING lines.',
 'not_applicable': na,
}
json.dump(m, open(f'{V}/MANIFEST.json', 'w'), indent=1)
print('claimed', claimed, 'not_applicable', [x['property_id'] for x in na])
