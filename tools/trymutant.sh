#!/bin/sh
# usage: trymutant.sh <patch> [property|all]
# Applies a patch to a scratch copy of /repo (outside /repo and /verif),
# runs the analyser on it and removes the copy. Prints the verdict lines.
set -e
PATCH=$(readlink -f "$1"); PROP=${2:-all}
D=$(mktemp -d ${TMPDIR:-/tmp}/cl-mut-XXXXXX)
trap 'rm -rf "$D"' EXIT
rsync -a --exclude .git /repo/ "$D/"
(cd "$D" && patch -p1 -s < "$PATCH") || { echo "PATCH-DOES-NOT-APPLY $PATCH"; exit 3; }
${CLUSTERLINT_BIN:-/verif/bin/clusterlint} -repo "$D" -property "$PROP" -no-evidence -no-cache 2>&1 | grep -E "^(VIOLATION|VIOLATED|UNDECIDED|BROKEN|KNOWN-FINDING)" | sed "s#$D/##g" || echo "NO-DETECTION"
