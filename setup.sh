#!/bin/sh
# Builds the analyser offline from the module cache. Run from /verif.
set -e
cd "$(dirname "$0")"
export GOFLAGS=-mod=mod GOPROXY=off GOSUMDB=off GOTOOLCHAIN=local
unset GOWORK
mkdir -p bin evidence .cache
(cd clusterlint && go build -o ../bin/clusterlint .)
echo "clusterlint built"
