package stateless

import (
	"context"
	"sync"
	"testing"
	"time"

	"github.com/ipfs/ipfs-cluster/api"
	"github.com/ipfs/ipfs-cluster/test"

	rpc "github.com/libp2p/go-libp2p-gorpc"
)

// Demonstration for D5 (property C05): a recover round must re-issue the pin
// with the options recorded in the shared pinset. A *direct* pin that IPFS
// lost was re-pinned recursively (api.PinCid default).
// Copy into /repo/pintracker/stateless/ and run:
// go test -run TestVerifD5 ./pintracker/stateless/
type verifD5IPFS struct {
	mockIPFS
	mu     sync.Mutex
	depths []api.PinDepth
}

func (m *verifD5IPFS) Pin(ctx context.Context, in *api.Pin, out *struct{}) error {
	m.mu.Lock()
	m.depths = append(m.depths, in.MaxDepth)
	m.mu.Unlock()
	return nil
}

func TestVerifD5(t *testing.T) {
	ctx := context.Background()
	opts := pinOpts
	opts.Mode = api.PinModeDirect
	direct := api.PinWithOpts(test.Cid4, opts) // Cid4: not pinned in the mock daemon
	if direct.MaxDepth != 0 {
		t.Fatal("test setup: expected a direct pin")
	}

	cfg := &Config{}
	cfg.Default()
	spt := New(cfg, test.PeerID1, test.PeerName1, getStateFunc(t, direct))
	ipfs := &verifD5IPFS{}
	s := rpc.NewServer(nil, "mock")
	c := rpc.NewClientWithServer(nil, "mock", s)
	if err := s.RegisterName("IPFSConnector", ipfs); err != nil {
		t.Fatal(err)
	}
	spt.SetClient(c)
	defer spt.Shutdown(ctx)

	if st := spt.Status(ctx, test.Cid4).Status; st != api.TrackerStatusPinError && st != api.TrackerStatusUnexpectedlyUnpinned {
		t.Fatalf("test setup: expected an error status, got %s", st)
	}
	if _, err := spt.Recover(ctx, test.Cid4); err != nil {
		t.Fatal(err)
	}
	time.Sleep(500 * time.Millisecond)
	ipfs.mu.Lock()
	defer ipfs.mu.Unlock()
	if len(ipfs.depths) != 1 {
		t.Fatalf("expected one pin request, got %d", len(ipfs.depths))
	}
	if ipfs.depths[0] != 0 {
		t.Fatalf("recover re-pinned a direct pin with depth %d", ipfs.depths[0])
	}
}
