package disk

import (
	"context"
	"sync"
	"testing"
)

// Demonstration for D10 (property C18): shutting an informer down while a
// metric is being fetched. Before the fix rpcClient was written by Shutdown
// and read (nil-test, then use) by GetMetric without synchronisation: the
// race detector reports it, and a Shutdown landing between the nil test and
// the call makes GetMetric dereference nil.
// Copy into /repo/informer/disk/ and run:
// go test -race -run TestVerifD10 ./informer/disk/
func TestVerifD10(t *testing.T) {
	ctx := context.Background()
	for i := 0; i < 200; i++ {
		cfg := &Config{}
		cfg.Default()
		inf, err := NewInformer(cfg)
		if err != nil {
			t.Fatal(err)
		}
		inf.SetClient(badRPCClient(t))
		var wg sync.WaitGroup
		wg.Add(2)
		go func() { defer wg.Done(); inf.GetMetric(ctx) }()
		go func() { defer wg.Done(); inf.Shutdown(ctx) }()
		wg.Wait()
	}
}
