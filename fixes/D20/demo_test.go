package metrics

import (
	"context"
	"testing"
	"time"

	"github.com/ipfs/ipfs-cluster/api"
	"github.com/ipfs/ipfs-cluster/test"

	peer "github.com/libp2p/go-libp2p-core/peer"
)

// Demonstration for defect D20 (property C09, rule R09.7: "a peer whose latest metric expired without
// renewal is reported once, not repeatedly"): CheckPeers calls alert() once
// per *window entry* of the (metric name, peer) pair, although the decision
// (FailedMetric) is per pair. alert() alternates between "send an alert" and
// "threshold reached: forget", so one check round over a window holding N
// expired metrics sends ceil(N/2) alerts for the same peer and metric.
// Copy into /repo/monitor/metrics/ and run:
//   go test -vet=off -count=1 -run TestVerifD20 ./monitor/metrics/
func TestVerifD20(t *testing.T) {
	ctx := context.Background()
	store := NewStore()
	checker := NewChecker(ctx, store, 2.0)
	for i := 0; i < 5; i++ {
		m := &api.Metric{Name: "ping", Peer: test.PeerID1, Value: "1", Valid: true}
		m.SetTTL(50 * time.Millisecond)
		store.Add(m)
		time.Sleep(5 * time.Millisecond)
	}
	time.Sleep(200 * time.Millisecond) // all expired, not renewed
	if err := checker.CheckPeers([]peer.ID{test.PeerID1}); err != nil {
		t.Fatal(err)
	}
	n := 0
	for {
		select {
		case <-checker.Alerts():
			n++
			continue
		default:
		}
		break
	}
	if n != 1 {
		t.Errorf("one check round reported the expired peer %d times (expected once)", n)
	}
}
