package dsstate

import (
	"bytes"
	"context"
	"testing"

	"github.com/ipfs/ipfs-cluster/api"
	"github.com/ipfs/ipfs-cluster/datastore/inmem"

	cid "github.com/ipfs/go-cid"
)

// Demonstration for D3 (properties C01, C14): installing a snapshot {a}
// onto a replica holding {a,b} must leave {a} (b was unpinned in the
// compacted part of the log). Copy into /repo/state/dsstate/ and run:
// go test -run TestVerifD3 ./state/dsstate/
var verifCid2, _ = cid.Decode("QmP63DkAFEnDYNjDYBpyNDfttu1fvUw99x1brscPzpqmma")

func TestVerifD3(t *testing.T) {
	ctx := context.Background()
	leader, _ := New(inmem.New(), "/r", DefaultHandle())
	leader.Add(ctx, api.PinCid(testCid1))
	var snap bytes.Buffer
	if err := leader.Marshal(&snap); err != nil {
		t.Fatal(err)
	}

	lagging, _ := New(inmem.New(), "/r", DefaultHandle())
	lagging.Add(ctx, api.PinCid(testCid1))
	lagging.Add(ctx, api.PinCid(verifCid2))
	if err := lagging.Unmarshal(&snap); err != nil {
		t.Fatal(err)
	}
	pins, err := lagging.List(ctx)
	if err != nil {
		t.Fatal(err)
	}
	if len(pins) != 1 || !pins[0].Cid.Equals(testCid1) {
		t.Fatalf("restored state has %d pins, snapshot had 1", len(pins))
	}
}
