package sharding

import (
	"bytes"
	"context"
	"mime/multipart"
	"testing"

	"github.com/ipfs/ipfs-cluster/api"
	"github.com/ipfs/ipfs-cluster/test"

	"github.com/ugorji/go/codec"
)

// Demonstration for defect D22 (properties C13, C01, C08): the pin that
// shard.Flush submits for the FIRST shard of a sharded add carries
// Reference = &cid.Undef (the address of the "previous shard" parameter,
// which is undefined for shard 0). An undefined CID is encoded as an empty
// string, and an empty string cannot be decoded into a cid.Cid ("varints
// malformed"). In Raft mode the pin travels inside a msgpack-encoded LogOp:
// the entry is committed and LogPin reports success, but no replica can
// decode it at apply time; go-libp2p-raft then tries the entry as a state
// rollback (see D23) and the shard pin is in nobody's pinset. The stored form
// (ProtoMarshal/ProtoUnmarshal) already treats an undefined reference as "no
// reference", so leaving Reference nil for shard 0 changes nothing else.
//
// The test runs a sharded add against the package's mock RPC and requires
// every submitted pin to survive the encoding the Raft log uses.
// Copy into /repo/adder/sharding/ and run:
//
//	go test -vet=off -count=1 -run TestDemoD22 ./adder/sharding/
func TestDemoD22_EveryShardPinSurvivesTheRaftLogEncoding(t *testing.T) {
	sth := test.NewShardingTestHelper()
	defer sth.Clean(t)

	p := api.DefaultAddParams()
	p.ShardSize = 1024 * 300
	p.Name = "d22"
	p.Shard = true
	p.ReplicationFactorMin = 1
	p.ReplicationFactorMax = 1

	add, rpcObj := makeAdder(t, p)
	mr, closer := sth.GetTreeMultiReader(t)
	defer closer.Close()
	r := multipart.NewReader(mr, mr.Boundary())
	if _, err := add.FromMultipart(context.Background(), r); err != nil {
		t.Fatal(err)
	}

	n := 0
	rpcObj.pins.Range(func(k, v interface{}) bool {
		pin := v.(*api.Pin)
		n++
		var buf bytes.Buffer
		h := &codec.MsgpackHandle{}
		if err := codec.NewEncoder(&buf, h).Encode(pin); err != nil {
			t.Errorf("%s (%s): cannot be encoded: %s", pin.Name, pin.Type, err)
			return true
		}
		var back api.Pin
		if err := codec.NewDecoder(&buf, h).Decode(&back); err != nil {
			t.Errorf("%s (%s): the encoded pin cannot be decoded again (reference=%v): %s", pin.Name, pin.Type, pin.Reference, err)
			return true
		}
		if !back.Equals(pin) {
			t.Errorf("%s: decoded pin differs", pin.Name)
		}
		return true
	})
	if n < 3 {
		t.Fatalf("expected several shards plus the cluster-DAG and meta pins, got %d pins", n)
	}
}
