package crdt

import (
	"testing"
)

// Demonstration for defect D19 (property C15, found by rule R15.12, the
// sibling cross-check "every loader examines the error of its duration
// parser": 13 of 14 components do). The crdt loader discards the result of
// config.ParseDurations, so a malformed duration is silently accepted and
// replaced by the default, and the durations listed after it in the same
// call are skipped too.
// Copy into /repo/consensus/crdt/ and run:
//   go test -vet=off -count=1 -run TestVerifD19 ./consensus/crdt/
// Fails before the fix, passes after it.
func TestVerifD19(t *testing.T) {
	cfg := &Config{}
	err := cfg.LoadJSON([]byte(`{
		"cluster_name": "test",
		"trusted_peers": ["*"],
		"rebroadcast_interval": "not-a-duration",
		"batching": {"max_batch_size": 0, "max_batch_age": "7s"}
	}`))
	if err == nil {
		t.Errorf("a malformed rebroadcast_interval was accepted; loaded value: %s (the default), max_batch_age: %s (the file says 7s)", cfg.RebroadcastInterval, cfg.Batching.MaxBatchAge)
	}
}
