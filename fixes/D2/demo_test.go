package api

import "testing"

// Demonstration for D2 (property C04): re-pinning with a metadata key
// removed must not compare equal to the stored options, otherwise
// Cluster.pin() takes the same-options shortcut and keeps the old entry.
// Copy into /repo/api/ and run: go test -run TestVerifD2 ./api/
func TestVerifD2(t *testing.T) {
	existing := &PinOptions{Metadata: map[string]string{"a": "1", "b": "2"}}
	repin := &PinOptions{Metadata: map[string]string{"a": "1"}}
	if repin.Equals(existing) {
		t.Fatal("options with a removed metadata key compare equal")
	}
	if existing.Equals(repin) {
		t.Fatal("options with an added metadata key compare equal")
	}
	// empty keys are still ignored
	e1 := &PinOptions{Metadata: map[string]string{"a": "1", "": "x"}}
	e2 := &PinOptions{Metadata: map[string]string{"a": "1"}}
	if !e1.Equals(e2) || !e2.Equals(e1) {
		t.Fatal("empty keys must be ignored")
	}
}
