package raft

import "testing"

// Demonstration for D4 (property C15): the raft datastore_namespace setting
// is written by ToJSON but was never read back by LoadJSON.
// Copy into /repo/consensus/raft/ and run: go test -run TestVerifD4 ./consensus/raft/
func TestVerifD4(t *testing.T) {
	cfg := &Config{}
	cfg.Default()
	cfg.DatastoreNamespace = "/custom"
	js, err := cfg.ToJSON()
	if err != nil {
		t.Fatal(err)
	}
	cfg2 := &Config{}
	if err := cfg2.LoadJSON(js); err != nil {
		t.Fatal(err)
	}
	if cfg2.DatastoreNamespace != "/custom" {
		t.Fatalf("saved /custom, loaded %s", cfg2.DatastoreNamespace)
	}
}
