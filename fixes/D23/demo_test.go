package dsstate

import (
	"bytes"
	"context"
	"testing"

	"github.com/ipfs/ipfs-cluster/api"
	"github.com/ipfs/ipfs-cluster/datastore/inmem"

	cid "github.com/ipfs/go-cid"
	"github.com/ugorji/go/codec"
)

// Demonstration for defect D23 (properties C01, C14, C08): State.Unmarshal
// accepts ANY msgpack input as a snapshot. go-libp2p-raft's FSM.Apply, when
// it cannot decode a log entry as an operation, tries it as a state rollback
// by handing the entry's bytes to State.Unmarshal. A msgpack map that is not
// a {k, v} entry decodes into an entry with an empty key and no value, so
// Unmarshal "succeeds": the existing pins are deleted (since the repair of
// D-Unmarshal-overlay; before it they were kept) and an empty value is stored
// under the namespace key itself, where PinGet(cid.Undef) finds it as a pin
// of type 0. One undecodable log entry (K1: a pin with origins; D22: the
// first shard of a sharded add) thus destroys the pinset of every replica
// while every call reports success.
//
// Unmarshal must refuse input that is not a snapshot and leave the state as
// it was. Copy into /repo/state/dsstate/ and run:
//
//	go test -vet=off -count=1 -run TestDemoD23 ./state/dsstate/
var d23Cid1, _ = cid.Decode("QmP63DkAFEnDYNjDYBpyNDfttu1fvUw99x1brscPzpqmmq")
var d23Cid2, _ = cid.Decode("QmP63DkAFEnDYNjDYBpyNDfttu1fvUw99x1brscPzpqmma")

func TestDemoD23_UnmarshalRefusesWhatIsNotASnapshot(t *testing.T) {
	ctx := context.Background()
	st, err := New(inmem.New(), "/r", DefaultHandle())
	if err != nil {
		t.Fatal(err)
	}
	pin := api.PinCid(d23Cid1)
	if err := st.Add(ctx, pin); err != nil {
		t.Fatal(err)
	}

	// what a Raft log entry looks like: a msgpack map with other keys
	var entry bytes.Buffer
	logOp := map[string]interface{}{"c": map[string]interface{}{"n": "some pin", "rn": -1, "rx": -1}, "p": 1}
	if err := codec.NewEncoder(&entry, &codec.MsgpackHandle{}).Encode(logOp); err != nil {
		t.Fatal(err)
	}

	err = st.Unmarshal(&entry)
	if err == nil {
		t.Error("Unmarshal accepted a log entry as a snapshot")
	}
	if ok, _ := st.Has(ctx, d23Cid1); !ok {
		t.Error("the refused input wiped the pins the state held")
	}
	pins, err := st.List(ctx)
	if err != nil {
		t.Errorf("the state cannot be listed any more: %s", err)
	}
	if len(pins) != 1 {
		t.Errorf("expected exactly the pin that was there, got %d entries", len(pins))
	}

	// a real snapshot still replaces the state
	st2, _ := New(inmem.New(), "/other", DefaultHandle())
	st2.Add(ctx, api.PinCid(d23Cid2))
	var snap bytes.Buffer
	if err := st2.Marshal(&snap); err != nil {
		t.Fatal(err)
	}
	if err := st.Unmarshal(&snap); err != nil {
		t.Fatalf("a genuine snapshot was refused: %s", err)
	}
	if ok, _ := st.Has(ctx, d23Cid2); !ok {
		t.Error("snapshot content missing")
	}
	if ok, _ := st.Has(ctx, d23Cid1); ok {
		t.Error("snapshot restore kept a pin the snapshot does not contain")
	}
	// and so does an empty one
	if err := st.Unmarshal(&bytes.Buffer{}); err != nil {
		t.Fatalf("an empty snapshot was refused: %s", err)
	}
	if pins, _ := st.List(ctx); len(pins) != 0 {
		t.Errorf("an empty snapshot left %d pins", len(pins))
	}
}
