package metrics

import (
	"context"
	"testing"
	"time"

	"github.com/ipfs/ipfs-cluster/api"
	"github.com/ipfs/ipfs-cluster/test"

	peer "github.com/libp2p/go-libp2p-core/peer"
)

// Demonstration for defect D21 (properties C09/C10, rule R09.9): the alert
// counter of a peer and metric was cleared only by the check round after the
// alert. A peer that published a fresh metric in between and failed later was
// never reported again: alert() took the new failure for the reported one,
// removed the metrics and sent nothing.
// Copy into /repo/monitor/metrics/ and run:
//   go test -vet=off -count=1 -run TestVerifD21 ./monitor/metrics/
// Fails before the fix, passes after it.
func drain(c *Checker) int {
	n := 0
	for {
		select {
		case <-c.Alerts():
			n++
			continue
		default:
		}
		return n
	}
}

func TestVerifD21(t *testing.T) {
	ctx := context.Background()
	store := NewStore()
	checker := NewChecker(ctx, store, 2.0)
	add := func() {
		m := &api.Metric{Name: "ping", Peer: test.PeerID1, Value: "1", Valid: true}
		m.SetTTL(50 * time.Millisecond)
		store.Add(m)
	}
	peers := []peer.ID{test.PeerID1}
	add()
	time.Sleep(100 * time.Millisecond)
	checker.CheckPeers(peers)
	if n := drain(checker); n != 1 {
		t.Fatalf("first expiry: %d alerts", n)
	}
	add() // the peer comes back before the next check round
	checker.CheckPeers(peers)
	if n := drain(checker); n != 0 {
		t.Fatalf("healthy: %d alerts", n)
	}
	time.Sleep(100 * time.Millisecond) // it fails again
	total := 0
	for i := 0; i < 4; i++ {
		checker.CheckPeers(peers)
		total += drain(checker)
	}
	if total != 1 {
		t.Errorf("second expiry (after a renewal) was reported %d times in 4 check rounds, expected once", total)
	}
}
