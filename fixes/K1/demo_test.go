package api

import (
	"bytes"
	"encoding/json"
	"testing"

	cid "github.com/ipfs/go-cid"
	multiaddr "github.com/multiformats/go-multiaddr"
	"github.com/ugorji/go/codec"
)

// Demonstration for known finding K1 (properties C08, C14): a pin that
// carries origins cannot be decoded from JSON (REST, state export/import) nor
// from msgpack (RPC, Raft log), because PinOptions.Origins is a slice of the
// interface type multiaddr.Multiaddr.
// Copy into /repo/api/ and run: go test -run TestVerifK1 ./api/
// This test FAILS on the current tree (the defect is recorded, not repaired).
func TestVerifK1(t *testing.T) {
	o, _ := multiaddr.NewMultiaddr("/ip4/1.2.3.4/tcp/4001/p2p/QmXZrtE5jQwXNqCJMfHUTQkvhQ4ZAnqMnmzFMJfLewuabc")
	ci, _ := cid.Decode("QmXZrtE5jQwXNqCJMfHUTQkvhQ4ZAnqMnmzFMJfLewuabc")
	pin := PinCid(ci)
	pin.Origins = []multiaddr.Multiaddr{o}

	js, err := json.Marshal(pin)
	if err != nil {
		t.Fatal(err)
	}
	var back Pin
	if err := json.Unmarshal(js, &back); err != nil {
		t.Errorf("JSON decode of a pin with origins fails: %s", err)
	}

	var buf bytes.Buffer
	h := &codec.MsgpackHandle{}
	if err := codec.NewEncoder(&buf, h).Encode(pin); err != nil {
		t.Fatal(err)
	}
	var back2 Pin
	func() {
		defer func() {
			if r := recover(); r != nil {
				t.Errorf("msgpack decode of a pin with origins panics: %v", r)
			}
		}()
		if err := codec.NewDecoder(&buf, h).Decode(&back2); err != nil {
			t.Errorf("msgpack decode of a pin with origins fails: %s", err)
			return
		}
		if len(back2.Origins) != 1 || back2.Origins[0] == nil || !back2.Origins[0].Equal(o) {
			t.Errorf("msgpack decode of a pin with origins loses them: %v", back2.Origins)
		}
	}()
}
