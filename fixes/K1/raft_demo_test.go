package raft

import (
	"context"
	"testing"
	"time"

	"github.com/ipfs/ipfs-cluster/test"

	multiaddr "github.com/multiformats/go-multiaddr"
)

// Demonstration for known finding K1 seen from C01/C04 (Raft): a pin that
// carries origins is acknowledged by LogPin and never reaches the pinset,
// because the committed log entry cannot be decoded onto the LogOp
// (PinOptions.Origins is []multiaddr.Multiaddr, an interface type).
// Copy into /repo/consensus/raft/ and run:
//   go test -vet=off -count=1 -run TestVerifK1Raft ./consensus/raft/
// This test FAILS on the current tree (the defect is recorded, not repaired).
func TestVerifK1Raft(t *testing.T) {
	ctx := context.Background()
	cc := testingConsensus(t, 1)
	defer cleanRaft(1)
	defer cc.Shutdown(ctx)

	o, _ := multiaddr.NewMultiaddr("/ip4/1.2.3.4/tcp/4001/p2p/QmXZrtE5jQwXNqCJMfHUTQkvhQ4ZAnqMnmzFMJfLewuabc")
	pin := testPin(test.Cid1)
	pin.Origins = []multiaddr.Multiaddr{o}
	if err := cc.LogPin(ctx, pin); err != nil {
		t.Skipf("LogPin refused the pin (that would be an honest answer): %s", err)
	}
	time.Sleep(500 * time.Millisecond)
	st, err := cc.State(ctx)
	if err != nil {
		t.Fatal(err)
	}
	pins, err := st.List(ctx)
	if err != nil {
		t.Fatal(err)
	}
	if len(pins) != 1 || !pins[0].Cid.Equals(test.Cid1) {
		t.Errorf("LogPin acknowledged a pin with origins, but the pinset holds %d pins: the committed entry was not applied", len(pins))
	}
}
