package pstoremgr

import (
	"io/ioutil"
	"testing"
	"time"

	"github.com/ipfs/ipfs-cluster/test"

	peer "github.com/libp2p/go-libp2p-core/peer"
)

// Demonstration for D8 (property C14): an unparsable line in the peerstore
// file must be skipped, not fatal. Before the fix a nil multiaddress was
// appended for it and importing the file failed for every address.
// Copy into /repo/pstoremgr/ and run: go test -run TestVerifD8 ./pstoremgr/
func TestVerifD8(t *testing.T) {
	pm := makeMgr(t)
	defer clean(pm)
	good := testAddr("/ip4/127.0.0.1/tcp/1234", test.PeerID1).String()
	content := "/ip4/not-an-address/tcp/1\n" + good + "\n"
	if err := ioutil.WriteFile(pm.peerstorePath, []byte(content), 0600); err != nil {
		t.Fatal(err)
	}
	addrs := pm.LoadPeerstore()
	for _, a := range addrs {
		if a == nil {
			t.Error("LoadPeerstore returned a nil address for the unparsable line")
		}
	}
	if err := pm.ImportPeersFromPeerstore(false, time.Minute); err != nil {
		t.Fatalf("a malformed line made the import fail: %s", err)
	}
	pinfos := pm.PeerInfos([]peer.ID{test.PeerID1})
	if len(pinfos) != 1 || len(pinfos[0].Addrs) != 1 {
		t.Fatal("the well-formed address was not imported")
	}
}
