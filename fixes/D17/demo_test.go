package crdt

import (
	"context"
	"testing"
	"time"

	"github.com/ipfs/ipfs-cluster/datastore/inmem"
	"github.com/ipfs/ipfs-cluster/test"

	peer "github.com/libp2p/go-libp2p-core/peer"
	pubsub "github.com/libp2p/go-libp2p-pubsub"
	multihash "github.com/multiformats/go-multihash"
)

// Demonstration for D17 (property C07): if the pubsub trust validator cannot
// be registered (here: the topic already has a validator), the consensus
// component must not go on and merge everybody's updates. Before the fix the
// error was logged and the component became ready without any trust gate.
// Copy into /repo/consensus/crdt/ and run: go test -run TestVerifD17 ./consensus/crdt/
func TestVerifD17(t *testing.T) {
	h, psub, dht := makeTestingHost(t)
	defer h.Close()
	cfg := &Config{}
	cfg.Default()
	cfg.DatastoreNamespace = "crdttest-d17"
	cfg.hostShutdown = true

	topicHash, _ := multihash.Sum([]byte(cfg.ClusterName), multihash.MD5, -1)
	err := psub.RegisterTopicValidator(topicHash.B58String(),
		func(ctx context.Context, _ peer.ID, msg *pubsub.Message) bool { return true })
	if err != nil {
		t.Fatal(err)
	}

	cc, err := New(h, dht, psub, cfg, inmem.New())
	if err != nil {
		t.Fatal(err)
	}
	cc.SetClient(test.NewMockRPCClientWithHost(t, h))
	select {
	case <-cc.Ready(context.Background()):
		t.Fatal("consensus is ready although its trust validator is not installed")
	case <-time.After(2 * time.Second):
	}
}
