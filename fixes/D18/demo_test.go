package ipfsproxy

import (
	"context"
	"fmt"
	"io"
	"io/ioutil"
	"net/http"
	"testing"

	"github.com/ipfs/ipfs-cluster/test"
)

// Demonstration for defect D18 (property C12, found by rule R07.8): the
// proxy's /add handler, asked not to pin (pin=false), calls Cluster.Unpin
// with a cid.Cid where the RPC endpoint takes *api.Pin. gorpc refuses the
// call ("is being called with the wrong arg type"), so the unpin never
// happens and the content stays pinned although the client asked for
// pin=false; the only trace is an X-Stream-Error trailer.
// Copy into /repo/api/ipfsproxy/ and run:
//   go test -vet=off -count=1 -run TestVerifD18 ./api/ipfsproxy/
// Fails before the fix, passes after it.
func TestVerifD18(t *testing.T) {
	ctx := context.Background()
	proxy, mock := testIPFSProxy(t)
	defer mock.Close()
	defer proxy.Shutdown(ctx)

	sth := test.NewShardingTestHelper()
	defer sth.Clean(t)
	mr, closer := sth.GetTreeMultiReader(t)
	defer closer.Close()
	url := fmt.Sprintf("%s/add?pin=false", proxyURL(proxy))
	req, _ := http.NewRequest("POST", url, mr)
	req.Header.Set("Content-Type", "multipart/form-data; boundary="+mr.Boundary())
	res, err := http.DefaultClient.Do(req)
	if err != nil {
		t.Fatal(err)
	}
	defer res.Body.Close()
	io.Copy(ioutil.Discard, res.Body)
	if e := res.Trailer.Get("X-Stream-Error"); e != "" {
		t.Errorf("add?pin=false: the unpin after adding did not happen: %s", e)
	}
}
