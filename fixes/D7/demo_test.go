package ipfsproxy

import (
	"context"
	"encoding/json"
	"fmt"
	"net/http"
	"testing"

	"github.com/ipfs/ipfs-cluster/test"
)

// Demonstration for D7 (property C12): add?only-hash=true is answered with
// an error; the proxy must then perform no cluster operation. Before the fix
// the handler went on, added and pinned the content and wrote the add
// output after the error document.
// Copy into /repo/api/ipfsproxy/ and run: go test -run TestVerifD7 ./api/ipfsproxy/
func TestVerifD7(t *testing.T) {
	ctx := context.Background()
	proxy, mock := testIPFSProxy(t)
	defer mock.Close()
	defer proxy.Shutdown(ctx)

	sth := test.NewShardingTestHelper()
	defer sth.Clean(t)
	mr, closer := sth.GetTreeMultiReader(t)
	defer closer.Close()
	url := fmt.Sprintf("%s/add?only-hash=true", proxyURL(proxy))
	req, _ := http.NewRequest("POST", url, mr)
	req.Header.Set("Content-Type", "multipart/form-data; boundary="+mr.Boundary())
	res, err := http.DefaultClient.Do(req)
	if err != nil {
		t.Fatal(err)
	}
	defer res.Body.Close()
	if res.StatusCode == http.StatusOK {
		t.Fatal("only-hash must be refused")
	}
	docs := 0
	dec := json.NewDecoder(res.Body)
	for dec.More() {
		var v map[string]interface{}
		if err := dec.Decode(&v); err != nil {
			break
		}
		docs++
		if _, ok := v["Hash"]; ok {
			t.Fatalf("content was added after the error response: %v", v)
		}
	}
	if docs != 1 {
		t.Fatalf("expected a single error document, got %d", docs)
	}
}
