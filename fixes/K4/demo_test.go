package sharding

import (
	"context"
	"testing"

	"github.com/ipfs/ipfs-cluster/api"
	"github.com/ipfs/ipfs-cluster/test"

	rpc "github.com/libp2p/go-libp2p-gorpc"
)

// Demonstration for known finding K4 (property C13): a shard with more
// links than fit in one block gets an indirect shard DAG (root -> leaf nodes
// -> blocks), which needs pin depth 2 to cover its links; Flush pins it with
// depth 1 because its "indirect" test `len(nodes) > len(sh.dagNode)+1` can
// never be true (makeDAG returns 1 + ceil(links/MaxLinks) nodes).
// Copy into /repo/adder/sharding/ and run: go test -run TestVerifK4 ./adder/sharding/
// This test FAILS on the current tree (the defect is recorded, not repaired:
// the matching consumer check cluster.checkPinType also insists on depth 1).
func TestVerifK4(t *testing.T) {
	ctx := context.Background()
	rpcObj := &testRPC{}
	server := rpc.NewServer(nil, "mock")
	if err := server.RegisterName("Cluster", rpcObj); err != nil {
		t.Fatal(err)
	}
	if err := server.RegisterName("IPFSConnector", rpcObj); err != nil {
		t.Fatal(err)
	}
	client := rpc.NewClientWithServer(nil, "mock", server)
	opts := api.PinOptions{ReplicationFactorMin: 1, ReplicationFactorMax: 1, Name: "k4"}
	sh, err := newShard(ctx, client, opts)
	if err != nil {
		t.Fatal(err)
	}
	for i := 0; i < MaxLinks+10; i++ {
		sh.AddLink(ctx, test.Cid1, 1)
	}
	root, err := sh.Flush(ctx, 0, test.Cid2)
	if err != nil {
		t.Fatal(err)
	}
	pI, ok := rpcObj.pins.Load(root.String())
	if !ok {
		t.Fatal("shard was not pinned")
	}
	pin := pI.(*api.Pin)
	if pin.MaxDepth < 2 {
		t.Fatalf("shard with %d links has an indirect DAG but is pinned with depth %d: its blocks are not covered", MaxLinks+10, pin.MaxDepth)
	}
}
